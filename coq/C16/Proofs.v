(* C16 — proofs about the Markdown exporter model. *)
From Coq Require Import ZArith List String Bool Permutation Lia.
From Acme.C16 Require Import Model Spec.
Import ListNotations.
Local Open Scope Z_scope.

(* ------------------------------------------------------------------ induction on signal trees *)
Section sig_induction.
  Variable P : sig -> Prop.
  Hypothesis Hstd : forall n d r ty un, P (SStd n d r ty un).
  Hypothesis Henum : forall n d r sz en, P (SEnum n d r sz en).
  Hypothesis Hmux : forall n d r gc gs groups, Forall (Forall P) groups -> P (SMux n d r gc gs groups).
  Fixpoint sig_ind' (s : sig) : P s :=
    match s with
    | SStd n d r ty un => Hstd n d r ty un
    | SEnum n d r sz en => Henum n d r sz en
    | SMux n d r gc gs groups =>
        Hmux n d r gc gs groups
          ((fix fg (l : list (list sig)) : Forall (Forall P) l :=
              match l with
              | [] => Forall_nil _
              | g :: r' =>
                  Forall_cons g
                    ((fix fl (l' : list sig) : Forall P l' :=
                        match l' with
                        | [] => Forall_nil _
                        | x :: r'' => Forall_cons x (sig_ind' x) (fl r'')
                        end) g) (fg r')
              end) groups)
    end.
End sig_induction.

(* ------------------------------------------------------------------ unfolding the nested fixes *)
Fixpoint rows_groups (base' gid : Z) (gs : list (list sig)) : list (list string) :=
  match gs with
  | [] => []
  | g :: r => (marker_row gid :: rows_sigs base' g) ++ rows_groups base' (gid + 1) r
  end.

Lemma rows_sig_mux : forall base n d rel gc gsz groups,
  rows_sig base (SMux n d rel gc gsz groups) =
  (common_cells base (SMux n d rel gc gsz groups) ++ mux_cells gc d)
  :: rows_groups (base + rel + calc_size (gc - 1)) 0 groups.
Proof.
  intros. cbn [rows_sig]. f_equal.
  generalize 0 as gid. induction groups as [|g r IH]; intro gid.
  - reflexivity.
  - cbn [rows_groups]. rewrite <- IH. reflexivity.
Qed.

Fixpoint occ_groups (base' gid : Z) (gs : list (list sig)) : list key :=
  match gs with
  | [] => []
  | g :: r => (KGroup gid :: occs base' g) ++ occ_groups base' (gid + 1) r
  end.

Lemma occ_mux : forall base n d rel gc gsz groups,
  occ base (SMux n d rel gc gsz groups) =
  KSig n (base + rel) (gsz + calc_size (gc - 1))
  :: occ_groups (base + rel + calc_size (gc - 1)) 0 groups.
Proof.
  intros. cbn [occ sig_name sig_start sig_size sig_rel]. f_equal.
  generalize 0 as gid. induction groups as [|g r IH]; intro gid.
  - reflexivity.
  - cbn [occ_groups]. rewrite <- IH. reflexivity.
Qed.

Fixpoint types_groups (gs : list (list sig)) : list sigtype :=
  match gs with [] => [] | g :: r => flat_map types_of_sig g ++ types_groups r end.

(* ------------------------------------------------------------------ row widths *)
Lemma marker_row_length : forall g, List.length (marker_row g) = 8%nat.
Proof. reflexivity. Qed.

Lemma rows_sig_width : forall s base, Forall (fun r => List.length r = 8%nat) (rows_sig base s).
Proof.
  induction s as [n d r ty un|n d r sz en|n d r gc gs groups IH] using sig_ind'; intro base.
  - cbn. repeat constructor.
  - cbn. repeat constructor.
  - rewrite rows_sig_mux. constructor; [reflexivity|].
    generalize (base + r + calc_size (gc - 1)) as base'. generalize 0 as gid.
    induction IH as [|g rest Hg _ IHrest]; intros gid base'; cbn [rows_groups]; [constructor|].
    apply Forall_app; split; [|apply IHrest].
    constructor; [reflexivity|].
    unfold rows_sigs. induction Hg as [|x r' Hx _ IHg]; cbn [flat_map]; [constructor|].
    apply Forall_app; split; [apply Hx|apply IHg].
Qed.

Lemma rows_sigs_width : forall l base, Forall (fun r => List.length r = 8%nat) (rows_sigs base l).
Proof.
  induction l as [|s r IH]; intro base; cbn; [constructor|].
  apply Forall_app; split; [apply rows_sig_width|apply IH].
Qed.

Lemma forallb_width : forall (rows : list (list string)) (k : nat),
  Forall (fun r => List.length r = k) rows ->
  forallb (fun r => Nat.eqb (List.length r) k) rows = true.
Proof.
  intros rows k Hf. apply forallb_forall. intros r Hin.
  rewrite Forall_forall in Hf. apply Nat.eqb_eq. now apply Hf.
Qed.

Lemma esc_rows_width : forall (rows : list (list string)) (k : nat),
  Forall (fun r => List.length r = k) rows ->
  Forall (fun r => List.length r = k) (map (map esc_cell) rows).
Proof.
  intros rows k Hf. apply Forall_forall. intros r Hin. apply in_map_iff in Hin as [r0 [<- Hin0]].
  rewrite map_length. rewrite Forall_forall in Hf. now apply Hf.
Qed.

Lemma forallb_app' : forall {A} (p : A -> bool) l1 l2,
  forallb p l1 = true -> forallb p l2 = true -> forallb p (l1 ++ l2) = true.
Proof. intros. rewrite forallb_app. now rewrite H, H0. Qed.

Lemma forallb_flat_map : forall {A B} (p : B -> bool) (f : A -> list B) l,
  (forall x, In x l -> forallb p (f x) = true) -> forallb p (flat_map f l) = true.
Proof.
  induction l as [|x r IH]; intro Hf; cbn; [reflexivity|].
  apply forallb_app'; [apply Hf; now left|apply IH; intros; apply Hf; now right].
Qed.

Lemma desc_blocks_ok : forall d, forallb table_ok (desc_blocks d) = true.
Proof. intro d. unfold desc_blocks. now destruct (String.eqb d ""). Qed.

Lemma msg_blocks_ok : forall m, forallb table_ok (msg_blocks m) = true.
Proof.
  intro m. unfold msg_blocks.
  repeat (apply forallb_app'); try reflexivity; try apply desc_blocks_ok.
  - now destruct (m_static m).
  - destruct (m_sigs m) as [|s r] eqn:E; [reflexivity|].
    unfold mk_table. cbn [forallb table_ok]. rewrite andb_true_r.
    apply (forallb_width _ 8). apply esc_rows_width, rows_sigs_width.
Qed.

Lemma nif_blocks_ok : forall x, forallb table_ok (nif_blocks x) = true.
Proof.
  intro x. unfold nif_blocks.
  repeat (apply forallb_app'); try reflexivity; try apply desc_blocks_ok.
  apply forallb_flat_map. intros; apply msg_blocks_ok.
Qed.

Lemma bus_blocks_ok : forall b, forallb table_ok (bus_blocks b) = true.
Proof.
  intro b. unfold bus_blocks.
  repeat (apply forallb_app'); try reflexivity; try apply desc_blocks_ok.
  apply forallb_flat_map. intros; apply nif_blocks_ok.
Qed.

Lemma toc_blocks_ok : forall n, forallb table_ok (toc_blocks n) = true.
Proof.
  intro n. unfold toc_blocks. apply forallb_app'; [|reflexivity].
  apply forallb_flat_map. intros b _. cbn [forallb table_ok]. 
  apply forallb_flat_map. intros x _. cbn [forallb table_ok].
  induction (n_msgs x); [reflexivity|assumption].
Qed.

Lemma map_width : forall {A} (f : A -> list string) k l,
  (forall a, List.length (f a) = k) -> Forall (fun r => List.length r = k) (map f l).
Proof. intros. apply Forall_forall. intros r Hin. apply in_map_iff in Hin as [a [<- _]]. apply H. Qed.

Lemma enum_blocks_ok : forall e, forallb table_ok (enum_blocks e) = true.
Proof.
  intro e. unfold enum_blocks.
  repeat (apply forallb_app'); try reflexivity; try apply desc_blocks_ok.
  unfold mk_table. cbn [forallb table_ok]. rewrite andb_true_r.
  apply (forallb_width _ 3). apply esc_rows_width, map_width. reflexivity.
Qed.

Lemma appendix_blocks_ok : forall n, forallb table_ok (appendix_blocks n) = true.
Proof.
  intro n. unfold appendix_blocks. apply forallb_app'.
  - unfold mk_table. cbn [forallb table_ok]. rewrite !andb_true_r.
    rewrite (forallb_width _ 9) by (apply esc_rows_width, map_width; reflexivity).
    rewrite (forallb_width _ 4) by (apply esc_rows_width, map_width; reflexivity). reflexivity.
  - apply forallb_flat_map. intros; apply enum_blocks_ok.
Qed.

Lemma blocks_ok : forall n, forallb table_ok (blocks n) = true.
Proof.
  intro n. unfold blocks.
  apply forallb_app'; [|apply forallb_app'; [|apply forallb_app']].
  - unfold preamble_blocks. apply forallb_app'; [reflexivity|apply desc_blocks_ok].
  - apply toc_blocks_ok.
  - apply forallb_flat_map. intros; apply bus_blocks_ok.
  - apply appendix_blocks_ok.
Qed.

Lemma md_is_blocks : forall n, md n = Ok (blocks n).
Proof. intro n. unfold md. now rewrite blocks_ok. Qed.

Lemma md_ok_lemma : forall n, is_ok (md n) = true.
Proof. intro n. now rewrite md_is_blocks. Qed.

Lemma md_rows_width_lemma : forall n bs h rows,
  md n = Ok bs -> In (Table h rows) bs -> Forall (fun r => List.length r = List.length h) rows.
Proof.
  intros n bs h rows Hmd Hin. rewrite md_is_blocks in Hmd. injection Hmd as <-.
  pose proof (blocks_ok n) as Hok. rewrite forallb_forall in Hok.
  specialize (Hok _ Hin). cbn [table_ok] in Hok. rewrite forallb_forall in Hok.
  apply Forall_forall. intros r Hr. apply Nat.eqb_eq. now apply Hok.
Qed.

(* ------------------------------------------------------------------ headings *)
Lemma headings_app : forall k l1 l2, headings k (l1 ++ l2) = headings k l1 ++ headings k l2.
Proof. intros. unfold headings. apply flat_map_app. Qed.

Lemma headings_flat_map : forall {A} k (f : A -> list block) l,
  headings k (flat_map f l) = flat_map (fun x => headings k (f x)) l.
Proof.
  induction l as [|x r IH]; [reflexivity|]. cbn [flat_map]. now rewrite headings_app, IH.
Qed.

Lemma headings_desc : forall k d, headings k (desc_blocks d) = [].
Proof. intros. unfold desc_blocks. now destruct (String.eqb d ""). Qed.

Lemma flat_map_nil : forall {A B} (l : list A), flat_map (fun _ => @nil B) l = [].
Proof. induction l; [reflexivity|assumption]. Qed.

Lemma flat_map_all_nil : forall {A B} (f : A -> list B) l, (forall a, f a = []) -> flat_map f l = [].
Proof. induction l as [|x r IH]; intro Hf; [reflexivity|]. cbn. now rewrite Hf, IH. Qed.

Lemma flat_map_single : forall {A B} (f : A -> B) l, flat_map (fun x => [f x]) l = map f l.
Proof. induction l as [|x r IH]; [reflexivity|]. cbn. now rewrite IH. Qed.

Lemma headings_msg : forall k m,
  headings k (msg_blocks m) = if Nat.eqb 4 k then [esc_heading (m_name m)] else [].
Proof.
  intros k m. unfold msg_blocks. rewrite !headings_app, headings_desc.
  assert (Hs : headings k (if m_static m then [] else [Para (dec_hex_line "Message ID" (m_id m)); LF]) = [])
    by now destruct (m_static m).
  assert (Ht : headings k (match m_sigs m with [] => [] | _ :: _ => [mk_table sig_header (rows_sigs 0 (m_sigs m))] end) = [])
    by now destruct (m_sigs m).
  rewrite Hs, Ht. cbn -[Nat.eqb]. destruct (Nat.eqb 4 k); reflexivity.
Qed.

Lemma headings_nif : forall k x,
  headings k (nif_blocks x) =
  (if Nat.eqb 3 k then [esc_heading (n_name x)] else [])
  ++ (if Nat.eqb 4 k then map (fun m => esc_heading (m_name m)) (n_msgs x) else []).
Proof.
  intros k x. unfold nif_blocks. rewrite !headings_app, headings_desc, headings_flat_map.
  rewrite (flat_map_ext _ (fun m => if Nat.eqb 4 k then [esc_heading (m_name m)] else [])) by (intro; apply headings_msg).
  cbn -[Nat.eqb]. destruct (Nat.eqb 3 k), (Nat.eqb 4 k); cbn;
    rewrite ?flat_map_nil, ?flat_map_single; reflexivity.
Qed.

Lemma headings_bus : forall k b,
  headings k (bus_blocks b) =
  (if Nat.eqb 2 k then [esc_heading (b_name b)] else [])
  ++ flat_map (fun x => (if Nat.eqb 3 k then [esc_heading (n_name x)] else [])
                        ++ (if Nat.eqb 4 k then map (fun m => esc_heading (m_name m)) (n_msgs x) else [])) (b_nifs b).
Proof.
  intros k b. unfold bus_blocks. rewrite !headings_app, headings_desc, headings_flat_map.
  rewrite (flat_map_ext _ _ (fun x => headings_nif k x)).
  cbn -[Nat.eqb]. destruct (Nat.eqb 2 k); reflexivity.
Qed.

Definition nonH (b : block) : Prop := match b with H _ _ => False | _ => True end.

Lemma headings_nonH : forall k l, Forall nonH l -> headings k l = [].
Proof.
  induction 1 as [|b l Hb _ IH]; [reflexivity|].
  change (b :: l) with ([b] ++ l). rewrite headings_app, IH, app_nil_r.
  destruct b; try contradiction; reflexivity.
Qed.

Lemma toc_nonH : forall n, Forall nonH (toc_blocks n).
Proof.
  intro n. unfold toc_blocks. apply Forall_forall. intros b Hin.
  apply in_app_iff in Hin as [Hin|Hin].
  - apply in_flat_map in Hin as [bs [_ Hin]]. destruct Hin as [<-|Hin]; [exact I|].
    apply in_flat_map in Hin as [x [_ Hin]]. destruct Hin as [<-|Hin]; [exact I|].
    apply in_map_iff in Hin as [m [<- _]]. exact I.
  - cbn [In] in Hin. destruct Hin as [<-|[<-|[<-|[]]]]; exact I.
Qed.

Lemma headings_toc : forall k n, headings k (toc_blocks n) = [].
Proof. intros. apply headings_nonH, toc_nonH. Qed.

Lemma headings_enum : forall k e,
  headings k (enum_blocks e) = if Nat.eqb 4 k then [esc_heading (se_name e)] else [].
Proof.
  intros. unfold enum_blocks. rewrite !headings_app, headings_desc. cbn -[Nat.eqb].
  destruct (Nat.eqb 4 k); reflexivity.
Qed.

Definition appendix_titles : list string := ["Signal Types"; "Signal Units"; "Signal Enums"]%string.

Lemma headings_appendix : forall k n,
  headings k (appendix_blocks n) =
  (if Nat.eqb 2 k then appendix_titles else [])
  ++ (if Nat.eqb 4 k then map (fun e => esc_heading (se_name e)) (enums_listed n) else []).
Proof.
  intros. unfold appendix_blocks. rewrite headings_app, headings_flat_map.
  rewrite (flat_map_ext _ _ (fun e => headings_enum k e)).
  cbn -[Nat.eqb]. destruct (Nat.eqb 2 k), (Nat.eqb 4 k); cbn; rewrite ?flat_map_nil, ?flat_map_single; reflexivity.
Qed.

Lemma headings_preamble : forall k n,
  headings k (preamble_blocks n) = if Nat.eqb 1 k then [esc_heading (nt_name n)] else [].
Proof.
  intros. unfold preamble_blocks. rewrite headings_app, headings_desc. cbn -[Nat.eqb].
  destruct (Nat.eqb 1 k); reflexivity.
Qed.

Lemma headings_blocks : forall k n,
  headings k (blocks n) =
  (if Nat.eqb 1 k then [esc_heading (nt_name n)] else [])
  ++ flat_map (fun b => (if Nat.eqb 2 k then [esc_heading (b_name b)] else [])
        ++ flat_map (fun x => (if Nat.eqb 3 k then [esc_heading (n_name x)] else [])
                              ++ (if Nat.eqb 4 k then map (fun m => esc_heading (m_name m)) (n_msgs x) else [])) (b_nifs b))
       (nt_buses n)
  ++ (if Nat.eqb 2 k then appendix_titles else [])
  ++ (if Nat.eqb 4 k then map (fun e => esc_heading (se_name e)) (enums_listed n) else []).
Proof.
  intros. unfold blocks. rewrite !headings_app, headings_preamble, headings_toc, headings_flat_map,
    headings_appendix.
  rewrite (flat_map_ext _ _ (fun b => headings_bus k b)). reflexivity.
Qed.

Lemma flat_map_map_flat : forall {A B C} (f : A -> list B) (g : B -> C) l,
  flat_map (fun x => map g (f x)) l = map g (flat_map f l).
Proof.
  induction l as [|x r IH]; [reflexivity|]. cbn. now rewrite map_app, IH.
Qed.

Lemma flat_map_flat_map' : forall {A B C} (f : A -> list B) (g : B -> list C) l,
  flat_map g (flat_map f l) = flat_map (fun a => flat_map g (f a)) l.
Proof. induction l as [|x r IH]; [reflexivity|]. cbn. now rewrite flat_map_app, IH. Qed.

Lemma md_sections_lemma : forall n,
  headings 1 (blocks n) = [esc_heading (nt_name n)]
  /\ headings 2 (blocks n) = map (fun b => esc_heading (b_name b)) (nt_buses n) ++ appendix_titles
  /\ headings 3 (blocks n) = map (fun x => esc_heading (n_name x)) (flat_map b_nifs (nt_buses n))
  /\ headings 4 (blocks n) = map (fun m => esc_heading (m_name m)) (msgs_of_net n)
                             ++ map (fun e => esc_heading (se_name e)) (enums_listed n).
Proof.
  intro n. rewrite !headings_blocks. cbn [Nat.eqb app]. repeat split.
  - rewrite app_nil_r. f_equal. apply flat_map_all_nil. intro b. apply flat_map_nil.
  - rewrite app_nil_r. f_equal. rewrite <- flat_map_single. apply flat_map_ext. intro b.
    now rewrite flat_map_nil.
  - rewrite app_nil_r. rewrite <- (flat_map_map_flat b_nifs (fun x => esc_heading (n_name x))). apply flat_map_ext. intro b.
    apply flat_map_single.
  - f_equal. unfold msgs_of_net.
    rewrite <- (flat_map_map_flat n_msgs (fun m => esc_heading (m_name m))). now rewrite flat_map_flat_map'.
Qed.

(* ------------------------------------------------------------------ signal rows *)
Lemma row_matches_common : forall base s cells,
  List.length cells = 5%nat ->
  row_matches (common_cells base s ++ cells) (KSig (sig_name s) (sig_start base s) (sig_size s)).
Proof. intros. cbn. eexists; split; [reflexivity|assumption]. Qed.

Lemma rows_sig_occ : forall s base, Forall2 row_matches (rows_sig base s) (occ base s).
Proof.
  induction s as [n d r ty un|n d r sz en|n d r gc gs groups IH] using sig_ind'; intro base.
  - cbn [rows_sig occ]. constructor; [|constructor]. now apply row_matches_common.
  - cbn [rows_sig occ]. constructor; [|constructor]. now apply row_matches_common.
  - rewrite rows_sig_mux, occ_mux. constructor.
    + change (KSig n (base + r) (gs + calc_size (gc - 1)))
        with (KSig (sig_name (SMux n d r gc gs groups)) (sig_start base (SMux n d r gc gs groups))
                (sig_size (SMux n d r gc gs groups))).
      now apply row_matches_common.
    + generalize (base + r + calc_size (gc - 1)) as base'. generalize 0 as gid.
      induction IH as [|g rest Hg _ IHrest]; intros gid base'; cbn [rows_groups occ_groups]; [constructor|].
      apply Forall2_app; [|apply IHrest].
      constructor; [reflexivity|].
      unfold rows_sigs, occs. induction Hg as [|x r' Hx _ IHg]; cbn [flat_map]; [constructor|].
      apply Forall2_app; [apply Hx|apply IHg].
Qed.

Lemma rows_sigs_occs : forall l base, Forall2 row_matches (rows_sigs base l) (occs base l).
Proof.
  induction l as [|s r IH]; intro base; cbn; [constructor|].
  apply Forall2_app; [apply rows_sig_occ|apply IH].
Qed.

Lemma tables_app : forall l1 l2, tables (l1 ++ l2) = tables l1 ++ tables l2.
Proof. intros. unfold tables. apply filter_app. Qed.

Lemma tables_desc : forall d, tables (desc_blocks d) = [].
Proof. intro. unfold desc_blocks. now destruct (String.eqb d ""). Qed.

Lemma msg_tables : forall m,
  tables (msg_blocks m) =
  match m_sigs m with [] => [] | _ => [mk_table sig_header (rows_sigs 0 (m_sigs m))] end.
Proof.
  intro m. unfold msg_blocks. rewrite !tables_app, tables_desc.
  assert (Hs : tables (if m_static m then [] else [Para (dec_hex_line "Message ID" (m_id m)); LF]) = [])
    by now destruct (m_static m).
  rewrite Hs. cbn. now destruct (m_sigs m).
Qed.

Definition seg {A} (big m : list A) : Prop := exists pre post, big = pre ++ m ++ post.

Lemma seg_refl : forall {A} (l : list A), seg l l.
Proof. intros. exists [], []. now rewrite app_nil_r. Qed.
Lemma seg_trans : forall {A} (big l m : list A), seg big l -> seg l m -> seg big m.
Proof.
  intros A big l m [p [q ->]] [p' [q' ->]]. exists (p ++ p'), (q' ++ q).
  now rewrite <- !app_assoc.
Qed.
Lemma seg_app_r : forall {A} (a l m : list A), seg l m -> seg (a ++ l) m.
Proof. intros A a l m [p [q ->]]. exists (a ++ p), q. now rewrite <- app_assoc. Qed.
Lemma seg_app_l : forall {A} (b l m : list A), seg l m -> seg (l ++ b) m.
Proof. intros A b l m [p [q ->]]. exists p, (q ++ b). now rewrite <- !app_assoc. Qed.
Lemma seg_flat_map : forall {A B} (f : A -> list B) l x, In x l -> seg (flat_map f l) (f x).
Proof.
  induction l as [|y r IH]; intros x Hin; [contradiction|]. cbn [flat_map].
  destruct Hin as [->|Hin]; [apply seg_app_l, seg_refl|apply seg_app_r, IH, Hin].
Qed.

Lemma msg_segment : forall n m, In m (msgs_of_net n) -> seg (blocks n) (msg_blocks m).
Proof.
  intros n m Hin. unfold msgs_of_net in Hin.
  apply in_flat_map in Hin as [x [Hx Hm]]. apply in_flat_map in Hx as [b [Hb Hx]].
  apply seg_trans with (flat_map bus_blocks (nt_buses n)).
  { unfold blocks. apply seg_app_r, seg_app_r, seg_app_l, seg_refl. }
  apply seg_trans with (bus_blocks b); [now apply seg_flat_map|].
  apply seg_trans with (flat_map nif_blocks (b_nifs b)).
  { unfold bus_blocks. apply seg_app_r, seg_app_r, seg_app_r, seg_refl. }
  apply seg_trans with (nif_blocks x); [now apply seg_flat_map|].
  apply seg_trans with (flat_map msg_blocks (n_msgs x)).
  { unfold nif_blocks. apply seg_app_r, seg_app_r, seg_app_r, seg_refl. }
  now apply seg_flat_map.
Qed.

Lemma md_signal_rows_lemma : forall n m, In m (msgs_of_net n) ->
  seg (blocks n) (msg_blocks m)
  /\ tables (msg_blocks m) =
       match m_sigs m with [] => [] | _ => [mk_table sig_header (rows_sigs 0 (m_sigs m))] end
  /\ Forall2 row_matches (rows_sigs 0 (m_sigs m)) (occs 0 (m_sigs m)).
Proof.
  intros n m Hin. split; [now apply msg_segment|]. split; [apply msg_tables|apply rows_sigs_occs].
Qed.

(* ------------------------------------------------------------------ appendix *)
Lemma existsb_eqb_In : forall x seen, existsb (N.eqb x) seen = true <-> In x seen.
Proof.
  intros. rewrite existsb_exists. split.
  - intros [y [Hin E]]. apply N.eqb_eq in E. now subst.
  - intro Hin. exists x. split; [assumption|apply N.eqb_refl].
Qed.

Lemma dedup_sound : forall {A} (id : A -> N) l seen x,
  In x (dedup id seen l) -> In x l /\ ~ In (id x) seen.
Proof.
  induction l as [|y r IH]; intros seen x Hin; [contradiction|]. cbn [dedup] in Hin.
  destruct (existsb (N.eqb (id y)) seen) eqn:E.
  - destruct (IH _ _ Hin). split; [now right|assumption].
  - destruct Hin as [->|Hin].
    + split; [now left|]. intro Hs. apply existsb_eqb_In in Hs. congruence.
    + destruct (IH _ _ Hin) as [H1 H2]. split; [now right|]. intro Hs. apply H2. now right.
Qed.

Lemma dedup_complete : forall {A} (id : A -> N) l seen x,
  In x l -> ~ In (id x) seen -> exists x', In x' (dedup id seen l) /\ id x' = id x.
Proof.
  induction l as [|y r IH]; intros seen x Hin Hns; [contradiction|]. cbn [dedup].
  destruct (existsb (N.eqb (id y)) seen) eqn:E.
  - destruct Hin as [->|Hin]; [apply existsb_eqb_In in E; contradiction|]. now apply IH.
  - destruct Hin as [->|Hin]; [exists x; split; [now left|reflexivity]|].
    destruct (N.eq_dec (id x) (id y)) as [Heq|Hne].
    + exists y. split; [now left|now symmetry].
    + destruct (IH (id y :: seen) x Hin) as [x' [H1 H2]].
      * intros [Hh|Hh]; [now apply Hne|now apply Hns].
      * exists x'. split; [now right|assumption].
Qed.

Lemma dedup_NoDup : forall {A} (id : A -> N) l seen, NoDup (map id (dedup id seen l)).
Proof.
  induction l as [|y r IH]; intro seen; cbn [dedup]; [constructor|].
  destruct (existsb (N.eqb (id y)) seen); [apply IH|].
  cbn [map]. constructor; [|apply IH].
  intro Hin. apply in_map_iff in Hin as [x [Hid Hx]]. apply dedup_sound in Hx as [_ Hx].
  apply Hx. left. now symmetry.
Qed.

Lemma insert_perm : forall {A} (leb : A -> A -> bool) x l, Permutation (insert leb x l) (x :: l).
Proof.
  induction l as [|y r IH]; cbn [insert]; [reflexivity|].
  destruct (leb x y); [reflexivity|]. rewrite IH. apply perm_swap.
Qed.

Lemma isort_perm : forall {A} (leb : A -> A -> bool) l, Permutation (isort leb l) l.
Proof.
  induction l as [|x r IH]; cbn [isort]; [reflexivity|]. rewrite insert_perm. now constructor.
Qed.

Lemma listed_exact : forall {A} (id : A -> N) (leb : A -> A -> bool) (all : list A),
  ids_consistent id all -> lists_exactly id (isort leb (dedup id [] all)) all.
Proof.
  intros A id leb all Hc. pose proof (isort_perm leb (dedup id [] all)) as Hp. split.
  - eapply Permutation_NoDup; [apply Permutation_map; symmetry; exact Hp|apply dedup_NoDup].
  - intro a. split.
    + intro Hin. eapply Permutation_in in Hin; [|exact Hp]. now apply dedup_sound in Hin as [Hin _].
    + intro Hin. destruct (dedup_complete id all [] a Hin (fun f => f)) as [a' [H1 H2]].
      assert (a' = a) by (apply Hc; [now apply dedup_sound in H1 as [H1 _]|assumption|assumption]).
      subst a'. eapply Permutation_in; [symmetry; exact Hp|assumption].
Qed.

(* without the consistency hypothesis: still sound, duplicate-free and complete up to the id *)
Lemma listed_sound : forall {A} (id : A -> N) (leb : A -> A -> bool) (all : list A),
  NoDup (map id (isort leb (dedup id [] all)))
  /\ (forall a, In a (isort leb (dedup id [] all)) -> In a all)
  /\ (forall a, In a all -> exists a', In a' (isort leb (dedup id [] all)) /\ id a' = id a).
Proof.
  intros A id leb all. pose proof (isort_perm leb (dedup id [] all)) as Hp. repeat split.
  - eapply Permutation_NoDup; [apply Permutation_map; symmetry; exact Hp|apply dedup_NoDup].
  - intros a Hin. eapply Permutation_in in Hin; [|exact Hp]. now apply dedup_sound in Hin as [Hin _].
  - intros a Hin. destruct (dedup_complete id all [] a Hin (fun f => f)) as [a' [H1 H2]].
    exists a'. split; [eapply Permutation_in; [symmetry; exact Hp|assumption]|assumption].
Qed.

Lemma appendix_in_blocks : forall n,
  exists pre, blocks n = pre ++ appendix_blocks n.
Proof.
  intro n. unfold blocks.
  exists (preamble_blocks n ++ toc_blocks n ++ flat_map bus_blocks (nt_buses n)).
  now rewrite <- !app_assoc.
Qed.

Lemma md_appendix_exact_lemma : forall n, well_formed n ->
  (exists pre, blocks n = pre ++ appendix_blocks n)
  /\ tables (appendix_blocks n) =
       mk_table type_header (map type_row (types_listed n))
       :: mk_table unit_header (map unit_row (units_listed n))
       :: map (fun e => mk_table value_header (map value_row (se_values e))) (enums_listed n)
  /\ headings 4 (appendix_blocks n) = map (fun e => esc_heading (se_name e)) (enums_listed n)
  /\ lists_exactly st_id (types_listed n) (all_types n)
  /\ lists_exactly su_id (units_listed n) (all_units n)
  /\ lists_exactly se_id (enums_listed n) (all_enums n).
Proof.
  intros n [Ht [Hu He]]. split; [apply appendix_in_blocks|]. split; [|split].
  - unfold appendix_blocks. rewrite tables_app. unfold mk_table at 1 2. cbn [tables filter app].
    fold (mk_table type_header (map type_row (types_listed n))).
    fold (mk_table unit_header (map unit_row (units_listed n))). do 2 f_equal.
    fold tables. induction (enums_listed n) as [|e r IH]; [reflexivity|].
    cbn [flat_map map]. rewrite tables_app, IH. unfold enum_blocks.
    rewrite !tables_app, tables_desc. reflexivity.
  - rewrite headings_appendix. reflexivity.
  - repeat split; try (now apply listed_exact).
    all: try (apply (listed_exact st_id); assumption);
         try (apply (listed_exact su_id); assumption);
         try (apply (listed_exact se_id); assumption).
Qed.

Lemma md_appendix_sound_lemma : forall n,
  NoDup (map st_id (types_listed n))
  /\ (forall a, In a (types_listed n) -> In a (all_types n))
  /\ (forall a, In a (all_types n) -> exists a', In a' (types_listed n) /\ st_id a' = st_id a).
Proof. intro n. exact (listed_sound st_id _ (all_types n)). Qed.

(* ------------------------------------------------------------------ satisfiability *)
Local Open Scope string_scope.
Definition ex_ty1 : sigtype := {| st_id := 0; st_name := "u8"; st_desc := ""; st_size := 8; st_kind := "integer";
  st_signed := false; st_min := "0"; st_max := "255"; st_scale := "1"; st_offset := "0" |}.
Definition ex_ty2 : sigtype := {| st_id := 1; st_name := "flag"; st_desc := "a flag"; st_size := 1; st_kind := "flag";
  st_signed := false; st_min := "0"; st_max := "1"; st_scale := "1"; st_offset := "0" |}.
Definition ex_unit : sigunit := {| su_id := 0; su_name := "volt"; su_desc := ""; su_kind := "electrical"; su_symbol := "V" |}.
Definition ex_enum : sigenum := {| se_id := 0; se_name := "state"; se_desc := ""; se_maxindex := 2;
  se_values := [ {| ev_name := "off"; ev_index := 0; ev_desc := "" |}; {| ev_name := "on"; ev_index := 2; ev_desc := "d" |} ] |}.
Definition ex_inner : sig := SMux "inner" "" 2 1 4 [[SStd "deep" "" 0 ex_ty2 None]].
Definition ex_mux : sig :=
  SMux "mx" "outer" 9 3 12 [[SEnum "e in g0" "" 0 2 ex_enum; ex_inner]; []; [SStd "shared" "" 0 ex_ty1 (Some ex_unit); ex_inner]].
Definition ex_net : net :=
  {| nt_name := "Net"; nt_desc := "demo";
     nt_buses := [ {| b_name := "Bus A"; b_desc := ""; b_baud := 500000;
       b_nifs := [ {| n_name := "Node 1"; n_desc := ""; n_id := 3;
         n_msgs := [ {| m_name := "M1"; m_desc := ""; m_static := false; m_canid := 19; m_id := 1; m_size := 8;
                        m_byteorder := "little-endian"; m_cycle := 10; m_receivers := ["Node 2"];
                        m_sigs := [SStd "s1" "" 0 ex_ty1 None; SEnum "e1" "" 8 1 ex_enum; ex_mux] |};
                     {| m_name := "Empty"; m_desc := ""; m_static := true; m_canid := 5; m_id := 5; m_size := 1;
                        m_byteorder := "big-endian"; m_cycle := 0; m_receivers := []; m_sigs := [] |} ] |} ] |} ] |}.

Ltac solve_consistent :=
  intros a b Ha Hb Hid; cbn in Ha, Hb;
  repeat (destruct Ha as [<-|Ha]; [|]); try contradiction;
  repeat (destruct Hb as [<-|Hb]; [|]); try contradiction;
  try reflexivity; try discriminate Hid.

Lemma ex_net_wf : well_formed ex_net.
Proof. repeat split; solve_consistent. Qed.

Lemma ex_net_nontrivial :
  List.length (types_listed ex_net) = 2%nat /\ List.length (enums_listed ex_net) = 1%nat
  /\ List.length (rows_sigs 0 (m_sigs (hd (Build_msg "" "" false 0 0 0 "" 0 [] []) (msgs_of_net ex_net)))) = 14%nat.
Proof. vm_compute. repeat split. Qed.

(* ------------------------------------------------------------------ CommonMark reading *)
Fixpoint endp (p : bool) (bs : list block) : bool :=
  match bs with
  | [] => p
  | Para _ :: r => endp true r
  | _ :: r => endp false r
  end.

Lemma sf_app : forall l1 l2 p, sf p (l1 ++ l2) = andb (sf p l1) (sf (endp p l1) l2).
Proof.
  induction l1 as [|x r IH]; intros l2 p; [reflexivity|].
  destruct x; cbn [app sf endp]; rewrite ?IH; try reflexivity.
  now rewrite andb_assoc.
Qed.
Lemma endp_app : forall l1 l2 p, endp p (l1 ++ l2) = endp (endp p l1) l2.
Proof. induction l1 as [|x r IH]; intros l2 p; [reflexivity|]. destruct x; cbn [app endp]; apply IH. Qed.

(* a stretch that is entered and left outside a paragraph *)
Definition pres (l : list block) : Prop := sf false l = true /\ endp false l = false.

Lemma pres_nil : pres [].
Proof. split; reflexivity. Qed.
Lemma pres_app : forall l1 l2, pres l1 -> pres l2 -> pres (l1 ++ l2).
Proof.
  intros l1 l2 [S1 E1] [S2 E2]. split.
  - now rewrite sf_app, S1, E1, S2.
  - now rewrite endp_app, E1, E2.
Qed.
Lemma pres_flat_map : forall {A} (f : A -> list block) l, (forall x, pres (f x)) -> pres (flat_map f l).
Proof.
  induction l as [|x r IH]; intro Hf; [apply pres_nil|]. cbn [flat_map]. apply pres_app; auto.
Qed.
Lemma pres_desc : forall d, pres (desc_blocks d).
Proof. intro d. unfold desc_blocks. destruct (String.eqb d ""); split; reflexivity. Qed.

Lemma pres_msg : forall m, pres (msg_blocks m).
Proof.
  intro m. unfold msg_blocks.
  repeat apply pres_app; try apply pres_desc; try (split; reflexivity).
  - destruct (m_static m); split; reflexivity.
  - destruct (m_sigs m); split; reflexivity.
Qed.
Lemma pres_nif : forall x, pres (nif_blocks x).
Proof.
  intro x. unfold nif_blocks.
  repeat apply pres_app; try apply pres_desc; try (split; reflexivity).
  apply pres_flat_map, pres_msg.
Qed.
Lemma pres_bus : forall b, pres (bus_blocks b).
Proof.
  intro b. unfold bus_blocks.
  repeat apply pres_app; try apply pres_desc; try (split; reflexivity).
  apply pres_flat_map, pres_nif.
Qed.
Lemma pres_enum : forall e, pres (enum_blocks e).
Proof.
  intro e. unfold enum_blocks.
  repeat apply pres_app; try apply pres_desc; split; reflexivity.
Qed.
Lemma pres_appendix : forall n, pres (appendix_blocks n).
Proof.
  intro n. unfold appendix_blocks. apply pres_app; [split; reflexivity|apply pres_flat_map, pres_enum].
Qed.

Definition nonRule (b : block) : Prop := match b with Rule => False | _ => True end.
Lemma sf_no_rule : forall l p, Forall nonRule l -> sf p l = true.
Proof.
  induction l as [|x r IH]; intros p Hf; [reflexivity|]. inversion Hf as [|? ? Hx Hr]; subst.
  destruct x; cbn [sf]; try contradiction; now apply IH.
Qed.
Lemma toc_nonRule : forall n, Forall nonRule (toc_blocks n).
Proof.
  intro n. unfold toc_blocks. apply Forall_forall. intros b Hin.
  apply in_app_iff in Hin as [Hin|Hin].
  - apply in_flat_map in Hin as [bs [_ Hin]]. destruct Hin as [<-|Hin]; [exact I|].
    apply in_flat_map in Hin as [x [_ Hin]]. destruct Hin as [<-|Hin]; [exact I|].
    apply in_map_iff in Hin as [m [<- _]]. exact I.
  - cbn [In] in Hin. destruct Hin as [<-|[<-|[<-|[]]]]; exact I.
Qed.
Lemma pres_toc : forall n, pres (toc_blocks n).
Proof.
  intro n. split; [apply sf_no_rule, toc_nonRule|].
  unfold toc_blocks. rewrite endp_app. reflexivity.
Qed.

Lemma blocks_setext_free : forall n, setext_free (blocks n) = true.
Proof.
  intro n. unfold setext_free, blocks.
  assert (P : pres (preamble_blocks n ++ toc_blocks n ++ flat_map bus_blocks (nt_buses n) ++ appendix_blocks n)).
  { apply pres_app; [|apply pres_app; [|apply pres_app]].
    - unfold preamble_blocks. apply pres_app; [split; reflexivity|apply pres_desc].
    - apply pres_toc.
    - apply pres_flat_map, pres_bus.
    - apply pres_appendix. }
  exact (proj1 P).
Qed.

Lemma sf_true_nonrule : forall x r, x <> Rule -> sf true (x :: r) = sf false (x :: r).
Proof. intros x r Hx. destruct x; try reflexivity. contradiction. Qed.

Lemma headings_cons : forall k x r, headings k (x :: r) = (headings k [x] ++ headings k r)%list.
Proof. intros. change (x :: r) with ([x] ++ r)%list. apply headings_app. Qed.

Lemma cm_headings_eq : forall k bs, setext_free bs = true -> cm_headings k bs = headings k bs.
Proof.
  unfold setext_free. intros k bs. induction bs as [|x r IH]; intro Hs; [reflexivity|].
  rewrite headings_cons.
  destruct x; cbn [sf] in Hs.
  - cbn [cm_headings]. rewrite (IH Hs).
    assert (E : headings k [H level text] = if Nat.eqb level k then [text] else [])
      by (unfold headings; cbn [flat_map]; now rewrite app_nil_r).
    rewrite E. destruct (Nat.eqb level k); reflexivity.
  - destruct r as [|y r'].
    + reflexivity.
    + assert (Hy : y <> Rule) by (intro; subst y; cbn [sf] in Hs; discriminate).
      rewrite sf_true_nonrule in Hs by assumption.
      rewrite <- (IH Hs). destruct y; try reflexivity. contradiction.
  - cbn [cm_headings]. now rewrite (IH Hs).
  - apply andb_true_iff in Hs as [_ Hs]. cbn [cm_headings]. now rewrite (IH Hs).
  - cbn [cm_headings]. now rewrite (IH Hs).
  - cbn [cm_headings]. now rewrite (IH Hs).
Qed.

Lemma md_sections_commonmark_lemma : forall n k,
  setext_free (blocks n) = true /\ cm_headings k (blocks n) = headings k (blocks n).
Proof. intros n k. split; [apply blocks_setext_free|apply cm_headings_eq, blocks_setext_free]. Qed.
