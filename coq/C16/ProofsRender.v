(* C16 — a rendered table row is read back as exactly its cells. *)
From Coq Require Import List String Ascii Bool Arith Lia.
From Acme.C16 Require Import Model Spec Proofs Render.
Import ListNotations.
Local Open Scope string_scope.

Lemma append_assoc : forall a b c : string, (a ++ b) ++ c = a ++ (b ++ c).
Proof. induction a as [|x r IH]; intros; [reflexivity|]. cbn. now rewrite IH. Qed.
Lemma append_nil_r : forall a : string, a ++ "" = a.
Proof. induction a as [|x r IH]; [reflexivity|]. cbn. now rewrite IH. Qed.

(* ------------------------------------------------------------------ escaped cells are safe *)
Lemma safeb_br : forall pb r, safeb pb ("<br>" ++ r) = safeb false r.
Proof. intros. reflexivity. Qed.
Lemma no_break_br : forall r, no_breakb ("<br>" ++ r) = no_breakb r.
Proof. intros. reflexivity. Qed.

Lemma esc_cell_props : forall n s, (String.length s <= n)%nat ->
  (forall pb, safeb pb (esc_cell s) = true) /\ no_breakb (esc_cell s) = true.
Proof.
  induction n as [|n IH]; intros s Hl.
  - destruct s; [split; [intro; reflexivity|reflexivity]|cbn in Hl; lia].
  - destruct s as [|c r]; [split; [intro; reflexivity|reflexivity]|].
    cbn [String.length] in Hl. assert (Hr : (String.length r <= n)%nat) by lia.
    destruct (IH r Hr) as [Sr Br]. cbn [esc_cell].
    destruct (Ascii.eqb c pipe) eqn:Ep.
    + split.
      * intro pb. cbn [safeb]. change (Ascii.eqb "\"%char pipe) with false. cbn iota.
        change (Ascii.eqb "\"%char backslash) with true. rewrite Ascii.eqb_refl. cbn. apply Sr.
      * cbn [no_breakb]. rewrite Br. reflexivity.
    + destruct (Ascii.eqb c cr) eqn:Ec.
      * destruct r as [|c2 r2].
        -- split; [intro; reflexivity|reflexivity].
        -- destruct (Ascii.eqb c2 lf).
           ++ assert (Hr2 : (String.length r2 <= n)%nat) by (cbn in Hr; lia).
              destruct (IH r2 Hr2) as [S2 B2]. split; [intro; rewrite safeb_br; apply S2|rewrite no_break_br; apply B2].
           ++ split; [intro; rewrite safeb_br; apply Sr|rewrite no_break_br; apply Br].
      * destruct (Ascii.eqb c lf) eqn:El.
        -- split; [intro; rewrite safeb_br; apply Sr|rewrite no_break_br; apply Br].
        -- split.
           ++ intro pb. cbn [safeb]. rewrite Ep. apply Sr.
           ++ cbn [no_breakb]. rewrite El, Ec. cbn. apply Br.
Qed.

Lemma esc_cell_safe : forall s pb, safeb pb (esc_cell s) = true.
Proof. intros s pb. apply (proj1 (esc_cell_props (String.length s) s (le_n _))). Qed.
Lemma esc_cell_no_break : forall s, no_breakb (esc_cell s) = true.
Proof. intro s. apply (proj2 (esc_cell_props (String.length s) s (le_n _))). Qed.

(* ------------------------------------------------------------------ splitting *)
Definition end_state (pb : bool) (c : string) : bool :=
  (fix go (pb : bool) (s : string) : bool :=
     match s with EmptyString => pb | String x r => go (Ascii.eqb x backslash) r end) pb c.

Lemma safe_run : forall c pb acc rest, safeb pb c = true ->
  exists pb', split_aux acc pb (c ++ rest) = split_aux (acc ++ c) pb' rest.
Proof.
  induction c as [|x r IH]; intros pb acc rest Hs.
  - exists pb. cbn. now rewrite append_nil_r.
  - cbn [safeb] in Hs. cbn [append split_aux].
    destruct (Ascii.eqb x pipe) eqn:Ep.
    + apply andb_true_iff in Hs as [Hpb Hs]. subst pb. cbn [negb andb].
      assert (Eb : Ascii.eqb x backslash = false).
      { apply Ascii.eqb_eq in Ep. subst x. reflexivity. }
      rewrite Eb. destruct (IH false (acc ++ String x "") rest Hs) as [pb' E].
      exists pb'. rewrite E. now rewrite append_assoc.
    + cbn [andb]. destruct (IH (Ascii.eqb x backslash) (acc ++ String x "") rest Hs) as [pb' E].
      exists pb'. rewrite E. now rewrite append_assoc.
Qed.

Lemma split_piece : forall c pb acc rest, safeb false c = true ->
  split_aux acc pb (" " ++ c ++ " |" ++ rest) = (acc ++ " " ++ c ++ " ") :: split_aux "" false rest.
Proof.
  intros c pb acc rest Hs.
  change (" " ++ c ++ " |" ++ rest) with (String " " (c ++ String " " (String "|" rest))).
  cbn [split_aux]. change (Ascii.eqb " "%char pipe) with false. cbn [andb].
  change (Ascii.eqb " "%char backslash) with false.
  destruct (safe_run c false (acc ++ " ") (String " " (String "|" rest)) Hs) as [pb' E]. rewrite E.
  cbn [split_aux]. change (Ascii.eqb " "%char pipe) with false. cbn [andb].
  change (Ascii.eqb " "%char backslash) with false.
  change (Ascii.eqb "|"%char pipe) with true. cbn [negb andb].
  f_equal. now rewrite !append_assoc.
Qed.

Lemma split_pieces : forall cells, Forall (fun c => safeb false c = true) cells ->
  split_aux "" false (String.concat "" (map (fun c => " " ++ c ++ " |") cells))
  = List.app (map (fun c => " " ++ c ++ " ") cells) [""].
Proof.
  induction cells as [|c r IH]; intro Hf; [reflexivity|].
  inversion Hf as [|? ? Hc Hr]; subst. cbn [map].
  assert (E : String.concat "" ((" " ++ c ++ " |") :: map (fun c0 => " " ++ c0 ++ " |") r)
              = " " ++ c ++ " |" ++ String.concat "" (map (fun c0 => " " ++ c0 ++ " |") r)).
  { destruct r as [|c' r']; cbn [map String.concat append].
    - reflexivity.
    - f_equal. now rewrite append_assoc. }
  rewrite E, (split_piece c false "" _ Hc). cbn [app]. f_equal. now apply IH.
Qed.

Lemma drop_last_space_app : forall c, drop_last_space (c ++ " ") = c.
Proof.
  induction c as [|x r IH]; [reflexivity|].
  destruct r as [|y r'].
  - reflexivity.
  - change ((String x (String y r')) ++ " ") with (String x (String y r' ++ " ")).
    change (String y r' ++ " ") with (String y (r' ++ " ")) in *.
    assert (E : drop_last_space (String x (String y (r' ++ " "))) = String x (drop_last_space (String y (r' ++ " "))))
      by reflexivity.
    rewrite E, IH. reflexivity.
Qed.
Lemma strip1_piece : forall c, strip1 (" " ++ c ++ " ") = c.
Proof. intro c. unfold strip1. cbn [append]. change (Ascii.eqb " "%char space) with true. cbn iota. apply drop_last_space_app. Qed.

Lemma removelast_app_single : forall {A} (l : list A) x, removelast (l ++ [x]) = l.
Proof. intros. apply removelast_last. Qed.

Lemma split_render : forall cells, Forall (fun c => safeb false c = true) cells ->
  split_unescaped (render_row cells) = cells.
Proof.
  intros cells Hf. unfold split_unescaped, render_row.
  assert (E : forall Y, split_aux "" false ("|" ++ Y) = "" :: split_aux "" false Y) by reflexivity.
  rewrite E. cbn [tl].
  rewrite (split_pieces cells Hf), removelast_app_single, map_map.
  rewrite <- (map_id cells) at 2. apply map_ext. intro c. apply strip1_piece.
Qed.

(* the rendered line of an escaped row is one line and is read back as exactly its cells *)
Lemma escaped_row_roundtrip : forall raw,
  split_unescaped (render_row (map esc_cell raw)) = map esc_cell raw
  /\ Forall (fun c => no_breakb c = true) (map esc_cell raw).
Proof.
  intro raw. split.
  - apply split_render. apply Forall_forall. intros c Hin. apply in_map_iff in Hin as [s [<- _]].
    apply esc_cell_safe.
  - apply Forall_forall. intros c Hin. apply in_map_iff in Hin as [s [<- _]]. apply esc_cell_no_break.
Qed.

(* ------------------------------------------------------------------ every table of the document *)
Definition esc_table (b : block) : Prop :=
  match b with
  | Table h rows => (exists raw, rows = map (map esc_cell) raw) /\ Forall (fun c => safeb false c = true) h
  | _ => True
  end.

Lemma Forall_flat_map' : forall {A B} (P : B -> Prop) (f : A -> list B) l,
  (forall x, Forall P (f x)) -> Forall P (flat_map f l).
Proof. induction l as [|x r IH]; intro Hf; cbn; [constructor|]. apply Forall_app. split; auto. Qed.

Lemma esc_desc : forall d, Forall esc_table (desc_blocks d).
Proof. intro d. unfold desc_blocks. destruct (String.eqb d ""); repeat constructor. Qed.

Ltac header_safe := repeat constructor.

Lemma esc_msg : forall m, Forall esc_table (msg_blocks m).
Proof.
  intro m. unfold msg_blocks. repeat (apply Forall_app; split); try apply esc_desc; try (repeat constructor).
  - destruct (m_static m); repeat constructor.
  - destruct (m_sigs m) as [|s r]; [constructor|]. constructor; [|constructor]. split.
    + eexists. reflexivity.
    + header_safe.
Qed.
Lemma esc_nif : forall x, Forall esc_table (nif_blocks x).
Proof.
  intro x. unfold nif_blocks. repeat (apply Forall_app; split); try apply esc_desc; try (repeat constructor).
  apply Forall_flat_map', esc_msg.
Qed.
Lemma esc_bus : forall b, Forall esc_table (bus_blocks b).
Proof.
  intro b. unfold bus_blocks. repeat (apply Forall_app; split); try apply esc_desc; try (repeat constructor).
  apply Forall_flat_map', esc_nif.
Qed.
Lemma esc_enum : forall e, Forall esc_table (enum_blocks e).
Proof.
  intro e. unfold enum_blocks. repeat (apply Forall_app; split); try apply esc_desc; try (repeat constructor).
  eexists. reflexivity.
Qed.
Lemma esc_toc : forall n, Forall esc_table (toc_blocks n).
Proof.
  intro n. unfold toc_blocks. apply Forall_forall. intros b Hin.
  apply in_app_iff in Hin as [Hin|Hin].
  - apply in_flat_map in Hin as [bs [_ Hin]]. destruct Hin as [<-|Hin]; [exact I|].
    apply in_flat_map in Hin as [x [_ Hin]]. destruct Hin as [<-|Hin]; [exact I|].
    apply in_map_iff in Hin as [m [<- _]]. exact I.
  - cbn [In] in Hin. destruct Hin as [<-|[<-|[<-|[]]]]; exact I.
Qed.
Lemma esc_appendix : forall n, Forall esc_table (appendix_blocks n).
Proof.
  intro n. unfold appendix_blocks. apply Forall_app. split; [|apply Forall_flat_map', esc_enum].
  repeat constructor; eexists; reflexivity.
Qed.
Lemma esc_blocks : forall n, Forall esc_table (blocks n).
Proof.
  intro n. unfold blocks. apply Forall_app; split; [|apply Forall_app; split; [|apply Forall_app; split]].
  - unfold preamble_blocks. apply Forall_app. split; [repeat constructor|apply esc_desc].
  - apply esc_toc.
  - apply Forall_flat_map', esc_bus.
  - apply esc_appendix.
Qed.

(* every table of the document: the rendered header and the rendered rows are read back as the
   header / row cells, each row is one line, and all have the header's width *)
Lemma md_rows_width_rendered_lemma : forall n bs h rows,
  md n = Ok bs -> In (Table h rows) bs ->
  split_unescaped (render_row h) = h
  /\ Forall (fun r => split_unescaped (render_row r) = r
                     /\ Forall (fun c => no_breakb c = true) r
                     /\ List.length (split_unescaped (render_row r)) = List.length (split_unescaped (render_row h))) rows.
Proof.
  intros n bs h rows Hmd Hin.
  pose proof (md_rows_width_lemma n bs h rows Hmd Hin) as Hw.
  rewrite md_is_blocks in Hmd. injection Hmd as <-.
  pose proof (esc_blocks n) as He. rewrite Forall_forall in He. specialize (He _ Hin).
  destruct He as [[raw ->] Hh].
  assert (Eh : split_unescaped (render_row h) = h) by now apply split_render.
  split; [exact Eh|].
  apply Forall_forall. intros r Hr. apply in_map_iff in Hr as [r0 [<- Hr0]].
  destruct (escaped_row_roundtrip r0) as [E B]. split; [exact E|]. split; [exact B|].
  rewrite E, Eh. rewrite Forall_forall in Hw. apply Hw. apply in_map_iff. now exists r0.
Qed.
