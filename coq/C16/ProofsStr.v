(* C16 — the String() renderings list every child entity. *)
From Coq Require Import ZArith List String Bool.
From Acme.C16 Require Import Model ModelStr.
Import ListNotations.
Local Open Scope list_scope.

Definition name_line (t : nat) (e : sentity) : string :=
  String.append (tabs t) (String.append "name: " (e_name e)).

Lemma name_in_entity : forall t e, In (name_line t e) (entity_lines t e).
Proof. intros. unfold entity_lines. apply in_or_app. left. right. left. reflexivity. Qed.

Lemma incl_app_l : forall {A} (l1 l2 : list A), incl l1 (l1 ++ l2).
Proof. intros A l1 l2 x H. apply in_or_app. now left. Qed.
Lemma incl_app_r : forall {A} (l1 l2 : list A), incl l2 (l1 ++ l2).
Proof. intros A l1 l2 x H. apply in_or_app. now right. Qed.
Lemma incl_flat_map_elem : forall {A B} (f : A -> list B) l x, In x l -> incl (f x) (flat_map f l).
Proof. intros A B f l x Hin y Hy. apply in_flat_map. now exists x. Qed.

(* ------------------------------------------------------------------ signals *)
Fixpoint group_lines (t : nat) (g : list ssig) : list string :=
  match g with [] => [] | x :: r => sig_lines (S t) x ++ [""%string] ++ group_lines t r end.
Fixpoint groups_lines (t : nat) (gid : Z) (gs : list (list ssig)) : list string :=
  match gs with
  | [] => []
  | g :: r => [String.append (tabs t) (String.append "group id: " (dec gid));
               String.append (tabs t) "multiplexed signals:"]
              ++ group_lines t g ++ groups_lines t (gid + 1) r
  end.

Lemma sig_lines_mux : forall t b groups,
  sig_lines t (StrMux b true groups) = sigbase_lines t b ++ groups_lines t 0 groups.
Proof.
  intros. cbn [sig_lines]. f_equal. generalize 0%Z as gid.
  induction groups as [|g r IH]; intro gid; [reflexivity|].
  cbn [groups_lines]. rewrite <- (IH (gid + 1)%Z).
  assert (E : group_lines t g =
              (fix sl (l : list ssig) : list string :=
                 match l with [] => [] | x :: r' => sig_lines (S t) x ++ [""%string] ++ sl r' end) g).
  { clear. induction g as [|x r' IHg]; [reflexivity|]. cbn [group_lines]. now rewrite IHg. }
  rewrite E. reflexivity.
Qed.

Lemma name_in_sigbase : forall t b, In (name_line t (sb_ent b)) (sigbase_lines t b).
Proof. intros. unfold sigbase_lines. apply in_or_app. left. apply name_in_entity. Qed.

Lemma name_in_sig : forall t s, In (name_line t (sb_ent (ssig_base s))) (sig_lines t s).
Proof.
  intros t s. destruct s as [b ty un|b en|b has groups]; cbn [sig_lines ssig_base];
    apply in_or_app; left; apply name_in_sigbase.
Qed.

Lemma incl_group_child : forall t g c, In c g -> incl (sig_lines (S t) c) (group_lines t g).
Proof.
  induction g as [|x r IH]; intros c Hin; [contradiction|]. cbn [group_lines].
  destruct Hin as [->|Hin]; [apply incl_app_l|].
  eapply incl_tran; [apply IH, Hin|]. eapply incl_tran; [apply incl_app_r|apply incl_app_r].
Qed.

Lemma incl_groups_child : forall t gs gid g c, In g gs -> In c g ->
  incl (sig_lines (S t) c) (groups_lines t gid gs).
Proof.
  induction gs as [|x r IH]; intros gid g c Hg Hc; [contradiction|]. cbn [groups_lines].
  destruct Hg as [->|Hg].
  - eapply incl_tran; [apply incl_group_child, Hc|].
    eapply incl_tran; [apply incl_app_l|apply incl_app_r].
  - eapply incl_tran; [eapply IH; eassumption|].
    eapply incl_tran; [apply incl_app_r|apply incl_app_r].
Qed.

Lemma incl_mux_child : forall t b groups g c, In g groups -> In c g ->
  incl (sig_lines (S t) c) (sig_lines t (StrMux b true groups)).
Proof.
  intros. rewrite sig_lines_mux. eapply incl_tran; [eapply incl_groups_child; eassumption|apply incl_app_r].
Qed.

(* a signal [c], rendered at indentation [t'], below the signal [s] rendered at [t] *)
Inductive below (t : nat) (s : ssig) : nat -> ssig -> Prop :=
| below_refl : below t s t s
| below_step : forall t' b groups g c,
    below t s t' (StrMux b true groups) -> In g groups -> In c g -> below t s (S t') c.

Lemma below_incl : forall t s t' c, below t s t' c -> incl (sig_lines t' c) (sig_lines t s).
Proof.
  induction 1 as [|t' b groups g c _ IH Hg Hc]; [apply incl_refl|].
  eapply incl_tran; [eapply incl_mux_child; eassumption|exact IH].
Qed.

(* the definitions a signal refers to *)
Lemma type_in_std : forall t b ty un, In (name_line (S t) (ty_ent ty)) (sig_lines t (StrStd b ty un)).
Proof.
  intros. cbn [sig_lines]. apply in_or_app. right. apply in_or_app. right. apply in_or_app. left.
  unfold type_lines. apply in_or_app. left. apply name_in_entity.
Qed.
Lemma unit_in_std : forall t b ty u, In (name_line (S t) (un_ent u)) (sig_lines t (StrStd b ty (Some u))).
Proof.
  intros. cbn [sig_lines]. apply in_or_app. right. apply in_or_app. right. apply in_or_app. right.
  right. unfold unit_lines. apply in_or_app. left. apply name_in_entity.
Qed.
Lemma enum_in_enum : forall t b en, In (name_line (S t) (en_ent en)) (sig_lines t (StrEnum b en)).
Proof.
  intros. cbn [sig_lines]. apply in_or_app. right. apply in_or_app. right.
  unfold enum_lines. apply in_or_app. left. apply name_in_entity.
Qed.
Lemma value_in_enum : forall t en v, In v (en_values en) ->
  In (name_line (S t) (va_ent v)) (enum_lines t en).
Proof.
  intros t en v Hin. unfold enum_lines. apply in_or_app. right. apply in_or_app. right.
  destruct (en_values en) as [|v0 r] eqn:E; [contradiction|]. rewrite <- E in *.
  apply in_or_app. right. apply in_or_app. left.
  apply in_flat_map. exists v. split; [assumption|]. apply in_or_app. left.
  unfold value_lines. apply in_or_app. left. apply name_in_entity.
Qed.

(* ------------------------------------------------------------------ messages, interfaces, buses, network *)
Lemma incl_msg_sig : forall t m s, In s (mg_sigs m) -> incl (sig_lines (S t) s) (msg_lines t m).
Proof.
  intros t m s Hin. unfold msg_lines.
  do 8 (eapply incl_tran; [|apply incl_app_r]).
  destruct (mg_sigs m) as [|s0 r] eqn:E; [contradiction|]. rewrite <- E in *.
  apply incl_tl. eapply incl_tran; [|apply (incl_flat_map_elem _ _ s Hin)]. apply incl_app_l.
Qed.

Lemma name_in_msg : forall t m, In (name_line t (mg_ent m)) (msg_lines t m).
Proof. intros. unfold msg_lines. apply in_or_app. left. apply name_in_entity. Qed.

Lemma incl_nif_sent : forall t x m, In m (ni_sent x) -> incl (msg_lines (S t) m) (nif_lines t x).
Proof.
  intros t x m Hin. unfold nif_lines.
  do 2 (eapply incl_tran; [|apply incl_app_r]).
  destruct (ni_sent x) as [|m0 r] eqn:E; [contradiction|]. rewrite <- E in *.
  apply incl_tl. eapply incl_tran; [|apply incl_app_l].
  eapply incl_tran; [|apply (incl_flat_map_elem _ _ m Hin)]. apply incl_app_l.
Qed.

Lemma incl_nif_received : forall t x m, ni_sent x <> [] -> In m (ni_received x) ->
  incl (msg_lines (S t) m) (nif_lines t x).
Proof.
  intros t x m Hs Hin. unfold nif_lines.
  do 2 (eapply incl_tran; [|apply incl_app_r]).
  destruct (ni_sent x) as [|m0 r] eqn:E; [contradiction|]. rewrite <- E in *.
  apply incl_tl. eapply incl_tran; [|apply incl_app_r]. apply incl_tl.
  eapply incl_tran; [|apply (incl_flat_map_elem _ _ m Hin)]. apply incl_app_l.
Qed.

Lemma node_in_nif : forall t x, In (name_line (S t) (nd_ent (ni_node x))) (nif_lines t x).
Proof.
  intros. unfold nif_lines. apply in_or_app. right. apply in_or_app. left.
  unfold node_lines. apply in_or_app. left. apply name_in_entity.
Qed.

Lemma incl_bus_nif : forall t b x, In x (bs_nifs b) -> incl (nif_lines (S t) x) (bus_lines t b).
Proof.
  intros t b x Hin. unfold bus_lines.
  do 3 (eapply incl_tran; [|apply incl_app_r]).
  destruct (bs_nifs b) as [|x0 r] eqn:E; [contradiction|]. rewrite <- E in *.
  apply incl_tl. eapply incl_tran; [|apply (incl_flat_map_elem _ _ x Hin)]. apply incl_app_l.
Qed.

Lemma builder_in_bus : forall t b, In (name_line t (bd_ent (bs_builder b))) (bus_lines t b).
Proof.
  intros. unfold bus_lines. apply in_or_app. right. apply in_or_app. right. apply in_or_app. left.
  unfold builder_lines. apply in_or_app. left. apply name_in_entity.
Qed.

Lemma name_in_bus : forall t b, In (name_line t (bs_ent b)) (bus_lines t b).
Proof. intros. unfold bus_lines. apply in_or_app. left. apply name_in_entity. Qed.

Lemma incl_net_bus : forall n b, In b (nw_buses n) -> incl (bus_lines 1 b) (net_lines n).
Proof.
  intros n b Hin. unfold net_lines. eapply incl_tran; [|apply incl_app_r].
  destruct (nw_buses n) as [|b0 r] eqn:E; [contradiction|]. rewrite <- E in *.
  apply incl_tl. eapply incl_tran; [|apply (incl_flat_map_elem _ _ b Hin)]. apply incl_app_l.
Qed.

(* every entity below the network occurs, by name, in Network.String() *)
Lemma net_lists_everything : forall n b x m s t' c,
  In b (nw_buses n) -> In x (bs_nifs b) -> In m (ni_sent x) -> In s (mg_sigs m) -> below 4 s t' c ->
  In (name_line 1 (bs_ent b)) (net_lines n)
  /\ In (name_line 1 (bd_ent (bs_builder b))) (net_lines n)
  /\ In (name_line 3 (nd_ent (ni_node x))) (net_lines n)
  /\ In (name_line 3 (mg_ent m)) (net_lines n)
  /\ In (name_line t' (sb_ent (ssig_base c))) (net_lines n).
Proof.
  intros n b x m s t' c Hb Hx Hm Hs Hc.
  pose proof (incl_net_bus n b Hb) as I1.
  pose proof (incl_bus_nif 1 b x Hx) as I2.
  pose proof (incl_nif_sent 2 x m Hm) as I3.
  pose proof (incl_msg_sig 3 m s Hs) as I4.
  pose proof (below_incl 4 s t' c Hc) as I5.
  repeat split.
  - apply I1, name_in_bus.
  - apply I1, builder_in_bus.
  - apply I1, I2, node_in_nif.
  - apply I1, I2, I3, name_in_msg.
  - apply I1, I2, I3, I4, I5, name_in_sig.
Qed.

(* every rendering is defined (structural recursion) and not empty *)
Lemma net_string_nonempty : forall n, net_string n <> ""%string.
Proof.
  intro n. unfold net_string, net_lines, entity_lines, render. cbn [app map String.concat].
  destruct (String.append _ _) eqn:E; [|discriminate].
  intro H. destruct (tabs 0); discriminate.
Qed.
