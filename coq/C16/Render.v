(* C16 — the rendered text of a table row and its reading (definitions only).
   [render_row] is what tablewriter prints for one record modulo padding: a pipe, then every cell
   between blanks followed by a pipe.  [split_unescaped] is how a Markdown reader (and the harness's
   back-parser) cuts such a line into cells: at every pipe that is not directly preceded by a
   backslash; the text before the first and after the last pipe is dropped and one blank is removed
   at each end of a cell. *)
From Coq Require Import List String Ascii Bool.
From Acme.C16 Require Import Model.
Import ListNotations.
Local Open Scope string_scope.

Definition backslash : ascii := "\"%char.

Definition render_row (cells : list string) : string :=
  "|" ++ String.concat "" (map (fun c => " " ++ c ++ " |") cells).

Fixpoint split_aux (acc : string) (prev_bs : bool) (s : string) : list string :=
  match s with
  | EmptyString => [acc]
  | String c r =>
      if andb (Ascii.eqb c pipe) (negb prev_bs) then acc :: split_aux "" false r
      else split_aux (acc ++ String c "") (Ascii.eqb c backslash) r
  end.

Fixpoint drop_last_space (s : string) : string :=
  match s with
  | EmptyString => EmptyString
  | String c EmptyString => if Ascii.eqb c space then EmptyString else s
  | String c r => String c (drop_last_space r)
  end.
Definition strip1 (s : string) : string :=
  drop_last_space (match s with String c r => if Ascii.eqb c space then r else s | EmptyString => s end).

Definition split_unescaped (s : string) : list string :=
  map strip1 (removelast (tl (split_aux "" false s))).

(* every pipe of the text is directly preceded by a backslash ([pb]: the previous character was one) *)
Fixpoint safeb (pb : bool) (s : string) : bool :=
  match s with
  | EmptyString => true
  | String c r => if Ascii.eqb c pipe then andb pb (safeb false r) else safeb (Ascii.eqb c backslash) r
  end.
(* no line break *)
Fixpoint no_breakb (s : string) : bool :=
  match s with
  | EmptyString => true
  | String c r => andb (negb (orb (Ascii.eqb c lf) (Ascii.eqb c cr))) (no_breakb r)
  end.
