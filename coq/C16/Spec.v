(* C16 — specification-level vocabulary used by the property statements (no proofs here). *)
From Coq Require Import ZArith List String Bool.
From Acme.C16 Require Import Model.
Import ListNotations.
Local Open Scope Z_scope.

(* texts of the headings of one level, in document order *)
Definition headings (k : nat) (bs : list block) : list string :=
  flat_map (fun b => match b with H k' t => if Nat.eqb k' k then [t] else [] | _ => [] end) bs.

(* the headings a CommonMark reader sees: the ATX headings, plus every paragraph line that is
   DIRECTLY followed by a line of dashes (a setext level-2 heading; with a blank line - LF - in
   between the dashes are a thematic break) *)
Fixpoint cm_headings (k : nat) (bs : list block) : list string :=
  match bs with
  | [] => []
  | H k' t :: r => if Nat.eqb k' k then t :: cm_headings k r else cm_headings k r
  | Para t :: ((Rule :: _) as r) => if Nat.eqb 2 k then t :: cm_headings k r else cm_headings k r
  | _ :: r => cm_headings k r
  end.
(* no paragraph is directly followed by a rule ([p]: the previous block was a paragraph) *)
Fixpoint sf (p : bool) (bs : list block) : bool :=
  match bs with
  | [] => true
  | Rule :: r => andb (negb p) (sf false r)
  | Para _ :: r => sf true r
  | _ :: r => sf false r
  end.
Definition setext_free (bs : list block) : bool := sf false bs.

Definition tables (bs : list block) : list block :=
  filter (fun b => match b with Table _ _ => true | _ => false end) bs.

(* one key per signal occurrence: a signal is met once at its own level and once more in every
   group of an enclosing multiplexer it belongs to; group sections are opened by a marker *)
Inductive key := KSig (name : string) (start size : Z) | KGroup (gid : Z).

Fixpoint occ (base : Z) (s : sig) : list key :=
  KSig (sig_name s) (sig_start base s) (sig_size s)
  :: match s with
     | SMux _ _ rel gc _ groups =>
         let base' := base + rel + calc_size (gc - 1) in
         (fix og (gid : Z) (gs : list (list sig)) : list key :=
            match gs with
            | [] => []
            | g :: r => (KGroup gid
                         :: (fix ol (l : list sig) : list key :=
                               match l with [] => [] | x :: r' => (occ base' x ++ ol r')%list end) g)
                        ++ og (gid + 1) r
            end%list) 0 groups
     | _ => []
     end.
Definition occs (base : Z) (l : list sig) : list key := flat_map (occ base) l.

(* a signal row starts with name, start bit and size and has the table's eight cells;
   a group marker row is the marker in every cell *)
Definition row_matches (r : list string) (k : key) : Prop :=
  match k with
  | KSig n s z => exists rest, r = n :: dec s :: dec z :: rest /\ List.length rest = 5%nat
  | KGroup g => r = marker_row g
  end.

(* the tree shares a definition by value: the same id must mean the same definition *)
Definition ids_consistent {A} (id : A -> N) (l : list A) : Prop :=
  forall a b, In a l -> In b l -> id a = id b -> a = b.
Definition well_formed (n : net) : Prop :=
  ids_consistent st_id (all_types n) /\ ids_consistent su_id (all_units n)
  /\ ids_consistent se_id (all_enums n).

(* exactly the referenced definitions, once each *)
Definition lists_exactly {A} (id : A -> N) (listed referenced : list A) : Prop :=
  NoDup (map id listed) /\ forall a, In a listed <-> In a referenced.
