(* Extraction of the executable C17 model for the correspondence check.
   ExtrOcamlBasic only: Z / positive / Q stay inductive; no Extract Constant of our own. *)
From Coq Require Import Extraction ExtrOcamlBasic ZArith QArith List.
From Acme.C17 Require Import Model.
Extraction Language OCaml.
Extraction "extracted/c17_model.ml" plain frame_bits bps bus_msgs calculate_bus_load session.
