(* Extraction of the executable Flocq binary64 model of C17 for the bit-exact correspondence check.
   ExtrOcamlBasic only: Z / positive stay inductive; no Extract Constant of our own. *)
From Coq Require Import Extraction ExtrOcamlBasic ZArith List.
From Flocq Require Import Core IEEE754.BinarySingleNaN IEEE754.Binary IEEE754.Bits.
From Acme.C17 Require Import Model FloatBound FloatExec.
Extraction Language OCaml.
Extraction "extracted/c17_float.ml" plain rate_x rates_order total_of_rates total_order load_of_total
  load_order pct_order pct_f bits64 finite64.
