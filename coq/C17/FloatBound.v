(* C17 — the float64 link, proved w.r.t. Flocq's IEEE-754 binary64 semantics.

   utils.go computes in float64.  This file models that computation operation by operation, in the
   order the Go code performs it (float64(int) conversions, one division and one multiplication per
   message, the running sum in the order the messages are visited, one division and one
   multiplication for the load), with Flocq's `binary64` operations in round-to-nearest-even, and
   proves that for inputs of the property's domain no operation overflows or produces a NaN and
   the result is within  2 (n+3) 2^-53 <= n 2^-50  (relative) of the exact rational load of
   Acme.C17.Model — the bound the correspondence check uses — for ANY visiting order (the theorem
   is about an arbitrary message list; the exact load does not depend on the order).
   Side conditions, explicit in `float_domain`: CAN 2.0A bus, 1 <= n <= 900 messages, sizes 0..8,
   cycle times 0..3600000 (0 = default), default 1..3600000, 1 <= baud < 2^53.
   Trusted: that Go's float64 arithmetic is IEEE-754 binary64 round-to-nearest-even and that
   int -> float64 conversion is exact below 2^53 (both are what the Go specification says).
   Structure: (A) real-valued shadow `rnd`, k-roundings predicate `approx`, error algebra;
   (B) Flocq binary64 operations equal the shadow (no overflow); (C) link to the Q model. *)
From Coq Require Import Reals ZArith QArith Qreals List Lia Lra.
From Flocq Require Import Core Relative Plus_error IEEE754.BinarySingleNaN IEEE754.Binary IEEE754.Bits.
From Acme.C17 Require Import Model Proofs.
Import ListNotations.
Open Scope R_scope.

(* ====================== (A) real-valued shadow and error algebra ====================== *)
Definition fexp64 : Z -> Z := FLT_exp (-1074) 53.
Definition rnd (x : R) : R := round radix2 fexp64 ZnearestE x.
Definition u : R := / 2 * bpow radix2 (-52).      (* 2^-53 *)
Definition fmt (x : R) : Prop := generic_format radix2 fexp64 x.

Global Instance prec53 : Prec_gt_0 53.
Proof. reflexivity. Qed.

Global Instance fexp64_valid : Valid_exp fexp64.
Proof. unfold fexp64. apply FLT_exp_valid. reflexivity. Qed.

Lemma u_pos : 0 < u.
Proof. unfold u. apply Rmult_lt_0_compat; [lra | apply bpow_gt_0]. Qed.

Lemma u_lt_1 : u < 1.
Proof.
  unfold u. assert (bpow radix2 (-52) <= bpow radix2 0) by (apply bpow_le; lia).
  change (bpow radix2 0) with 1 in H. lra.
Qed.

Lemma fmt_rnd : forall x, fmt (rnd x).
Proof. intros x. apply generic_format_round; typeclasses eauto. Qed.

Lemma fmt_bpow : forall e, (-1074 <= e)%Z -> fmt (bpow radix2 e).
Proof. intros e He. apply generic_format_bpow. unfold fexp64, FLT_exp. lia. Qed.

Lemma rnd_le : forall x e, (-1074 <= e)%Z -> x <= bpow radix2 e -> rnd x <= bpow radix2 e.
Proof. intros x e He H. apply round_le_generic; [typeclasses eauto.. | apply fmt_bpow; exact He | exact H]. Qed.

Lemma rnd_ge : forall x e, (-1074 <= e)%Z -> bpow radix2 e <= x -> bpow radix2 e <= rnd x.
Proof. intros x e He H. apply round_ge_generic; [typeclasses eauto.. | apply fmt_bpow; exact He | exact H]. Qed.

Lemma rnd_0 : rnd 0 = 0.
Proof. apply round_0. typeclasses eauto. Qed.

Lemma rnd_fmt : forall x, fmt x -> rnd x = x.
Proof. intros x H. apply round_generic; [typeclasses eauto | exact H]. Qed.

(* relative error of one rounding of a value in the normal range *)
Lemma rnd_rel : forall x, bpow radix2 (-1022) <= x -> exists e, Rabs e <= u /\ rnd x = x * (1 + e).
Proof.
  intros x Hx.
  destruct (relative_error_N_FLT_ex radix2 (-1074) 53 eq_refl (fun z => negb (Z.even z)) x) as [e [He1 He2]].
  - rewrite Rabs_pos_eq; [exact Hx|]. apply Rle_trans with (2 := Hx). apply bpow_ge_0.
  - exists e. split; [exact He1 | exact He2].
Qed.

(* relative error of a rounded addition of two floats (no underflow condition) *)
Lemma rnd_plus_rel : forall a b, fmt a -> fmt b -> exists e, Rabs e <= u /\ rnd (a + b) = (a + b) * (1 + e).
Proof.
  intros a b Ha Hb.
  destruct (FLT_plus_error_N_ex radix2 (-1074) 53 (fun z => negb (Z.even z)) a b Ha Hb) as [e [He1 He2]].
  exists e. split; [|exact He2].
  apply Rle_trans with (1 := He1). fold u. change (u_ro radix2 53) with u.
  assert (Hu := u_pos). apply Rle_trans with (u / 1); [|lra].
  unfold Rdiv. apply Rmult_le_compat_l; [lra|]. apply Rinv_le; lra.
Qed.

(* ---------- k roundings of a non-negative quantity ---------- *)
Definition approx (k : nat) (x y : R) : Prop := y * (1 - u) ^ k <= x <= y * (1 + u) ^ k.

Lemma one_minus_u : 0 < 1 - u < 1.
Proof. pose proof u_pos. pose proof u_lt_1. lra. Qed.

Lemma pow_1mu_pos : forall k, 0 < (1 - u) ^ k.
Proof. intros k. apply pow_lt. apply one_minus_u. Qed.

Lemma pow_1mu_anti : forall k k', (k <= k')%nat -> (1 - u) ^ k' <= (1 - u) ^ k.
Proof.
  intros k k' H. induction H as [|k' _ IH]; [lra|].
  simpl. pose proof one_minus_u. pose proof (pow_1mu_pos k'). nra.
Qed.

Lemma pow_1pu_mono : forall k k', (k <= k')%nat -> (1 + u) ^ k <= (1 + u) ^ k'.
Proof. intros k k' H. apply Rle_pow; [pose proof u_pos; lra | exact H]. Qed.

Lemma approx_refl : forall x, approx 0 x x.
Proof. intros x. unfold approx. simpl. lra. Qed.

Lemma approx_nonneg : forall k x y, 0 <= y -> approx k x y -> 0 <= x.
Proof. intros k x y Hy [H _]. apply Rle_trans with (2 := H). apply Rmult_le_pos; [exact Hy | apply Rlt_le, pow_1mu_pos]. Qed.

Lemma approx_weaken : forall k k' x y, (k <= k')%nat -> 0 <= y -> approx k x y -> approx k' x y.
Proof.
  intros k k' x y Hk Hy [H1 H2]. split.
  - apply Rle_trans with (2 := H1). apply Rmult_le_compat_l; [exact Hy | apply pow_1mu_anti; exact Hk].
  - apply Rle_trans with (1 := H2). apply Rmult_le_compat_l; [exact Hy | apply pow_1pu_mono; exact Hk].
Qed.

Lemma approx_scale : forall k x y c, 0 <= c -> approx k x y -> approx k (x * c) (y * c).
Proof. intros k x y c Hc [H1 H2]. unfold approx. split; nra. Qed.

Lemma approx_plus : forall k a a' b b', approx k a a' -> approx k b b' -> approx k (a + b) (a' + b').
Proof. intros k a a' b b' [H1 H2] [H3 H4]. unfold approx. split; lra. Qed.

Lemma approx_step : forall k x y e, 0 <= y -> approx k x y -> Rabs e <= u -> approx (S k) (x * (1 + e)) y.
Proof.
  intros k x y e Hy Hx He. pose proof (approx_nonneg _ _ _ Hy Hx) as Hx0.
  destruct Hx as [H1 H2]. apply Rabs_le_inv in He. pose proof one_minus_u. pose proof u_pos.
  assert (0 <= y * (1 - u) ^ k) by (apply Rmult_le_pos; [exact Hy | apply Rlt_le, pow_1mu_pos]).
  unfold approx. simpl. split.
  - apply Rle_trans with (x * (1 - u)); [nra|]. apply Rmult_le_compat_l; [exact Hx0 | lra].
  - apply Rle_trans with (x * (1 + u)); [apply Rmult_le_compat_l; [exact Hx0 | lra] | nra].
Qed.

(* Bernoulli-type bounds *)
Lemma pow_1pu_bound : forall k, INR k * u <= / 2 -> (1 + u) ^ k <= 1 + 2 * INR k * u.
Proof.
  induction k as [|k IH]; intros Hk; [simpl; lra|].
  rewrite S_INR in Hk. pose proof u_pos. pose proof (pos_INR k).
  assert (Hk' : INR k * u <= / 2) by nra. specialize (IH Hk').
  rewrite S_INR. simpl pow.
  apply Rle_trans with ((1 + u) * (1 + 2 * INR k * u)); [apply Rmult_le_compat_l; lra|]. nra.
Qed.

Lemma pow_1mu_bound : forall k, 1 - INR k * u <= (1 - u) ^ k.
Proof.
  induction k as [|k IH]; [simpl; lra|].
  rewrite S_INR. simpl pow. pose proof one_minus_u. pose proof u_pos. pose proof (pos_INR k).
  pose proof (pow_1mu_pos k).
  destruct (Rle_dec (1 - INR k * u) 0) as [Hn|Hp]; [nra|].
  apply Rle_trans with ((1 - u) * (1 - INR k * u)); [nra | apply Rmult_le_compat_l; lra].
Qed.

Lemma approx_abs : forall k x y, 0 <= y -> INR k * u <= / 2 -> approx k x y -> Rabs (x - y) <= 2 * INR k * u * y.
Proof.
  intros k x y Hy Hk [H1 H2]. pose proof (pow_1pu_bound k Hk). pose proof (pow_1mu_bound k).
  pose proof u_pos. pose proof (pos_INR k).
  apply Rabs_le. split; nra.
Qed.

(* ---------- the real-valued shadow of the float64 computation of utils.go ---------- *)
Definition bps_r (bits cycle : Z) : R := rnd (rnd (IZR bits / IZR cycle) * 1000).
Definition bps_x (bits cycle : Z) : R := IZR bits / IZR cycle * 1000.
Definition sum_r (ts : list R) (acc : R) : R := fold_left (fun a t => rnd (a + t)) ts acc.
Definition load_r (ts : list R) (baud : Z) : R := rnd (rnd (sum_r ts 0 / IZR baud) * 100).
Definition sum_x (ts : list R) : R := fold_right Rplus 0 ts.

Definition ok_msg (m : Z * Z) : Prop := (1 <= fst m <= 256)%Z /\ (1 <= snd m <= 3600000)%Z.

Lemma bps_r_spec : forall bits cycle, ok_msg (bits, cycle) ->
  approx 2 (bps_r bits cycle) (bps_x bits cycle)
  /\ fmt (bps_r bits cycle)
  /\ bpow radix2 (-13) <= bps_r bits cycle <= bpow radix2 18
  /\ bpow radix2 (-22) <= rnd (IZR bits / IZR cycle) <= bpow radix2 8
  /\ 0 < bps_x bits cycle.
Proof.
  intros bits cycle [[Hb1 Hb2] [Hc1 Hc2]]. cbn [fst snd] in *.
  apply IZR_le in Hb1, Hb2, Hc1, Hc2.
  set (b := IZR bits) in *. set (c := IZR cycle) in *.
  assert (Hq1 : bpow radix2 (-22) <= b / c).
  { simpl bpow. apply Rle_trans with (1 / 3600000); [lra|].
    unfold Rdiv. apply Rmult_le_compat; [lra | apply Rlt_le, Rinv_0_lt_compat; lra | lra | apply Rinv_le; lra]. }
  assert (Hq2 : b / c <= bpow radix2 8).
  { simpl bpow. apply Rle_trans with (256 / 1); [|lra].
    unfold Rdiv. apply Rmult_le_compat; [lra | apply Rlt_le, Rinv_0_lt_compat; lra | lra | apply Rinv_le; lra]. }
  assert (Hq0 : 0 < b / c) by (apply Rlt_le_trans with (2 := Hq1); apply bpow_gt_0).
  assert (Hr1 := rnd_ge _ (-22)%Z ltac:(lia) Hq1).
  assert (Hr2 := rnd_le _ 8%Z ltac:(lia) Hq2).
  destruct (rnd_rel (b / c)) as [e1 [He1 Hd1]].
  { apply Rle_trans with (2 := Hq1). apply bpow_le. lia. }
  set (q := rnd (b / c)) in *.
  assert (Hm1 : bpow radix2 (-13) <= q * 1000).
  { apply Rle_trans with (bpow radix2 (-22) * 1000); [simpl bpow; lra | apply Rmult_le_compat_r; lra]. }
  assert (Hm2 : q * 1000 <= bpow radix2 18).
  { apply Rle_trans with (bpow radix2 8 * 1000); [apply Rmult_le_compat_r; lra | simpl bpow; lra]. }
  destruct (rnd_rel (q * 1000)) as [e2 [He2 Hd2]].
  { apply Rle_trans with (2 := Hm1). apply bpow_le. lia. }
  assert (Hx : 0 <= bps_x bits cycle) by (unfold bps_x; fold b c; lra).
  split; [|split; [apply fmt_rnd | split; [|split]]].
  - unfold bps_r. fold b c q. rewrite Hd2.
    apply approx_step; [exact Hx | | exact He2].
    unfold bps_x. fold b c. apply approx_scale; [lra|].
    rewrite Hd1. apply approx_step; [lra | apply approx_refl | exact He1].
  - unfold bps_r. fold b c q. split; [apply rnd_ge; [lia | exact Hm1] | apply rnd_le; [lia | exact Hm2]].
  - split; assumption.
  - unfold bps_x. fold b c. lra.
Qed.

Definition rates_r (ms : list (Z * Z)) : list R := map (fun m => bps_r (fst m) (snd m)) ms.
Definition rates_x (ms : list (Z * Z)) : list R := map (fun m => bps_x (fst m) (snd m)) ms.

Lemma sum_x_pos : forall ms, Forall ok_msg ms -> 0 <= sum_x (rates_x ms).
Proof.
  induction ms as [|[b c] r IH]; intros H; [simpl; lra|].
  inversion H as [|? ? Hm Hr]; subst. destruct (bps_r_spec b c Hm) as [_ [_ [_ [_ Hp]]]].
  specialize (IH Hr). cbn [rates_x map sum_x fold_right fst snd]. unfold sum_x, rates_x in IH. lra.
Qed.

Lemma sum_r_spec : forall ms acc accx k K,
  Forall ok_msg ms -> fmt acc -> 0 <= accx -> (2 <= k)%nat -> approx k acc accx ->
  bpow radix2 (-13) <= acc <= bpow radix2 (18 + Z.of_nat K) ->
  approx (k + length ms) (sum_r (rates_r ms) acc) (accx + sum_x (rates_x ms))
  /\ fmt (sum_r (rates_r ms) acc)
  /\ bpow radix2 (-13) <= sum_r (rates_r ms) acc <= bpow radix2 (18 + Z.of_nat (K + length ms)).
Proof.
  induction ms as [|[b c] r IH]; intros acc accx k K Hok Hf Hx Hk Ha Hr.
  - simpl. rewrite !Nat.add_0_r, Rplus_0_r. tauto.
  - inversion Hok as [|? ? Hm Hok']; subst.
    destruct (bps_r_spec b c Hm) as [Ht [Hft [[Ht1 Ht2] [_ Hxp]]]].
    cbn [rates_r rates_x map sum_r fold_left sum_x fold_right length fst snd].
    fold (rates_r r). fold (rates_x r). fold (sum_x (rates_x r)).
    set (t := bps_r b c) in *. set (x := bps_x b c) in *.
    fold (sum_r (rates_r r) (rnd (acc + t))).
    destruct (rnd_plus_rel acc t Hf Hft) as [e [He Hd]].
    assert (Hsum : approx k (acc + t) (accx + x)).
    { apply approx_plus; [exact Ha | apply approx_weaken with 2%nat; [exact Hk | lra | exact Ht]]. }
    assert (Ha' : approx (S k) (rnd (acc + t)) (accx + x)).
    { rewrite Hd. apply approx_step; [lra | exact Hsum | exact He]. }
    assert (Hlo : bpow radix2 (-13) <= acc + t).
    { assert (0 <= t) by (apply Rle_trans with (2 := Ht1); apply bpow_ge_0). lra. }
    assert (Hhi : acc + t <= bpow radix2 (18 + Z.of_nat (S K))).
    { replace (18 + Z.of_nat (S K))%Z with (18 + Z.of_nat K + 1)%Z by lia.
      rewrite bpow_plus. simpl (bpow radix2 1).
      assert (bpow radix2 18 <= bpow radix2 (18 + Z.of_nat K)) by (apply bpow_le; lia). lra. }
    destruct (IH (rnd (acc + t)) (accx + x) (S k) (S K) Hok' (fmt_rnd _) ltac:(lra) ltac:(lia) Ha') as [H1 [H2 H3]].
    { split; [apply rnd_ge; [lia | exact Hlo] | apply rnd_le; [lia | exact Hhi]]. }
    replace (k + S (length r))%nat with (S k + length r)%nat by lia.
    replace (K + S (length r))%nat with (S K + length r)%nat by lia.
    replace (accx + (x + sum_x (rates_x r))) with (accx + x + sum_x (rates_x r)) by ring.
    tauto.
Qed.

(* the whole computation: n >= 1 messages, n + 3 roundings *)
Lemma load_r_spec : forall ms baud,
  ms <> [] -> Forall ok_msg ms -> (length ms <= 900)%nat -> (1 <= baud < 2 ^ 53)%Z ->
  let exact := sum_x (rates_x ms) / IZR baud * 100 in
  approx (length ms + 3) (load_r (rates_r ms) baud) exact
  /\ 0 < exact
  /\ bpow radix2 (-13) <= sum_r (rates_r ms) 0 <= bpow radix2 (18 + Z.of_nat (length ms))
  /\ bpow radix2 (-66) <= rnd (sum_r (rates_r ms) 0 / IZR baud) <= bpow radix2 (18 + Z.of_nat (length ms))
  /\ load_r (rates_r ms) baud <= bpow radix2 (25 + Z.of_nat (length ms)).
Proof.
  intros ms baud Hne Hok Hn [Hb1 Hb2] exact.
  destruct ms as [|[b c] r]; [congruence|]. clear Hne.
  inversion Hok as [|? ? Hm Hok']; subst.
  destruct (bps_r_spec b c Hm) as [Ht [Hft [[Ht1 Ht2] [_ Hxp]]]].
  assert (Hfirst : sum_r (rates_r ((b, c) :: r)) 0 = sum_r (rates_r r) (bps_r b c)).
  { cbn [rates_r map sum_r fold_left fst snd]. rewrite Rplus_0_l, (rnd_fmt _ Hft). reflexivity. }
  destruct (sum_r_spec r (bps_r b c) (bps_x b c) 2 0 Hok' Hft ltac:(lra) ltac:(lia) Ht) as [Hs [Hfs [Hs1 Hs2]]].
  { rewrite Z.add_0_r. split; assumption. }
  rewrite <- Hfirst in Hs, Hfs, Hs1, Hs2.
  set (T := sum_r (rates_r ((b, c) :: r)) 0) in *.
  set (X := sum_x (rates_x ((b, c) :: r))).
  assert (HX : bps_x b c + sum_x (rates_x r) = X) by reflexivity. rewrite HX in Hs.
  assert (HXp : 0 < X).
  { unfold X. cbn [rates_x map sum_x fold_right fst snd]. pose proof (sum_x_pos r Hok') as H. unfold rates_x, sum_x in H. lra. }
  apply IZR_le in Hb1. apply IZR_lt in Hb2.
  set (B := IZR baud) in *.
  assert (HBp : 0 < / B) by (apply Rinv_0_lt_compat; lra).
  assert (HB1 : / B <= 1) by (rewrite <- Rinv_1; apply Rinv_le; lra).
  assert (HB2 : bpow radix2 (-53) <= / B).
  { simpl bpow. apply Rinv_le; [lra|]. change (Z.pow_pos 2 53) with (2 ^ 53)%Z. lra. }
  cbn [length] in *. set (n := S (length r)) in *.
  assert (Hq1 : bpow radix2 (-66) <= T / B).
  { replace (-66)%Z with (-13 + -53)%Z by lia. rewrite bpow_plus. unfold Rdiv.
    apply Rmult_le_compat; [apply bpow_ge_0 | apply bpow_ge_0 | exact Hs1 | exact HB2]. }
  assert (HT0 : 0 <= T) by (apply Rle_trans with (2 := Hs1); apply bpow_ge_0).
  assert (HTn : T <= bpow radix2 (18 + Z.of_nat n)).
  { apply Rle_trans with (1 := Hs2). apply bpow_le. unfold n. lia. }
  assert (Hq2 : T / B <= bpow radix2 (18 + Z.of_nat n)).
  { unfold Rdiv. apply Rle_trans with (T * 1); [apply Rmult_le_compat_l; assumption | lra]. }
  destruct (rnd_rel (T / B)) as [e1 [He1 Hd1]].
  { apply Rle_trans with (2 := Hq1). apply bpow_le. lia. }
  assert (Hr1 := rnd_ge _ (-66)%Z ltac:(lia) Hq1).
  assert (Hr2 := rnd_le _ (18 + Z.of_nat n)%Z ltac:(lia) Hq2).
  set (q := rnd (T / B)) in *.
  assert (Hm1 : bpow radix2 (-66) <= q * 100).
  { assert (0 <= bpow radix2 (-66)) by apply bpow_ge_0. nra. }
  assert (Hm2 : q * 100 <= bpow radix2 (25 + Z.of_nat n)).
  { replace (25 + Z.of_nat n)%Z with (7 + (18 + Z.of_nat n))%Z by lia. rewrite bpow_plus.
    simpl (bpow radix2 7). assert (0 <= q) by (apply Rle_trans with (2 := Hr1); apply bpow_ge_0). nra. }
  destruct (rnd_rel (q * 100)) as [e2 [He2 Hd2]].
  { apply Rle_trans with (2 := Hm1). apply bpow_le. lia. }
  assert (Hex : 0 < exact).
  { unfold exact. fold X B. unfold Rdiv. apply Rmult_lt_0_compat; [apply Rmult_lt_0_compat; assumption | lra]. }
  split; [|split; [exact Hex | split; [split; [exact Hs1|] | split; [split; assumption|]]]].
  - unfold load_r. fold T B q. rewrite Hd2.
    replace (n + 3)%nat with (S (S (2 + length r)))%nat by lia.
    apply approx_step; [lra | | exact He2].
    unfold exact. fold X B. apply approx_scale; [lra|].
    rewrite Hd1. apply approx_step; [unfold Rdiv; nra | | exact He1].
    unfold Rdiv. apply approx_scale; [lra | exact Hs].
  - exact HTn.
  - unfold load_r. fold T B q. apply rnd_le; [lia | exact Hm2].
Qed.

(* ====================== (B) Flocq binary64 operations equal the shadow ====================== *)
(* ---------- the float64 computation of utils.go, operation by operation ---------- *)
Definition f64 (z : Z) : binary64 := binary_normalize 53 1024 eq_refl eq_refl mode_NE z 0 false.   (* float64(int) *)
Definition bps_f (bits cycle : Z) : binary64 :=
  b64_mult mode_NE (b64_div mode_NE (f64 bits) (f64 cycle)) (f64 1000).          (* float64(msgBits) / float64(cycleTime) * 1000 *)
Definition sum_f (ts : list binary64) (acc : binary64) : binary64 :=
  fold_left (fun a t => b64_plus mode_NE a t) ts acc.                             (* totConsumedBitsPerSec += msgBitsPerSec *)
Definition load_f (ts : list binary64) (baud : Z) : binary64 :=
  b64_mult mode_NE (b64_div mode_NE (sum_f ts (f64 0)) (f64 baud)) (f64 100).     (* tot / float64(baudrate) * 100 *)

Definition R64 (x : binary64) : R := B2R 53 1024 x.
Definition fin (x : binary64) : Prop := is_finite 53 1024 x = true.

Lemma big : forall e, (e < 1024)%Z -> bpow radix2 e < bpow radix2 1024.
Proof. intros e H. apply bpow_lt. exact H. Qed.

Lemma f64_correct : forall z, (Z.abs z < 2 ^ 53)%Z -> R64 (f64 z) = IZR z /\ fin (f64 z).
Proof.
  intros z Hz. unfold f64, R64, fin.
  pose proof (binary_normalize_correct 53 1024 eq_refl eq_refl mode_NE z 0 false) as H.
  assert (HF : F2R (Float radix2 z 0) = IZR z) by (unfold F2R; simpl; ring).
  rewrite HF in H.
  assert (Hfmt : fmt (IZR z)).
  { apply generic_format_FLT. apply FLT_spec with (Float radix2 z 0); [symmetry; exact HF | exact Hz | simpl; lia]. }
  change (round radix2 (SpecFloat.fexp 53 1024) (round_mode mode_NE) (IZR z)) with (rnd (IZR z)) in H.
  rewrite (rnd_fmt _ Hfmt) in H.
  rewrite Rlt_bool_true in H.
  - destruct H as [H1 [H2 _]]. split; assumption.
  - apply Rlt_trans with (bpow radix2 53); [|apply big; lia].
    rewrite <- abs_IZR. simpl bpow. change (Z.pow_pos 2 53) with (2 ^ 53)%Z. apply IZR_lt. exact Hz.
Qed.

Lemma plus_ok : forall a b e, fin a -> fin b -> (e < 1024)%Z ->
  Rabs (rnd (R64 a + R64 b)) <= bpow radix2 e ->
  R64 (b64_plus mode_NE a b) = rnd (R64 a + R64 b) /\ fin (b64_plus mode_NE a b).
Proof.
  intros a b e Ha Hb He Hr. unfold R64, fin, b64_plus in *.
  pose proof (Bplus_correct 53 1024 eq_refl eq_refl binop_nan_pl64 mode_NE a b Ha Hb) as H.
  change (round radix2 (SpecFloat.fexp 53 1024) (round_mode mode_NE) (B2R 53 1024 a + B2R 53 1024 b))
    with (rnd (B2R 53 1024 a + B2R 53 1024 b)) in H.
  rewrite Rlt_bool_true in H; [|apply Rle_lt_trans with (1 := Hr); apply big; exact He].
  destruct H as [H1 [H2 _]]. split; assumption.
Qed.

Lemma div_ok : forall a b e, fin a -> R64 b <> 0 -> (e < 1024)%Z ->
  Rabs (rnd (R64 a / R64 b)) <= bpow radix2 e ->
  R64 (b64_div mode_NE a b) = rnd (R64 a / R64 b) /\ fin (b64_div mode_NE a b).
Proof.
  intros a b e Ha Hb He Hr. unfold R64, fin, b64_div in *.
  pose proof (Bdiv_correct 53 1024 eq_refl eq_refl binop_nan_pl64 mode_NE a b Hb) as H.
  change (round radix2 (SpecFloat.fexp 53 1024) (round_mode mode_NE) (B2R 53 1024 a / B2R 53 1024 b))
    with (rnd (B2R 53 1024 a / B2R 53 1024 b)) in H.
  rewrite Rlt_bool_true in H; [|apply Rle_lt_trans with (1 := Hr); apply big; exact He].
  destruct H as [H1 [H2 _]]. split; [exact H1 | rewrite H2; exact Ha].
Qed.

Lemma mult_ok : forall a b e, fin a -> fin b -> (e < 1024)%Z ->
  Rabs (rnd (R64 a * R64 b)) <= bpow radix2 e ->
  R64 (b64_mult mode_NE a b) = rnd (R64 a * R64 b) /\ fin (b64_mult mode_NE a b).
Proof.
  intros a b e Ha Hb He Hr. unfold R64, fin, b64_mult in *.
  pose proof (Bmult_correct 53 1024 eq_refl eq_refl binop_nan_pl64 mode_NE a b) as H.
  change (round radix2 (SpecFloat.fexp 53 1024) (round_mode mode_NE) (B2R 53 1024 a * B2R 53 1024 b))
    with (rnd (B2R 53 1024 a * B2R 53 1024 b)) in H.
  rewrite Rlt_bool_true in H; [|apply Rle_lt_trans with (1 := Hr); apply big; exact He].
  destruct H as [H1 [H2 _]]. split; [exact H1 | rewrite H2, Ha, Hb; reflexivity].
Qed.

Lemma abs_le_of_range : forall x lo hi, 0 <= lo -> lo <= x <= hi -> Rabs x <= hi.
Proof. intros x lo hi Hlo [H1 H2]. rewrite Rabs_pos_eq; lra. Qed.

Lemma bps_f_correct : forall bits cycle, ok_msg (bits, cycle) ->
  R64 (bps_f bits cycle) = bps_r bits cycle /\ fin (bps_f bits cycle).
Proof.
  intros bits cycle Hm. destruct (bps_r_spec bits cycle Hm) as [_ [_ [Hr [Hq _]]]].
  destruct Hm as [[Hb1 Hb2] [Hc1 Hc2]]. cbn [fst snd] in *.
  destruct (f64_correct bits ltac:(lia)) as [Eb Fb].
  destruct (f64_correct cycle ltac:(lia)) as [Ec Fc].
  destruct (f64_correct 1000 ltac:(lia)) as [Ek Fk].
  destruct (div_ok (f64 bits) (f64 cycle) 8 Fb) as [Ed Fd].
  - rewrite Ec. apply IZR_neq. lia.
  - lia.
  - rewrite Eb, Ec. apply abs_le_of_range with (bpow radix2 (-22)); [apply bpow_ge_0 | exact Hq].
  - rewrite Eb, Ec in Ed.
    destruct (mult_ok (b64_div mode_NE (f64 bits) (f64 cycle)) (f64 1000) 18 Fd Fk ltac:(lia)) as [Em Fm].
    + rewrite Ed, Ek. apply abs_le_of_range with (bpow radix2 (-13)); [apply bpow_ge_0 | exact Hr].
    + rewrite Ed, Ek in Em. split; [exact Em | exact Fm].
Qed.

Definition rates_f (ms : list (Z * Z)) : list binary64 := map (fun m => bps_f (fst m) (snd m)) ms.

Lemma rnd_nonneg : forall x, 0 <= x -> 0 <= rnd x.
Proof. intros x H. rewrite <- rnd_0. apply round_le; [typeclasses eauto.. | exact H]. Qed.

Lemma sum_f_correct : forall ms acc K,
  Forall ok_msg ms -> fin acc -> 0 <= R64 acc <= bpow radix2 (18 + Z.of_nat K) ->
  (K + length ms <= 1000)%nat ->
  R64 (sum_f (rates_f ms) acc) = sum_r (rates_r ms) (R64 acc) /\ fin (sum_f (rates_f ms) acc).
Proof.
  induction ms as [|[b c] r IH]; intros acc K Hok Hf [Ha1 Ha2] HK.
  - simpl. split; [reflexivity | exact Hf].
  - inversion Hok as [|? ? Hm Hok']; subst.
    destruct (bps_f_correct b c Hm) as [Et Ft].
    destruct (bps_r_spec b c Hm) as [_ [_ [[Ht1 Ht2] _]]].
    cbn [rates_f rates_r map sum_f sum_r fold_left fst snd length] in *.
    fold (rates_f r). fold (rates_r r).
    fold (sum_f (rates_f r) (b64_plus mode_NE acc (bps_f b c))).
    fold (sum_r (rates_r r) (rnd (R64 acc + bps_r b c))).
    assert (Ht0 : 0 <= bps_r b c) by (apply Rle_trans with (2 := Ht1); apply bpow_ge_0).
    assert (Hhi : R64 acc + bps_r b c <= bpow radix2 (18 + Z.of_nat (S K))).
    { replace (18 + Z.of_nat (S K))%Z with (18 + Z.of_nat K + 1)%Z by lia.
      rewrite bpow_plus. simpl (bpow radix2 1).
      assert (bpow radix2 18 <= bpow radix2 (18 + Z.of_nat K)) by (apply bpow_le; lia). lra. }
    assert (Hr0 : 0 <= rnd (R64 acc + bps_r b c)) by (apply rnd_nonneg; lra).
    assert (Hr1 : rnd (R64 acc + bps_r b c) <= bpow radix2 (18 + Z.of_nat (S K))) by (apply rnd_le; [lia | exact Hhi]).
    destruct (plus_ok acc (bps_f b c) (18 + Z.of_nat (S K)) Hf Ft ltac:(lia)) as [Ep Fp].
    + rewrite Et. rewrite Rabs_pos_eq; assumption.
    + rewrite Et in Ep.
      destruct (IH (b64_plus mode_NE acc (bps_f b c)) (S K) Hok' Fp) as [E F].
      * rewrite Ep. split; assumption.
      * lia.
      * rewrite E, Ep. split; [reflexivity | exact F].
Qed.

Lemma load_f_correct : forall ms baud,
  ms <> [] -> Forall ok_msg ms -> (length ms <= 900)%nat -> (1 <= baud < 2 ^ 53)%Z ->
  R64 (load_f (rates_f ms) baud) = load_r (rates_r ms) baud /\ fin (load_f (rates_f ms) baud).
Proof.
  intros ms baud Hne Hok Hn Hb.
  destruct (load_r_spec ms baud Hne Hok Hn Hb) as [_ [_ [HT [Hq HL]]]].
  destruct (f64_correct 0 ltac:(lia)) as [E0 F0].
  destruct (f64_correct baud ltac:(lia)) as [EB FB].
  destruct (f64_correct 100 ltac:(lia)) as [Eh Fh].
  destruct (sum_f_correct ms (f64 0) 0 Hok F0) as [ES FS].
  - rewrite E0. split; [lra | apply bpow_ge_0].
  - lia.
  - rewrite E0 in ES. unfold load_f, load_r.
    destruct (div_ok (sum_f (rates_f ms) (f64 0)) (f64 baud) (18 + Z.of_nat (length ms)) FS) as [Ed Fd].
    + rewrite EB. apply IZR_neq. lia.
    + lia.
    + rewrite ES, EB. apply abs_le_of_range with (bpow radix2 (-66)); [apply bpow_ge_0 | exact Hq].
    + rewrite ES, EB in Ed.
      destruct (mult_ok (b64_div mode_NE (sum_f (rates_f ms) (f64 0)) (f64 baud)) (f64 100) (25 + Z.of_nat (length ms)) Fd Fh ltac:(lia)) as [Em Fm].
      * rewrite Ed, Eh. unfold load_r in HL. rewrite Rabs_pos_eq; [exact HL|].
        apply rnd_nonneg. apply Rmult_le_pos; [|lra].
        apply Rle_trans with (2 := proj1 Hq). apply bpow_ge_0.
      * rewrite Ed, Eh in Em. split; [exact Em | exact Fm].
Qed.

(* ---------- the bound ---------- *)
Theorem load_float_close_R : forall ms baud,
  ms <> [] -> Forall ok_msg ms -> (length ms <= 900)%nat -> (1 <= baud < 2 ^ 53)%Z ->
  let exact := sum_x (rates_x ms) / IZR baud * 100 in
  fin (load_f (rates_f ms) baud)
  /\ Rabs (R64 (load_f (rates_f ms) baud) - exact) <= 2 * INR (length ms + 3) * u * exact
  /\ 2 * INR (length ms + 3) * u <= INR (length ms) * bpow radix2 (-50).
Proof.
  intros ms baud Hne Hok Hn Hb exact.
  destruct (load_f_correct ms baud Hne Hok Hn Hb) as [E F].
  destruct (load_r_spec ms baud Hne Hok Hn Hb) as [Ha [Hp _]]. fold exact in Ha, Hp.
  assert (Hu : u = bpow radix2 (-53)) by (unfold u; simpl bpow; lra).
  assert (Hn3 : INR (length ms + 3) * u <= / 2).
  { rewrite Hu, plus_INR. simpl (INR 3). apply le_INR in Hn. simpl bpow.
    replace (INR 900) with 900 in Hn by (simpl; lra). nra. }
  split; [exact F | split].
  - rewrite E. apply approx_abs; [lra | exact Hn3 | exact Ha].
  - rewrite Hu, plus_INR. simpl (INR 3).
    assert (1 <= INR (length ms)).
    { destruct ms; [congruence|]. cbn [length]. rewrite S_INR. pose proof (pos_INR (length ms)). lra. }
    simpl bpow. nra.
Qed.

(* ====================== (C) link to the exact rational model ====================== *)
Lemma Q2R_inject_Z : forall z, Q2R (inject_Z z) = IZR z.
Proof. intros z. unfold Q2R, inject_Z. simpl. field. Qed.

Lemma Q2R_qsum : forall l, Q2R (qsum l) = fold_right Rplus 0 (map Q2R l).
Proof.
  induction l as [|x r IH]; [unfold qsum, Q2R; simpl; lra|].
  rewrite qsum_cons, Q2R_plus, IH. reflexivity.
Qed.

(* any bus type value; for a type other than CAN 2.0A (frame constants 0) an empty message has 0
   bits and its rate is 0, outside the normal range of the analysis: sizes 1..8 there *)
Definition float_domain (b : bus) (def : Z) : Prop :=
  (1 <= b_baud b < 2 ^ 53)%Z /\ (1 <= def <= 3600000)%Z
  /\ bus_msgs b <> [] /\ (length (bus_msgs b) <= 900)%nat
  /\ Forall (fun m => (0 <= m_size m <= 8)%Z /\ (b_typ b <> 0%Z -> 1 <= m_size m)%Z
                      /\ (0 <= m_cycle m <= 3600000)%Z) (bus_msgs b).

(* what the Go code feeds to the float computation: frame bits and effective cycle per message *)
Definition float_inputs (b : bus) (def : Z) : list (Z * Z) :=
  map (fun m => (frame_bits (b_typ b) (m_size m), cycle_or_default (m_cycle m) def)) (bus_msgs b).

Definition load_float (b : bus) (def : Z) : binary64 := load_f (rates_f (float_inputs b def)) (b_baud b).

Lemma frame_bits_range : forall typ n, (0 <= n <= 8)%Z -> (typ <> 0%Z -> 1 <= n)%Z ->
  (1 <= frame_bits typ n <= 256)%Z.
Proof.
  intros typ n Hn Ht. destruct (Z.eq_dec typ 0) as [->|Hne].
  - rewrite frame_bits_spec_lemma by lia.
    pose proof (Z.div_le_lower_bound (34 + 8 * n - 1) 4 0 ltac:(lia) ltac:(lia)).
    pose proof (Z.div_le_upper_bound (34 + 8 * n - 1) 4 25 ltac:(lia) ltac:(lia)). lia.
  - specialize (Ht Hne). unfold frame_bits, stuffing_bits, header_bits, trailer_bits, header_stuffing_bits.
    replace (typ =? 0)%Z with false by (symmetry; apply Z.eqb_neq; exact Hne).
    rewrite Z.quot_div_nonneg by lia.
    pose proof (Z.div_le_lower_bound (0 + n * 8 - 1) 4 0 ltac:(lia) ltac:(lia)).
    pose proof (Z.div_le_upper_bound (0 + n * 8 - 1) 4 16 ltac:(lia) ltac:(lia)). lia.
Qed.

Lemma cycle_range : forall c def, (1 <= def <= 3600000)%Z -> (0 <= c <= 3600000)%Z ->
  (1 <= cycle_or_default c def <= 3600000)%Z.
Proof. intros c def Hd Hc. unfold cycle_or_default. destruct (c =? 0)%Z eqn:E; lia. Qed.

Lemma float_inputs_ok : forall b def, float_domain b def -> Forall ok_msg (float_inputs b def).
Proof.
  intros b def [_ [Hd [_ [_ Hm]]]]. unfold float_inputs. apply Forall_forall. intros p Hp.
  apply in_map_iff in Hp. destruct Hp as [m [<- Hin]]. rewrite Forall_forall in Hm.
  destruct (Hm m Hin) as [Hs [Ht Hc]]. unfold ok_msg. cbn [fst snd]. split.
  - apply frame_bits_range; assumption.
  - apply cycle_range; assumption.
Qed.

Lemma inject_Z_nonzero : forall z, z <> 0%Z -> ~ inject_Z z == 0.
Proof. intros z Hz E. unfold Qeq, inject_Z in E. simpl in E. lia. Qed.

Lemma exact_term_real : forall typ def m,
  (1 <= def <= 3600000)%Z -> (0 <= m_cycle m <= 3600000)%Z ->
  Q2R (bps typ def m) = bps_x (frame_bits typ (m_size m)) (cycle_or_default (m_cycle m) def).
Proof.
  intros typ def m Hd Hc. unfold bps, bps_x.
  assert (HC : ~ inject_Z (cycle_or_default (m_cycle m) def) == 0).
  { apply inject_Z_nonzero. unfold cycle_or_default. destruct (m_cycle m =? 0)%Z eqn:E; lia. }
  rewrite Q2R_mult, Q2R_div by exact HC. rewrite !Q2R_inject_Z. reflexivity.
Qed.

Lemma exact_load_real : forall b def load es,
  float_domain b def -> calculate_bus_load b def = BLOk load es ->
  Q2R load = sum_x (rates_x (float_inputs b def)) / IZR (b_baud b) * 100.
Proof.
  intros b def load es [Hb [Hd [_ [_ Hm]]]] H.
  apply load_is_sum_lemma in H; [|lia..].
  apply Qeq_eqR in H. rewrite H.
  rewrite Q2R_mult, Q2R_div by (apply inject_Z_nonzero; lia).
  rewrite !Q2R_inject_Z, Q2R_qsum. f_equal. f_equal.
  unfold float_inputs, rates_x, sum_x. rewrite !map_map. f_equal.
  apply map_ext_in. intros m Hin. cbn [fst snd].
  rewrite Forall_forall in Hm. destruct (Hm m Hin) as [_ [_ Hc]].
  apply (exact_term_real (b_typ b) def m Hd Hc).
Qed.

(* the float64 result is finite and within n * 2^-50 (relative) of the exact load *)
Theorem load_float_close_lemma : forall b def load es,
  float_domain b def -> calculate_bus_load b def = BLOk load es ->
  is_finite 53 1024 (load_float b def) = true
  /\ Rabs (B2R 53 1024 (load_float b def) - Q2R load)
     <= INR (length (bus_msgs b)) * bpow radix2 (-50) * Q2R load.
Proof.
  intros b def load es Hdom H.
  pose proof (float_inputs_ok b def Hdom) as Hok.
  pose proof (exact_load_real b def load es Hdom H) as HE.
  destruct Hdom as [Hb [Hd [Hne [Hn Hm]]]].
  assert (Hlen : length (float_inputs b def) = length (bus_msgs b)) by (unfold float_inputs; apply map_length).
  assert (Hne' : float_inputs b def <> []) by (intros E; apply Hne; apply length_zero_iff_nil; rewrite <- Hlen, E; reflexivity).
  destruct (load_float_close_R (float_inputs b def) (b_baud b) Hne' Hok ltac:(lia) Hb) as [F [H1 H2]].
  destruct (load_r_spec (float_inputs b def) (b_baud b) Hne' Hok ltac:(lia) Hb) as [_ [Hp _]].
  rewrite <- HE in H1, Hp. rewrite Hlen in H1, H2.
  split; [exact F|]. unfold load_float. fold (R64 (load_f (rates_f (float_inputs b def)) (b_baud b))).
  apply Rle_trans with (1 := H1). apply Rmult_le_compat_r; [lra | exact H2].
Qed.

(* ---------- an instance: the fixture of Proofs.v (three messages, 250 kbit/s, default 500 ms) ---------- *)
Example float_domain_witness : float_domain ex_bus 500.
Proof.
  unfold float_domain. split; [cbn; lia|]. split; [lia|].
  split; [discriminate|]. split; [cbn; lia|]. repeat constructor; cbn; lia.
Qed.

(* the modelled float64 computation yields exactly the bit pattern Go / any IEEE-754 machine gives
   for ((1320 + 13200) + 104) / 250000 * 100 *)
Example load_float_ex_bus_bits : bits_of_b64 (load_float ex_bus 500) = 4618272082522454517%Z.
Proof. vm_compute. reflexivity. Qed.

Example load_float_close_ex_bus :
  exists load es, calculate_bus_load ex_bus 500 = BLOk load es
  /\ Rabs (B2R 53 1024 (load_float ex_bus 500) - Q2R load) <= 3 * bpow radix2 (-50) * Q2R load.
Proof.
  destruct (calculate_bus_load ex_bus 500) as [load es|] eqn:E; [|vm_compute in E; discriminate].
  exists load, es. split; [reflexivity|].
  destruct (load_float_close_lemma ex_bus 500 load es float_domain_witness E) as [_ H].
  replace (INR (length (bus_msgs ex_bus))) with 3 in H by (cbn; lra).
  exact H.
Qed.

(* ====================== (D) per-message rates: bound, order under rounding ====================== *)
Definition rate_float (b : bus) (def : Z) (m : msg) : binary64 :=
  bps_f (frame_bits (b_typ b) (m_size m)) (cycle_or_default (m_cycle m) def).

Lemma msg_ok : forall b def m, float_domain b def -> In m (bus_msgs b) ->
  ok_msg (frame_bits (b_typ b) (m_size m), cycle_or_default (m_cycle m) def).
Proof.
  intros b def m Hdom Hin. pose proof (float_inputs_ok b def Hdom) as H.
  rewrite Forall_forall in H. apply H. unfold float_inputs. apply in_map_iff. exists m. split; [reflexivity | exact Hin].
Qed.

(* the float64 BitsPerSec of a message: finite, within 2^-51 (relative) of the exact rate *)
Theorem rate_float_close_lemma : forall b def m,
  float_domain b def -> In m (bus_msgs b) ->
  is_finite 53 1024 (rate_float b def m) = true
  /\ Rabs (B2R 53 1024 (rate_float b def m) - Q2R (bps (b_typ b) def m))
     <= bpow radix2 (-51) * Q2R (bps (b_typ b) def m).
Proof.
  intros b def m Hdom Hin. pose proof (msg_ok b def m Hdom Hin) as Hok.
  destruct (bps_f_correct _ _ Hok) as [E F]. destruct (bps_r_spec _ _ Hok) as [Ha [_ [_ [_ Hp]]]].
  destruct Hdom as [_ [Hd [_ [_ Hm]]]]. rewrite Forall_forall in Hm. destruct (Hm m Hin) as [_ [_ Hc]].
  rewrite (exact_term_real (b_typ b) def m Hd Hc).
  split; [exact F|]. unfold rate_float. fold (R64 (bps_f (frame_bits (b_typ b) (m_size m)) (cycle_or_default (m_cycle m) def))).
  rewrite E.
  assert (Hk : INR 2 * u <= / 2) by (unfold u; simpl; lra).
  pose proof (approx_abs 2 _ _ (Rlt_le _ _ Hp) Hk Ha) as H.
  replace (bpow radix2 (-51)) with (2 * INR 2 * u) by (unfold u; simpl; lra). exact H.
Qed.

Lemma rnd_mono : forall x y, x <= y -> rnd x <= rnd y.
Proof. intros x y H. apply round_le; [typeclasses eauto.. | exact H]. Qed.

(* rounding is monotone: a larger exact quotient never gives a smaller float64 rate *)
Lemma bps_r_mono : forall b c b' c', IZR b / IZR c <= IZR b' / IZR c' -> bps_r b c <= bps_r b' c'.
Proof. intros b c b' c' H. unfold bps_r. apply rnd_mono. apply Rmult_le_compat_r; [lra | apply rnd_mono; exact H]. Qed.

Theorem rate_float_order_lemma : forall b def m m',
  float_domain b def -> In m (bus_msgs b) -> In m' (bus_msgs b) ->
  (bps (b_typ b) def m <= bps (b_typ b) def m')%Q ->
  B2R 53 1024 (rate_float b def m) <= B2R 53 1024 (rate_float b def m').
Proof.
  intros b def m m' Hdom Hin Hin' Hle.
  destruct (bps_f_correct _ _ (msg_ok b def m Hdom Hin)) as [E _].
  destruct (bps_f_correct _ _ (msg_ok b def m' Hdom Hin')) as [E' _].
  unfold rate_float. unfold R64 in E, E'. rewrite E, E'.
  apply bps_r_mono. apply Qle_Rle in Hle.
  destruct Hdom as [_ [Hd [_ [_ Hm]]]]. rewrite Forall_forall in Hm.
  rewrite (exact_term_real _ def m Hd (proj2 (proj2 (Hm m Hin)))) in Hle.
  rewrite (exact_term_real _ def m' Hd (proj2 (proj2 (Hm m' Hin')))) in Hle.
  unfold bps_x in Hle. lra.
Qed.

(* the precise meaning of "ordered by non-increasing bits per second" for float64 figures: if an
   entry's float rate is strictly above another's, so is its exact rate; hence two entries in the
   "wrong" exact order can only be adjacent in a float-sorted list when their float rates are EQUAL
   (a tie created by rounding) *)
Theorem rate_float_strict_lemma : forall b def m m',
  float_domain b def -> In m (bus_msgs b) -> In m' (bus_msgs b) ->
  B2R 53 1024 (rate_float b def m') < B2R 53 1024 (rate_float b def m) ->
  (bps (b_typ b) def m' < bps (b_typ b) def m)%Q.
Proof.
  intros b def m m' Hdom Hin Hin' Hlt.
  destruct (Qlt_le_dec (bps (b_typ b) def m') (bps (b_typ b) def m)) as [H|H]; [exact H|].
  pose proof (rate_float_order_lemma b def m m' Hdom Hin Hin' H). lra.
Qed.

Lemma StronglySorted_weaken_in : forall (A : Type) (R R' : A -> A -> Prop) (l : list A),
  Sorted.StronglySorted R l -> (forall a b, In a l -> In b l -> R a b -> R' a b) -> Sorted.StronglySorted R' l.
Proof.
  intros A R R' l H. induction H as [|a l Hs IH Hf]; intros Himp; [constructor|].
  constructor.
  - apply IH. intros x y Hx Hy. apply Himp; right; assumption.
  - rewrite Forall_forall in *. intros x Hx. apply Himp; [left; reflexivity | right; exact Hx | apply Hf; exact Hx].
Qed.

(* the order the exact model returns is also non-increasing in the float64 rates: any float-sorted
   output of the implementation differs from it at most in the order of float-equal rates *)
Theorem model_order_float_sorted_lemma : forall b def load es,
  float_domain b def -> calculate_bus_load b def = BLOk load es ->
  Sorted.StronglySorted (fun a c => B2R 53 1024 (rate_float b def (e_msg c)) <= B2R 53 1024 (rate_float b def (e_msg a))) es.
Proof.
  intros b def load es Hdom H.
  assert (Hd : (0 < def)%Z) by (destruct Hdom as [_ [Hd _]]; lia).
  assert (Hb : b_baud b <> 0%Z) by (destruct Hdom as [Hb _]; lia).
  pose proof (entries_bps_lemma b def load es Hd Hb H) as He. rewrite Forall_forall in He.
  apply StronglySorted_weaken_in with (R := desc); [apply (sorted_desc_lemma b def load es H)|].
  intros a c Ha Hc Hdesc. unfold desc in Hdesc.
  destruct (He a Ha) as [Ea Ia]. destruct (He c Hc) as [Ec Ic].
  apply rate_float_order_lemma; try assumption. rewrite <- Ea, <- Ec. exact Hdesc.
Qed.

(* ====================== (E) monotonicity of the float64 load (same visiting order) ====================== *)
Lemma sum_r_mono : forall ts ts' acc acc', Forall2 Rle ts ts' -> acc <= acc' -> sum_r ts acc <= sum_r ts' acc'.
Proof.
  intros ts ts' acc acc' H. revert acc acc'. induction H as [|t t' r r' Ht _ IH]; intros acc acc' Ha; [exact Ha|].
  cbn [sum_r fold_left]. apply IH. apply rnd_mono. lra.
Qed.

Lemma load_r_mono : forall ts ts' baud, (1 <= baud)%Z -> Forall2 Rle ts ts' -> load_r ts baud <= load_r ts' baud.
Proof.
  intros ts ts' baud Hb H. unfold load_r. apply IZR_le in Hb.
  apply rnd_mono. apply Rmult_le_compat_r; [lra|]. apply rnd_mono.
  unfold Rdiv. apply Rmult_le_compat_r; [apply Rlt_le, Rinv_0_lt_compat; lra|].
  apply sum_r_mono; [exact H | lra].
Qed.

(* one message enlarged (same cycle) or its effective cycle shortened (same size), or unchanged *)
Definition grows (typ def : Z) (m m' : msg) : Prop :=
  ((m_size m <= m_size m')%Z /\ cycle_or_default (m_cycle m') def = cycle_or_default (m_cycle m) def)
  \/ (m_size m' = m_size m /\ (cycle_or_default (m_cycle m') def <= cycle_or_default (m_cycle m) def)%Z).

(* enlarging messages / shortening cycle times never decreases the FLOAT64 load, for the same
   visiting order (rounding is monotone, so no slack is needed) *)
Theorem load_float_monotone_lemma : forall b b' def,
  float_domain b def -> float_domain b' def -> b_typ b' = b_typ b -> b_baud b' = b_baud b ->
  Forall2 (grows (b_typ b) def) (bus_msgs b) (bus_msgs b') ->
  B2R 53 1024 (load_float b def) <= B2R 53 1024 (load_float b' def).
Proof.
  intros b b' def Hdom Hdom' Ht Hb Hg.
  pose proof (float_inputs_ok b def Hdom) as Hok. pose proof (float_inputs_ok b' def Hdom') as Hok'.
  assert (Hne : forall x d, float_domain x d -> float_inputs x d <> []).
  { intros x d [_ [_ [Hn _]]] E. apply Hn. unfold float_inputs in E. destruct (bus_msgs x); [reflexivity | discriminate]. }
  assert (Hlen : forall x d, float_domain x d -> (length (float_inputs x d) <= 900)%nat).
  { intros x d [_ [_ [_ [Hn _]]]]. unfold float_inputs. rewrite map_length. exact Hn. }
  destruct (load_f_correct (float_inputs b def) (b_baud b) (Hne _ _ Hdom) Hok (Hlen _ _ Hdom) (proj1 Hdom)) as [E _].
  destruct (load_f_correct (float_inputs b' def) (b_baud b') (Hne _ _ Hdom') Hok' (Hlen _ _ Hdom') (proj1 Hdom')) as [E' _].
  unfold load_float. unfold R64 in E, E'. rewrite E, E', Hb.
  apply load_r_mono; [destruct Hdom as [Hb1 _]; lia|].
  unfold float_inputs, rates_r. rewrite !map_map. cbn [fst snd]. rewrite Ht.
  destruct Hdom as [_ [Hd [_ [_ Hm]]]]. destruct Hdom' as [_ [_ [_ [_ Hm']]]]. rewrite Ht in Hm'.
  clear E E' Hok Hok' Hne Hlen.
  induction Hg as [|m m' r r' Hmm _ IH]; [constructor|].
  inversion Hm as [|? ? [Hs [Hs1 Hc]] Hmr]; subst. inversion Hm' as [|? ? [Hs' [Hs1' Hc']] Hmr']; subst.
  constructor; [|apply IH; assumption].
  apply bps_r_mono.
  pose proof (cycle_range _ def Hd Hc) as Hcr. pose proof (cycle_range _ def Hd Hc') as Hcr'.
  pose proof (frame_bits_range _ _ Hs Hs1) as Hbr. pose proof (frame_bits_range _ _ Hs' Hs1') as Hbr'.
  set (c := cycle_or_default (m_cycle m) def) in *. set (c' := cycle_or_default (m_cycle m') def) in *.
  assert (0 < IZR c) by (apply IZR_lt; lia). assert (0 < IZR c') by (apply IZR_lt; lia).
  destruct Hmm as [[Hsz Hcy] | [Hsz Hcy]].
  - fold c c' in Hcy. rewrite Hcy. unfold Rdiv. apply Rmult_le_compat_r; [apply Rlt_le, Rinv_0_lt_compat; assumption|].
    apply IZR_le. apply frame_bits_mono_any; lia.
  - rewrite Hsz. unfold Rdiv. apply Rmult_le_compat_l; [apply IZR_le; lia|].
    apply Rinv_le; [assumption | apply IZR_le; exact Hcy].
Qed.

(* ====================== (F) the float64 share (Percentage) ====================== *)
(* a multiplicative interval: y * lo <= x <= y * hi *)
Definition between (lo hi x y : R) : Prop := y * lo <= x <= y * hi.

Lemma between_of_approx : forall k x y, approx k x y -> between ((1 - u) ^ k) ((1 + u) ^ k) x y.
Proof. intros k x y H. exact H. Qed.

Lemma between_div : forall l1 h1 l2 h2 a a0 b b0,
  0 <= a0 -> 0 < b0 -> 0 <= l1 -> 0 <= h1 -> 0 < l2 -> 0 < h2 ->
  between l1 h1 a a0 -> between l2 h2 b b0 ->
  between (l1 / h2) (h1 / l2) (a / b) (a0 / b0).
Proof.
  intros l1 h1 l2 h2 a a0 b b0 Ha0 Hb0 Hl1 Hh1 Hl2 Hh2 [Ha1 Ha2] [Hb1 Hb2].
  assert (Hb : 0 < b) by (apply Rlt_le_trans with (2 := Hb1); apply Rmult_lt_0_compat; assumption).
  assert (Hbl : 0 < b0 * l2) by (apply Rmult_lt_0_compat; assumption).
  assert (Hbh : 0 < b0 * h2) by (apply Rmult_lt_0_compat; assumption).
  assert (Ha : 0 <= a) by (apply Rle_trans with (2 := Ha1); apply Rmult_le_pos; assumption).
  unfold between. split.
  - (* a0/b0 * (l1/h2) = (a0 l1) / (b0 h2) <= a / b *)
    replace (a0 / b0 * (l1 / h2)) with ((a0 * l1) / (b0 * h2)) by (field; lra).
    apply Rle_trans with (a / (b0 * h2)).
    + unfold Rdiv. apply Rmult_le_compat_r; [apply Rlt_le, Rinv_0_lt_compat; exact Hbh | exact Ha1].
    + unfold Rdiv. apply Rmult_le_compat_l; [exact Ha | apply Rinv_le; assumption].
  - replace (a0 / b0 * (h1 / l2)) with ((a0 * h1) / (b0 * l2)) by (field; lra).
    apply Rle_trans with (a / (b0 * l2)).
    + unfold Rdiv. apply Rmult_le_compat_l; [exact Ha | apply Rinv_le; assumption].
    + unfold Rdiv. apply Rmult_le_compat_r; [apply Rlt_le, Rinv_0_lt_compat; exact Hbl | exact Ha2].
Qed.

Lemma between_step : forall l h x y e, 0 <= y -> 0 <= l -> between l h x y -> Rabs e <= u ->
  between (l * (1 - u)) (h * (1 + u)) (x * (1 + e)) y.
Proof.
  intros l h x y e Hy Hl [H1 H2] He. apply Rabs_le_inv in He. pose proof one_minus_u. pose proof u_pos.
  assert (Hx : 0 <= x) by (apply Rle_trans with (2 := H1); apply Rmult_le_pos; assumption).
  unfold between. split.
  - apply Rle_trans with (x * (1 - u)); [nra | apply Rmult_le_compat_l; [exact Hx | lra]].
  - apply Rle_trans with (x * (1 + u)); [apply Rmult_le_compat_l; [exact Hx | lra] | nra].
Qed.

Lemma between_scale : forall l h x y c, 0 <= c -> between l h x y -> between l h (x * c) (y * c).
Proof. intros l h x y c Hc [H1 H2]. unfold between. split; nra. Qed.

Lemma between_weaken : forall l h l' h' x y, 0 <= y -> l' <= l -> h <= h' -> between l h x y -> between l' h' x y.
Proof. intros l h l' h' x y Hy Hl Hh [H1 H2]. unfold between. split; nra. Qed.

(* numeric bounds for k roundings, some of them in a denominator *)
Lemma inv_1pu_ge : forall k, (1 - u) ^ k <= / (1 + u) ^ k.
Proof.
  intros k. pose proof u_pos. pose proof one_minus_u.
  rewrite <- pow_inv. apply pow_incr. split; [lra|].
  apply Rmult_le_reg_r with (1 + u); [lra|]. rewrite Rinv_l by lra. nra.
Qed.

Lemma inv_1mu_ge : forall k, (1 + u) ^ k <= / (1 - u) ^ k.
Proof.
  intros k. pose proof u_pos. pose proof one_minus_u.
  rewrite <- pow_inv. apply pow_incr. split; [lra|].
  apply Rmult_le_reg_r with (1 - u); [lra|]. rewrite Rinv_l by lra. nra.
Qed.

Lemma inv_pow_1mu_bound : forall k, INR k * u <= / 2 -> / (1 - u) ^ k <= 1 + 2 * INR k * u.
Proof.
  intros k Hk. pose proof (pow_1mu_bound k). pose proof (pos_INR k). pose proof u_pos.
  assert (Hv0 : 0 <= INR k * u) by (apply Rmult_le_pos; lra).
  replace (2 * INR k * u) with (2 * (INR k * u)) by ring.
  set (v := INR k * u) in *.
  assert (Hpos : 0 < 1 - v) by lra.
  apply Rle_trans with (/ (1 - v)); [apply Rinv_le; assumption|].
  apply Rmult_le_reg_r with (1 - v); [exact Hpos|]. rewrite Rinv_l by lra. nra.
Qed.

Lemma mono4 : forall A B C d, 0 <= A -> 0 <= d -> B <= C -> A * B * d * d <= A * C * d * d.
Proof. intros A B C d HA Hd HBC. assert (0 <= A * d * d) by (apply Rmult_le_pos; [apply Rmult_le_pos|]; assumption). nra. Qed.

Lemma mono4b : forall A A' M d d', 0 <= A -> A <= A' -> 0 <= M -> 0 <= d -> d <= d' ->
  A * M * d * d <= A' * M * d' * d'.
Proof.
  intros A A' M d d' HA HAA HM Hd Hdd.
  apply Rle_trans with (A' * M * d * d).
  - assert (0 <= M * d * d) by (apply Rmult_le_pos; [apply Rmult_le_pos|]; assumption). nra.
  - assert (0 <= A' * M) by (apply Rmult_le_pos; lra). assert (d * d <= d' * d') by nra.
    replace (A' * M * d * d) with (A' * M * (d * d)) by ring. replace (A' * M * d' * d') with (A' * M * (d' * d')) by ring.
    apply Rmult_le_compat_l; assumption.
Qed.

(* the real-valued shadow of  Percentage = BitsPerSec / total * 100 *)
Definition pct_r (x t : R) : R := rnd (rnd (x / t) * 100).

Lemma pct_r_spec : forall ms baud b c,
  ms <> [] -> Forall ok_msg ms -> (length ms <= 900)%nat -> (1 <= baud < 2 ^ 53)%Z -> In (b, c) ms ->
  let T := sum_r (rates_r ms) 0 in
  let exact := bps_x b c / sum_x (rates_x ms) * 100 in
  between ((1 - u) ^ (length ms + 5)) (/ (1 - u) ^ (length ms + 5)) (pct_r (bps_r b c) T) exact
  /\ 0 < exact
  /\ bpow radix2 (-950) <= rnd (bps_r b c / T) <= bpow radix2 31
  /\ pct_r (bps_r b c) T <= bpow radix2 38
  /\ T <> 0.
Proof.
  intros ms baud b c Hne Hok Hn Hb Hin T exact.
  rewrite Forall_forall in Hok. pose proof (Hok _ Hin) as Hm. rewrite <- Forall_forall in Hok.
  destruct (bps_r_spec b c Hm) as [Hx [_ [[Hx1 Hx2] [_ Hxp]]]].
  (* the total: n + 1 roundings, as in load_r_spec *)
  assert (HT : approx (length ms + 1) T (sum_x (rates_x ms)) /\ bpow radix2 (-13) <= T <= bpow radix2 (18 + Z.of_nat (length ms)) /\ 0 < sum_x (rates_x ms)).
  { unfold T. clear Hin. destruct ms as [|[b1 c1] r]; [congruence|]. inversion Hok as [|? ? Hm1 Hok']; subst.
    destruct (bps_r_spec b1 c1 Hm1) as [Ht [Hft [[Ht1 Ht2] [_ Hxp1]]]].
    assert (Hfirst : sum_r (rates_r ((b1, c1) :: r)) 0 = sum_r (rates_r r) (bps_r b1 c1)).
    { cbn [rates_r map sum_r fold_left fst snd]. rewrite Rplus_0_l, (rnd_fmt _ Hft). reflexivity. }
    destruct (sum_r_spec r (bps_r b1 c1) (bps_x b1 c1) 2 0 Hok' Hft ltac:(lra) ltac:(lia) Ht) as [Hs [_ [Hs1 Hs2]]].
    { rewrite Z.add_0_r. split; assumption. }
    rewrite Hfirst. cbn [length]. split; [|split].
    - replace (S (length r) + 1)%nat with (2 + length r)%nat by lia. exact Hs.
    - split; [exact Hs1|]. apply Rle_trans with (1 := Hs2). apply bpow_le. lia.
    - cbn [rates_x map sum_x fold_right fst snd]. pose proof (sum_x_pos r Hok') as H. unfold rates_x, sum_x in H. lra. }
  destruct HT as [HTa [[HT1 HT2] HXp]].
  set (n := length ms) in *. set (X := sum_x (rates_x ms)) in *. set (x := bps_x b c) in *. set (xf := bps_r b c) in *.
  assert (HT0 : 0 < T) by (apply Rlt_le_trans with (2 := HT1); apply bpow_gt_0).
  assert (Hxf0 : 0 < xf) by (apply Rlt_le_trans with (2 := Hx1); apply bpow_gt_0).
  pose proof u_pos as Hu. pose proof one_minus_u as H1u.
  (* the quotient *)
  assert (Hq : between ((1 - u) ^ 2 / (1 + u) ^ (n + 1)) ((1 + u) ^ 2 / (1 - u) ^ (n + 1)) (xf / T) (x / X)).
  { apply between_div; try lra; try (apply Rlt_le, pow_lt; lra); try (apply pow_lt; lra).
    - apply between_of_approx. exact Hx.
    - apply between_of_approx. exact HTa. }
  assert (Hq1 : bpow radix2 (-950) <= xf / T).
  { apply Rle_trans with (bpow radix2 (-13) * / bpow radix2 (18 + Z.of_nat n)).
    - rewrite <- bpow_opp, <- bpow_plus. apply bpow_le. unfold n. lia.
    - unfold Rdiv. apply Rmult_le_compat; [apply bpow_ge_0 | apply Rlt_le, Rinv_0_lt_compat, bpow_gt_0 | exact Hx1 | apply Rinv_le; assumption]. }
  assert (Hq2 : xf / T <= bpow radix2 31).
  { replace 31%Z with (18 + 13)%Z by lia. rewrite bpow_plus.
    unfold Rdiv. apply Rmult_le_compat; [lra | apply Rlt_le, Rinv_0_lt_compat; exact HT0 | exact Hx2 |].
    replace (bpow radix2 13) with (/ bpow radix2 (-13)) by (rewrite <- bpow_opp; reflexivity).
    apply Rinv_le; [apply bpow_gt_0 | exact HT1]. }
  destruct (rnd_rel (xf / T)) as [e1 [He1 Hd1]].
  { apply Rle_trans with (2 := Hq1). apply bpow_le. lia. }
  assert (Hr1 := rnd_ge _ (-950)%Z ltac:(lia) Hq1). assert (Hr2 := rnd_le _ 31%Z ltac:(lia) Hq2).
  set (q := rnd (xf / T)) in *.
  assert (Hq0 : 0 <= q) by (apply Rle_trans with (2 := Hr1); apply bpow_ge_0).
  assert (Hm1 : bpow radix2 (-950) <= q * 100) by (assert (0 <= bpow radix2 (-950)) by apply bpow_ge_0; nra).
  assert (Hm2 : q * 100 <= bpow radix2 38).
  { replace 38%Z with (7 + 31)%Z by lia. rewrite bpow_plus. simpl (bpow radix2 7). nra. }
  destruct (rnd_rel (q * 100)) as [e2 [He2 Hd2]].
  { apply Rle_trans with (2 := Hm1). apply bpow_le. lia. }
  assert (Hex : 0 < exact).
  { unfold exact. fold x X. unfold Rdiv. apply Rmult_lt_0_compat; [apply Rmult_lt_0_compat; [exact Hxp | apply Rinv_0_lt_compat; exact HXp] | lra]. }
  assert (Hxx : 0 <= x / X) by (unfold Rdiv; apply Rmult_le_pos; [lra | apply Rlt_le, Rinv_0_lt_compat; exact HXp]).
  assert (Hlo0 : 0 <= (1 - u) ^ 2 / (1 + u) ^ (n + 1)).
  { unfold Rdiv. apply Rmult_le_pos; [apply Rlt_le, pow_lt; lra | apply Rlt_le, Rinv_0_lt_compat, pow_lt; lra]. }
  split; [|split; [exact Hex | split; [split; assumption | split; [|lra]]]].
  - (* between, then the numeric weakening *)
    unfold pct_r. fold q. rewrite Hd2.
    assert (Hfull : between ((1 - u) ^ 2 / (1 + u) ^ (n + 1) * (1 - u) * (1 - u)) ((1 + u) ^ 2 / (1 - u) ^ (n + 1) * (1 + u) * (1 + u)) (q * 100 * (1 + e2)) exact).
    { apply between_step; [lra | | | exact He2].
      - apply Rmult_le_pos; [exact Hlo0 | lra].
      - unfold exact. fold x X. apply between_scale; [lra|].
        rewrite Hd1. apply between_step; [exact Hxx | exact Hlo0 | exact Hq | exact He1]. }
    apply between_weaken with (4 := Hfull); [lra | |].
    + (* (1-u)^(n+5) <= (1-u)^2 / (1+u)^(n+1) * (1-u) * (1-u) *)
      replace (n + 5)%nat with (2 + (n + 1) + 1 + 1)%nat by lia. generalize (n + 1)%nat. intros m.
      rewrite !pow_add, !pow_1.
      unfold Rdiv. apply mono4; [apply Rlt_le, pow_1mu_pos | lra | apply inv_1pu_ge].
    + (* (1+u)^2 / (1-u)^(n+1) * (1+u) * (1+u) <= / (1-u)^(n+5) *)
      replace (n + 5)%nat with (2 + (n + 1) + 1 + 1)%nat by lia. generalize (n + 1)%nat. intros m.
      rewrite !pow_add, !pow_1, !Rinv_mult.
      unfold Rdiv. pose proof (inv_1mu_ge 2) as H2. pose proof (inv_1mu_ge 1) as H11. rewrite !pow_1 in H11.
      apply mono4b; try assumption; try lra.
      * apply Rlt_le, pow_lt; lra.
      * apply Rlt_le, Rinv_0_lt_compat, pow_1mu_pos.
  - unfold pct_r. fold q. apply rnd_le; [lia | exact Hm2].
Qed.

Definition pct_f (x t : binary64) : binary64 := b64_mult mode_NE (b64_div mode_NE x t) (f64 100).   (* BitsPerSec / total * 100 *)

Definition total_float (b : bus) (def : Z) : binary64 := sum_f (rates_f (float_inputs b def)) (f64 0).
Definition pct_float (b : bus) (def : Z) (m : msg) : binary64 := pct_f (rate_float b def m) (total_float b def).

Lemma total_real : forall b def, float_domain b def ->
  Q2R (qsum (map (bps (b_typ b) def) (bus_msgs b))) = sum_x (rates_x (float_inputs b def)).
Proof.
  intros b def [_ [Hd [_ [_ Hm]]]]. rewrite Q2R_qsum.
  unfold float_inputs, rates_x, sum_x. rewrite !map_map. f_equal.
  apply map_ext_in. intros m Hin. cbn [fst snd].
  rewrite Forall_forall in Hm. destruct (Hm m Hin) as [_ [_ Hc]].
  apply (exact_term_real (b_typ b) def m Hd Hc).
Qed.

(* the float64 Percentage of a message: finite, within 2 (n+5) 2^-53 (relative) of its exact share;
   for n >= 2 that is below the n 2^-50 the correspondence check uses (for n = 1 the float64 share
   is exactly 100) *)
Theorem pct_float_close_lemma : forall b def m,
  float_domain b def -> In m (bus_msgs b) ->
  let share := Q2R (bps (b_typ b) def m / qsum (map (bps (b_typ b) def) (bus_msgs b)) * inject_Z 100) in
  is_finite 53 1024 (pct_float b def m) = true
  /\ Rabs (B2R 53 1024 (pct_float b def m) - share) <= 2 * INR (length (bus_msgs b) + 5) * u * share
  /\ ((2 <= length (bus_msgs b))%nat -> 2 * INR (length (bus_msgs b) + 5) * u <= INR (length (bus_msgs b)) * bpow radix2 (-50)).
Proof.
  intros b def m Hdom Hin share.
  pose proof (float_inputs_ok b def Hdom) as Hok.
  pose proof (msg_ok b def m Hdom Hin) as Hmok.
  pose proof (total_real b def Hdom) as HX.
  assert (Hlen : length (float_inputs b def) = length (bus_msgs b)) by (unfold float_inputs; apply map_length).
  destruct Hdom as [Hb [Hd [Hne [Hn Hm]]]].
  assert (Hne' : float_inputs b def <> []) by (intros E; apply Hne; apply length_zero_iff_nil; rewrite <- Hlen, E; reflexivity).
  assert (Hin' : In (frame_bits (b_typ b) (m_size m), cycle_or_default (m_cycle m) def) (float_inputs b def)).
  { unfold float_inputs. apply in_map_iff. exists m. split; [reflexivity | exact Hin]. }
  destruct (pct_r_spec (float_inputs b def) (b_baud b) _ _ Hne' Hok ltac:(lia) Hb Hin') as [Hbt [Hpos [[Hq1 Hq2] [Hp38 HTne]]]].
  (* the share as a real expression *)
  assert (Hshare : share = bps_x (frame_bits (b_typ b) (m_size m)) (cycle_or_default (m_cycle m) def) / sum_x (rates_x (float_inputs b def)) * 100).
  { unfold share. rewrite Forall_forall in Hm. destruct (Hm m Hin) as [_ [_ Hc]].
    assert (HXp : 0 < sum_x (rates_x (float_inputs b def))).
    { destruct (load_r_spec (float_inputs b def) (b_baud b) Hne' Hok ltac:(lia) Hb) as [_ [Hp _]].
      assert (0 < IZR (b_baud b)) by (apply IZR_lt; lia).
      unfold Rdiv in Hp. assert (0 < / IZR (b_baud b)) by (apply Rinv_0_lt_compat; assumption).
      destruct (Rle_or_lt (sum_x (rates_x (float_inputs b def))) 0) as [Hle|Hlt]; [|exact Hlt]. nra. }
    assert (HQ : ~ qsum (map (bps (b_typ b) def) (bus_msgs b)) == 0).
    { intros E. apply Qeq_eqR in E. rewrite HX in E. change (Q2R 0) with (0 / 1) in E. lra. }
    rewrite Q2R_mult, Q2R_div by exact HQ. rewrite HX, Q2R_inject_Z, (exact_term_real _ def m Hd Hc). reflexivity. }
  rewrite <- Hshare in Hbt, Hpos.
  (* the binary64 side *)
  destruct (bps_f_correct _ _ Hmok) as [Ex Fx].
  destruct (f64_correct 0 ltac:(lia)) as [E0 F0]. destruct (f64_correct 100 ltac:(lia)) as [Eh Fh].
  destruct (sum_f_correct (float_inputs b def) (f64 0) 0 Hok F0) as [ES FS].
  { rewrite E0. split; [lra | apply bpow_ge_0]. }
  { lia. }
  rewrite E0 in ES.
  destruct (div_ok (rate_float b def m) (total_float b def) 31 Fx) as [Ed Fd].
  { unfold total_float. rewrite ES. exact HTne. }
  { lia. }
  { unfold rate_float, total_float. rewrite Ex, ES. apply abs_le_of_range with (bpow radix2 (-950)); [apply bpow_ge_0 | split; assumption]. }
  unfold rate_float, total_float in Ed. rewrite Ex, ES in Ed.
  destruct (mult_ok (b64_div mode_NE (rate_float b def m) (total_float b def)) (f64 100) 38 Fd Fh ltac:(lia)) as [Em Fm].
  { unfold rate_float, total_float. rewrite Ed, Eh. fold (pct_r (bps_r (frame_bits (b_typ b) (m_size m)) (cycle_or_default (m_cycle m) def)) (sum_r (rates_r (float_inputs b def)) 0)).
    rewrite Rabs_pos_eq; [exact Hp38|].
    unfold pct_r. apply rnd_nonneg. apply Rmult_le_pos; [|lra]. apply Rle_trans with (2 := Hq1). apply bpow_ge_0. }
  unfold rate_float, total_float in Em. rewrite Ed, Eh in Em.
  fold (pct_r (bps_r (frame_bits (b_typ b) (m_size m)) (cycle_or_default (m_cycle m) def)) (sum_r (rates_r (float_inputs b def)) 0)) in Em.
  split; [exact Fm | split].
  - unfold pct_float, pct_f. unfold R64 in Em. fold (rate_float b def m) (total_float b def) in Em. rewrite Em.
    rewrite Hlen in Hbt. set (k := (length (bus_msgs b) + 5)%nat) in *.
    assert (Hk : INR k * u <= / 2).
    { unfold k. rewrite plus_INR. simpl (INR 5). apply le_INR in Hn. replace (INR 900) with 900 in Hn by (simpl; lra).
      unfold u. simpl bpow. nra. }
    destruct Hbt as [H1 H2]. pose proof (pow_1mu_bound k). pose proof (inv_pow_1mu_bound k Hk).
    pose proof u_pos. pose proof (pos_INR k).
    apply Rabs_le. split; nra.
  - intros H2n. rewrite plus_INR. simpl (INR 5). apply le_INR in H2n. simpl (INR 2) in H2n.
    unfold u. simpl bpow. nra.
Qed.
