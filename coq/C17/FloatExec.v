(* C17 — executable wrappers around the Flocq binary64 model of FloatBound.v, for the bit-exact
   correspondence check (props/C17/driver).  Definitions only: no proofs, no axioms.
   The Go code visits the messages in map order, which is not observable; the wrappers therefore
   take the visiting order as an explicit list of messages.  For the identity order (bus_msgs b)
   they are load_float / rate_float / pct_float / total_float (FloatExecProofs.v). *)
From Coq Require Import ZArith List.
From Flocq Require Import Core IEEE754.BinarySingleNaN IEEE754.Binary IEEE754.Bits.
From Acme.C17 Require Import Model FloatBound.
Import ListNotations.
Open Scope Z_scope.

(* float64(msgBits) / float64(cycleTime) * 1000 of one message *)
Definition rate_x (typ def : Z) (m : msg) : binary64 :=
  bps_f (frame_bits typ (m_size m)) (cycle_or_default (m_cycle m) def).
Definition rates_order (typ def : Z) (order : list msg) : list binary64 := map (rate_x typ def) order.
(* totConsumedBitsPerSec after visiting the messages in the given order *)
Definition total_of_rates (ts : list binary64) : binary64 := sum_f ts (f64 0).
Definition total_order (typ def : Z) (order : list msg) : binary64 := total_of_rates (rates_order typ def order).
(* tot / float64(baudrate) * 100 *)
Definition load_of_total (t : binary64) (baud : Z) : binary64 :=
  b64_mult mode_NE (b64_div mode_NE t (f64 baud)) (f64 100).
Definition load_order (typ baud def : Z) (order : list msg) : binary64 :=
  load_of_total (total_order typ def order) baud.
(* BitsPerSec / tot * 100 *)
Definition pct_order (typ def : Z) (order : list msg) (m : msg) : binary64 :=
  pct_f (rate_x typ def m) (total_order typ def order).

(* observation of a binary64: its IEEE-754 bit pattern, and whether it is a finite number *)
Definition bits64 (x : binary64) : Z := bits_of_b64 x.
Definition finite64 (x : binary64) : bool := is_finite 53 1024 x.
