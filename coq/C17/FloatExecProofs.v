(* C17 — the executable wrappers of FloatExec.v are the float model of FloatBound.v for the
   identity visiting order. *)
From Coq Require Import ZArith List.
From Flocq Require Import Core IEEE754.BinarySingleNaN IEEE754.Binary IEEE754.Bits.
From Acme.C17 Require Import Model FloatBound FloatExec.
Import ListNotations.

Lemma rates_order_identity : forall b def,
  rates_order (b_typ b) def (bus_msgs b) = rates_f (float_inputs b def).
Proof.
  intros b def. unfold rates_order, rates_f, float_inputs. rewrite map_map. reflexivity.
Qed.

Lemma exec_rate_is_rate_float : forall b def m, rate_x (b_typ b) def m = rate_float b def m.
Proof. reflexivity. Qed.

Lemma exec_total_is_total_float : forall b def,
  total_order (b_typ b) def (bus_msgs b) = total_float b def.
Proof.
  intros b def. unfold total_order, total_of_rates, total_float. rewrite rates_order_identity. reflexivity.
Qed.

Lemma exec_load_is_load_float : forall b def,
  load_order (b_typ b) (b_baud b) def (bus_msgs b) = load_float b def.
Proof.
  intros b def. unfold load_order, load_of_total, total_order, total_of_rates, load_float, load_f.
  rewrite rates_order_identity. reflexivity.
Qed.

Lemma exec_pct_is_pct_float : forall b def m,
  pct_order (b_typ b) def (bus_msgs b) m = pct_float b def m.
Proof.
  intros b def m. unfold pct_order, pct_float. rewrite exec_total_is_total_float. reflexivity.
Qed.

Lemma exec_is_float_model : forall b def m,
  rate_x (b_typ b) def m = rate_float b def m
  /\ total_order (b_typ b) def (bus_msgs b) = total_float b def
  /\ load_order (b_typ b) (b_baud b) def (bus_msgs b) = load_float b def
  /\ pct_order (b_typ b) def (bus_msgs b) m = pct_float b def m.
Proof.
  intros b def m. split; [apply exec_rate_is_rate_float|].
  split; [apply exec_total_is_total_float|].
  split; [apply exec_load_is_load_float | apply exec_pct_is_pct_float].
Qed.
