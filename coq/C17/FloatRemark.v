(* C17 — remark over IEEE binary64 (Flocq): float64 addition is not associative, so the total
   that CalculateBusLoad accumulates in map order is determined only up to reassociation.  This is
   why the property is claimed on the exact model (Model.v) and the implementation's float64
   figures are compared with it within a bound instead of exactly.
   The three values are message rates of the model's domain (bits / cycle * 1000 in float64):
     a = 132/7*1000   (8 bytes every 7 ms)      0x40D26A4924924925
     b = 52/3*1000    (0 bytes every 3 ms)      0x40D0ED5555555555
     c = 92/9*1000    (4 bytes every 9 ms)      0x40C3F71C71C71C71                             *)
From Coq Require Import ZArith.
From Flocq Require Import IEEE754.BinarySingleNaN IEEE754.Binary IEEE754.Bits.
Open Scope Z_scope.

Definition f64 (bits : Z) : binary64 := b64_of_bits bits.
Definition add64 (x y : binary64) : binary64 := b64_plus mode_NE x y.

Definition rate_a : binary64 := f64 0x40D26A4924924925.
Definition rate_b : binary64 := f64 0x40D0ED5555555555.
Definition rate_c : binary64 := f64 0x40C3F71C71C71C71.

Definition sum_abc : Z := bits_of_b64 (add64 (add64 rate_a rate_b) rate_c).
Definition sum_cba : Z := bits_of_b64 (add64 (add64 rate_c rate_b) rate_a).

Lemma float_sum_order_matters_lemma : sum_abc <> sum_cba.
Proof. vm_compute. discriminate. Qed.

(* both results are within one unit in the last place of each other (adjacent bit patterns) *)
Lemma float_sum_orders_adjacent_lemma : sum_cba - sum_abc = 1.
Proof. vm_compute. reflexivity. Qed.

(* Not one of the property's obligations (coq/Properties/C17.v): a remark, compiled and gated with
   the rest, that explains why the implementation is compared with the exact model within a bound. *)
Theorem float_sum_order_matters : sum_abc <> sum_cba /\ sum_cba - sum_abc = 1.
Proof. exact (conj float_sum_order_matters_lemma float_sum_orders_adjacent_lemma). Qed.
