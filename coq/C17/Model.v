(* C17 — model of /repo/utils.go CalculateBusLoad over exact rationals (Q).

   The Go code computes in float64; this model computes the same expressions exactly (DESIGN §4
   C17): the property is claimed on the exact model and the implementation's float64 results,
   converted to exact rationals, are compared with it within a stated relative bound.
   Integer parts are exact Go: `int` division truncates toward zero (Z.quot), the frame-bit
   constants depend on the bus type (only BusTypeCAN2A = 0 is defined; any other value leaves
   them 0 as the Go `switch` does).  Go iterates `bus.nodeInts` and each interface's
   `sentMessages` in map order: the model takes the interfaces and their messages in the order
   given (an oracle order); the theorems hold for every order.  slices.SortFunc is an unstable
   sort: the model sorts by insertion, the theorems claim only order by rate and permutation.
   No proofs here. *)
From Coq Require Import ZArith QArith List Bool.
Import ListNotations.
Open Scope Z_scope.

(* everything else a message carries and CalculateBusLoad does not read (theorem
   load_ignores_delay): delay and start delay times, priority, send type, static CAN-ID, number of
   receivers and of signals (names, descriptions and attribute assignments are of the same kind) *)
Record msg_rest : Type := mkRest {
  r_delay : Z; r_start_delay : Z; r_priority : Z; r_send_type : Z;
  r_static_can_id : option Z; r_receivers : Z; r_signals : Z }.
Definition no_rest : msg_rest := mkRest 0 0 0 0 None 0 0.

Record msg : Type := mkMsg { m_key : Z; m_size : Z; m_cycle : Z; m_rest : msg_rest }.   (* key: harness handle *)
Definition plain (key size cycle : Z) : msg := mkMsg key size cycle no_rest.
Record bus : Type := mkBus { b_typ : Z; b_baud : Z; b_ifaces : list (list msg) }.

(* switch bus.typ { case BusTypeCAN2A: ... } *)
Definition header_bits (typ : Z) : Z := if typ =? 0 then 19 else 0.
Definition trailer_bits (typ : Z) : Z := if typ =? 0 then 25 else 0.
Definition header_stuffing_bits (typ : Z) : Z := if typ =? 0 then 34 else 0.

(* stuffingBits := (headerStuffingBits + tmpMsg.sizeByte*8 - 1) / 4 *)
Definition stuffing_bits (typ size : Z) : Z := Z.quot (header_stuffing_bits typ + size * 8 - 1) 4.
(* msgBits := tmpMsg.sizeByte*8 + headerBits + trailerBits + stuffingBits *)
Definition frame_bits (typ size : Z) : Z :=
  size * 8 + header_bits typ + trailer_bits typ + stuffing_bits typ size.

Definition cycle_or_default (cycle def : Z) : Z := if cycle =? 0 then def else cycle.

(* msgBitsPerSec := float64(msgBits) / float64(cycleTime) * 1000 *)
Definition bps (typ def : Z) (m : msg) : Q :=
  (inject_Z (frame_bits typ (m_size m)) / inject_Z (cycle_or_default (m_cycle m) def) * inject_Z 1000)%Q.

Record entry : Type := mkEntry { e_msg : msg; e_bps : Q; e_pct : Q }.

(* the nested range loops visit the messages interface by interface *)
Definition bus_msgs (b : bus) : list msg := concat (b_ifaces b).

(* first loop: append an entry per message, accumulate the total *)
Definition loads (typ def : Z) (msgs : list msg) : list entry :=
  map (fun m => mkEntry m (bps typ def m) 0%Q) msgs.
Definition total_bps (es : list entry) : Q := fold_left (fun t e => (t + e_bps e)%Q) es 0%Q.

(* second loop: Percentage = BitsPerSec / total * 100 *)
Definition with_pct (tot : Q) (es : list entry) : list entry :=
  map (fun e => mkEntry (e_msg e) (e_bps e) (e_bps e / tot * inject_Z 100)%Q) es.

(* sort by non-increasing BitsPerSec *)
Fixpoint insert_desc (e : entry) (l : list entry) : list entry :=
  match l with
  | [] => [e]
  | x :: r => if Qle_bool (e_bps e) (e_bps x) then x :: insert_desc e r else e :: x :: r
  end.
Definition sort_desc (l : list entry) : list entry := fold_right insert_desc [] l.

Inductive bl_error : Type := ErrIsNegative | ErrIsZero.     (* ArgumentError{Name: "defCycleTime"} *)
Inductive bl_result : Type :=
| BLOk (load : Q) (entries : list entry)
| BLErr (e : bl_error).

Definition calculate_bus_load (b : bus) (def : Z) : bl_result :=
  if def <? 0 then BLErr ErrIsNegative
  else if def =? 0 then BLErr ErrIsZero
  else if b_baud b =? 0 then BLOk 0%Q []
  else
    let es := loads (b_typ b) def (bus_msgs b) in
    let tot := total_bps es in
    BLOk (tot / inject_Z (b_baud b) * inject_Z 100)%Q (sort_desc (with_pct tot es)).

(* Several calls on the same bus: CalculateBusLoad takes the bus by pointer but only reads it, so
   the model of a sequence of calls is the same function applied to the same bus value once per
   default cycle time.  (That the Go code really mutates nothing observable is the correspondence
   check's job: every call of a session is compared with this function independently and the
   public state is snapshotted around every call.) *)
Definition session (b : bus) (defs : list Z) : list bl_result := map (calculate_bus_load b) defs.
