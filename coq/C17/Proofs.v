(* C17 — proofs about the exact-rational bus-load model (any number of interfaces / messages). *)
From Coq Require Import ZArith QArith Qfield List Bool Lia Permutation Sorted ZifyBool.
From Acme.C17 Require Import Model.
Import ListNotations.
Ltac Zify.zify_post_hook ::= Z.div_mod_to_equations.
Open Scope Q_scope.

Definition qsum (l : list Q) : Q := fold_right Qplus 0 l.

(* inputs of the property's domain: CAN 2.0A bus, sizes >= 0, cycle times >= 0 (0 = default) *)
Definition valid_msg (m : msg) : Prop := (0 <= m_size m)%Z /\ (0 <= m_cycle m)%Z.
Definition valid_bus (b : bus) : Prop := b_typ b = 0%Z /\ Forall valid_msg (bus_msgs b).

(* by non-increasing bits per second *)
Definition desc (a b : entry) : Prop := e_bps b <= e_bps a.

(* ---------- integer part ---------- *)
Lemma frame_bits_spec_lemma : forall n, (0 <= n)%Z ->
  frame_bits 0 n = (8 * n + 19 + 25 + (34 + 8 * n - 1) / 4)%Z.
Proof.
  intros n Hn. unfold frame_bits, stuffing_bits, header_bits, trailer_bits, header_stuffing_bits.
  change (0 =? 0)%Z with true. cbv iota.
  rewrite Z.quot_div_nonneg by lia.
  replace (34 + n * 8 - 1)%Z with (34 + 8 * n - 1)%Z by ring. ring.
Qed.

Lemma frame_bits_pos : forall n, (0 <= n)%Z -> (0 < frame_bits 0 n)%Z.
Proof. intros n Hn. rewrite frame_bits_spec_lemma by exact Hn. lia. Qed.

Lemma frame_bits_mono : forall n n', (0 <= n)%Z -> (n <= n')%Z -> (frame_bits 0 n <= frame_bits 0 n')%Z.
Proof. intros n n' Hn Hle. rewrite !frame_bits_spec_lemma by lia. lia. Qed.

Lemma frame_bits_strict_mono : forall n n', (0 <= n)%Z -> (n < n')%Z -> (frame_bits 0 n < frame_bits 0 n')%Z.
Proof. intros n n' Hn Hle. rewrite !frame_bits_spec_lemma by lia. lia. Qed.

(* any bus type value (for a type other than CAN 2.0A the three constants are 0) *)
Lemma frame_bits_mono_any : forall typ n n', (0 <= n)%Z -> (n <= n')%Z -> (frame_bits typ n <= frame_bits typ n')%Z.
Proof.
  intros typ n n' Hn Hle. unfold frame_bits, stuffing_bits.
  assert (H : (Z.quot (header_stuffing_bits typ + n * 8 - 1) 4 <= Z.quot (header_stuffing_bits typ + n' * 8 - 1) 4)%Z)
    by (apply Z.quot_le_mono; lia).
  lia.
Qed.

Lemma frame_bits_nonneg_any : forall typ n, (0 <= n)%Z -> (0 <= frame_bits typ n)%Z.
Proof.
  intros typ n Hn. unfold frame_bits, stuffing_bits, header_bits, trailer_bits, header_stuffing_bits.
  destruct (typ =? 0)%Z.
  - assert (0 <= Z.quot (34 + n * 8 - 1) 4)%Z by (apply Z.quot_pos; lia). lia.
  - assert (Z.quot (-1) 4 <= Z.quot (0 + n * 8 - 1) 4)%Z by (apply Z.quot_le_mono; lia).
    change (Z.quot (-1) 4) with 0%Z in H. lia.
Qed.

Lemma cycle_or_default_pos : forall c d, (0 <= c)%Z -> (0 < d)%Z -> (0 < cycle_or_default c d)%Z.
Proof. intros c d Hc Hd. unfold cycle_or_default. destruct (c =? 0)%Z eqn:E; lia. Qed.

(* ---------- Q helpers ---------- *)
Lemma inject_pos : forall a, (0 < a)%Z -> 0 < inject_Z a.
Proof. intros a Ha. unfold Qlt, inject_Z. cbn [Qnum Qden]. lia. Qed.

Lemma inject_nonneg : forall a, (0 <= a)%Z -> 0 <= inject_Z a.
Proof. intros a Ha. unfold Qle, inject_Z. cbn [Qnum Qden]. lia. Qed.

Lemma inject_le : forall a b, (a <= b)%Z -> inject_Z a <= inject_Z b.
Proof. intros a b H. rewrite <- Zle_Qle. exact H. Qed.

Lemma Qinv_le_contra : forall a b, 0 < a -> a <= b -> / b <= / a.
Proof.
  intros a b Ha Hab.
  assert (Hb : 0 < b) by (eapply Qlt_le_trans; eassumption).
  apply Qle_shift_inv_l; [exact Ha|].
  apply Qle_trans with (/ b * b).
  - apply Qmult_le_l; [apply Qinv_lt_0_compat; exact Hb | exact Hab].
  - rewrite Qmult_comm, Qmult_inv_r; [apply Qle_refl|].
    intros H. rewrite H in Hb. discriminate.
Qed.

Lemma qsum_nil : qsum [] = 0.
Proof. reflexivity. Qed.
Lemma qsum_cons : forall x l, qsum (x :: l) = x + qsum l.
Proof. reflexivity. Qed.

Lemma qsum_app : forall l1 l2, qsum (l1 ++ l2) == qsum l1 + qsum l2.
Proof.
  induction l1 as [|x r IH]; intros l2; cbn [app].
  - rewrite qsum_nil. ring.
  - rewrite !qsum_cons, IH. ring.
Qed.

Lemma qsum_perm : forall l l', Permutation l l' -> qsum l == qsum l'.
Proof.
  intros l l' H. induction H as [| x l l' _ IH | x y l | l l' l'' _ IH1 _ IH2].
  - reflexivity.
  - rewrite !qsum_cons, IH. reflexivity.
  - rewrite !qsum_cons. ring.
  - rewrite IH1. exact IH2.
Qed.

Lemma qsum_pos : forall l, l <> [] -> Forall (fun x => 0 < x) l -> 0 < qsum l.
Proof.
  induction l as [|x r IH]; intros Hne Hall; [congruence|].
  inversion Hall as [|? ? Hx Hr]; subst. rewrite qsum_cons.
  destruct r as [|y r'].
  - rewrite qsum_nil, Qplus_0_r. exact Hx.
  - assert (0 < qsum (y :: r')) by (apply IH; [congruence | exact Hr]).
    rewrite <- (Qplus_0_r 0). apply Qplus_lt_le_compat; [exact Hx | apply Qlt_le_weak; assumption].
Qed.

Lemma qsum_scale : forall (l : list Q) (t c : Q), qsum (map (fun x => x / t * c) l) == qsum l / t * c.
Proof.
  induction l as [|x r IH]; intros t c; cbn [map].
  - rewrite qsum_nil. unfold Qdiv. ring.
  - rewrite !qsum_cons, IH. unfold Qdiv. ring.
Qed.

(* ---------- the accumulation loop ---------- *)
Lemma fold_left_total : forall es a,
  fold_left (fun t e => t + e_bps e) es a == a + qsum (map e_bps es).
Proof.
  induction es as [|e r IH]; intros a; cbn [fold_left map].
  - rewrite qsum_nil. ring.
  - rewrite qsum_cons, IH. ring.
Qed.

Lemma total_bps_qsum : forall es, total_bps es == qsum (map e_bps es).
Proof. intros es. unfold total_bps. rewrite fold_left_total. ring. Qed.

Lemma loads_bps : forall typ def msgs, map e_bps (loads typ def msgs) = map (bps typ def) msgs.
Proof. intros. unfold loads. rewrite map_map. reflexivity. Qed.

Lemma loads_msgs : forall typ def msgs, map e_msg (loads typ def msgs) = msgs.
Proof. intros. unfold loads. rewrite map_map. cbn [e_msg]. apply map_id. Qed.

Lemma with_pct_msgs : forall t es, map e_msg (with_pct t es) = map e_msg es.
Proof. intros. unfold with_pct. rewrite map_map. reflexivity. Qed.

Lemma with_pct_bps : forall t es, map e_bps (with_pct t es) = map e_bps es.
Proof. intros. unfold with_pct. rewrite map_map. reflexivity. Qed.

Lemma with_pct_pct : forall t es,
  map e_pct (with_pct t es) = map (fun x => x / t * inject_Z 100) (map e_bps es).
Proof. intros. unfold with_pct. rewrite !map_map. reflexivity. Qed.

(* ---------- the sort ---------- *)
Lemma insert_desc_perm : forall e l, Permutation (insert_desc e l) (e :: l).
Proof.
  intros e l. induction l as [|x r IH]; cbn [insert_desc]; [apply Permutation_refl|].
  destruct (Qle_bool (e_bps e) (e_bps x)).
  - apply Permutation_trans with (x :: e :: r); [apply perm_skip; exact IH | apply perm_swap].
  - apply Permutation_refl.
Qed.

Lemma sort_desc_perm : forall l, Permutation (sort_desc l) l.
Proof.
  induction l as [|x r IH]; cbn [sort_desc fold_right]; [apply Permutation_refl|].
  fold (sort_desc r). eapply Permutation_trans; [apply insert_desc_perm | apply perm_skip; exact IH].
Qed.

Lemma Forall_perm : forall (A : Type) (P : A -> Prop) l l', Permutation l l' -> Forall P l -> Forall P l'.
Proof.
  intros A P l l' Hp Hf. apply Forall_forall. intros x Hx.
  rewrite Forall_forall in Hf. apply Hf. eapply Permutation_in; [apply Permutation_sym; exact Hp | exact Hx].
Qed.

Lemma insert_desc_sorted : forall e l, StronglySorted desc l -> StronglySorted desc (insert_desc e l).
Proof.
  intros e l. induction l as [|x r IH]; intros Hs; cbn [insert_desc].
  - constructor; constructor.
  - inversion Hs as [|? ? Hr Hx]; subst.
    destruct (Qle_bool (e_bps e) (e_bps x)) eqn:E.
    + apply Qle_bool_iff in E. constructor; [apply IH; exact Hr|].
      apply (Forall_perm _ _ (e :: r)); [apply Permutation_sym; apply insert_desc_perm|].
      constructor; [exact E | exact Hx].
    + assert (Hlt : e_bps x <= e_bps e).
      { destruct (Qlt_le_dec (e_bps x) (e_bps e)) as [H|H]; [apply Qlt_le_weak; exact H|].
        apply Qle_bool_iff in H. congruence. }
      constructor; [exact Hs|].
      constructor; [exact Hlt|].
      eapply Forall_impl; [|exact Hx]. intros y Hy. unfold desc in *. eapply Qle_trans; eassumption.
Qed.

Lemma sort_desc_sorted : forall l, StronglySorted desc (sort_desc l).
Proof.
  induction l as [|x r IH]; cbn [sort_desc fold_right]; [constructor|].
  fold (sort_desc r). apply insert_desc_sorted. exact IH.
Qed.

(* ---------- positivity of the rates ---------- *)
Lemma bps_pos : forall def m, (0 < def)%Z -> valid_msg m -> 0 < bps 0 def m.
Proof.
  intros def m Hd [Hs Hc]. unfold bps, Qdiv.
  apply Qmult_lt_0_compat; [apply Qmult_lt_0_compat|].
  - apply inject_pos. apply frame_bits_pos. exact Hs.
  - apply Qinv_lt_0_compat. apply inject_pos. apply cycle_or_default_pos; assumption.
  - reflexivity.
Qed.

Lemma total_pos : forall def msgs, (0 < def)%Z -> msgs <> [] -> Forall valid_msg msgs ->
  0 < qsum (map (bps 0 def) msgs).
Proof.
  intros def msgs Hd Hne Hv. apply qsum_pos.
  - destruct msgs; [congruence | discriminate].
  - apply Forall_forall. intros x Hx. apply in_map_iff in Hx. destruct Hx as [m [<- Hm]].
    apply bps_pos; [exact Hd|]. rewrite Forall_forall in Hv. apply Hv. exact Hm.
Qed.

(* ---------- unfolding the successful branch ---------- *)
Lemma calc_ok_inv : forall b def load es,
  (0 < def)%Z -> b_baud b <> 0%Z -> calculate_bus_load b def = BLOk load es ->
  let l := loads (b_typ b) def (bus_msgs b) in
  load = total_bps l / inject_Z (b_baud b) * inject_Z 100
  /\ es = sort_desc (with_pct (total_bps l) l).
Proof.
  intros b def load es Hd Hb H. unfold calculate_bus_load in H.
  replace (def <? 0)%Z with false in H by lia.
  replace (def =? 0)%Z with false in H by lia.
  replace (b_baud b =? 0)%Z with false in H by lia.
  inversion H; subst. split; reflexivity.
Qed.

Lemma load_is_sum_lemma : forall b def load es,
  (0 < def)%Z -> b_baud b <> 0%Z -> calculate_bus_load b def = BLOk load es ->
  load == qsum (map (fun m => inject_Z (frame_bits (b_typ b) (m_size m))
                              / inject_Z (cycle_or_default (m_cycle m) def) * inject_Z 1000)
                    (bus_msgs b))
          / inject_Z (b_baud b) * inject_Z 100.
Proof.
  intros b def load es Hd Hb H. apply calc_ok_inv in H; [|assumption..]. destruct H as [-> _].
  rewrite total_bps_qsum, loads_bps. reflexivity.
Qed.

Lemma each_message_once_lemma : forall b def load es,
  (0 < def)%Z -> b_baud b <> 0%Z -> calculate_bus_load b def = BLOk load es ->
  Permutation (map e_msg es) (bus_msgs b).
Proof.
  intros b def load es Hd Hb H. apply calc_ok_inv in H; [|assumption..]. destruct H as [_ ->].
  eapply Permutation_trans; [apply Permutation_map; apply sort_desc_perm|].
  rewrite with_pct_msgs, loads_msgs. apply Permutation_refl.
Qed.

(* the share is only meaningful when the total is not zero (in Q, x / 0 = 0 by totalisation; the Go
   code yields NaN there): the hypothesis is explicit, `total_nonzero_lemma` derives it on the
   property's domain and `shares_unknown_type_refuted` shows what happens outside *)
Lemma entries_spec_lemma : forall b def load es,
  (0 < def)%Z -> b_baud b <> 0%Z ->
  ~ qsum (map (bps (b_typ b) def) (bus_msgs b)) == 0 ->
  calculate_bus_load b def = BLOk load es ->
  Forall (fun e => e_bps e = bps (b_typ b) def (e_msg e)
                   /\ e_pct e == e_bps e / qsum (map (bps (b_typ b) def) (bus_msgs b)) * inject_Z 100) es.
Proof.
  intros b def load es Hd Hb _ H. apply calc_ok_inv in H; [|assumption..]. destruct H as [_ ->].
  apply (Forall_perm _ _ _ _ (Permutation_sym (sort_desc_perm _))).
  apply Forall_forall. intros e He. unfold with_pct in He. apply in_map_iff in He.
  destruct He as [e0 [<- He0]]. cbn [e_bps e_pct e_msg].
  unfold loads in He0. apply in_map_iff in He0. destruct He0 as [m [<- Hm]]. cbn [e_bps e_msg].
  split; [reflexivity|].
  rewrite total_bps_qsum. fold (loads (b_typ b) def (bus_msgs b)). rewrite loads_bps. reflexivity.
Qed.

Lemma total_nonzero_lemma : forall b def,
  (0 < def)%Z -> valid_bus b -> bus_msgs b <> [] ->
  ~ qsum (map (bps (b_typ b) def) (bus_msgs b)) == 0.
Proof.
  intros b def Hd [Ht Hv] Hne Hz. rewrite Ht in Hz.
  pose proof (total_pos def (bus_msgs b) Hd Hne Hv) as Hpos. rewrite Hz in Hpos. discriminate.
Qed.

(* every entry carries the rate of its own message, which is one of the sent messages (no
   hypothesis on the total) *)
Lemma entries_bps_lemma : forall b def load es,
  (0 < def)%Z -> b_baud b <> 0%Z -> calculate_bus_load b def = BLOk load es ->
  Forall (fun e => e_bps e = bps (b_typ b) def (e_msg e) /\ In (e_msg e) (bus_msgs b)) es.
Proof.
  intros b def load es Hd Hb H.
  pose proof (each_message_once_lemma b def load es Hd Hb H) as Hp.
  apply calc_ok_inv in H; [|assumption..]. destruct H as [_ ->].
  apply Forall_forall. intros e He. split.
  - eapply Permutation_in in He; [|apply sort_desc_perm].
    unfold with_pct in He. apply in_map_iff in He. destruct He as [e0 [<- He0]].
    unfold loads in He0. apply in_map_iff in He0. destruct He0 as [m [<- _]]. reflexivity.
  - eapply Permutation_in; [exact Hp|]. apply in_map. exact He.
Qed.

Lemma sorted_desc_lemma : forall b def load es,
  calculate_bus_load b def = BLOk load es -> StronglySorted desc es.
Proof.
  intros b def load es H. unfold calculate_bus_load in H.
  destruct (def <? 0)%Z; [discriminate|]. destruct (def =? 0)%Z; [discriminate|].
  destruct (b_baud b =? 0)%Z; inversion H; subst; [constructor | apply sort_desc_sorted].
Qed.

Lemma shares_sum_100_lemma : forall b def load es,
  (0 < def)%Z -> b_baud b <> 0%Z -> valid_bus b -> bus_msgs b <> [] ->
  calculate_bus_load b def = BLOk load es ->
  qsum (map e_pct es) == inject_Z 100.
Proof.
  intros b def load es Hd Hb [Ht Hv] Hne H. apply calc_ok_inv in H; [|assumption..]. destruct H as [_ ->].
  rewrite (qsum_perm _ _ (Permutation_map e_pct (sort_desc_perm _))).
  rewrite with_pct_pct, qsum_scale.
  rewrite total_bps_qsum, loads_bps. rewrite Ht.
  assert (Hpos : 0 < qsum (map (bps 0 def) (bus_msgs b))) by (apply total_pos; assumption).
  field. intros Hz. rewrite Hz in Hpos. discriminate.
Qed.

Lemma zero_baud_lemma : forall b def, (0 < def)%Z -> b_baud b = 0%Z -> calculate_bus_load b def = BLOk 0 [].
Proof.
  intros b def Hd Hb. unfold calculate_bus_load. rewrite Hb.
  replace (def <? 0)%Z with false by lia. replace (def =? 0)%Z with false by lia. reflexivity.
Qed.

Lemma nonpositive_default_refused_lemma : forall b def, (def <= 0)%Z ->
  calculate_bus_load b def = BLErr (if (def <? 0)%Z then ErrIsNegative else ErrIsZero).
Proof.
  intros b def Hd. unfold calculate_bus_load. destruct (def <? 0)%Z eqn:E; [reflexivity|].
  replace (def =? 0)%Z with true by lia. reflexivity.
Qed.

Lemma accepted_iff_positive_lemma : forall b def,
  (exists load es, calculate_bus_load b def = BLOk load es) <-> (0 < def)%Z.
Proof.
  intros b def. split.
  - intros [load [es H]]. destruct (Z_lt_le_dec 0 def) as [Hp|Hn]; [exact Hp|].
    rewrite nonpositive_default_refused_lemma in H by exact Hn. discriminate.
  - intros Hd. unfold calculate_bus_load.
    replace (def <? 0)%Z with false by lia. replace (def =? 0)%Z with false by lia.
    destruct (b_baud b =? 0)%Z; eauto.
Qed.

(* ---------- monotonicity ---------- *)
Lemma load_le_of_bps_le : forall b b' def load es load' es' l1 l2 m m',
  (0 < def)%Z -> (0 < b_baud b)%Z -> b_baud b' = b_baud b -> b_typ b' = b_typ b ->
  bus_msgs b = l1 ++ m :: l2 -> bus_msgs b' = l1 ++ m' :: l2 ->
  bps (b_typ b) def m <= bps (b_typ b) def m' ->
  calculate_bus_load b def = BLOk load es -> calculate_bus_load b' def = BLOk load' es' ->
  load <= load'.
Proof.
  intros b b' def load es load' es' l1 l2 m m' Hd Hb Hb' Ht Hm Hm' Hle H H'.
  apply load_is_sum_lemma in H; [|lia..]. apply load_is_sum_lemma in H'; [|lia..].
  rewrite H, H'. rewrite Hb', Ht, Hm, Hm'.
  change (fun m0 : msg => inject_Z (frame_bits (b_typ b) (m_size m0))
                          / inject_Z (cycle_or_default (m_cycle m0) def) * inject_Z 1000)
    with (bps (b_typ b) def).
  rewrite !map_app. cbn [map]. rewrite !qsum_app, !qsum_cons.
  unfold Qdiv. apply Qmult_le_compat_r; [|apply inject_nonneg; lia].
  apply Qmult_le_compat_r; [|apply Qlt_le_weak, Qinv_lt_0_compat, inject_pos; exact Hb].
  apply Qplus_le_r. apply Qplus_le_l. exact Hle.
Qed.

Lemma bps_mono_size : forall typ def m m', (0 < def)%Z -> valid_msg m ->
  m_cycle m' = m_cycle m -> (m_size m <= m_size m')%Z -> bps typ def m <= bps typ def m'.
Proof.
  intros typ def m m' Hd [Hs Hc] Hcy Hsz. unfold bps, Qdiv. rewrite Hcy.
  apply Qmult_le_compat_r; [|apply inject_nonneg; lia].
  apply Qmult_le_compat_r.
  - apply inject_le. apply frame_bits_mono_any; assumption.
  - apply Qlt_le_weak, Qinv_lt_0_compat, inject_pos. apply cycle_or_default_pos; assumption.
Qed.

Lemma bps_anti_cycle : forall typ def m m', (0 < def)%Z -> valid_msg m ->
  m_size m' = m_size m ->
  (0 < cycle_or_default (m_cycle m') def <= cycle_or_default (m_cycle m) def)%Z ->
  bps typ def m <= bps typ def m'.
Proof.
  intros typ def m m' Hd [Hs Hc] Hsz [Hc0 Hcle]. unfold bps, Qdiv. rewrite Hsz.
  apply Qmult_le_compat_r; [|apply inject_nonneg; lia].
  rewrite !(Qmult_comm (inject_Z (frame_bits typ (m_size m)))).
  apply Qmult_le_compat_r.
  - apply Qinv_le_contra; [apply inject_pos; exact Hc0 | apply inject_le; exact Hcle].
  - apply inject_nonneg. apply frame_bits_nonneg_any. exact Hs.
Qed.

Lemma monotone_size_lemma : forall b b' def load es load' es' l1 l2 m m',
  (0 < def)%Z -> (0 < b_baud b)%Z -> b_baud b' = b_baud b -> b_typ b' = b_typ b ->
  bus_msgs b = l1 ++ m :: l2 -> bus_msgs b' = l1 ++ m' :: l2 ->
  valid_msg m -> m_cycle m' = m_cycle m -> (m_size m <= m_size m')%Z ->
  calculate_bus_load b def = BLOk load es -> calculate_bus_load b' def = BLOk load' es' ->
  load <= load'.
Proof.
  intros b b' def load es load' es' l1 l2 m m' Hd Hb Hb' Ht Hm Hm' Hv Hcy Hsz H H'.
  apply (load_le_of_bps_le b b' def load es load' es' l1 l2 m m' Hd Hb Hb');
    [exact Ht | exact Hm | exact Hm' | | exact H | exact H'].
  apply bps_mono_size; assumption.
Qed.

Lemma antitone_cycle_lemma : forall b b' def load es load' es' l1 l2 m m',
  (0 < def)%Z -> (0 < b_baud b)%Z -> b_baud b' = b_baud b -> b_typ b' = b_typ b ->
  bus_msgs b = l1 ++ m :: l2 -> bus_msgs b' = l1 ++ m' :: l2 ->
  valid_msg m -> m_size m' = m_size m ->
  (0 < cycle_or_default (m_cycle m') def <= cycle_or_default (m_cycle m) def)%Z ->
  calculate_bus_load b def = BLOk load es -> calculate_bus_load b' def = BLOk load' es' ->
  load <= load'.
Proof.
  intros b b' def load es load' es' l1 l2 m m' Hd Hb Hb' Ht Hm Hm' Hv Hsz Hcy H H'.
  apply (load_le_of_bps_le b b' def load es load' es' l1 l2 m m' Hd Hb Hb');
    [exact Ht | exact Hm | exact Hm' | | exact H | exact H'].
  apply bps_anti_cycle; assumption.
Qed.

(* the exact load does not depend on the (map) order in which the messages are visited *)
Lemma load_order_free_lemma : forall b b' def load es load' es',
  (0 < def)%Z -> b_baud b <> 0%Z -> b_baud b' = b_baud b -> b_typ b' = b_typ b ->
  Permutation (bus_msgs b) (bus_msgs b') ->
  calculate_bus_load b def = BLOk load es -> calculate_bus_load b' def = BLOk load' es' ->
  load == load'.
Proof.
  intros b b' def load es load' es' Hd Hb Hb' Ht Hp H H'.
  apply load_is_sum_lemma in H; [|assumption..].
  assert (Hb2 : b_baud b' <> 0%Z) by congruence.
  apply load_is_sum_lemma in H'; [|assumption..].
  rewrite H, H', Hb', Ht.
  rewrite (qsum_perm _ _ (Permutation_map _ Hp)). reflexivity.
Qed.

(* the i-th call of a session is the function of (bus, i-th default) alone: earlier calls and
   their defaults do not matter *)
Lemma load_call_independent_lemma : forall b defs i d,
  nth_error defs i = Some d -> nth_error (session b defs) i = Some (calculate_bus_load b d).
Proof. intros b defs i d H. unfold session. apply map_nth_error. exact H. Qed.

Lemma session_prefix_free_lemma : forall b pre pre' d,
  last (session b (pre ++ [d])) (BLErr ErrIsZero) = last (session b (pre' ++ [d])) (BLErr ErrIsZero).
Proof. intros. unfold session. rewrite !map_app. cbn [map]. rewrite !last_last. reflexivity. Qed.

(* ---------- frame: only size and cycle time of a message matter ---------- *)
Definition same_core (m m' : msg) : Prop := m_size m = m_size m' /\ m_cycle m = m_cycle m'.
Definition figures (e : entry) : Q * Q := (e_bps e, e_pct e).

Lemma bps_core : forall typ def m m', same_core m m' -> bps typ def m = bps typ def m'.
Proof. intros typ def m m' [Hs Hc]. unfold bps. rewrite Hs, Hc. reflexivity. Qed.

Lemma loads_core : forall typ def l l', Forall2 same_core l l' ->
  map figures (loads typ def l) = map figures (loads typ def l').
Proof.
  intros typ def l l' H. induction H as [|m m' l l' Hm _ IH]; [reflexivity|].
  cbn [loads map figures e_bps e_pct]. rewrite (bps_core typ def m m' Hm). f_equal. exact IH.
Qed.

Lemma total_figures : forall es es' a, map figures es = map figures es' ->
  fold_left (fun t e => t + e_bps e) es a = fold_left (fun t e => t + e_bps e) es' a.
Proof.
  induction es as [|e r IH]; intros es' a H; destruct es' as [|e' r']; try discriminate; [reflexivity|].
  cbn [map figures] in H. injection H as Hb Hp Hr. cbn [fold_left]. rewrite Hb. apply IH. exact Hr.
Qed.

Lemma with_pct_figures : forall t es es', map figures es = map figures es' ->
  map figures (with_pct t es) = map figures (with_pct t es').
Proof.
  induction es as [|e r IH]; intros es' H; destruct es' as [|e' r']; try discriminate; [reflexivity|].
  cbn [map figures] in H. injection H as Hb Hp Hr.
  cbn [with_pct map figures e_bps e_pct]. rewrite Hb. f_equal. apply IH. exact Hr.
Qed.

Lemma insert_figures : forall e e' l l', figures e = figures e' -> map figures l = map figures l' ->
  map figures (insert_desc e l) = map figures (insert_desc e' l').
Proof.
  intros e e' l. induction l as [|x r IH]; intros l' He Hl; destruct l' as [|x' r']; try discriminate.
  - cbn [insert_desc map]. rewrite He. reflexivity.
  - cbn [map] in Hl.
    assert (Hx : figures x = figures x') by congruence.
    assert (Hr : map figures r = map figures r') by congruence.
    cbn [insert_desc].
    assert (Hbe : e_bps e = e_bps e') by (unfold figures in He; congruence).
    assert (Hbx : e_bps x = e_bps x') by (unfold figures in Hx; congruence).
    replace (Qle_bool (e_bps e) (e_bps x)) with (Qle_bool (e_bps e') (e_bps x')) by (rewrite Hbe, Hbx; reflexivity).
    destruct (Qle_bool (e_bps e') (e_bps x')).
    + cbn [map]. rewrite Hx. f_equal. apply IH; assumption.
    + cbn [map]. rewrite He, Hx, Hr. reflexivity.
Qed.

Lemma sort_figures : forall l l', map figures l = map figures l' ->
  map figures (sort_desc l) = map figures (sort_desc l').
Proof.
  induction l as [|x r IH]; intros l' H; destruct l' as [|x' r']; try discriminate; [reflexivity|].
  cbn [map] in H.
  assert (Hx : figures x = figures x') by congruence.
  assert (Hr : map figures r = map figures r') by congruence.
  cbn [sort_desc fold_right].
  apply insert_figures; [exact Hx | apply IH; exact Hr].
Qed.

(* two buses whose messages agree, position by position, in size and cycle time (and differ
   arbitrarily in delay time, start delay, priority, send type, static CAN-ID, receivers, signals
   and key) get the same load and the same list of (rate, share) figures, for every default *)
Lemma load_ignores_delay_lemma : forall b b' def,
  b_typ b' = b_typ b -> b_baud b' = b_baud b -> Forall2 same_core (bus_msgs b) (bus_msgs b') ->
  match calculate_bus_load b def, calculate_bus_load b' def with
  | BLOk l es, BLOk l' es' => l = l' /\ map figures es = map figures es'
  | BLErr e, BLErr e' => e = e'
  | _, _ => False
  end.
Proof.
  intros b b' def Ht Hb Hm. unfold calculate_bus_load. rewrite Hb, Ht.
  destruct (def <? 0)%Z; [reflexivity|]. destruct (def =? 0)%Z; [reflexivity|].
  destruct (b_baud b =? 0)%Z; [split; reflexivity|].
  pose proof (loads_core (b_typ b) def _ _ Hm) as Hl.
  assert (Htot : total_bps (loads (b_typ b) def (bus_msgs b)) = total_bps (loads (b_typ b) def (bus_msgs b')))
    by (apply total_figures; exact Hl).
  rewrite Htot. split; [reflexivity|].
  apply sort_figures. apply with_pct_figures. exact Hl.
Qed.

(* ---------- hypotheses are satisfiable / the numbers of the test-suite's fixture ---------- *)
Definition ex_bus : bus := mkBus 0 250000 [[plain 0 8 100; plain 1 8 10]; []; [plain 2 0 0]].

Example valid_bus_witness : valid_bus ex_bus /\ bus_msgs ex_bus <> [].
Proof.
  split; [split; [reflexivity|] | discriminate].
  repeat constructor; cbn; lia.
Qed.

Example ex_bus_result :
  match calculate_bus_load ex_bus 500 with
  | BLOk load es => load == 14624 # 2500 /\ map (fun e => m_key (e_msg e)) es = [1; 0; 2]%Z
                    /\ Qeq_bool (qsum (map e_pct es)) (inject_Z 100) = true
  | BLErr _ => False
  end.
Proof. vm_compute. repeat split; reflexivity. Qed.

(* the monotonicity hypotheses are satisfiable, and the increase can be strict *)
Definition ex_bus_bigger : bus := mkBus 0 250000 [[plain 0 8 100; plain 1 8 10]; []; [plain 2 3 0]].
Definition ex_bus_faster : bus := mkBus 0 250000 [[plain 0 8 100; plain 1 8 10]; []; [plain 2 0 499]].

Example monotone_witness :
  bus_msgs ex_bus = [plain 0 8 100; plain 1 8 10] ++ plain 2 0 0 :: []
  /\ bus_msgs ex_bus_bigger = [plain 0 8 100; plain 1 8 10] ++ plain 2 3 0 :: []
  /\ bus_msgs ex_bus_faster = [plain 0 8 100; plain 1 8 10] ++ plain 2 0 499 :: []
  /\ valid_msg (plain 2 0 0)
  /\ (0 < cycle_or_default 499 500 <= cycle_or_default 0 500)%Z
  /\ match calculate_bus_load ex_bus 500, calculate_bus_load ex_bus_bigger 500, calculate_bus_load ex_bus_faster 500 with
     | BLOk l _, BLOk l1 _, BLOk l2 _ => l < l1 /\ l < l2
     | _, _, _ => False
     end.
Proof.
  repeat split; try reflexivity; try (cbn; lia); vm_compute; reflexivity.
Qed.

(* ---------- outside the hypotheses ---------- *)
(* negative baud rate (Bus.SetBaudrate takes an int and does not refuse it): the load is negative
   and enlarging a message / shortening its cycle DEcreases it *)
Definition neg_bus : bus := mkBus 0 (-250000) [[plain 0 8 100; plain 1 8 10]; []; [plain 2 0 0]].
Definition neg_bus_bigger : bus := mkBus 0 (-250000) [[plain 0 8 100; plain 1 8 10]; []; [plain 2 3 0]].
Definition neg_bus_faster : bus := mkBus 0 (-250000) [[plain 0 8 100; plain 1 8 10]; []; [plain 2 0 499]].

Lemma monotone_negative_baud_refuted_lemma :
  exists b b1 b2 def load es load1 es1 load2 es2,
    (0 < def)%Z /\ b_baud b <> 0%Z /\ valid_bus b /\ valid_bus b1 /\ valid_bus b2
    /\ bus_msgs b = [plain 0 8 100; plain 1 8 10] ++ plain 2 0 0 :: []
    /\ bus_msgs b1 = [plain 0 8 100; plain 1 8 10] ++ plain 2 3 0 :: []     (* enlarged *)
    /\ bus_msgs b2 = [plain 0 8 100; plain 1 8 10] ++ plain 2 0 499 :: []   (* cycle shortened from the default 500 *)
    /\ calculate_bus_load b def = BLOk load es
    /\ calculate_bus_load b1 def = BLOk load1 es1
    /\ calculate_bus_load b2 def = BLOk load2 es2
    /\ load1 < load /\ load2 < load.
Proof.
  exists neg_bus, neg_bus_bigger, neg_bus_faster, 500%Z.
  destruct (calculate_bus_load neg_bus 500) as [l e|] eqn:E0; [|vm_compute in E0; discriminate].
  destruct (calculate_bus_load neg_bus_bigger 500) as [l1 e1|] eqn:E1; [|vm_compute in E1; discriminate].
  destruct (calculate_bus_load neg_bus_faster 500) as [l2 e2|] eqn:E2; [|vm_compute in E2; discriminate].
  exists l, e, l1, e1, l2, e2.
  assert (Hv : forall ifs, Forall valid_msg (concat ifs) -> valid_bus (mkBus 0 (-250000) ifs))
    by (intros ifs H; split; [reflexivity | exact H]).
  repeat split; try reflexivity; try discriminate; try (apply Hv; repeat constructor; cbn; lia);
    vm_compute in E0, E1, E2; inversion E0; inversion E1; inversion E2; subst; reflexivity.
Qed.

(* zero baud rate: the load is 0 before and after, so nothing decreases *)
Lemma monotone_zero_baud_lemma : forall b b' def,
  (0 < def)%Z -> b_baud b = 0%Z -> b_baud b' = 0%Z ->
  calculate_bus_load b def = BLOk 0 [] /\ calculate_bus_load b' def = BLOk 0 [].
Proof. intros b b' def Hd H H'. split; apply zero_baud_lemma; assumption. Qed.

(* a bus of an undefined type value (the library defines BusTypeCAN2A = 0 only, Bus.SetType takes
   any int) whose only message is empty: every rate is 0, the total is 0, the shares do not sum to
   100 (the model's x / 0 = 0 gives 0; the Go code gives NaN) *)
Definition odd_bus : bus := mkBus 1 500000 [[plain 0 0 10]].

Lemma shares_unknown_type_refuted_lemma :
  exists b def load es,
    (0 < def)%Z /\ b_baud b <> 0%Z /\ bus_msgs b <> [] /\ Forall valid_msg (bus_msgs b)
    /\ calculate_bus_load b def = BLOk load es
    /\ qsum (map (bps (b_typ b) def) (bus_msgs b)) == 0
    /\ ~ qsum (map e_pct es) == inject_Z 100.
Proof.
  exists odd_bus, 100%Z.
  destruct (calculate_bus_load odd_bus 100) as [l e|] eqn:E0; [|vm_compute in E0; discriminate].
  exists l, e. vm_compute in E0. inversion E0; subst.
  split; [reflexivity|]. split; [discriminate|]. split; [discriminate|].
  split; [repeat constructor; cbn; lia|]. split; [reflexivity|].
  split; [reflexivity|]. intros H. vm_compute in H. discriminate.
Qed.
