(* Extraction of the executable C18 model for the correspondence check.
   ExtrOcamlBasic only; no Extract Constant of our own. *)
From Coq Require Import Extraction ExtrOcamlBasic ZArith List.
From Acme.C18 Require Import Model.
Extraction Language OCaml.
Extraction "extracted/c18_model.ml" init mstep ro step hints export_bus net_buses.
