(* C18 — model of the WRITE FOOTPRINT of acmelib's non-mutating operations.

   A data race needs a write.  This file models exactly the mutable fields that the read
   paths of /repo can reach, and every read-only operation class INCLUDING the writes the Go
   code performs on that path:

     Node.intErrNum        (node.go:23)     set in Node.UpdateName, cleared in Node.errorf
     SignalEnum.parErrID   (signal_enum.go:15) set in verifyValueIndex (both parent kinds) and in
                                            SignalEnum.modifySize (called by AddValue and by
                                            modifyValueIndex after verifyValueIndex accepted),
                                            cleared in SignalEnum.errorf
     the slices handed out uncopied (Message.Signals, Node.Interfaces, ...): returned, never
                                            written by the getter
     the map contents that the copy-then-sort getters read (NodeInterfaces, SentMessages,
     Values, AttributeAssignments): copied into a fresh slice which is then sorted; the
     stored contents are untouched.

   Audit result recorded here (see props/C18/NOTES.md): no cache, no memoised CAN-ID, no
   in-place sort of a shared slice, no counter exists on any read path of the pinned tree; the
   only stores reachable from a non-mutating public operation are the two hint clears in
   Node.errorf / SignalEnum.errorf, guarded by "hint is set".

   Process-global state.  The state of the model is meant to include every "process-global lazily
   initialised table" reachable on a read path (a package-level slice or map filled on first use is
   shared by ALL models of the process and is written by whichever read-only call needs it first).
   The pinned tree has none: its package-level variables are the error sentinels, the two
   special-attribute lookup maps and the six special attributes of special_attributes.go, and in
   package dbc the keyword / punctuation / token / access-type tables and the well-known attribute
   names and value lists; all are initialised at package initialisation and only read afterwards
   (the DBC exporter passes the special attributes to newAttributeAssignment without addRef).  So
   `state` has no such component and ro_no_write is unaffected.  The runtime part does not rely on
   this reading: the deep snapshot covers every package-level variable of both packages (hook
   generated from the sources of the tree under check) and the cold concurrent phase exercises
   first use under the race detector.

   Handles are creation indexes (nat), names / ids / attribute handles / value handles are Z.
   Outputs are lists of Z (projections of what the Go call returns: values read, handles in
   the returned order, or -1 :: error route = entity kinds wrapping the error, innermost
   first).  Arithmetic done on top of the values read (decode, CAN-ID, bus load) belongs to
   C02/C14/C17 and is not repeated: for those classes the output is the vector of shared fields
   the code reads. *)
From Coq Require Import ZArith List Bool.
Import ListNotations.
Open Scope Z_scope.

(* ---------------------------------------------------------------- state *)
Record node_st := mkNode {
  n_name  : Z;
  n_id    : Z;
  n_ifs   : list (option nat);   (* parent bus of interface i (position = interface number) *)
  n_hint  : Z;                   (* Node.intErrNum, -1 = unset *)
  n_attrs : list Z }.            (* assigned attribute handles (map contents) *)

(* a referencing enum signal: handle, bits available to it in its layout (= layout size - start
   bit; None: no parent layout), and whether that layout is a message (true) or a group of a
   multiplexer signal that is itself outside any message (false) *)
Record ref_st := mkRef { r_sig : Z; r_cap : option Z; r_msg : bool }.

Record enum_st := mkEnum {
  e_vals : list (Z * Z);         (* (value handle, index): map contents *)
  e_max  : Z;                    (* maxIndex *)
  e_min  : Z;                    (* minSize *)
  e_refs : list ref_st;
  e_hint : option Z }.           (* SignalEnum.parErrID, None = "" *)

Record msg_st := mkMsg {
  m_id : Z; m_prio : Z; m_static : option Z;
  m_sender : option (nat * nat); (* node, interface number *)
  m_bytes : Z; m_cycle : Z;
  m_sigs : list Z;               (* SignalLayout.signals (signal handles), handed out uncopied by Signals() *)
  m_recv : list Z;               (* receivers: encoded (node, interface), map contents *)
  m_attrs : list Z }.            (* assigned attribute handles (map contents) *)

Record bus_st := mkBus { b_baud : Z; b_builder : list Z; b_attrs : list Z }.

(* a signal as the exporters read it: handles of its type / unit / enum (-1 = none) and its
   attribute assignments.  Types, units, enums and attributes are SHARED between the signals,
   messages and buses of a network: every per-bus worker of ExportNetwork reads them. *)
Record sig_st := mkSig {
  s_type : Z; s_unit : Z; s_enum : Z; s_attrs : list Z;
  s_groups : list (list Z) }.    (* multiplexer signal: the signal handles of its groups (the groups' own
                                    slices, handed out uncopied by GetSignalGroups); [] otherwise *)

Record shared_st := mkShared {
  sigs  : list sig_st;           (* signal handle = position *)
  types : list (list Z);         (* SignalType: the fields the exporters read (size, signed, min, max, scale, offset) *)
  units : list Z;                (* SignalUnit: symbol *)
  adefs : list (list Z) }.       (* Attribute definitions: type, default, bounds (attribute handle = position) *)

Record state := mkState {
  nodes : list node_st; enums : list enum_st; msgs : list msg_st; buses : list bus_st;
  shared : shared_st }.

Definition init : state := mkState [] [] [] [] (mkShared [] [] [] []).

(* entity kinds as they appear in EntityError.Kind (entity.go) *)
Definition K_BUS : Z := 1.
Definition K_NODE : Z := 2.
Definition K_MSG : Z := 3.
Definition K_SIG : Z := 4.
Definition K_ENUM : Z := 7.
Definition K_ANYREF : Z := 100.  (* refs.getValues()[0]: an arbitrary referencing signal *)
Definition K_PANIC : Z := 999.

Fixpoint upd_nth {A} (n : nat) (f : A -> A) (l : list A) : list A :=
  match l, n with
  | [], _ => []
  | x :: r, O => f x :: r
  | x :: r, S k => x :: upd_nth k f r
  end.

Definition set_nodes (s : state) (l : list node_st) := mkState l (enums s) (msgs s) (buses s) (shared s).
Definition set_enums (s : state) (l : list enum_st) := mkState (nodes s) l (msgs s) (buses s) (shared s).
Definition set_msgs (s : state) (l : list msg_st) := mkState (nodes s) (enums s) l (buses s) (shared s).
Definition set_buses (s : state) (l : list bus_st) := mkState (nodes s) (enums s) (msgs s) l (shared s).
Definition set_shared (s : state) (x : shared_st) := mkState (nodes s) (enums s) (msgs s) (buses s) x.
Definition add_sig (s : state) (x : sig_st) :=
  set_shared s (mkShared (sigs (shared s) ++ [x]) (types (shared s)) (units (shared s)) (adefs (shared s))).
Definition set_msg_fields (x : msg_st) (id : Z) (st : option Z) (snd : option (nat * nat)) :=
  mkMsg id (m_prio x) st snd (m_bytes x) (m_cycle x) (m_sigs x) (m_recv x) (m_attrs x).

Definition set_hint (nd : node_st) (h : Z) := mkNode (n_name nd) (n_id nd) (n_ifs nd) h (n_attrs nd).
Definition set_name (nd : node_st) (nm : Z) := mkNode nm (n_id nd) (n_ifs nd) (n_hint nd) (n_attrs nd).
Definition set_ifs (nd : node_st) (l : list (option nat)) := mkNode (n_name nd) (n_id nd) l (n_hint nd) (n_attrs nd).
Definition set_attrs (nd : node_st) (l : list Z) := mkNode (n_name nd) (n_id nd) (n_ifs nd) (n_hint nd) l.
Definition set_ehint (e : enum_st) (h : option Z) := mkEnum (e_vals e) (e_max e) (e_min e) (e_refs e) h.
Definition set_erefs (e : enum_st) (l : list ref_st) := mkEnum (e_vals e) (e_max e) (e_min e) l (e_hint e).
Definition set_evals (e : enum_st) (l : list (Z * Z)) (mx : Z) := mkEnum l mx (e_min e) (e_refs e) (e_hint e).

(* insertion sort of a COPY on an integer key (slices.SortFunc on the fresh slice) *)
Fixpoint ins_by {A} (key : A -> Z) (x : A) (l : list A) : list A :=
  match l with
  | [] => [x]
  | y :: r => if key x <=? key y then x :: l else y :: ins_by key x r
  end.
Definition sort_by {A} (key : A -> Z) (l : list A) : list A := fold_right (ins_by key) [] l.

Definition zmem (a : Z) (l : list Z) : bool := existsb (Z.eqb a) l.

(* ---------------------------------------------------------------- errorf chains *)
(* NodeInterface.errorf -> Bus.errorf (the correspondence histories keep buses outside networks) *)
Definition iface_route (ob : option nat) : list Z :=
  match ob with Some _ => [K_BUS] | None => [] end.

(* node.go:56-72.  The only store: n.intErrNum = -1, executed iff the hint is set. *)
Definition node_errorf (nd : node_st) : node_st * list Z :=
  if negb (Nat.eqb (length (n_ifs nd)) 0) && (0 <=? n_hint nd) then
    match nth_error (n_ifs nd) (Z.to_nat (n_hint nd)) with
    | Some ob => (set_hint nd (-1), K_NODE :: iface_route ob)
    | None => (nd, [K_PANIC])               (* index out of range in Go *)
    end
  else (nd, [K_NODE]).

Definition sig_route (r : ref_st) : list Z :=
  K_SIG :: if r_msg r then [K_MSG] else [].

(* signal_enum.go:59-82.  The only store: se.parErrID = "", executed iff the hint is set. *)
Definition enum_errorf (e : enum_st) : enum_st * list Z :=
  match e_refs e with
  | [] => (e, [K_ENUM])
  | _ :: _ =>
      match e_hint e with
      | Some sg =>
          match find (fun r => r_sig r =? sg) (e_refs e) with
          | Some r => (set_ehint e None, K_ENUM :: sig_route r)
          | None => (e, [K_PANIC])          (* refs.getValue fails: panic(err) *)
          end
      | None => (e, [K_ENUM; K_ANYREF])
      end
  end.

(* ---------------------------------------------------------------- mutators (hint protocol) *)
Inductive mut_op :=
| MNewNode (name id : Z) (nifs : nat)
| MNewBus (baud : Z) (builder : list Z)
| MNewEnum
| MNewMsg (id prio bytes cycle : Z) (sigs : list Z)
| MMsgSetSender (m n i : nat)
| MMsgSetStatic (m : nat) (cid : Z)
| MBusAssignAttr (b : nat) (a : Z)
| MNodeAttach (n i b : nat)             (* Bus.AddNodeInterface(node.Interfaces()[i]) *)
| MNodeRename (n : nat) (newname : Z)   (* Node.UpdateName *)
| MNodeAssignAttr (n : nat) (a : Z)     (* Node.AssignAttribute (valid attribute) *)
| MNodeRemoveAttr (n : nat) (a : Z)     (* Node.RemoveAttributeAssignment: miss -> errorf *)
| MEnumAddRef (e : nat) (sg : Z) (room : option Z) (inmsg : bool)  (* NewEnumSignal (+ AppendSignal to a message / InsertSignal into a multiplexer group) *)
| MEnumDelRef (e : nat) (sg : Z)
| MEnumAddValue (e : nat) (v idx : Z) (push_fail : option Z)
    (* SignalEnum.AddValue.  push_fail is an ORACLE: the referencing signal whose modifySize fails
       although verifyValueIndex accepted the index (two enum signals of one enum in one layout
       grow together, D36; the layouts themselves are C01's model).  SignalEnum.modifySize then
       sets the hint (signal_enum.go:115) and the caller's errorf clears it. *)
| MEnumRemoveValue (e : nat) (v : Z)    (* SignalEnum.RemoveValue: miss -> errorf *)
| MEnumReindex (e : nat) (v idx : Z) (push_fail : option Z)   (* SignalEnumValue.UpdateIndex *)
| MNewType (fields : list Z)            (* New*SignalType *)
| MNewUnit (symbol : Z)                 (* NewSignalUnit *)
| MNewAttrDef (fields : list Z)         (* New*Attribute *)
| MNewSig (ty un : Z)                   (* NewStandardSignal (+ SetUnit) *)
| MNewMux (groups : list (list Z))      (* NewMultiplexerSignal + InsertSignal of existing signals into its groups *)
| MSigAssignAttr (sg : nat) (a : Z)
| MMsgAssignAttr (m : nat) (a : Z)
| MMsgAddRecv (m n i : nat).            (* Message.AddReceiver *)

Definition attached_to (b : nat) (nd : node_st) : bool :=
  existsb (fun ob => match ob with Some b' => Nat.eqb b b' | None => false end) (n_ifs nd).

Definition bus_has_name (s : state) (b : nat) (nm : Z) : bool :=
  existsb (fun nd => attached_to b nd && (n_name nd =? nm)) (nodes s).
Definition bus_has_id (s : state) (b : nat) (id : Z) : bool :=
  existsb (fun nd => attached_to b nd && (n_id nd =? id)) (nodes s).

(* Node.UpdateName loop: first interface (slice order) whose bus refuses the name *)
Fixpoint rename_scan (s : state) (nm : Z) (ifs : list (option nat)) (i : Z) : option Z :=
  match ifs with
  | [] => None
  | None :: r => rename_scan s nm r (i + 1)
  | Some b :: r => if bus_has_name s b nm then Some i else rename_scan s nm r (i + 1)
  end.

(* helpers.go calcSizeFromValue *)
Definition size_of (v : Z) : Z :=
  if v =? 0 then 1 else if v <? 0 then 0 else Z.min 64 (Z.log2 v + 1).
Definition enum_size (e : enum_st) : Z := Z.max (e_min e) (size_of (e_max e)).

(* verifyValueIndex: the first referencing signal (iteration order) that cannot grow to the new
   size (verifySignalSizeAmount -> verifyBeforeGrow: amount > space behind the signal, i.e. new
   size > bits available) *)
Fixpoint grow_scan (need : Z) (refs : list ref_st) : option Z :=
  match refs with
  | [] => None
  | x :: r =>
      match r_cap x with
      | Some room => if room <? need then Some (r_sig x) else grow_scan need r
      | None => grow_scan need r
      end
  end.

Definition ERR (route : list Z) : list Z := (-1) :: route.
Definition OK : list Z := [0].

(* outcome of verifyValueIndex: None = passes, Some e' = fails leaving enum e' (hint possibly set) *)
Definition verify_value_index (e : enum_st) (idx : Z) : option enum_st :=
  if zmem idx (map snd (e_vals e)) then Some e
  else if e_max e <? idx then
    match grow_scan (size_of idx) (e_refs e) with
    | Some sg => Some (set_ehint e (Some sg))
    | None => None
    end
  else None.

Definition list_max (l : list Z) : Z := fold_right Z.max 0 l.

(* the oracle only ranges over the signals that reference the enum *)
Definition push_failure (en : enum_st) (push_fail : option Z) : option Z :=
  match push_fail with
  | Some sg => match find (fun r => r_sig r =? sg) (e_refs en) with Some _ => Some sg | None => None end
  | None => None
  end.

Definition mstep (s : state) (op : mut_op) : state * list Z :=
  match op with
  | MNewNode name id nifs =>
      (set_nodes s (nodes s ++ [mkNode name id (repeat None nifs) (-1) []]), OK)
  | MNewBus baud builder => (set_buses s (buses s ++ [mkBus baud builder []]), OK)
  | MNewEnum => (set_enums s (enums s ++ [mkEnum [] 0 1 [] None]), OK)
  | MNewMsg id prio bytes cycle sigs =>
      (set_msgs s (msgs s ++ [mkMsg id prio None None bytes cycle sigs [] []]), OK)
  | MMsgSetSender m n i =>
      (set_msgs s (upd_nth m (fun x => set_msg_fields x (m_id x) (m_static x) (Some (n, i))) (msgs s)), OK)
  | MMsgSetStatic m cid =>
      (* message.go SetStaticCANID: m.id = MessageID(staticCANID) as well *)
      (set_msgs s (upd_nth m (fun x => set_msg_fields x cid (Some cid) (m_sender x)) (msgs s)), OK)
  | MBusAssignAttr b a =>
      (set_buses s (upd_nth b (fun x => mkBus (b_baud x) (b_builder x) (b_attrs x ++ [a])) (buses s)), OK)
  | MNodeAttach n i b =>
      match nth_error (nodes s) n with
      | None => (s, ERR [])
      | Some nd =>
          match nth_error (n_ifs nd) i with
          | Some None =>
              if bus_has_name s b (n_name nd) || bus_has_id s b (n_id nd) then (s, ERR [K_BUS])
              else (set_nodes s (upd_nth n (fun x => set_ifs x (upd_nth i (fun _ => Some b) (n_ifs x))) (nodes s)), OK)
          | _ => (s, ERR [])
          end
      end
  | MNodeRename n nm =>
      match nth_error (nodes s) n with
      | None => (s, ERR [])
      | Some nd =>
          if n_name nd =? nm then (s, OK)
          else match rename_scan s nm (n_ifs nd) 0 with
               | Some i =>
                   (* n.intErrNum = tmpInt.number; return n.errorf(...) *)
                   let r := node_errorf (set_hint nd i) in
                   (set_nodes s (upd_nth n (fun _ => fst r) (nodes s)), ERR (snd r))
               | None => (set_nodes s (upd_nth n (fun x => set_name x nm) (nodes s)), OK)
               end
      end
  | MNodeAssignAttr n a =>
      match nth_error (nodes s) n with
      | None => (s, ERR [])
      | Some nd =>
          (set_nodes s (upd_nth n (fun x => set_attrs x (if zmem a (n_attrs x) then n_attrs x else n_attrs x ++ [a])) (nodes s)), OK)
      end
  | MNodeRemoveAttr n a =>
      match nth_error (nodes s) n with
      | None => (s, ERR [])
      | Some nd =>
          if zmem a (n_attrs nd)
          then (set_nodes s (upd_nth n (fun x => set_attrs x (filter (fun y => negb (y =? a)) (n_attrs x))) (nodes s)), OK)
          else let r := node_errorf nd in
               (set_nodes s (upd_nth n (fun _ => fst r) (nodes s)), ERR (snd r))
      end
  | MEnumAddRef e sg room inmsg =>
      (* the new enum signal also enters the signal table (the harness numbers signals by position) *)
      (add_sig (set_enums s (upd_nth e (fun x => set_erefs x (e_refs x ++ [mkRef sg room inmsg])) (enums s)))
               (mkSig (-1) (-1) (Z.of_nat e) [] []), OK)
  | MEnumDelRef e sg =>
      (set_enums s (upd_nth e (fun x => set_erefs x (filter (fun r => negb (r_sig r =? sg)) (e_refs x))) (enums s)), OK)
  | MEnumAddValue e v idx push_fail =>
      match nth_error (enums s) e with
      | None => (s, ERR [])
      | Some en =>
          match verify_value_index en idx with
          | Some en1 =>
              let r := enum_errorf en1 in
              (set_enums s (upd_nth e (fun _ => fst r) (enums s)), ERR (snd r))
          | None =>
              if zmem v (map fst (e_vals en)) then          (* verifyValueName refuses *)
                let r := enum_errorf en in
                (set_enums s (upd_nth e (fun _ => fst r) (enums s)), ERR (snd r))
              else
                match (if e_max en <? idx then push_failure en push_fail else None) with
                | Some sg =>
                    (* se.modifySize: se.parErrID = tmpSig.entityID; return err -> se.errorf(addValErr) *)
                    let r := enum_errorf (set_ehint en (Some sg)) in
                    (set_enums s (upd_nth e (fun _ => fst r) (enums s)), ERR (snd r))
                | None =>
                    let en' := set_evals en (e_vals en ++ [(v, idx)]) (Z.max (e_max en) idx) in
                    (set_enums s (upd_nth e (fun _ => en') (enums s)), OK)
                end
          end
      end
  | MEnumRemoveValue e v =>
      match nth_error (enums s) e with
      | None => (s, ERR [])
      | Some en =>
          if zmem v (map fst (e_vals en)) then
            let vals := filter (fun p => negb (fst p =? v)) (e_vals en) in
            (set_enums s (upd_nth e (fun x => set_evals x vals (list_max (map snd vals))) (enums s)), OK)
          else
            let r := enum_errorf en in
            (set_enums s (upd_nth e (fun _ => fst r) (enums s)), ERR (snd r))
      end
  | MEnumReindex e v idx push_fail =>
      match nth_error (enums s) e with
      | None => (s, ERR [])
      | Some en =>
          match find (fun p => fst p =? v) (e_vals en) with
          | None => (s, ERR [])
          | Some (_, old) =>
              if old =? idx then (s, OK)
              else match verify_value_index en idx with
                   | Some en1 =>
                       (* sev.errorf -> parentEnum.errorf *)
                       let r := enum_errorf en1 in
                       (set_enums s (upd_nth e (fun _ => fst r) (enums s)), ERR (snd r))
                   | None =>
                       match push_failure en push_fail with
                       | Some sg =>
                           (* modifyValueIndex: se.modifySize fails (hint set, signal_enum.go:115);
                              panic(se.errorf(err)): the errorf consumes the hint before the panic *)
                           let r := enum_errorf (set_ehint en (Some sg)) in
                           (set_enums s (upd_nth e (fun _ => fst r) (enums s)), K_PANIC :: snd r)
                       | None =>
                           (* success branch: abstraction of modifyValueIndex (the layouts are C01's
                              model); the correspondence run only issues refused / no-op calls *)
                           let vals := map (fun p => if fst p =? v then (v, idx) else p) (e_vals en) in
                           (set_enums s (upd_nth e (fun x => set_evals x vals (list_max (map snd vals))) (enums s)), OK)
                       end
                   end
          end
      end
  | MNewType fields =>
      (set_shared s (mkShared (sigs (shared s)) (types (shared s) ++ [fields]) (units (shared s)) (adefs (shared s))), OK)
  | MNewUnit sym =>
      (set_shared s (mkShared (sigs (shared s)) (types (shared s)) (units (shared s) ++ [sym]) (adefs (shared s))), OK)
  | MNewAttrDef fields =>
      (set_shared s (mkShared (sigs (shared s)) (types (shared s)) (units (shared s)) (adefs (shared s) ++ [fields])), OK)
  | MNewSig ty un => (add_sig s (mkSig ty un (-1) [] []), OK)
  | MNewMux groups => (add_sig s (mkSig (-1) (-1) (-1) [] groups), OK)
  | MSigAssignAttr sg a =>
      (set_shared s (mkShared (upd_nth sg (fun x => mkSig (s_type x) (s_unit x) (s_enum x)
                                                     (if zmem a (s_attrs x) then s_attrs x else s_attrs x ++ [a]) (s_groups x))
                                       (sigs (shared s)))
                              (types (shared s)) (units (shared s)) (adefs (shared s))), OK)
  | MMsgAssignAttr m a =>
      (set_msgs s (upd_nth m (fun x => mkMsg (m_id x) (m_prio x) (m_static x) (m_sender x) (m_bytes x) (m_cycle x) (m_sigs x) (m_recv x)
                                             (if zmem a (m_attrs x) then m_attrs x else m_attrs x ++ [a])) (msgs s)), OK)
  | MMsgAddRecv m n i =>
      match nth_error (msgs s) m with
      | None => (s, ERR [])
      | Some x =>
          match m_sender x with
          | Some (n', i') =>
              if Nat.eqb n n' && Nat.eqb i i' then (s, ERR [K_MSG])   (* ErrReceiverIsSender *)
              else (set_msgs s (upd_nth m (fun x => mkMsg (m_id x) (m_prio x) (m_static x) (m_sender x) (m_bytes x) (m_cycle x) (m_sigs x)
                                                          (m_recv x ++ [Z.of_nat n * 1024 + Z.of_nat i]) (m_attrs x)) (msgs s)), OK)
          | None =>
              (set_msgs s (upd_nth m (fun x => mkMsg (m_id x) (m_prio x) (m_static x) (m_sender x) (m_bytes x) (m_cycle x) (m_sigs x)
                                                     (m_recv x ++ [Z.of_nat n * 1024 + Z.of_nat i]) (m_attrs x)) (msgs s)), OK)
          end
      end
  end.

(* ---------------------------------------------------------------- read-only operations *)
Inductive ro_op :=
| RNodeGetAttr (n : nat) (a : Z)     (* Node.GetAttributeAssignment; miss -> Node.errorf *)
| REnumGetValue (e : nat) (v : Z)    (* SignalEnum.GetValue; miss -> SignalEnum.errorf *)
| RNodeFields (n : nat)              (* Name, ID, Interfaces() (the node's own slice) *)
| RNodeAttrs (n : nat)               (* AttributeAssignments(): copy of the map values, sorted *)
| RNodeString (n : nat)              (* String(): fields through a local strings.Builder *)
| REnumValues (e : nat)              (* Values(): copy, sorted by index *)
| REnumSize (e : nat)                (* GetSize / MaxIndex / MinSize *)
| REnumString (e : nat)              (* String(): fields + Values() + ReferenceCount *)
| RBusFields (b : nat)               (* Baudrate, CANIDBuilder().Operations(), AttributeAssignments *)
| RBusNodes (b : nat)                (* NodeInterfaces(): copy, sorted by node id *)
| RBusLookup (b : nat) (name : Z)    (* GetNodeInterfaceByNodeName; miss -> Bus.errorf (no hint) *)
| RSentMsgs (n i : nat)              (* NodeInterface.SentMessages(): copy, sorted by message id *)
| RMsgSignals (m : nat)              (* Message.Signals(): the layout's slice itself / Decode's walk *)
| RMsgCanID (m : nat)                (* GetCANID: static id, or sender, bus builder ops, prio, id, node id *)
| RBusLoad (b : nat)                 (* CalculateBusLoad: baudrate, size and cycle time of every sent message *)
| RBusAttrs (b : nat)                (* Bus.AttributeAssignments(): copy, sorted *)
| RMsgRecv (m : nat)                 (* Message.Receivers(): copy, sorted by node name *)
| RMsgAttrs (m : nat)                (* Message.AttributeAssignments(): copy, sorted *)
| RSigFields (sg : nat)              (* Signal: Kind, Type(), Unit(), Enum() (shared objects) *)
| RSigAttrs (sg : nat)               (* Signal.AttributeAssignments(): copy, sorted *)
| RTypeFields (t : nat)              (* SignalType fields read by the exporters (shared) *)
| RUnitFields (u : nat)              (* SignalUnit symbol (shared) *)
| RAttrDef (a : nat)                 (* Attribute definition: type, default, bounds (shared) *)
| RSigGroups (sg : nat)              (* MultiplexerSignal.GetSignalGroups(): the groups' own slices *)
| RMsgFields (m : nat)               (* Message: ID, Priority, SizeByte, CycleTime *)
| RNetBuses.                         (* Network.Buses(): copy, sorted by name *)

Definition enc (n i : nat) : Z := Z.of_nat n * 1024 + Z.of_nat i.
Definition dec_n (z : Z) : nat := Z.to_nat (z / 1024).
Definition dec_i (z : Z) : nat := Z.to_nat (z mod 1024).

Fixpoint index_from {A} (k : nat) (l : list A) : list (nat * A) :=
  match l with [] => [] | x :: r => (k, x) :: index_from (S k) r end.

(* interfaces attached to bus b as (node id, encoded (node, iface)) *)
Definition bus_ifaces (s : state) (b : nat) : list (Z * Z) :=
  flat_map (fun p : nat * node_st =>
              let (n, nd) := p in
              flat_map (fun q : nat * option nat =>
                          let (i, ob) := q in
                          match ob with
                          | Some b' => if Nat.eqb b b' then [(n_id nd, enc n i)] else []
                          | None => []
                          end) (index_from 0 (n_ifs nd)))
           (index_from 0 (nodes s)).

Definition sent_msgs (s : state) (n i : nat) : list (Z * Z) :=
  flat_map (fun p : nat * msg_st =>
              let (m, x) := p in
              match m_sender x with
              | Some (n', i') => if Nat.eqb n n' && Nat.eqb i i' then [(m_id x, Z.of_nat m)] else []
              | None => []
              end) (index_from 0 (msgs s)).

Definition opt_z (o : option Z) : list Z := match o with Some z => [1; z] | None => [0] end.
Definition opt_bus (o : option nat) : list Z := match o with Some b => [Z.of_nat b] | None => [-1] end.

Definition node_fields (nd : node_st) : list Z :=
  [n_name nd; n_id nd] ++ flat_map opt_bus (n_ifs nd).

Definition enum_values_sorted (e : enum_st) : list Z := map fst (sort_by snd (e_vals e)).

Definition msg_canid_inputs (s : state) (x : msg_st) : list Z :=
  match m_static x with
  | Some c => [1; c]
  | None =>
      match m_sender x with
      | None => [2; m_id x]
      | Some (n, i) =>
          match nth_error (nodes s) n with
          | None => [2; m_id x]
          | Some nd =>
              match nth_error (n_ifs nd) i with
              | Some (Some b) =>
                  match nth_error (buses s) b with
                  | Some bs => [3; m_prio x; m_id x; n_id nd] ++ b_builder bs
                  | None => [2; m_id x]
                  end
              | _ => [2; m_id x]
              end
          end
      end
  end.

(* Message.Receivers() sorts by node name (ties by entity id: the harness and this key use the
   encoded (node, interface) instead, entity ids are not modelled) *)
Definition recv_key (s : state) (z : Z) : Z :=
  match nth_error (nodes s) (dec_n z) with
  | Some nd => n_name nd * 1048576 + z
  | None => z
  end.

Definition ro (s : state) (q : ro_op) : state * list Z :=
  match q with
  | RNodeGetAttr n a =>
      match nth_error (nodes s) n with
      | None => (s, ERR [])
      | Some nd =>
          if zmem a (n_attrs nd) then (s, [0; a])
          else let r := node_errorf nd in
               (set_nodes s (upd_nth n (fun _ => fst r) (nodes s)), ERR (snd r))
      end
  | REnumGetValue e v =>
      match nth_error (enums s) e with
      | None => (s, ERR [])
      | Some en =>
          match find (fun p => fst p =? v) (e_vals en) with
          | Some p => (s, [0; fst p; snd p])
          | None => let r := enum_errorf en in
                    (set_enums s (upd_nth e (fun _ => fst r) (enums s)), ERR (snd r))
          end
      end
  | RNodeFields n =>
      (s, match nth_error (nodes s) n with Some nd => node_fields nd | None => ERR [] end)
  | RNodeAttrs n =>
      (s, match nth_error (nodes s) n with Some nd => sort_by (fun a => a) (n_attrs nd) | None => ERR [] end)
  | RNodeString n =>
      (s, match nth_error (nodes s) n with Some nd => [n_name nd; n_id nd] | None => ERR [] end)
  | REnumValues e =>
      (s, match nth_error (enums s) e with Some en => enum_values_sorted en | None => ERR [] end)
  | REnumSize e =>
      (s, match nth_error (enums s) e with Some en => [enum_size en; e_max en; e_min en] | None => ERR [] end)
  | REnumString e =>
      (s, match nth_error (enums s) e with
          | Some en => e_max en :: enum_values_sorted en ++ [Z.of_nat (length (e_refs en))]
          | None => ERR [] end)
  | RBusFields b =>
      (s, match nth_error (buses s) b with
          | Some bs => b_baud bs :: b_builder bs ++ sort_by (fun a => a) (b_attrs bs)
          | None => ERR [] end)
  | RBusNodes b => (s, map snd (sort_by fst (bus_ifaces s b)))
  | RBusLookup b nm =>
      (s, match find (fun p : nat * node_st => attached_to b (snd p) && (n_name (snd p) =? nm)) (index_from 0 (nodes s)) with
          | Some p => [0; Z.of_nat (fst p)]
          | None => ERR [K_BUS]
          end)
  | RSentMsgs n i => (s, map snd (sort_by fst (sent_msgs s n i)))
  | RMsgSignals m =>
      (s, match nth_error (msgs s) m with Some x => m_sigs x | None => ERR [] end)
  | RMsgCanID m =>
      (s, match nth_error (msgs s) m with Some x => msg_canid_inputs s x | None => ERR [] end)
  | RBusLoad b =>
      (s, match nth_error (buses s) b with
          | Some bs =>
              b_baud bs ::
              flat_map (fun ni => flat_map (fun mz =>
                                              match nth_error (msgs s) (Z.to_nat mz) with
                                              | Some x => [m_bytes x; m_cycle x]
                                              | None => []
                                              end)
                                           (map snd (sort_by fst (sent_msgs s (dec_n ni) (dec_i ni)))))
                       (map snd (sort_by fst (bus_ifaces s b)))
          | None => ERR [] end)
  | RBusAttrs b =>
      (s, match nth_error (buses s) b with Some bs => sort_by (fun a => a) (b_attrs bs) | None => ERR [] end)
  | RMsgRecv m =>
      (s, match nth_error (msgs s) m with
          | Some x => map snd (sort_by fst (map (fun z => (recv_key s z, z)) (m_recv x)))
          | None => ERR [] end)
  | RMsgAttrs m =>
      (s, match nth_error (msgs s) m with Some x => sort_by (fun a => a) (m_attrs x) | None => ERR [] end)
  | RSigFields sg =>
      (s, match nth_error (sigs (shared s)) sg with Some x => [s_type x; s_unit x; s_enum x] | None => ERR [] end)
  | RSigAttrs sg =>
      (s, match nth_error (sigs (shared s)) sg with Some x => sort_by (fun a => a) (s_attrs x) | None => ERR [] end)
  | RTypeFields t =>
      (s, match nth_error (types (shared s)) t with Some f => f | None => ERR [] end)
  | RUnitFields u =>
      (s, match nth_error (units (shared s)) u with Some sym => [sym] | None => ERR [] end)
  | RAttrDef a =>
      (s, match nth_error (adefs (shared s)) a with Some f => f | None => ERR [] end)
  | RSigGroups sg =>
      (s, match nth_error (sigs (shared s)) sg with
          | Some x => flat_map (fun g => g ++ [-1]) (s_groups x)
          | None => ERR [] end)
  | RMsgFields m =>
      (s, match nth_error (msgs s) m with Some x => [m_id x; m_prio x; m_bytes x; m_cycle x] | None => ERR [] end)
  | RNetBuses => (s, map Z.of_nat (seq 0 (length (buses s))))
  end.

(* ---------------------------------------------------------------- histories *)
Inductive op := Mut (o : mut_op) | Ro (q : ro_op).

Definition step (s : state) (o : op) : state * list Z :=
  match o with Mut m => mstep s m | Ro q => ro s q end.

Definition run (ops : list op) : state := fold_left (fun s o => fst (step s o)) ops init.

(* hints, as observed by the harness after every step *)
Definition hints (s : state) : list Z * list (option Z) :=
  (map n_hint (nodes s), map e_hint (enums s)).

(* what the correspondence check compares: result and hints after every step of a history *)
Fixpoint replay (s : state) (ops : list op) : list (list Z * (list Z * list (option Z))) :=
  match ops with
  | [] => []
  | o :: r => let (s', res) := step s o in (res, hints s') :: replay s' r
  end.

(* sequential execution of read-only operations *)
Fixpoint run_ro (s : state) (qs : list ro_op) : state * list (list Z) :=
  match qs with
  | [] => (s, [])
  | q :: r => let (s1, o) := ro s q in let (s2, os) := run_ro s1 r in (s2, o :: os)
  end.

(* ---------------------------------------------------------------- concurrency layer *)
(* A worker (goroutine) is a resumption: it issues read-only operations on the SHARED state one
   at a time and keeps everything else (exporter struct, builders, buffers) private. *)
Inductive prog :=
| Done (r : list (list Z))
| Call (q : ro_op) (k : list Z -> prog).

(* sequential run of one worker from state s *)
Fixpoint exec (s : state) (p : prog) : state * list (list Z) :=
  match p with
  | Done r => (s, r)
  | Call q k => let (s1, o) := ro s q in exec s1 (k o)
  end.
Definition eval (s : state) (p : prog) : list (list Z) := snd (exec s p).

(* one scheduler step: worker t performs its next shared-state access *)
Definition sched_step (s : state) (ps : list prog) (t : nat) : state * list prog :=
  match nth_error ps t with
  | Some (Call q k) => let (s1, o) := ro s q in (s1, upd_nth t (fun _ => k o) ps)
  | _ => (s, ps)
  end.

(* a schedule is the list of worker indexes chosen by the Go scheduler *)
Fixpoint sched_run (s : state) (ps : list prog) (sch : list nat) : state * list prog :=
  match sch with
  | [] => (s, ps)
  | t :: r => let (s1, ps1) := sched_step s ps t in sched_run s1 ps1 r
  end.

Definition is_done (p : prog) : bool := match p with Done _ => true | Call _ _ => false end.
Definition result_of (p : prog) : list (list Z) := match p with Done r => r | Call _ _ => [] end.

(* a goroutine running a fixed list of read-only operations, collecting the results *)
Fixpoint seq_prog (qs : list ro_op) (acc : list (list Z)) : prog :=
  match qs with
  | [] => Done acc
  | q :: r => Call q (fun o => seq_prog r (acc ++ [o]))
  end.

(* ---------------------------------------------------------------- ExportNetwork *)
Fixpoint foreach (l : list Z) (body : Z -> list (list Z) -> (list (list Z) -> prog) -> prog)
         (acc : list (list Z)) (k : list (list Z) -> prog) : prog :=
  match l with
  | [] => k acc
  | x :: r => body x acc (fun acc' => foreach r body acc' k)
  end.

(* exporter.exportBus, with every read of SHARED state it performs (exporter.go):
     bus:        desc/baudrate, AttributeAssignments() and, per assignment, the attribute definition
     interfaces: NodeInterfaces(); per interface the node (name, desc, id), its
                 AttributeAssignments() + attribute definitions, SentMessages()
     message:    GetCANID (static id / sender / bus builder / priority / id / node id),
                 AttributeAssignments() + definitions, Signals()
     signal:     AttributeAssignments() + definitions, parMsg.Receivers() (once per signal, as the
                 code does), kind / type / unit / enum of the signal, then the type's fields, the
                 unit's symbol, the enum's Values() - objects shared between messages and buses
   `acc` is the worker's private dbc.File under construction.  (The value tables written at the end
   of exportBus re-read Values() of the enums met on the way: same read set.) *)
Definition attr_body (a : Z) (acc : list (list Z)) (k : list (list Z) -> prog) : prog :=
  Call (RAttrDef (Z.to_nat a)) (fun d => k (acc ++ [d])).

Definition opt_call (h : Z) (mk : nat -> ro_op) (acc : list (list Z)) (k : list (list Z) -> prog) : prog :=
  if 0 <=? h then Call (mk (Z.to_nat h)) (fun o => k (acc ++ [o])) else k acc.

(* what a walker reads besides the structure itself: the DBC exporter reads attributes, CAN-IDs and
   receivers; the Markdown exporter CAN-IDs and receivers but no attributes; the saver attributes and
   receivers and the raw ids; String the raw fields and receivers *)
Record walk_cfg := mkCfg { w_attrs : bool; w_canid : bool; w_recv : bool }.

Definition attrs_of (cfg : walk_cfg) (q : ro_op) (acc : list (list Z)) (k : list (list Z) -> prog) : prog :=
  if w_attrs cfg then Call q (fun al => foreach al attr_body (acc ++ [al]) k) else k acc.

(* a signal: attributes, the receivers of its message (the exporters ask per signal), its shared
   type / unit / enum and, for a multiplexer signal, the signals of its groups, recursively (fuel =
   nesting depth walked; the harness nests 3 deep) *)
Fixpoint sig_walk (fuel : nat) (cfg : walk_cfg) (m : nat) (sz : Z) (acc : list (list Z))
         (k : list (list Z) -> prog) : prog :=
  match fuel with
  | O => k acc
  | S fu =>
      let sg := Z.to_nat sz in
      attrs_of cfg (RSigAttrs sg) acc (fun acc1 =>
      (if w_recv cfg then (fun kk => Call (RMsgRecv m) (fun rc => kk (acc1 ++ [rc]))) else (fun kk => kk acc1)) (fun acc1r =>
      Call (RSigFields sg) (fun f =>
      opt_call (nth 0 f (-1)) RTypeFields (acc1r ++ [f]) (fun acc2 =>
      opt_call (nth 1 f (-1)) RUnitFields acc2 (fun acc3 =>
      opt_call (nth 2 f (-1)) REnumValues acc3 (fun acc4 =>
      Call (RSigGroups sg) (fun gs =>
      foreach (filter (fun z => 0 <=? z) gs) (sig_walk fu cfg m) (acc4 ++ [gs]) k)))))))
  end.

Definition walk_depth : nat := 4.

Definition msg_walk (cfg : walk_cfg) (mz : Z) (acc : list (list Z)) (k : list (list Z) -> prog) : prog :=
  let m := Z.to_nat mz in
  Call (if w_canid cfg then RMsgCanID m else RMsgFields m) (fun o3 =>
  attrs_of cfg (RMsgAttrs m) (acc ++ [o3]) (fun acc1 =>
  Call (RMsgSignals m) (fun ss =>
  foreach ss (sig_walk walk_depth cfg m) (acc1 ++ [ss]) k))).

Definition bus_walk (cfg : walk_cfg) (bz : Z) (acc : list (list Z)) (k : list (list Z) -> prog) : prog :=
  let b := Z.to_nat bz in
  Call (RBusFields b) (fun o0 =>
  attrs_of cfg (RBusAttrs b) (acc ++ [o0]) (fun acc0 =>
  Call (RBusNodes b) (fun nis =>
  foreach nis
    (fun ni acc k' =>
       Call (RNodeFields (dec_n ni)) (fun o1 =>
       attrs_of cfg (RNodeAttrs (dec_n ni)) (acc ++ [o1]) (fun acc1 =>
       Call (RSentMsgs (dec_n ni) (dec_i ni)) (fun ms =>
       foreach ms (msg_walk cfg) acc1 k'))))
    acc0 k))).

(* exporter.exportBus (exporter.go), with every read of SHARED state it performs: bus fields and
   attribute assignments + their definitions, NodeInterfaces(); per interface the node, its
   attributes + definitions, SentMessages(); per message GetCANID, attributes + definitions,
   Signals(); per signal attributes + definitions, parMsg.Receivers(), kind / type / unit / enum, the
   type's fields, the unit's symbol, the enum's Values(), the groups of a multiplexer (recursively).
   `acc` is the worker's private dbc.File under construction.  (The value tables written at the end
   re-read Values() of the enums met on the way: same read set.) *)
Definition cfg_dbc : walk_cfg := mkCfg true true true.
Definition export_bus_prog (b : nat) : prog := bus_walk cfg_dbc (Z.of_nat b) [] (fun acc => Done acc).

(* whole-network walkers: Network.Buses() then every bus *)
Definition net_walk (cfg : walk_cfg) : prog :=
  Call RNetBuses (fun bs => foreach bs (bus_walk cfg) [bs] (fun acc => Done acc)).

(* md_exporter.exportNetwork: table of contents and bus sections (bus, interfaces, messages with CAN-ID and
   receivers, signals with type / unit / enum and multiplexer groups); no attributes.  The appendix
   lists the types / units / enums met on the way (same read set). *)
Definition cfg_md : walk_cfg := mkCfg false true true.
Definition export_md_prog : prog := net_walk cfg_md.
(* saver.saveNetwork: everything with raw ids, attributes and receivers; the referenced builders,
   nodes, types, units, enums and attributes are saved from the objects met on the way *)
Definition cfg_save : walk_cfg := mkCfg true false true.
Definition save_prog : prog := net_walk cfg_save.
(* Network.String(): stringify of buses, interfaces, messages (receivers), signals, types / units /
   enums; attribute assignments are printed through AttributeAssignments() too *)
Definition cfg_string : walk_cfg := mkCfg true false true.
Definition net_string_prog : prog := net_walk cfg_string.

Definition export_bus (s : state) (b : nat) : list (list Z) := eval s (export_bus_prog b).

(* Network.Buses(): the bus handles (sorting by name is immaterial here: names are not modelled) *)
Definition net_buses (s : state) : list nat := seq 0 (length (buses s)).

(* ExportNetwork under schedule sch: one worker per bus over the shared state *)
Definition export_network (s : state) (sch : list nat) : state * list prog :=
  sched_run s (map export_bus_prog (net_buses s)) sch.
