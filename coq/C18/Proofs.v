(* C18 — proofs over Acme.C18.Model: the hints are quiescent in every reachable state (I11),
   hence no read-only operation writes, hence any schedule of workers issuing read-only
   operations leaves the shared state untouched and gives every worker its sequential result. *)
From Coq Require Import ZArith List Bool Lia Permutation.
From Acme.C18 Require Import Model.
Import ListNotations.
Open Scope Z_scope.

(* ---------------------------------------------------------------- generic list lemmas *)
Lemma upd_nth_same : forall {A} (l : list A) n x,
  nth_error l n = Some x -> upd_nth n (fun _ => x) l = l.
Proof.
  induction l as [|y r IH]; intros [|n] x Hn; simpl in *; try discriminate.
  - now inversion Hn.
  - f_equal. now apply IH.
Qed.

Lemma Forall_upd_nth : forall {A} (P : A -> Prop) f n (l : list A),
  Forall P l -> (forall x, P x -> P (f x)) -> Forall P (upd_nth n f l).
Proof.
  intros A P f n l; revert n. induction l as [|y r IH]; intros [|n] Hl Hf; simpl; auto;
    inversion Hl; subst; constructor; auto.
Qed.

Lemma Forall_upd_nth_const : forall {A} (P : A -> Prop) y n (l : list A),
  Forall P l -> P y -> Forall P (upd_nth n (fun _ => y) l).
Proof. intros. apply Forall_upd_nth; auto. Qed.

Lemma Forall_snoc : forall {A} (P : A -> Prop) l x, Forall P l -> P x -> Forall P (l ++ [x]).
Proof. intros. apply Forall_app. split; auto. Qed.

Lemma map_upd_nth_same : forall {A B} (f : A -> B) (l : list A) t x y,
  nth_error l t = Some x -> f y = f x -> map f (upd_nth t (fun _ => y) l) = map f l.
Proof.
  induction l as [|z r IH]; intros [|t] x y Hn Hf; simpl in *; try discriminate.
  - inversion Hn; subst. now rewrite Hf.
  - f_equal. eapply IH; eauto.
Qed.

(* ---------------------------------------------------------------- I11: hints quiescent *)
Definition Quiescent (s : state) : Prop :=
  Forall (fun nd => n_hint nd = -1) (nodes s) /\ Forall (fun e => e_hint e = None) (enums s).

Lemma node_errorf_quiet : forall nd, n_hint nd = -1 -> node_errorf nd = (nd, [K_NODE]).
Proof.
  intros nd H. unfold node_errorf. rewrite H.
  replace (0 <=? -1) with false by reflexivity. now rewrite andb_false_r.
Qed.

Lemma enum_errorf_quiet : forall e, e_hint e = None -> fst (enum_errorf e) = e.
Proof.
  intros e H. unfold enum_errorf. destruct (e_refs e); [reflexivity|]. now rewrite H.
Qed.

Lemma nth_error_Forall : forall {A} (P : A -> Prop) l n x,
  Forall P l -> nth_error l n = Some x -> P x.
Proof.
  intros A P l n x HF Hn. rewrite Forall_forall in HF. apply HF. eapply nth_error_In; eauto.
Qed.

(* the central lemma: in a quiescent state the clearing branches are dead *)
Lemma ro_quiet : forall s q, Quiescent s -> fst (ro s q) = s.
Proof.
  intros s q [HN HE]. destruct q; simpl; try reflexivity.
  - destruct (nth_error (nodes s) n) as [nd|] eqn:En; [|reflexivity].
    destruct (zmem a (n_attrs nd)); [reflexivity|].
    rewrite (node_errorf_quiet nd (nth_error_Forall _ _ _ _ HN En)). simpl.
    rewrite (upd_nth_same _ _ _ En). now destruct s.
  - destruct (nth_error (enums s) e) as [en|] eqn:En; [|reflexivity].
    destruct (find _ (e_vals en)); [reflexivity|]. simpl.
    rewrite (enum_errorf_quiet en (nth_error_Forall _ _ _ _ HE En)).
    rewrite (upd_nth_same _ _ _ En). now destruct s.
Qed.

Lemma rename_scan_range : forall s nm ifs k i,
  rename_scan s nm ifs k = Some i ->
  k <= i /\ exists ob, nth_error ifs (Z.to_nat (i - k)) = Some ob.
Proof.
  intros s nm ifs. induction ifs as [|[b|] r IH]; intros k i H; simpl in H; try discriminate.
  - destruct (bus_has_name s b nm).
    + inversion H; subst. split; [lia|]. rewrite Z.sub_diag. simpl. eauto.
    + apply IH in H. destruct H as [Hk [ob Hob]]. split; [lia|].
      exists ob. replace (i - k) with (Z.succ (i - (k + 1))) by lia.
      rewrite Z2Nat.inj_succ by lia. exact Hob.
  - apply IH in H. destruct H as [Hk [ob Hob]]. split; [lia|].
    exists ob. replace (i - k) with (Z.succ (i - (k + 1))) by lia.
    rewrite Z2Nat.inj_succ by lia. exact Hob.
Qed.

(* Node.UpdateName: the hint set just before errorf is cleared by that very errorf *)
Lemma node_errorf_clears : forall nd i ob,
  0 <= i -> nth_error (n_ifs nd) (Z.to_nat i) = Some ob ->
  n_hint (fst (node_errorf (set_hint nd i))) = -1.
Proof.
  intros nd i ob Hi Hn. unfold node_errorf. simpl.
  assert (Hlen : Nat.eqb (length (n_ifs nd)) 0 = false).
  { destruct (n_ifs nd); [destruct (Z.to_nat i); discriminate | reflexivity]. }
  rewrite Hlen. simpl. replace (0 <=? i) with true by (symmetry; apply Z.leb_le; lia).
  rewrite Hn. reflexivity.
Qed.

Lemma grow_scan_find : forall g refs sg,
  grow_scan g refs = Some sg -> exists r, find (fun r => r_sig r =? sg) refs = Some r.
Proof.
  intros g refs sg. induction refs as [|x r IH]; intros H; simpl in *; try discriminate.
  destruct (r_cap x) as [room|].
  - destruct (room <? g).
    + inversion H; subst. rewrite Z.eqb_refl. eauto.
    + destruct (r_sig x =? sg); eauto.
  - destruct (r_sig x =? sg); eauto.
Qed.

Lemma verify_fail_cleared : forall en idx en1,
  e_hint en = None -> verify_value_index en idx = Some en1 ->
  e_hint (fst (enum_errorf en1)) = None.
Proof.
  intros en idx en1 Hh Hv. unfold verify_value_index in Hv.
  destruct (zmem idx (map snd (e_vals en))).
  - inversion Hv; subst. now rewrite enum_errorf_quiet.
  - destruct (e_max en <? idx); [|discriminate].
    destruct (grow_scan _ (e_refs en)) as [sg|] eqn:Eg; [|discriminate].
    inversion Hv; subst. apply grow_scan_find in Eg. destruct Eg as [r Hr].
    unfold enum_errorf. simpl. destruct (e_refs en) as [|r0 rest] eqn:Er.
    + simpl in Hr. discriminate.
    + rewrite Hr. reflexivity.
Qed.

(* SignalEnum.modifySize: the hint it sets is consumed by the errorf of its caller *)
Lemma push_fail_cleared : forall en pf sg,
  push_failure en pf = Some sg -> e_hint (fst (enum_errorf (set_ehint en (Some sg)))) = None.
Proof.
  intros en [x|] sg H; simpl in H; [|discriminate].
  destruct (find (fun r => r_sig r =? x) (e_refs en)) as [r|] eqn:Ef; [|discriminate].
  inversion H; subst. unfold enum_errorf. simpl.
  destruct (e_refs en) as [|r0 rest] eqn:Er; [simpl in Ef; discriminate|].
  rewrite Ef. reflexivity.
Qed.

Lemma mstep_quiescent : forall s o, Quiescent s -> Quiescent (fst (mstep s o)).
Proof.
  intros s o [HN HE]. destruct o; simpl.
  - split; simpl; auto. apply Forall_snoc; auto.
  - split; simpl; auto.
  - split; simpl; auto. apply Forall_snoc; auto.
  - split; simpl; auto.
  - split; simpl; auto.
  - split; simpl; auto.
  - split; simpl; auto.
  - (* attach *)
    destruct (nth_error (nodes s) n) as [nd|] eqn:En; [|split; auto].
    destruct (nth_error (n_ifs nd) i) as [[b0|]|]; try (split; auto; fail).
    destruct (bus_has_name s b (n_name nd) || bus_has_id s b (n_id nd)); split; simpl; auto.
    apply Forall_upd_nth; auto.
  - (* rename *)
    destruct (nth_error (nodes s) n) as [nd|] eqn:En; [|split; auto].
    destruct (n_name nd =? newname); [split; auto|].
    destruct (rename_scan s newname (n_ifs nd) 0) as [i|] eqn:Es; split; simpl; auto.
    + apply Forall_upd_nth_const; auto.
      apply rename_scan_range in Es. destruct Es as [Hi [ob Hob]]. rewrite Z.sub_0_r in Hob.
      eapply node_errorf_clears; eauto.
    + apply Forall_upd_nth; auto.
  - (* assign attr *)
    destruct (nth_error (nodes s) n) as [nd|] eqn:En; split; simpl; auto.
    apply Forall_upd_nth; auto.
  - (* remove attr *)
    destruct (nth_error (nodes s) n) as [nd|] eqn:En; [|split; auto].
    destruct (zmem a (n_attrs nd)); split; simpl; auto.
    + apply Forall_upd_nth; auto.
    + apply Forall_upd_nth_const; auto.
      rewrite (node_errorf_quiet nd (nth_error_Forall _ _ _ _ HN En)). simpl.
      exact (nth_error_Forall _ _ _ _ HN En).
  - split; simpl; auto. apply Forall_upd_nth; auto.
  - split; simpl; auto. apply Forall_upd_nth; auto.
  - (* add value *)
    destruct (nth_error (enums s) e) as [en|] eqn:En; [|split; auto].
    pose proof (nth_error_Forall _ _ _ _ HE En) as Hh. simpl in Hh.
    destruct (verify_value_index en idx) as [en1|] eqn:Ev.
    + split; simpl; auto. apply Forall_upd_nth_const; auto. eapply verify_fail_cleared; eauto.
    + destruct (zmem v (map fst (e_vals en))); [split; simpl; auto|].
      * apply Forall_upd_nth_const; auto. now rewrite enum_errorf_quiet.
      * destruct (if e_max en <? idx then push_failure en push_fail else None) as [sg|] eqn:Ep;
          split; simpl; auto; apply Forall_upd_nth_const; auto.
        destruct (e_max en <? idx); [|discriminate]. eapply push_fail_cleared; eauto.
  - (* remove value *)
    destruct (nth_error (enums s) e) as [en|] eqn:En; [|split; auto].
    pose proof (nth_error_Forall _ _ _ _ HE En) as Hh. simpl in Hh.
    destruct (zmem v (map fst (e_vals en))); split; simpl; auto.
    + apply Forall_upd_nth; auto.
    + apply Forall_upd_nth_const; auto. now rewrite enum_errorf_quiet.
  - (* reindex *)
    destruct (nth_error (enums s) e) as [en|] eqn:En; [|split; auto].
    pose proof (nth_error_Forall _ _ _ _ HE En) as Hh. simpl in Hh.
    destruct (find _ (e_vals en)) as [[v0 old]|]; [|split; auto].
    destruct (old =? idx); [split; auto|].
    destruct (verify_value_index en idx) as [en1|] eqn:Ev.
    + split; simpl; auto. apply Forall_upd_nth_const; auto. eapply verify_fail_cleared; eauto.
    + destruct (push_failure en push_fail) as [sg|] eqn:Ep; split; simpl; auto.
      * apply Forall_upd_nth_const; auto. eapply push_fail_cleared; eauto.
      * apply Forall_upd_nth; auto.
  - split; simpl; auto.
  - split; simpl; auto.
  - split; simpl; auto.
  - split; simpl; auto.
  - split; simpl; auto.
  - split; simpl; auto.
  - split; simpl; auto.
  - destruct (nth_error (msgs s) m) as [x|]; [|split; auto].
    destruct (m_sender x) as [[n' i']|]; [destruct (Nat.eqb n n' && Nat.eqb i i')|]; split; simpl; auto.
Qed.

Lemma step_quiescent : forall s o, Quiescent s -> Quiescent (fst (step s o)).
Proof.
  intros s [m|q] H; simpl.
  - now apply mstep_quiescent.
  - now rewrite ro_quiet.
Qed.

Definition Reach (s : state) : Prop := exists ops, s = run ops.

Lemma fold_quiescent : forall ops s,
  Quiescent s -> Quiescent (fold_left (fun s o => fst (step s o)) ops s).
Proof.
  induction ops as [|o r IH]; intros s H; simpl; auto. apply IH. now apply step_quiescent.
Qed.

Lemma reach_quiescent : forall s, Reach s -> Quiescent s.
Proof.
  intros s [ops ->]. apply fold_quiescent. split; constructor.
Qed.

(* ---------------------------------------------------------------- theorems *)
Lemma ro_no_write_l : forall s q, Reach s -> fst (ro s q) = s.
Proof. intros. apply ro_quiet. now apply reach_quiescent. Qed.

Lemma hints_quiescent_l : forall s, Reach s ->
  Forall (fun h => h = -1) (fst (hints s)) /\ Forall (fun h => h = None) (snd (hints s)).
Proof.
  intros s H. destruct (reach_quiescent s H) as [HN HE]. unfold hints. simpl.
  split; apply Forall_map; assumption.
Qed.

Lemma run_ro_quiet : forall qs s, Quiescent s ->
  run_ro s qs = (s, map (fun q => snd (ro s q)) qs).
Proof.
  induction qs as [|q r IH]; intros s H; simpl; auto.
  pose proof (ro_quiet s q H) as Hq. destruct (ro s q) as [s1 o] eqn:E. simpl in Hq. subst s1.
  rewrite (IH s H). reflexivity.
Qed.

Lemma ro_seq_outputs_l : forall s qs, Reach s ->
  run_ro s qs = (s, map (fun q => snd (ro s q)) qs).
Proof. intros. apply run_ro_quiet. now apply reach_quiescent. Qed.

Lemma ro_order_irrelevant_l : forall s qs qs', Reach s -> Permutation qs qs' ->
  Permutation (combine qs (snd (run_ro s qs))) (combine qs' (snd (run_ro s qs'))).
Proof.
  intros s qs qs' HR HP. rewrite !ro_seq_outputs_l by assumption. simpl.
  assert (Hc : forall l, combine l (map (fun q => snd (ro s q)) l) = map (fun q => (q, snd (ro s q))) l).
  { induction l; simpl; congruence. }
  rewrite !Hc. now apply Permutation_map.
Qed.

Lemma exec_quiet : forall p s, Quiescent s -> fst (exec s p) = s.
Proof.
  induction p as [r|q k IH]; intros s H; simpl; auto.
  pose proof (ro_quiet s q H) as Hq. destruct (ro s q) as [s1 o]. simpl in Hq. subst s1.
  now apply IH.
Qed.

Lemma eval_call : forall s q k, Quiescent s -> eval s (Call q k) = eval s (k (snd (ro s q))).
Proof.
  intros s q k H. unfold eval. simpl.
  pose proof (ro_quiet s q H) as Hq. destruct (ro s q) as [s1 o]. simpl in *. now subst s1.
Qed.

Lemma sched_step_quiet : forall s ps t, Quiescent s ->
  fst (sched_step s ps t) = s /\ map (eval s) (snd (sched_step s ps t)) = map (eval s) ps.
Proof.
  intros s ps t H. unfold sched_step.
  destruct (nth_error ps t) as [[r|q k]|] eqn:En; simpl; auto.
  pose proof (ro_quiet s q H) as Hq. pose proof (eval_call s q k H) as He.
  destruct (ro s q) as [s1 o]. simpl in *. subst s1. split; auto.
  eapply map_upd_nth_same; eauto.
Qed.

Lemma sched_run_quiet : forall sch s ps, Quiescent s ->
  fst (sched_run s ps sch) = s /\ map (eval s) (snd (sched_run s ps sch)) = map (eval s) ps.
Proof.
  induction sch as [|t r IH]; intros s ps H; simpl; auto.
  destruct (sched_step_quiet s ps t H) as [H1 H2].
  destruct (sched_step s ps t) as [s1 ps1]. simpl in *. subst s1.
  destruct (IH s ps1 H) as [H3 H4]. split; auto. now rewrite H4.
Qed.

Lemma done_results : forall s ps, forallb is_done ps = true -> map result_of ps = map (eval s) ps.
Proof.
  induction ps as [|p r IH]; intros H; simpl in *; auto.
  apply andb_prop in H. destruct H as [Hp Hr]. rewrite IH by assumption.
  destruct p; [reflexivity|discriminate].
Qed.

(* any schedule of any workers: shared state untouched, every finished worker holds exactly the
   result of running it alone *)
Lemma sched_sequential_l : forall s ps sch, Reach s ->
  fst (sched_run s ps sch) = s /\
  (forallb is_done (snd (sched_run s ps sch)) = true ->
   map result_of (snd (sched_run s ps sch)) = map (eval s) ps).
Proof.
  intros s ps sch HR. pose proof (reach_quiescent s HR) as H.
  destruct (sched_run_quiet sch s ps H) as [H1 H2]. split; auto.
  intros Hd. rewrite (done_results s _ Hd). exact H2.
Qed.

Lemma eval_seq_prog : forall qs s acc, Quiescent s ->
  eval s (seq_prog qs acc) = acc ++ map (fun q => snd (ro s q)) qs.
Proof.
  induction qs as [|q r IH]; intros s acc H; simpl.
  - unfold eval. simpl. now rewrite app_nil_r.
  - rewrite eval_call by assumption. rewrite IH by assumption. now rewrite <- app_assoc.
Qed.

(* N goroutines each running its own list of read-only operations, under any schedule *)
Lemma ro_commute_l : forall s (threads : list (list ro_op)) sch, Reach s ->
  let r := sched_run s (map (fun qs => seq_prog qs []) threads) sch in
  fst r = s /\
  (forallb is_done (snd r) = true ->
   map result_of (snd r) = map (fun qs => map (fun q => snd (ro s q)) qs) threads).
Proof.
  intros s threads sch HR r. subst r.
  destruct (sched_sequential_l s (map (fun qs => seq_prog qs []) threads) sch HR) as [H1 H2].
  split; auto. intros Hd. rewrite (H2 Hd). rewrite map_map.
  apply map_ext. intros qs. now rewrite eval_seq_prog by (now apply reach_quiescent).
Qed.

Lemma export_network_per_bus_l : forall s sch, Reach s ->
  fst (export_network s sch) = s /\
  (forallb is_done (snd (export_network s sch)) = true ->
   map result_of (snd (export_network s sch)) = map (export_bus s) (net_buses s)).
Proof.
  intros s sch HR. unfold export_network.
  destruct (sched_sequential_l s (map export_bus_prog (net_buses s)) sch HR) as [H1 H2].
  split; auto. intros Hd. rewrite (H2 Hd). now rewrite map_map.
Qed.

(* ExportToMarkdown, SaveNetwork, Network.String and one ExportBus per bus, all at once, under any
   schedule: the shared state is untouched and each finished worker holds its sequential result *)
Lemma all_exports_sequential_l : forall s sch, Reach s ->
  let ps := export_md_prog :: save_prog :: net_string_prog :: map export_bus_prog (net_buses s) in
  fst (sched_run s ps sch) = s /\
  (forallb is_done (snd (sched_run s ps sch)) = true ->
   map result_of (snd (sched_run s ps sch)) =
   eval s export_md_prog :: eval s save_prog :: eval s net_string_prog :: map (export_bus s) (net_buses s)).
Proof.
  intros s sch HR ps. subst ps.
  destruct (sched_sequential_l s (export_md_prog :: save_prog :: net_string_prog :: map export_bus_prog (net_buses s)) sch HR) as [H1 H2].
  split; auto. intros Hd. rewrite (H2 Hd). simpl. now rewrite map_map.
Qed.

(* copy-then-sort getters: the result is a permutation of the (untouched) stored contents *)
Lemma ins_by_perm : forall {A} (key : A -> Z) x l, Permutation (ins_by key x l) (x :: l).
Proof.
  intros A key x l. induction l as [|y r IH]; simpl; auto.
  destruct (key x <=? key y); auto.
  eapply perm_trans; [apply perm_skip; exact IH | apply perm_swap].
Qed.

Lemma sort_by_perm_l : forall {A} (key : A -> Z) l, Permutation (sort_by key l) l.
Proof.
  intros A key l. induction l as [|x r IH]; simpl; auto.
  eapply perm_trans; [apply ins_by_perm | now apply perm_skip].
Qed.

(* ---------------------------------------------------------------- non-vacuity *)
(* a reachable state in which both hint protocols were exercised: node 1 could not be renamed
   to the name of node 0 on bus 0 (hint set to interface 0, error routed through the bus, hint
   cleared), and value index 8 did not fit next to signal 7 (hint set to 7, routed through the
   signal and its message, cleared) *)
Definition ex_ops : list op :=
  [ Mut (MNewBus 500000 [1;2;3]); Mut (MNewNode 10 1 1); Mut (MNewNode 11 2 2);
    Mut (MNodeAttach 0 0 0); Mut (MNodeAttach 1 1 0); Mut (MNodeRename 1 10);
    Mut MNewEnum; Mut (MEnumAddRef 0 0 (Some 2) true); Mut (MEnumAddValue 0 100 1 None);
    Mut (MEnumAddValue 0 101 8 None);
    Mut (MNewType [8;0;0;255;1;0]); Mut (MNewUnit 86); Mut (MNewAttrDef [0;7]);
    Mut (MNewSig 0 0); Mut (MSigAssignAttr 1 0);
    Mut (MNewSig 0 (-1)); Mut (MNewMux [[2]; []]);
    Mut (MNewMsg 5 1 8 100 [1;0;3]); Mut (MMsgSetSender 0 0 0); Mut (MMsgAssignAttr 0 0);
    Mut (MMsgAddRecv 0 1 1); Mut (MBusAssignAttr 0 0); Mut (MNodeAssignAttr 0 0);
    Ro (RNodeGetAttr 1 99); Ro (REnumGetValue 0 555) ].

Lemma ex_reach_l : Reach (run ex_ops).
Proof. now exists ex_ops. Qed.

Lemma ex_rename_routed_l :
  snd (mstep (run (firstn 5 ex_ops)) (MNodeRename 1 10)) = [-1; K_NODE; K_BUS].
Proof. vm_compute. reflexivity. Qed.

Lemma ex_addvalue_routed_l :
  snd (mstep (run (firstn 9 ex_ops)) (MEnumAddValue 0 101 8 None)) = [-1; K_ENUM; K_SIG; K_MSG].
Proof. vm_compute. reflexivity. Qed.

(* the worker of bus 0 reads, besides the bus, its nodes and messages, the SHARED attribute
   definition 0, type 0, unit 0, the values of enum 0 and, through the multiplexer signal 3, the
   signal 2 of its first group *)
Lemma ex_export_l : export_bus (run ex_ops) 0 =
  [[500000; 1; 2; 3; 0]; [0]; [0; 7]; [10; 1; 0]; [0]; [ 0; 7]; [3; 1; 5; 1; 1; 2; 3]; [0]; [
   0; 7]; [ 1; 0; 3]; [0]; [0; 7]; [1025]; [0; 0; -1]; [ 8; 0; 0; 255; 1; 0]; [86]; []; []; [
   1025]; [ -1; -1; 0]; [100]; []; []; [1025]; [-1; -1; -1]; [ 2; -1; -1]; []; [1025]; [
   0; -1; -1]; [8; 0; 0; 255; 1; 0]; []; [11; 2; -1; 0]; []].
Proof. vm_compute. reflexivity. Qed.

(* ExportToMarkdown and SaveNetwork walk the whole network: what they read of the shared state *)
Lemma ex_md_l : eval (run ex_ops) export_md_prog =
  [[0]; [500000; 1; 2; 3; 0]; [10; 1; 0]; [3; 1; 5; 1; 1; 2; 3]; [1; 0; 3]; [1025]; [
   0; 0; -1]; [8; 0; 0; 255; 1; 0]; [86]; []; [1025]; [-1; -1; 0]; [100]; []; [1025]; [
   -1; -1; -1]; [ 2; -1; -1]; [1025]; [0; -1; -1]; [8; 0; 0; 255; 1; 0]; []; [11; 2; -1; 0]].
Proof. vm_compute. reflexivity. Qed.

Lemma ex_save_l : eval (run ex_ops) save_prog =
  [[0]; [500000; 1; 2; 3; 0]; [0]; [0; 7]; [10; 1; 0]; [0]; [ 0; 7]; [5; 1; 8; 100]; [0]; [
   0; 7]; [1; 0; 3]; [0]; [ 0; 7]; [1025]; [0; 0; -1]; [8; 0; 0; 255; 1; 0]; [86]; []; []; [
   1025]; [-1; -1; 0]; [100]; []; []; [1025]; [ -1; -1; -1]; [2; -1; -1]; []; [1025]; [
   0; -1; -1]; [8; 0; 0; 255; 1; 0]; []; [11; 2; -1; 0]; []].
Proof. vm_compute. reflexivity. Qed.

(* the model does contain the writes: outside the reachable states (hint left set) the very
   same read-only operations modify the shared state *)
Lemma ro_writes_when_hint_set_l :
  (exists s n a, fst (ro s (RNodeGetAttr n a)) <> s) /\
  (exists s e v, fst (ro s (REnumGetValue e v)) <> s).
Proof.
  split.
  - exists (mkState [mkNode 1 1 [None] 0 []] [] [] [] (mkShared [] [] [] [])), 0%nat, 5.
    vm_compute. discriminate.
  - exists (mkState [] [mkEnum [] 0 1 [mkRef 7 None false] (Some 7)] [] [] (mkShared [] [] [] [])), 0%nat, 5.
    vm_compute. discriminate.
Qed.
