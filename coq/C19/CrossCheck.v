(* C19 — in-Coq re-evaluation of recorded cases (DESIGN 3.3, thorough tier): the check writes a
   `cases.v` with operation histories and the outputs *observed on the Go implementation*
   (size and complete tree after every step, query answers), and evaluates `mismatches cases`
   with vm_compute, expecting [].  For that sample, extraction and the OCaml compiler/driver are
   not part of the trusted base.  Definitions only. *)
From Coq Require Import ZArith List Bool.
From Acme.C19 Require Import Model.
Import ListNotations.
Open Scope Z_scope.

Fixpoint tree_eqb (a b : tree) : bool :=
  match a, b with
  | Leaf, Leaf => true
  | Node l lo hi tg m h r, Node l' lo' hi' tg' m' h' r' =>
      tree_eqb l l' && (lo =? lo') && (hi =? hi') && (tg =? tg') && (m =? m') && (h =? h') && tree_eqb r r'
  | _, _ => false
  end.

Fixpoint bools_eqb (a b : list bool) : bool :=
  match a, b with
  | [], [] => true
  | x :: a', y :: b' => Bool.eqb x y && bools_eqb a' b'
  | _, _ => false
  end.

Record case := {
  c_ops : list op;
  c_obs : list (Z * tree);                                   (* Size(), tree after each step *)
  c_qry : option (list (Z * Z) * list bool * list bool)      (* queries, Intersects bits,
                                                                CanUpdateInterval bits per stored item *)
}.

(* returns the final state when every step agrees with the observation *)
Fixpoint steps_ok (s : t) (ops : list op) (obs : list (Z * tree)) : option t :=
  match ops, obs with
  | [], [] => Some s
  | o :: ops', (sz, tr) :: obs' =>
      let s' := step s o in
      if (size s' =? sz) && tree_eqb (root s') tr then steps_ok s' ops' obs' else None
  | _, _ => None
  end.

Definition case_ok (c : case) : bool :=
  match steps_ok empty (c_ops c) (c_obs c) with
  | None => false
  | Some s =>
      match c_qry c with
      | None => true
      | Some (qs, ib, cb) =>
          bools_eqb (map (fun q => intersects s (fst q) (snd q)) qs) ib
          && bools_eqb (flat_map (fun x => map (fun q => can_update s (fst x) (snd x) (fst q) (snd q)) qs)
                                 (inorder (root s))) cb
      end
  end.

Fixpoint mismatches_from (i : nat) (cs : list case) : list nat :=
  match cs with
  | [] => []
  | c :: cs' => if case_ok c then mismatches_from (S i) cs' else i :: mismatches_from (S i) cs'
  end.

Definition mismatches (cs : list case) : list nat := mismatches_from 0 cs.
