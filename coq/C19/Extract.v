(* Extraction of the executable C19 model for the correspondence check.
   ExtrOcamlBasic only: Z / positive stay inductive; no Extract Constant of our own. *)
From Coq Require Import Extraction ExtrOcamlBasic ZArith List.
From Acme.C19 Require Import Model.
Extraction Language OCaml.
Extraction "extracted/c19_model.ml" empty step run inorder items intersects can_update root size.
