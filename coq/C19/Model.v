(* C19 — model of /repo/internal/interval_bst.go (IntervalBST).
   One Gallina function per Go function; stored heights and maxima are kept as fields, exactly
   as the code stores them (so that "stored = real" is a theorem and not a definition).
   Go `int` is modelled as unbounded Z: the property is not about overflow and the tree only
   compares and copies the bounds (height arithmetic stays below 64).
   Items: the Go tree stores values of an arbitrary type T and reads them only through
   GetLow/GetHigh.  An item is modelled as (low, high, tag); the tag stands for the rest of the
   payload, is copied wherever the Go code copies `item`, and is never inspected. *)
From Coq Require Import ZArith List Bool.
Import ListNotations.
Open Scope Z_scope.

Inductive tree : Type :=
| Leaf : tree
| Node : tree -> Z -> Z -> Z -> Z -> Z -> tree -> tree.   (* left, low, high, tag, max, height, right *)

Definition height (t : tree) : Z :=
  match t with Leaf => 0 | Node _ _ _ _ _ h _ => h end.

(* less(a, b): (low, high) lexicographic order, the search key *)
Definition less (alo ahi blo bhi : Z) : bool :=
  if negb (alo =? blo) then alo <? blo else ahi <? bhi.

(* updateHeight + updateMax on a node whose children and item are given *)
Definition upd_max (l : tree) (hi : Z) (r : tree) : Z :=
  let m0 := hi in
  let m1 := match l with Leaf => m0 | Node _ _ _ _ ml _ _ => if ml >? m0 then ml else m0 end in
  match r with Leaf => m1 | Node _ _ _ _ mr _ _ => if mr >? m1 then mr else m1 end.

Definition mk (l : tree) (lo hi tg : Z) (r : tree) : tree :=
  Node l lo hi tg (upd_max l hi r) (1 + Z.max (height l) (height r)) r.

Definition balance_factor (t : tree) : Z :=
  match t with Leaf => 0 | Node l _ _ _ _ _ r => height l - height r end.

(* rotateRight / rotateLeft.  The Go code dereferences n.left / n.right unconditionally; the
   model returns the tree unchanged there and `rot_defined` (Proofs) shows the branch is dead. *)
Definition rotate_right (t : tree) : tree :=
  match t with
  | Node (Node ll llo lhi ltg _ _ lr) lo hi tg _ _ r => mk ll llo lhi ltg (mk lr lo hi tg r)
  | _ => t
  end.

Definition rotate_left (t : tree) : tree :=
  match t with
  | Node l lo hi tg _ _ (Node rl rlo rhi rtg _ _ rr) => mk (mk l lo hi tg rl) rlo rhi rtg rr
  | _ => t
  end.

Definition set_left (t : tree) (l' : tree) : tree :=
  match t with Node _ lo hi tg m h r => Node l' lo hi tg m h r | Leaf => Leaf end.
Definition set_right (t : tree) (r' : tree) : tree :=
  match t with Node l lo hi tg m h _ => Node l lo hi tg m h r' | Leaf => Leaf end.
Definition left (t : tree) := match t with Node l _ _ _ _ _ _ => l | Leaf => Leaf end.
Definition right (t : tree) := match t with Node _ _ _ _ _ _ r => r | Leaf => Leaf end.

(* the rebalancing tail of insertNode: `root` has fresh height/max *)
Definition rebalance_ins (ilo ihi : Z) (root : tree) : tree :=
  let b := balance_factor root in
  if b >? 1 then
    match left root with
    | Node _ llo lhi _ _ _ _ =>
        if negb (less ilo ihi llo lhi)
        then rotate_right (set_left root (rotate_left (left root)))
        else rotate_right root
    | Leaf => root
    end
  else if b <? -1 then
    match right root with
    | Node _ rlo rhi _ _ _ _ =>
        if less ilo ihi rlo rhi
        then rotate_left (set_right root (rotate_right (right root)))
        else rotate_left root
    | Leaf => root
    end
  else root.

Fixpoint ins (ilo ihi itg : Z) (t : tree) : tree :=
  match t with
  | Leaf => Node Leaf ilo ihi itg ihi 1 Leaf
  | Node l lo hi tg _ _ r =>
      if less ilo ihi lo hi
      then rebalance_ins ilo ihi (mk (ins ilo ihi itg l) lo hi tg r)
      else rebalance_ins ilo ihi (mk l lo hi tg (ins ilo ihi itg r))
  end.

(* findMin: leftmost node's item *)
Fixpoint find_min (lo hi tg : Z) (l : tree) : Z * Z * Z :=
  match l with
  | Leaf => (lo, hi, tg)
  | Node ll llo lhi ltg _ _ _ => find_min llo lhi ltg ll
  end.

Definition rebalance_del (root : tree) : tree :=
  let b := balance_factor root in
  if b >? 1 then
    if balance_factor (left root) <? 0
    then rotate_right (set_left root (rotate_left (left root)))
    else rotate_right root
  else if b <? -1 then
    if balance_factor (right root) >? 0
    then rotate_left (set_right root (rotate_right (right root)))
    else rotate_left root
  else root.

(* removeMin: unlinks the leftmost node; the second component counts the `t.size--` statements
   executed.  The Go code is only called on a non-nil subtree (it reads root.left first); the
   model returns (Leaf, 0) there and `rot_defined` covers it (ModelChk.v: None). *)
Fixpoint remove_min (t : tree) : tree * Z :=
  match t with
  | Leaf => (Leaf, 0)
  | Node l lo hi tg _ _ r =>
      match l with
      | Leaf => (r, 1)
      | _ => let '(l', k) := remove_min l in (rebalance_del (mk l' lo hi tg r), k)
      end
  end.

(* deleteNode; the second component counts the `t.size--` statements executed
   (one per node actually unlinked) *)
Fixpoint del (t : tree) (dlo dhi : Z) : tree * Z :=
  match t with
  | Leaf => (Leaf, 0)
  | Node l lo hi tg _ _ r =>
      if less dlo dhi lo hi then
        let '(l', k) := del l dlo dhi in (rebalance_del (mk l' lo hi tg r), k)
      else if less lo hi dlo dhi then
        let '(r', k) := del r dlo dhi in (rebalance_del (mk l lo hi tg r'), k)
      else
        match l, r with
        | Leaf, _ => (r, 1)
        | _, Leaf => (l, 1)
        | _, Node rl rlo rhi rtg _ _ _ =>
            let '(slo, shi, stg) := find_min rlo rhi rtg rl in
            let '(r', k) := remove_min r in
            (rebalance_del (mk l slo shi stg r'), k)
        end
  end.

Record t := { root : tree; size : Z }.
Definition empty : t := {| root := Leaf; size := 0 |}.

(* Delete(item) reads only the bounds of its argument *)
Inductive op := Insert (lo hi tg : Z) | Delete (lo hi : Z) | Clear.

Definition step (s : t) (o : op) : t :=
  match o with
  | Insert lo hi tg =>
      if lo >? hi then s else {| root := ins lo hi tg (root s); size := size s + 1 |}
  | Delete lo hi =>
      let '(r, k) := del (root s) lo hi in {| root := r; size := size s - k |}
  | Clear => empty
  end.

Definition run (ops : list op) : t := fold_left step ops empty.

(* GetAllIntervals: the stored items in order ... *)
Fixpoint items (t : tree) : list (Z * Z * Z) :=
  match t with
  | Leaf => []
  | Node l lo hi tg _ _ r => items l ++ (lo, hi, tg) :: items r
  end.

(* ... and their bounds *)
Fixpoint inorder (t : tree) : list (Z * Z) :=
  match t with
  | Leaf => []
  | Node l lo hi _ _ _ r => inorder l ++ (lo, hi) :: inorder r
  end.

(* intersectsNode *)
Fixpoint intersects_node (t : tree) (low high : Z) : bool :=
  match t with
  | Leaf => false
  | Node l lo hi _ mx _ r =>
      if mx <? low then false
      else if (lo <=? high) && (low <=? hi) then true
      else if (low <? lo) && intersects_node l low high then true
      else intersects_node r low high
  end.

Definition intersects (s : t) (low high : Z) : bool :=
  if size s =? 0 then false else intersects_node (root s) low high.

(* checkOtherIntervals *)
Fixpoint check_other (t : tree) (low high slo shi : Z) : bool :=
  match t with
  | Leaf => false
  | Node l lo hi _ mx _ r =>
      if mx <? low then false
      else
        let same := (lo =? slo) && (hi =? shi) in
        if negb same && (lo <=? high) && (low <=? hi) then true
        else if (low <? lo) && check_other l low high slo shi then true
        else check_other r low high slo shi
  end.

Definition can_update (s : t) (slo shi newlo newhi : Z) : bool :=
  if size s <=? 1 then true else negb (check_other (root s) newlo newhi slo shi).

