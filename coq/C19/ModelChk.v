(* C19 — the *partial* reading of the tree operations.
   Model.v totalises the three places where the Go code dereferences a child pointer without a
   nil test (rotateRight: n.left / leftNode.right; rotateLeft: n.right / rightNode.left;
   insertNode's rebalancing tail: root.left.item / root.right.item; removeMin: root.left) by returning the tree
   unchanged.  Here the same functions return None exactly where the Go code would panic with a
   nil dereference.  Proofs.v shows `run_chk ops = Some (run ops)` for every history: the
   fallback branches of Model.v are dead on reachable states, so no theorem about `run` holds
   merely because of the totalisation.  Definitions only. *)
From Coq Require Import ZArith List Bool.
From Acme.C19 Require Import Model.
Import ListNotations.
Open Scope Z_scope.

Definition bind {A B : Type} (o : option A) (f : A -> option B) : option B :=
  match o with Some a => f a | None => None end.

Definition rotate_right_chk (t : tree) : option tree :=
  match t with
  | Node (Node ll llo lhi ltg _ _ lr) lo hi tg _ _ r => Some (mk ll llo lhi ltg (mk lr lo hi tg r))
  | _ => None
  end.

Definition rotate_left_chk (t : tree) : option tree :=
  match t with
  | Node l lo hi tg _ _ (Node rl rlo rhi rtg _ _ rr) => Some (mk (mk l lo hi tg rl) rlo rhi rtg rr)
  | _ => None
  end.

Definition rebalance_ins_chk (ilo ihi : Z) (root : tree) : option tree :=
  let b := balance_factor root in
  if b >? 1 then
    match left root with
    | Node _ llo lhi _ _ _ _ =>
        if negb (less ilo ihi llo lhi)
        then bind (rotate_left_chk (left root)) (fun l' => rotate_right_chk (set_left root l'))
        else rotate_right_chk root
    | Leaf => None
    end
  else if b <? -1 then
    match right root with
    | Node _ rlo rhi _ _ _ _ =>
        if less ilo ihi rlo rhi
        then bind (rotate_right_chk (right root)) (fun r' => rotate_left_chk (set_right root r'))
        else rotate_left_chk root
    | Leaf => None
    end
  else Some root.

Fixpoint ins_chk (ilo ihi itg : Z) (t : tree) : option tree :=
  match t with
  | Leaf => Some (Node Leaf ilo ihi itg ihi 1 Leaf)
  | Node l lo hi tg _ _ r =>
      if less ilo ihi lo hi
      then bind (ins_chk ilo ihi itg l) (fun l' => rebalance_ins_chk ilo ihi (mk l' lo hi tg r))
      else bind (ins_chk ilo ihi itg r) (fun r' => rebalance_ins_chk ilo ihi (mk l lo hi tg r'))
  end.

Definition rebalance_del_chk (root : tree) : option tree :=
  let b := balance_factor root in
  if b >? 1 then
    if balance_factor (left root) <? 0
    then bind (rotate_left_chk (left root)) (fun l' => rotate_right_chk (set_left root l'))
    else rotate_right_chk root
  else if b <? -1 then
    if balance_factor (right root) >? 0
    then bind (rotate_right_chk (right root)) (fun r' => rotate_left_chk (set_right root r'))
    else rotate_left_chk root
  else Some root.

(* removeMin reads root.left of its argument: nil dereference on an empty subtree *)
Fixpoint remove_min_chk (t : tree) : option (tree * Z) :=
  match t with
  | Leaf => None
  | Node l lo hi tg _ _ r =>
      match l with
      | Leaf => Some (r, 1)
      | _ => bind (remove_min_chk l) (fun '(l', k) =>
               bind (rebalance_del_chk (mk l' lo hi tg r)) (fun t' => Some (t', k)))
      end
  end.

Fixpoint del_chk (t : tree) (dlo dhi : Z) : option (tree * Z) :=
  match t with
  | Leaf => Some (Leaf, 0)
  | Node l lo hi tg _ _ r =>
      if less dlo dhi lo hi then
        bind (del_chk l dlo dhi) (fun '(l', k) =>
          bind (rebalance_del_chk (mk l' lo hi tg r)) (fun t' => Some (t', k)))
      else if less lo hi dlo dhi then
        bind (del_chk r dlo dhi) (fun '(r', k) =>
          bind (rebalance_del_chk (mk l lo hi tg r')) (fun t' => Some (t', k)))
      else
        match l, r with
        | Leaf, _ => Some (r, 1)
        | _, Leaf => Some (l, 1)
        | _, Node rl rlo rhi rtg _ _ _ =>
            let '(slo, shi, stg) := find_min rlo rhi rtg rl in
            bind (remove_min_chk r) (fun '(r', k) =>
              bind (rebalance_del_chk (mk l slo shi stg r')) (fun t' => Some (t', k)))
        end
  end.

Definition step_chk (s : t) (o : op) : option t :=
  match o with
  | Insert lo hi tg =>
      if lo >? hi then Some s
      else bind (ins_chk lo hi tg (root s)) (fun r => Some {| root := r; size := size s + 1 |})
  | Delete lo hi =>
      bind (del_chk (root s) lo hi) (fun '(r, k) => Some {| root := r; size := size s - k |})
  | Clear => Some empty
  end.

Definition run_chk (ops : list op) : option t :=
  fold_left (fun os o => bind os (fun s => step_chk s o)) ops (Some empty).
