(* C19 — the deletion algorithm BEFORE /repo commit ca4c8a3, kept as a separate small function so
   that the finding "payload identity is lost on equal keys" is documented on the Coq side
   (Proofs: items_by_key_refuted).  In the two-children case the successor's item was copied into
   the node and the successor was then deleted from the right subtree BY KEY; with several stored
   items of equal bounds that search can stop at another node.  Definitions only. *)
From Coq Require Import ZArith List Bool.
From Acme.C19 Require Import Model.
Import ListNotations.
Open Scope Z_scope.

Fixpoint del_by_key (t : tree) (dlo dhi : Z) : tree * Z :=
  match t with
  | Leaf => (Leaf, 0)
  | Node l lo hi tg _ _ r =>
      if less dlo dhi lo hi then
        let '(l', k) := del_by_key l dlo dhi in (rebalance_del (mk l' lo hi tg r), k)
      else if less lo hi dlo dhi then
        let '(r', k) := del_by_key r dlo dhi in (rebalance_del (mk l lo hi tg r'), k)
      else
        match l, r with
        | Leaf, _ => (r, 1)
        | _, Leaf => (l, 1)
        | _, Node rl rlo rhi rtg _ _ _ =>
            let '(slo, shi, stg) := find_min rlo rhi rtg rl in
            let '(r', k) := del_by_key r slo shi in
            (rebalance_del (mk l slo shi stg r'), k)
        end
  end.

Definition step_by_key (s : t) (o : op) : t :=
  match o with
  | Delete lo hi =>
      let '(r, k) := del_by_key (root s) lo hi in {| root := r; size := size s - k |}
  | _ => step s o
  end.

Definition run_by_key (ops : list op) : t := fold_left step_by_key ops empty.
