(* C19 — induction over operation histories: every state `run ops` satisfies the shape
   invariant, lists the multiset `spec ops` in sorted order, counts it exactly, and (when the
   contents are pairwise disjoint) answers both queries like a brute-force scan.  The partial
   model of ModelChk.v never fails on a history (`run_chk ops = Some (run ops)`). *)
From Coq Require Import ZArith List Bool Lia ZifyBool ZifyNat Sorting.Sorted Sorting.Permutation.
From Acme.C19 Require Import Model Spec ModelChk ProofsShape ProofsOrder ProofsQuery.
Import ListNotations.
Open Scope Z_scope.

(* ---- remove_one ---- *)

Lemma item_eqb_eq (a b : item) : item_eqb a b = true <-> a = b.
Proof.
  destruct a as [a1 a2], b as [b1 b2]. unfold item_eqb. cbn [fst snd]. split.
  - intros H. f_equal; lia.
  - intros H. inversion H; subst. lia.
Qed.

Lemma remove_one_in x l : In x l -> Permutation l (x :: remove_one x l).
Proof.
  induction l as [|y l IH]; intros Hin; [destruct Hin|]. cbn [remove_one].
  destruct (item_eqb x y) eqn:E.
  - apply item_eqb_eq in E. subst. apply Permutation_refl.
  - destruct Hin as [->|Hin].
    + assert (item_eqb x x = true) by (apply item_eqb_eq; reflexivity). congruence.
    + etransitivity; [apply perm_skip; apply IH; exact Hin|apply perm_swap].
Qed.

Lemma remove_one_notin x l : ~ In x l -> remove_one x l = l.
Proof.
  induction l as [|y l IH]; intros Hnin; [reflexivity|]. cbn [remove_one].
  destruct (item_eqb x y) eqn:E.
  - apply item_eqb_eq in E. subst. exfalso. apply Hnin. left; reflexivity.
  - rewrite IH; [reflexivity|]. intros H. apply Hnin. right; exact H.
Qed.

(* ---- the invariant relating a state to the multiset specification ---- *)

Definition inv (s : t) (sp : list item) : Prop :=
  ok (root s) /\ sorted (contents s) /\ Permutation (contents s) sp
  /\ size s = Z.of_nat (length sp) /\ Forall valid sp.

Lemma inv_empty : inv empty [].
Proof.
  unfold inv, contents. cbn [empty root size inorder length ok].
  repeat split; auto; constructor.
Qed.

Lemma step_inv s sp o :
  inv s sp -> inv (step s o) (spec_step sp o) /\ step_chk s o = Some (step s o).
Proof.
  intros (Hok & Hs & Hp & Hsz & Hv). unfold contents in *.
  destruct o as [lo hi tg|lo hi|]; cbn [step step_chk spec_step].
  - (* Insert *)
    destruct (Z.gtb_spec lo hi) as [Hinv|Hval].
    { split; [|reflexivity]. repeat split; assumption. }
    destruct (ins_ok lo hi tg (root s) Hok) as (Hok' & Hc & _). rewrite Hc. cbn [bind].
    split; [|reflexivity]. unfold inv, contents. cbn [root size].
    repeat split.
    + exact Hok'.
    + apply ins_sorted. exact Hs.
    + etransitivity; [apply ins_perm; exact Hs|].
      etransitivity; [apply perm_skip; exact Hp|apply Permutation_cons_append].
    + rewrite app_length. cbn [length]. lia.
    + apply Forall_app. split; [exact Hv|]. repeat constructor. unfold valid. cbn [fst snd]. lia.
  - (* Delete *)
    destruct (del_ok (root s) lo hi Hok) as (Hok' & Hc & _). rewrite Hc.
    pose proof (del_spec (root s) lo hi Hs) as (Hs' & Hcase).
    destruct (del (root s) lo hi) as [r k]. cbn [fst snd bind] in *.
    split; [|reflexivity]. unfold inv, contents. cbn [root size].
    destruct Hcase as [(Hin & Hk & P)|(Hnin & Hk & E)].
    + assert (Hinsp : In (lo, hi) sp) by (eapply Permutation_in; [exact Hp|exact Hin]).
      pose proof (remove_one_in _ _ Hinsp) as Pr.
      assert (P' : Permutation (inorder r) (remove_one (lo, hi) sp)).
      { apply Permutation_cons_inv with (a := (lo, hi)).
        etransitivity; [symmetry; exact P|]. etransitivity; [exact Hp|exact Pr]. }
      repeat split; auto.
      * apply Permutation_length in Pr. cbn [length] in Pr. lia.
      * rewrite Forall_forall in *. intros y Hy. apply Hv.
        eapply Permutation_in; [symmetry; exact Pr|right; exact Hy].
    + assert (Hninsp : ~ In (lo, hi) sp).
      { intros H. apply Hnin. eapply Permutation_in; [symmetry; exact Hp|exact H]. }
      rewrite (remove_one_notin _ _ Hninsp). rewrite E. repeat split; auto. lia.
  - split; [exact inv_empty|reflexivity].
Qed.

Lemma fold_inv ops : forall s sp,
  inv s sp ->
  inv (fold_left step ops s) (fold_left spec_step ops sp)
  /\ fold_left (fun os o => bind os (fun s => step_chk s o)) ops (Some s)
     = Some (fold_left step ops s).
Proof.
  induction ops as [|o ops IH]; intros s sp Hinv; cbn [fold_left].
  - split; [exact Hinv|reflexivity].
  - destruct (step_inv s sp o Hinv) as [Hinv' Hc]. cbn [bind]. rewrite Hc. apply IH. exact Hinv'.
Qed.

Lemma run_inv ops : inv (run ops) (spec ops).
Proof. apply (fold_inv ops empty []). exact inv_empty. Qed.

(* ---- the statements of Properties/C19.v ---- *)

Lemma run_chk_defined ops : run_chk ops = Some (run ops).
Proof. apply (fold_inv ops empty []). exact inv_empty. Qed.

Lemma size_spec_proof ops : size (run ops) = Z.of_nat (length (spec ops)).
Proof. destruct (run_inv ops) as (_ & _ & _ & H & _). exact H. Qed.

Lemma is_empty_proof ops : (size (run ops) =? 0) = true <-> spec ops = [].
Proof.
  rewrite size_spec_proof. destruct (spec ops); cbn [length]; split; intros H; try reflexivity;
    try discriminate; lia.
Qed.

Lemma ssorted_lex_fst l : StronglySorted lex_le l -> StronglySorted Z.le (map fst l).
Proof.
  induction 1 as [|a l Hs IH Hf]; cbn [map]; constructor; [exact IH|].
  rewrite Forall_forall in *. intros z Hz. apply in_map_iff in Hz as (y & <- & Hy).
  specialize (Hf y Hy). unfold lex_le in Hf. lia.
Qed.

Lemma contents_spec_proof ops :
  Permutation (contents (run ops)) (spec ops)
  /\ StronglySorted lex_le (contents (run ops))
  /\ Sorted Z.le (map fst (contents (run ops))).
Proof.
  destruct (run_inv ops) as (_ & Hs & Hp & _). repeat split; auto.
  apply StronglySorted_Sorted. apply ssorted_lex_fst. exact Hs.
Qed.

Lemma balanced_proof ops : every_node balanced_at (root (run ops)).
Proof. destruct (run_inv ops) as (Hok & _). apply ok_every_balanced. exact Hok. Qed.

Lemma heights_exact_proof ops : every_node height_exact_at (root (run ops)).
Proof. destruct (run_inv ops) as (Hok & _). apply ok_every_height. exact Hok. Qed.

Lemma max_exact_proof ops : every_node max_exact_at (root (run ops)).
Proof. destruct (run_inv ops) as (Hok & _). apply ok_every_max. exact Hok. Qed.

Lemma disjoint_spec_contents ops :
  pairwise_disjoint (spec ops) <-> pairwise_disjoint (contents (run ops)).
Proof.
  destruct (run_inv ops) as (_ & _ & Hp & _).
  split; apply pd_perm; [symmetry; exact Hp|exact Hp].
Qed.

Lemma run_qinv ops : pairwise_disjoint (spec ops) -> qinv (root (run ops)).
Proof.
  intros Hd. pose proof (proj1 (disjoint_spec_contents ops) Hd) as Hd'.
  destruct (run_inv ops) as (Hok & Hs & Hp & _ & Hv). unfold contents in *.
  repeat split; auto.
  rewrite Forall_forall in *. intros y Hy. apply Hv. eapply Permutation_in; [exact Hp|exact Hy].
Qed.

Lemma intersects_exact_proof ops lo hi :
  pairwise_disjoint (spec ops) ->
  intersects (run ops) lo hi = existsb (overlaps (lo, hi)) (contents (run ops)).
Proof.
  intros Hd. unfold intersects, contents.
  destruct (Z.eqb_spec (size (run ops)) 0) as [Hz|Hnz].
  - destruct (run_inv ops) as (_ & _ & Hp & Hsz & _). unfold contents in Hp.
    rewrite Hz in Hsz. destruct (spec ops); [|cbn [length] in Hsz; lia].
    apply Permutation_sym, Permutation_nil in Hp. rewrite Hp. reflexivity.
  - apply intersects_node_exact. apply run_qinv. exact Hd.
Qed.

Lemma can_update_exact_proof ops (x : item) newlo newhi :
  pairwise_disjoint (spec ops) ->
  In x (contents (run ops)) ->
  can_update (run ops) (fst x) (snd x) newlo newhi
  = negb (existsb (fun y => overlaps (newlo, newhi) y && negb (same x y)) (contents (run ops))).
Proof.
  intros Hd Hin. unfold can_update. destruct x as [slo shi]. cbn [fst snd].
  destruct (Z.leb_spec (size (run ops)) 1) as [Hle|Hgt].
  - destruct (run_inv ops) as (_ & _ & Hp & Hsz & _).
    apply Permutation_length in Hp.
    destruct (contents (run ops)) as [|y [|z l]]; [destruct Hin| |cbn [length] in Hp; lia].
    destruct Hin as [->|[]]. cbn [existsb]. unfold same. cbn [fst snd].
    rewrite !Z.eqb_refl. cbn [andb negb]. rewrite andb_false_r. reflexivity.
  - unfold contents. f_equal. apply check_other_exact. apply run_qinv. exact Hd.
Qed.

(* ---- the hypotheses are satisfiable by non-trivial reachable states ---- *)

Definition example_ops : list op :=
  [Insert 0 1 1; Insert 3 4 2; Insert 6 6 3; Insert 8 10 4; Insert 12 13 5; Insert 15 20 6;
   Insert 22 22 7; Insert 5 2 8; Delete 3 4; Insert 24 30 10].

Lemma example_disjoint :
  pairwise_disjoint (spec example_ops)
  /\ In (8, 10) (contents (run example_ops))
  /\ length (contents (run example_ops)) = 7%nat
  /\ height (root (run example_ops)) = 4.
Proof.
  split; [|split; [|split]].
  - unfold pairwise_disjoint. cbv [example_ops spec fold_left spec_step Z.gtb Z.compare
      Pos.compare Pos.compare_cont app remove_one item_eqb fst snd Z.eqb Pos.eqb andb].
    repeat constructor.
  - vm_compute. tauto.
  - vm_compute. reflexivity.
  - vm_compute. reflexivity.
Qed.

(* without disjointness the pruned searches are not exact: [0,10] sits left of [5,5] and the
   query [7,7] never visits it *)
Lemma intersects_needs_disjoint :
  exists ops lo hi,
    intersects (run ops) lo hi <> existsb (overlaps (lo, hi)) (contents (run ops)).
Proof.
  exists [Insert 5 5 1; Insert 0 10 2], 7, 7. vm_compute. discriminate.
Qed.

Lemma can_update_needs_disjoint :
  exists ops x newlo newhi,
    In x (contents (run ops)) /\
    can_update (run ops) (fst x) (snd x) newlo newhi
    <> negb (existsb (fun y => overlaps (newlo, newhi) y && negb (same x y)) (contents (run ops))).
Proof.
  exists [Insert 5 5 1; Insert 0 10 2; Insert 20 20 3], (20, 20), 7, 7. split.
  - vm_compute. tauto.
  - vm_compute. discriminate.
Qed.
