(* C19 — items (bounds + payload): insertion adds exactly the given item, deletion unlinks exactly
   one stored item whose bounds equal the argument's (or nothing), rebalancing moves items around
   without copying or dropping any.  History level: the stored items are a permutation of an
   admissible resolution of the history, a sub-multiset of the inserted items, with distinct tags
   when the inserted tags are distinct.  The pre-fix algorithm (PreFix.v) violates this. *)
From Coq Require Import ZArith List Bool Lia ZifyBool Sorting.Sorted Sorting.Permutation.
From Acme.C19 Require Import Model Spec ModelChk PreFix ProofsShape ProofsOrder ProofsQuery Proofs.
Import ListNotations.
Open Scope Z_scope.

Lemma ins_items xlo xhi xtg t :
  exists l1 l2, items t = l1 ++ l2 /\ items (ins xlo xhi xtg t) = l1 ++ (xlo, xhi, xtg) :: l2.
Proof.
  induction t as [|l IHl lo hi tg mx h r IHr].
  - exists [], []. split; reflexivity.
  - cbn [ins]. destruct (less xlo xhi lo hi).
    + destruct IHl as (l1 & l2 & E1 & E2). exists l1, (l2 ++ (lo, hi, tg) :: items r).
      rewrite items_rebalance_ins, items_mk, E2. cbn [items]. rewrite E1.
      rewrite <- !app_assoc. split; reflexivity.
    + destruct IHr as (l1 & l2 & E1 & E2). exists (items l ++ (lo, hi, tg) :: l1), l2.
      rewrite items_rebalance_ins, items_mk, E2. cbn [items]. rewrite E1.
      rewrite <- !app_assoc. split; reflexivity.
Qed.

(* deletion: the in-order listing loses exactly one element, whose bounds are the argument's *)
Lemma del_items t : forall dlo dhi,
  (exists l1 y l2, items t = l1 ++ y :: l2 /\ key y = (dlo, dhi)
                   /\ items (fst (del t dlo dhi)) = l1 ++ l2 /\ snd (del t dlo dhi) = 1)
  \/ (items (fst (del t dlo dhi)) = items t /\ snd (del t dlo dhi) = 0).
Proof.
  induction t as [|l IHl lo hi tg mx h r IHr]; intros dlo dhi.
  - right. split; reflexivity.
  - cbn [del]. destruct (less dlo dhi lo hi) eqn:Hless.
    + specialize (IHl dlo dhi). destruct (del l dlo dhi) as [l' k]. cbn [fst snd] in *.
      rewrite items_rebalance_del, items_mk. cbn [items].
      destruct IHl as [(l1 & y & l2 & E & Hk & E' & K)|(E' & K)].
      * left. exists l1, y, (l2 ++ (lo, hi, tg) :: items r). rewrite E, E', <- !app_assoc. auto.
      * right. rewrite E'. auto.
    + destruct (less lo hi dlo dhi) eqn:Hless2.
      * specialize (IHr dlo dhi). destruct (del r dlo dhi) as [r' k]. cbn [fst snd] in *.
        rewrite items_rebalance_del, items_mk. cbn [items].
        destruct IHr as [(l1 & y & l2 & E & Hk & E' & K)|(E' & K)].
        -- left. exists (items l ++ (lo, hi, tg) :: l1), y, l2. rewrite E, E', <- !app_assoc. auto.
        -- right. rewrite E'. auto.
      * apply less_false in Hless, Hless2.
        assert (Ek : key (lo, hi, tg) = (dlo, dhi)) by (apply lex_le_antisym; assumption).
        left. exists (items l), (lo, hi, tg).
        destruct l as [|ll llo lhi ltg lm lh lr].
        { exists (items r). cbn [fst snd items app]. auto. }
        destruct r as [|rl rlo rhi rtg rm rh rr].
        { exists []. cbn [fst snd]. cbn [items]. rewrite app_nil_r. auto. }
        destruct (remove_min_spec rl rlo rhi rtg rm rh rr) as [K Hi].
        destruct (find_min rlo rhi rtg rl) as [[slo shi] stg].
        destruct (remove_min (Node rl rlo rhi rtg rm rh rr)) as [r' k]. cbn [fst snd] in *.
        exists (items (Node rl rlo rhi rtg rm rh rr)).
        rewrite items_rebalance_del, items_mk.
        change (items (Node (Node ll llo lhi ltg lm lh lr) lo hi tg mx h (Node rl rlo rhi rtg rm rh rr)))
          with (items (Node ll llo lhi ltg lm lh lr) ++ (lo, hi, tg) :: items (Node rl rlo rhi rtg rm rh rr)).
        rewrite Hi. auto.
Qed.

(* ---- history level ---- *)

Definition iinv (s : t) (sp ins : list titem) : Prop :=
  Permutation (stored s) sp /\ (exists rest, Permutation (stored s ++ rest) ins).

Lemma key_in_inorder t y : In y (items t) -> In (key y) (inorder t).
Proof. intros H. rewrite inorder_items. apply in_map. exact H. Qed.

Lemma step_iinv s ksp sp ins o :
  inv s ksp -> iinv s sp ins ->
  exists sp', item_step_rel sp o sp' /\ iinv (step s o) sp' (inserted_step ins o).
Proof.
  intros (_ & Hs & _) (Hp & rest & Hsub). unfold contents, stored in *.
  destruct o as [lo hi tg|lo hi|]; cbn [step item_step_rel inserted_step].
  - destruct (lo >? hi).
    { exists sp. split; [reflexivity|]. split; [exact Hp|exists rest; exact Hsub]. }
    exists (sp ++ [(lo, hi, tg)]). split; [reflexivity|]. unfold iinv, stored. cbn [root].
    destruct (ins_items lo hi tg (root s)) as (l1 & l2 & E1 & E2). rewrite E2. rewrite E1 in Hp, Hsub.
    split.
    + etransitivity; [symmetry; apply Permutation_middle|].
      etransitivity; [apply perm_skip; exact Hp|apply Permutation_cons_append].
    + exists rest.
      change ((l1 ++ (lo, hi, tg) :: l2) ++ rest) with ((l1 ++ (lo, hi, tg) :: l2) ++ rest).
      rewrite <- app_assoc. cbn [app].
      etransitivity; [symmetry; apply Permutation_middle|].
      etransitivity; [apply perm_skip; rewrite app_assoc; exact Hsub|apply Permutation_cons_append].
  - pose proof (del_spec (root s) lo hi Hs) as (_ & Hcase).
    pose proof (del_items (root s) lo hi) as Hit.
    destruct (del (root s) lo hi) as [r k]. cbn [fst snd] in *. unfold iinv, stored. cbn [root].
    destruct Hit as [(l1 & y & l2 & E & Hk & E' & K)|(E' & K)].
    + (* one stored item y with the given bounds was unlinked: remove the same y from sp *)
      assert (Hy : In y sp).
      { eapply Permutation_in; [exact Hp|]. rewrite E. apply in_or_app. right. left. reflexivity. }
      apply in_split in Hy as (s1 & s2 & Es).
      exists (s1 ++ s2). split.
      * left. exists s1, y, s2. auto.
      * rewrite E'. rewrite E in Hp, Hsub. rewrite Es in Hp. split.
        -- eapply Permutation_app_inv. exact Hp.
        -- exists (y :: rest). etransitivity; [|exact Hsub].
           rewrite <- !app_assoc. apply Permutation_app_head. cbn [app].
           etransitivity; [symmetry; apply Permutation_middle|]. apply Permutation_refl.
    + (* nothing unlinked: the sorted tree holds no item with those bounds *)
      exists sp. split.
      * right. split; [|reflexivity]. intros y Hy Hkey.
        destruct Hcase as [(_ & Hk1 & _)|(Hnin & _ & _)]; [lia|].
        apply Hnin. rewrite <- Hkey. apply key_in_inorder.
        eapply Permutation_in; [symmetry; exact Hp|exact Hy].
      * rewrite E'. split; [exact Hp|exists rest; exact Hsub].
  - exists []. split; [reflexivity|]. unfold iinv, stored. cbn [empty root items app].
    split; [constructor|exists []; constructor].
Qed.

Lemma fold_iinv ops : forall s ksp sp ins,
  inv s ksp -> iinv s sp ins ->
  exists res, item_spec_from sp ops res
              /\ iinv (fold_left step ops s) res (fold_left inserted_step ops ins).
Proof.
  induction ops as [|o ops IH]; intros s ksp sp ins Hinv Hi; cbn [fold_left item_spec_from].
  - exists sp. split; [reflexivity|exact Hi].
  - destruct (step_iinv s ksp sp ins o Hinv Hi) as (sp' & Hrel & Hi').
    destruct (step_inv s ksp o Hinv) as [Hinv' _].
    destruct (IH _ _ _ _ Hinv' Hi') as (res & Hspec & Hres).
    exists res. split; [exists sp'; split; assumption|exact Hres].
Qed.

Lemma run_iinv ops :
  exists res, item_spec ops res /\ iinv (run ops) res (inserted ops).
Proof.
  apply (fold_iinv ops empty [] [] []); [exact inv_empty|].
  split; [constructor|exists []; constructor].
Qed.

(* ---- the statements of Properties/C19.v ---- *)

Lemma items_spec_proof ops :
  exists res, item_spec ops res /\ Permutation (stored (run ops)) res.
Proof. destruct (run_iinv ops) as (res & H1 & H2 & _). exists res. auto. Qed.

Lemma items_keys_proof ops : map key (stored (run ops)) = contents (run ops).
Proof. unfold stored, contents. symmetry. apply inorder_items. Qed.

Lemma items_from_inserted_proof ops :
  exists rest, Permutation (stored (run ops) ++ rest) (inserted ops).
Proof. destruct (run_iinv ops) as (res & _ & _ & H). exact H. Qed.

Lemma nodup_app_l {A} (l1 l2 : list A) : NoDup (l1 ++ l2) -> NoDup l1.
Proof.
  induction l1 as [|a l1 IH]; cbn [app]; intros H; [constructor|].
  inversion H as [|? ? Hn Hd]; subst. constructor; [|auto].
  intros Hin. apply Hn. apply in_or_app. left. exact Hin.
Qed.

Lemma items_nodup_proof ops :
  NoDup (map tag (inserted ops)) -> NoDup (map tag (stored (run ops))).
Proof.
  intros Hnd. destruct (items_from_inserted_proof ops) as (rest & P).
  apply (Permutation_map tag) in P. rewrite map_app in P.
  apply Permutation_sym in P. apply (Permutation_NoDup P) in Hnd.
  apply nodup_app_l in Hnd. exact Hnd.
Qed.

(* the hypotheses / conclusions are non-trivial: duplicate bounds, two-children deletes *)
Definition dup_ops : list op :=
  [Insert 0 0 1; Insert 0 0 2; Insert 0 0 3; Insert 0 0 4; Insert 0 0 5; Delete 0 0;
   Insert 0 1 7; Insert 0 0 8; Delete 0 0; Delete 0 1].

Lemma dup_example :
  NoDup (map tag (inserted dup_ops))
  /\ map tag (stored (run dup_ops)) = [1; 3; 4; 8]
  /\ contents (run dup_ops) = [(0, 0); (0, 0); (0, 0); (0, 0)].
Proof.
  split; [|split; vm_compute; reflexivity].
  vm_compute. repeat constructor; cbn [In]; intuition discriminate.
Qed.

(* the algorithm before ca4c8a3 (delete the successor by key) violates the item-level statement:
   five items with equal bounds, delete one: a tag is stored twice and another is lost, although
   the multiset of bounds and the size are right *)
Lemma items_by_key_refuted_proof :
  exists ops,
    NoDup (map tag (inserted ops))
    /\ ~ NoDup (map tag (stored (run_by_key ops)))
    /\ (exists x, In x (stored (run ops)) /\ ~ In x (stored (run_by_key ops)))
    /\ contents (run_by_key ops) = contents (run ops)
    /\ size (run_by_key ops) = size (run ops).
Proof.
  exists [Insert 0 0 1; Insert 0 0 2; Insert 0 0 3; Insert 0 0 4; Insert 0 0 5; Delete 0 0].
  split; [|split; [|split; [|split]]].
  - vm_compute. repeat constructor; cbn [In]; intuition discriminate.
  - intros H. vm_compute in H.
    inversion H as [|? ? _ H1]; subst. inversion H1 as [|? ? N _]; subst.
    apply N. left. reflexivity.
  - exists (0, 0, 4). split; [vm_compute; tauto|].
    vm_compute. intuition discriminate.
  - vm_compute. reflexivity.
  - vm_compute. reflexivity.
Qed.

(* CanUpdateInterval for an item that is NOT stored: the `size <= 1 => true` shortcut ignores the
   one stored interval.  The property speaks of "the interval being updated", i.e. a stored one
   (hypothesis `In x contents` of can_update_exact); this witness shows the hypothesis is needed. *)
Lemma can_update_foreign_refuted_proof :
  exists ops (x : Z * Z) newlo newhi,
    pairwise_disjoint (spec ops) /\ ~ In x (contents (run ops)) /\
    can_update (run ops) (fst x) (snd x) newlo newhi
    <> negb (existsb (fun y => overlaps (newlo, newhi) y && negb (same x y)) (contents (run ops))).
Proof.
  exists [Insert 0 5 1], (10, 20), 3, 4. split; [|split].
  - vm_compute. repeat constructor.
  - vm_compute. intuition discriminate.
  - vm_compute. discriminate.
Qed.
