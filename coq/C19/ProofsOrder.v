(* C19 — order and contents: rotations keep the in-order listing, insertion adds the new item
   at a sorted position, deletion removes exactly one occurrence when present and nothing
   otherwise; the deleted-node counter of `del` is 1 / 0 accordingly. *)
From Coq Require Import ZArith List Bool Lia ZifyBool Sorting.Sorted Sorting.Permutation.
From Acme.C19 Require Import Model Spec.
Import ListNotations.
Open Scope Z_scope.

Definition sorted (l : list item) : Prop := StronglySorted lex_le l.

Lemma less_true a b c d : less a b c d = true <-> lex_lt (a, b) (c, d).
Proof.
  unfold less, lex_lt. cbn [fst snd]. destruct (Z.eqb_spec a c); cbn [negb]; lia.
Qed.

Lemma less_false a b c d : less a b c d = false <-> lex_le (c, d) (a, b).
Proof.
  unfold less, lex_le. cbn [fst snd]. destruct (Z.eqb_spec a c); cbn [negb]; lia.
Qed.

Lemma lex_le_refl a : lex_le a a.
Proof. unfold lex_le. lia. Qed.

Lemma lex_le_trans a b c : lex_le a b -> lex_le b c -> lex_le a c.
Proof. unfold lex_le. lia. Qed.

Lemma lex_lt_le a b : lex_lt a b -> lex_le a b.
Proof. unfold lex_lt, lex_le. lia. Qed.

Lemma lex_lt_le_trans a b c : lex_lt a b -> lex_le b c -> lex_lt a c.
Proof. unfold lex_lt, lex_le. lia. Qed.

Lemma lex_le_lt_trans a b c : lex_le a b -> lex_lt b c -> lex_lt a c.
Proof. unfold lex_lt, lex_le. lia. Qed.

Lemma lex_lt_irrefl a : ~ lex_lt a a.
Proof. unfold lex_lt. lia. Qed.

Lemma lex_le_antisym (a b : item) : lex_le a b -> lex_le b a -> a = b.
Proof.
  destruct a as [a1 a2], b as [b1 b2]. unfold lex_le. cbn [fst snd]. intros H1 H2.
  f_equal; lia.
Qed.

(* ---- StronglySorted over concatenations ---- *)

Lemma ssorted_app {A} (R : A -> A -> Prop) (l1 l2 : list A) :
  StronglySorted R (l1 ++ l2) <->
  StronglySorted R l1 /\ StronglySorted R l2 /\ (forall a b, In a l1 -> In b l2 -> R a b).
Proof.
  induction l1 as [|x l1 IH]; cbn [app].
  - split; [intros H; repeat split; [constructor|exact H|intros ? ? []]|intros (_ & H & _); exact H].
  - split.
    + intros H. inversion H as [|? ? Hs Hf]; subst. apply IH in Hs as (H1 & H2 & H3).
      rewrite Forall_forall in Hf.
      repeat split; auto.
      * constructor; [exact H1|]. rewrite Forall_forall. intros y Hy. apply Hf.
        apply in_or_app. left; exact Hy.
      * intros a b [<-|Ha] Hb; [apply Hf; apply in_or_app; right; exact Hb|auto].
    + intros (H1 & H2 & H3). inversion H1 as [|? ? Hs Hf]; subst.
      constructor.
      * apply IH. repeat split; auto. intros a b Ha Hb. apply H3; [right; exact Ha|exact Hb].
      * rewrite Forall_forall in *. intros y Hy. apply in_app_or in Hy as [Hy|Hy]; [auto|].
        apply H3; [left; reflexivity|exact Hy].
Qed.

Lemma sorted_node l (k : item) r :
  sorted (l ++ k :: r) <->
  sorted l /\ sorted r /\ (forall y, In y l -> lex_le y k) /\ (forall y, In y r -> lex_le k y).
Proof.
  unfold sorted. rewrite ssorted_app. split.
  - intros (Hl & Hkr & Hc). inversion Hkr as [|? ? Hr Hf]; subst. rewrite Forall_forall in Hf.
    repeat split; auto. intros y Hy. apply Hc; [exact Hy|left; reflexivity].
  - intros (Hl & Hr & H1 & H2). repeat split; auto.
    + constructor; [exact Hr|]. rewrite Forall_forall. exact H2.
    + intros a b Ha [<-|Hb]; [auto|]. eapply lex_le_trans; [apply H1; exact Ha|apply H2; exact Hb].
Qed.

(* ---- rotations and rebalancing keep the in-order listing (unconditionally) ---- *)

Lemma inorder_mk l lo hi tg r : inorder (mk l lo hi tg r) = inorder l ++ (lo, hi) :: inorder r.
Proof. reflexivity. Qed.

Lemma inorder_rotate_right t : inorder (rotate_right t) = inorder t.
Proof.
  destruct t as [|[|ll llo lhi ltg lm lh lr] lo hi tg m h r]; try reflexivity.
  cbn [rotate_right]. rewrite !inorder_mk. cbn [inorder]. rewrite <- app_assoc. reflexivity.
Qed.

Lemma inorder_rotate_left t : inorder (rotate_left t) = inorder t.
Proof.
  destruct t as [|l lo hi tg m h [|rl rlo rhi rtg rm rh rr]]; try reflexivity.
  cbn [rotate_left]. rewrite !inorder_mk. cbn [inorder]. rewrite <- app_assoc. reflexivity.
Qed.

Lemma inorder_set_left_rot t : inorder (set_left t (rotate_left (left t))) = inorder t.
Proof.
  destruct t as [|l lo hi tg m h r]; [reflexivity|].
  cbn [set_left left inorder]. rewrite inorder_rotate_left. reflexivity.
Qed.

Lemma inorder_set_right_rot t : inorder (set_right t (rotate_right (right t))) = inorder t.
Proof.
  destruct t as [|l lo hi tg m h r]; [reflexivity|].
  cbn [set_right right inorder]. rewrite inorder_rotate_right. reflexivity.
Qed.

Lemma inorder_rebalance_del t : inorder (rebalance_del t) = inorder t.
Proof.
  unfold rebalance_del.
  repeat match goal with |- context [if ?c then _ else _] => destruct c end;
    rewrite ?inorder_rotate_right, ?inorder_rotate_left,
            ?inorder_set_left_rot, ?inorder_set_right_rot; reflexivity.
Qed.

Lemma inorder_rebalance_ins xlo xhi t : inorder (rebalance_ins xlo xhi t) = inorder t.
Proof.
  unfold rebalance_ins.
  repeat match goal with
         | |- context [if ?c then _ else _] => destruct c
         | |- context [match left ?t with Leaf => _ | Node _ _ _ _ _ _ _ => _ end] =>
             destruct (left t) eqn:?
         | |- context [match right ?t with Leaf => _ | Node _ _ _ _ _ _ _ => _ end] =>
             destruct (right t) eqn:?
         end;
    rewrite ?inorder_rotate_right, ?inorder_rotate_left; try reflexivity.
  - match goal with H : left t = _ |- _ => rewrite <- H end.
    rewrite inorder_set_left_rot. reflexivity.
  - match goal with H : right t = _ |- _ => rewrite <- H end.
    rewrite inorder_set_right_rot. reflexivity.
Qed.

(* ---- insertion ---- *)

Lemma ins_inorder xlo xhi xtg t :
  sorted (inorder t) ->
  exists l1 l2,
    inorder t = l1 ++ l2 /\ inorder (ins xlo xhi xtg t) = l1 ++ (xlo, xhi) :: l2
    /\ (forall y, In y l1 -> lex_le y (xlo, xhi)) /\ (forall y, In y l2 -> lex_lt (xlo, xhi) y).
Proof.
  induction t as [|l IHl lo hi tg mx h r IHr]; intros Hs.
  - exists [], []. cbn [ins inorder app]. repeat split; auto; intros ? [].
  - cbn [inorder] in Hs. apply sorted_node in Hs as (Hsl & Hsr & Hlk & Hkr).
    cbn [ins]. destruct (less xlo xhi lo hi) eqn:Hless.
    + apply less_true in Hless.
      destruct (IHl Hsl) as (l1 & l2 & E1 & E2 & F1 & F2).
      exists l1, (l2 ++ (lo, hi) :: inorder r).
      rewrite inorder_rebalance_ins, inorder_mk, E2. cbn [inorder]. rewrite E1.
      rewrite <- !app_assoc. cbn [app]. repeat split; auto.
      intros y Hy. apply in_app_or in Hy as [Hy|[<-|Hy]]; auto.
      eapply lex_lt_le_trans; [exact Hless|auto].
    + apply less_false in Hless.
      destruct (IHr Hsr) as (l1 & l2 & E1 & E2 & F1 & F2).
      exists (inorder l ++ (lo, hi) :: l1), l2.
      rewrite inorder_rebalance_ins, inorder_mk, E2. cbn [inorder]. rewrite E1.
      rewrite <- !app_assoc. cbn [app]. repeat split; auto.
      intros y Hy. apply in_app_or in Hy as [Hy|[<-|Hy]]; auto.
      eapply lex_le_trans; [apply Hlk; exact Hy|exact Hless].
Qed.

Lemma ins_sorted xlo xhi xtg t : sorted (inorder t) -> sorted (inorder (ins xlo xhi xtg t)).
Proof.
  intros Hs. destruct (ins_inorder xlo xhi xtg t Hs) as (l1 & l2 & E1 & E2 & F1 & F2).
  rewrite E2. rewrite E1 in Hs. unfold sorted in Hs. apply ssorted_app in Hs as (H1 & H2 & H3).
  apply sorted_node. repeat split; auto. intros y Hy. apply lex_lt_le. auto.
Qed.

Lemma ins_perm xlo xhi xtg t :
  sorted (inorder t) -> Permutation (inorder (ins xlo xhi xtg t)) ((xlo, xhi) :: inorder t).
Proof.
  intros Hs. destruct (ins_inorder xlo xhi xtg t Hs) as (l1 & l2 & E1 & E2 & _).
  rewrite E1, E2. symmetry. apply Permutation_middle.
Qed.

(* ---- deletion ---- *)

(* ---- items (bounds + payload tag) ---- *)

Lemma inorder_items t : inorder t = map key (items t).
Proof.
  induction t as [|l IHl lo hi tg mx h r IHr]; [reflexivity|].
  cbn [inorder items]. rewrite map_app. cbn [map]. rewrite IHl, IHr. reflexivity.
Qed.

Lemma items_mk l lo hi tg r : items (mk l lo hi tg r) = items l ++ (lo, hi, tg) :: items r.
Proof. reflexivity. Qed.

Lemma items_rotate_right t : items (rotate_right t) = items t.
Proof.
  destruct t as [|[|ll llo lhi ltg lm lh lr] lo hi tg m h r]; try reflexivity.
  cbn [rotate_right]. rewrite !items_mk. cbn [items]. rewrite <- app_assoc. reflexivity.
Qed.

Lemma items_rotate_left t : items (rotate_left t) = items t.
Proof.
  destruct t as [|l lo hi tg m h [|rl rlo rhi rtg rm rh rr]]; try reflexivity.
  cbn [rotate_left]. rewrite !items_mk. cbn [items]. rewrite <- app_assoc. reflexivity.
Qed.

Lemma items_set_left_rot t : items (set_left t (rotate_left (left t))) = items t.
Proof.
  destruct t as [|l lo hi tg m h r]; [reflexivity|].
  cbn [set_left left items]. rewrite items_rotate_left. reflexivity.
Qed.

Lemma items_set_right_rot t : items (set_right t (rotate_right (right t))) = items t.
Proof.
  destruct t as [|l lo hi tg m h r]; [reflexivity|].
  cbn [set_right right items]. rewrite items_rotate_right. reflexivity.
Qed.

Lemma items_rebalance_del t : items (rebalance_del t) = items t.
Proof.
  unfold rebalance_del.
  repeat match goal with |- context [if ?c then _ else _] => destruct c end;
    rewrite ?items_rotate_right, ?items_rotate_left,
            ?items_set_left_rot, ?items_set_right_rot; reflexivity.
Qed.

Lemma items_rebalance_ins xlo xhi t : items (rebalance_ins xlo xhi t) = items t.
Proof.
  unfold rebalance_ins.
  repeat match goal with
         | |- context [if ?c then _ else _] => destruct c
         | |- context [match left ?t with Leaf => _ | Node _ _ _ _ _ _ _ => _ end] =>
             destruct (left t) eqn:?
         | |- context [match right ?t with Leaf => _ | Node _ _ _ _ _ _ _ => _ end] =>
             destruct (right t) eqn:?
         end;
    rewrite ?items_rotate_right, ?items_rotate_left; try reflexivity.
  - match goal with H : left t = _ |- _ => rewrite <- H end.
    rewrite items_set_left_rot. reflexivity.
  - match goal with H : right t = _ |- _ => rewrite <- H end.
    rewrite items_set_right_rot. reflexivity.
Qed.

(* removeMin unlinks exactly the first item of the in-order listing, which is findMin's *)
Lemma remove_min_spec l : forall lo hi tg mx h r,
  snd (remove_min (Node l lo hi tg mx h r)) = 1
  /\ items (Node l lo hi tg mx h r)
     = find_min lo hi tg l :: items (fst (remove_min (Node l lo hi tg mx h r))).
Proof.
  induction l as [|ll IHll llo lhi ltg lm lh lr _]; intros lo hi tg mx h r.
  - cbn [remove_min fst snd find_min items app]. split; reflexivity.
  - change (remove_min (Node (Node ll llo lhi ltg lm lh lr) lo hi tg mx h r))
      with (let '(l', k) := remove_min (Node ll llo lhi ltg lm lh lr) in
            (rebalance_del (mk l' lo hi tg r), k)).
    destruct (IHll llo lhi ltg lm lh lr) as [Hk Hi].
    destruct (remove_min (Node ll llo lhi ltg lm lh lr)) as [l' k]. cbn [fst snd] in *.
    split; [exact Hk|].
    rewrite items_rebalance_del, items_mk. cbn [find_min].
    change (items (Node (Node ll llo lhi ltg lm lh lr) lo hi tg mx h r))
      with (items (Node ll llo lhi ltg lm lh lr) ++ (lo, hi, tg) :: items r).
    rewrite Hi. reflexivity.
Qed.

Lemma perm_move {A} (x k : A) l r : Permutation (x :: l ++ k :: r) (l ++ k :: x :: r).
Proof.
  replace (l ++ k :: x :: r) with ((l ++ [k]) ++ x :: r) by (rewrite <- app_assoc; reflexivity).
  replace (l ++ k :: r) with ((l ++ [k]) ++ r) by (rewrite <- app_assoc; reflexivity).
  apply Permutation_middle.
Qed.

Definition del_post (x : item) (t t' : tree) (k : Z) : Prop :=
  sorted (inorder t')
  /\ ((In x (inorder t) /\ k = 1 /\ Permutation (inorder t) (x :: inorder t'))
      \/ (~ In x (inorder t) /\ k = 0 /\ inorder t' = inorder t)).

Lemma del_post_incl x t t' k : del_post x t t' k -> forall y, In y (inorder t') -> In y (inorder t).
Proof.
  intros (_ & [(_ & _ & P)|(_ & _ & E)]) y Hy.
  - eapply Permutation_in; [symmetry; exact P|right; exact Hy].
  - rewrite <- E. exact Hy.
Qed.

Lemma del_spec t : forall dlo dhi,
  sorted (inorder t) ->
  del_post (dlo, dhi) t (fst (del t dlo dhi)) (snd (del t dlo dhi)).
Proof.
  induction t as [|l IHl lo hi tg mx h r IHr]; intros dlo dhi Hs.
  - cbn [del fst snd]. split; [constructor|]. right. repeat split; auto.
  - cbn [inorder] in Hs. pose proof Hs as Hs0.
    apply sorted_node in Hs as (Hsl & Hsr & Hlk & Hkr).
    cbn [del]. destruct (less dlo dhi lo hi) eqn:Hless.
    + apply less_true in Hless.
      specialize (IHl dlo dhi Hsl). pose proof (del_post_incl _ _ _ _ IHl) as Hincl.
      destruct (del l dlo dhi) as [l' k]. cbn [fst snd] in *.
      destruct IHl as (Hsl' & Hcase).
      assert (Hnotin : ~ In (dlo, dhi) ((lo, hi) :: inorder r)).
      { intros [E|Hin].
        - rewrite E in Hless. exact (lex_lt_irrefl _ Hless).
        - apply (lex_lt_irrefl (dlo, dhi)). eapply lex_lt_le_trans; [exact Hless|auto]. }
      split.
      * rewrite inorder_rebalance_del, inorder_mk. apply sorted_node. repeat split; auto.
      * rewrite inorder_rebalance_del, inorder_mk. cbn [inorder].
        destruct Hcase as [(Hin & Hk & P)|(Hnin & Hk & E)].
        -- left. repeat split; auto; [apply in_or_app; left; exact Hin|].
           change ((dlo, dhi) :: inorder l' ++ (lo, hi) :: inorder r)
             with (((dlo, dhi) :: inorder l') ++ (lo, hi) :: inorder r).
           apply Permutation_app_tail. exact P.
        -- right. repeat split; auto; [|rewrite E; reflexivity].
           intros Hin. apply in_app_or in Hin as [Hin|Hin]; auto.
    + apply less_false in Hless.
      destruct (less lo hi dlo dhi) eqn:Hless2.
      * apply less_true in Hless2.
        specialize (IHr dlo dhi Hsr). pose proof (del_post_incl _ _ _ _ IHr) as Hincl.
        destruct (del r dlo dhi) as [r' k]. cbn [fst snd] in *.
        destruct IHr as (Hsr' & Hcase).
        assert (Hnotin : ~ In (dlo, dhi) (inorder l ++ [(lo, hi)])).
        { intros Hin. apply in_app_or in Hin as [Hin|[E|[]]].
          - apply (lex_lt_irrefl (dlo, dhi)). eapply lex_le_lt_trans; [apply Hlk; exact Hin|exact Hless2].
          - rewrite E in Hless2. exact (lex_lt_irrefl _ Hless2). }
        split.
        -- rewrite inorder_rebalance_del, inorder_mk. apply sorted_node. repeat split; auto.
        -- rewrite inorder_rebalance_del, inorder_mk. cbn [inorder].
           destruct Hcase as [(Hin & Hk & P)|(Hnin & Hk & E)].
           ++ left. repeat split; auto; [apply in_or_app; right; right; exact Hin|].
              rewrite P. symmetry. apply perm_move.
           ++ right. repeat split; auto; [|rewrite E; reflexivity].
              intros Hin. apply in_app_or in Hin as [Hin|[Hin|Hin]]; auto.
              ** apply Hnotin. apply in_or_app. left; exact Hin.
              ** apply Hnotin. apply in_or_app. right. left. exact Hin.
      * apply less_false in Hless2.
        assert (Ek : (lo, hi) = (dlo, dhi)) by (apply lex_le_antisym; assumption).
        assert (Hin : In (dlo, dhi) (inorder l ++ (lo, hi) :: inorder r)).
        { apply in_or_app. right. left. exact Ek. }
        destruct l as [|ll llo lhi ltg lm lh lr].
        { unfold del_post. cbn [fst snd inorder app]. split; [exact Hsr|]. left. repeat split; auto.
          rewrite Ek. apply Permutation_refl. }
        destruct r as [|rl rlo rhi rtg rm rh rr].
        { unfold del_post. cbn [fst snd]. split; [exact Hsl|]. left. repeat split; auto.
          cbn [inorder]. rewrite Ek.
          symmetry. apply Permutation_cons_append. }
        set (L := Node ll llo lhi ltg lm lh lr) in *.
        set (R := Node rl rlo rhi rtg rm rh rr) in *.
        destruct (remove_min_spec rl rlo rhi rtg rm rh rr) as [Hk Hi]. fold R in Hk, Hi.
        destruct (find_min rlo rhi rtg rl) as [[slo shi] stg].
        destruct (remove_min R) as [r' k]. cbn [fst snd] in *.
        assert (ER : inorder R = (slo, shi) :: inorder r').
        { rewrite !inorder_items, Hi. reflexivity. }
        rewrite ER in Hsr, Hkr. unfold sorted in Hsr. inversion Hsr as [|? ? Hsr' Hf]; subst.
        rewrite Forall_forall in Hf.
        unfold del_post. rewrite inorder_rebalance_del, inorder_mk. split.
        -- apply sorted_node. repeat split; auto.
           intros y Hy. eapply lex_le_trans; [apply Hlk; exact Hy|].
           apply Hkr. left; reflexivity.
        -- left. repeat split; auto. rewrite <- Ek.
           cbn [inorder]. fold L R. rewrite ER.
           symmetry. apply Permutation_middle.
Qed.
