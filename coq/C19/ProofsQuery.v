(* C19 — the two queries answer as a brute-force scan on trees that satisfy the shape
   invariant, are sorted, hold only well-formed intervals (lo <= hi) and are pairwise disjoint. *)
From Coq Require Import ZArith List Bool Lia ZifyBool Sorting.Sorted Sorting.Permutation.
From Acme.C19 Require Import Model Spec ProofsShape ProofsOrder.
Import ListNotations.
Open Scope Z_scope.

Definition valid (y : item) : Prop := fst y <= snd y.

Lemma overlaps_sym a b : overlaps a b = overlaps b a.
Proof. unfold overlaps. apply andb_comm. Qed.

(* ---- pairwise disjointness over concatenations / permutations ---- *)

Lemma fop_app {A} (R : A -> A -> Prop) (l1 l2 : list A) :
  ForallOrdPairs R (l1 ++ l2) <->
  ForallOrdPairs R l1 /\ ForallOrdPairs R l2 /\ (forall a b, In a l1 -> In b l2 -> R a b).
Proof.
  induction l1 as [|x l1 IH]; cbn [app].
  - split; [intros H; repeat split; [constructor|exact H|intros ? ? []]|intros (_ & H & _); exact H].
  - split.
    + intros H. inversion H as [|? ? Hf Hs]; subst. apply IH in Hs as (H1 & H2 & H3).
      rewrite Forall_forall in Hf.
      repeat split; auto.
      * constructor; [|exact H1]. rewrite Forall_forall. intros y Hy. apply Hf.
        apply in_or_app. left; exact Hy.
      * intros a b [<-|Ha] Hb; [apply Hf; apply in_or_app; right; exact Hb|auto].
    + intros (H1 & H2 & H3). inversion H1 as [|? ? Hf Hs]; subst.
      constructor.
      * rewrite Forall_forall in *. intros y Hy. apply in_app_or in Hy as [Hy|Hy]; [auto|].
        apply H3; [left; reflexivity|exact Hy].
      * apply IH. repeat split; auto. intros a b Ha Hb. apply H3; [right; exact Ha|exact Hb].
Qed.

Lemma pd_node l (k : item) r :
  pairwise_disjoint (l ++ k :: r) ->
  pairwise_disjoint l /\ pairwise_disjoint r
  /\ (forall y, In y l -> overlaps y k = false) /\ (forall y, In y r -> overlaps k y = false).
Proof.
  unfold pairwise_disjoint. rewrite fop_app. intros (Hl & Hkr & Hc).
  inversion Hkr as [|? ? Hf Hr]; subst. rewrite Forall_forall in Hf.
  repeat split; auto. intros y Hy. apply Hc; [exact Hy|left; reflexivity].
Qed.

Lemma pd_perm l l' : Permutation l l' -> pairwise_disjoint l -> pairwise_disjoint l'.
Proof.
  unfold pairwise_disjoint. induction 1 as [|x l l' P IH|x y l|l l' l'' P1 IH1 P2 IH2]; intros H.
  - constructor.
  - inversion H as [|? ? Hf Hs]; subst. constructor; [|auto].
    rewrite Forall_forall in *. intros z Hz. apply Hf. eapply Permutation_in; [symmetry; exact P|exact Hz].
  - inversion H as [|? ? Hf Hs]; subst. inversion Hs as [|? ? Hf2 Hs2]; subst.
    inversion Hf as [|? ? Hyx Hf3]; subst.
    constructor; [|constructor; auto].
    constructor; [rewrite overlaps_sym; exact Hyx|exact Hf2].
  - auto.
Qed.

(* ---- the invariant the queries rely on ---- *)

Definition qinv (t : tree) : Prop :=
  ok t /\ sorted (inorder t) /\ pairwise_disjoint (inorder t) /\ Forall valid (inorder t).

Lemma qinv_node l lo hi tg mx h r :
  qinv (Node l lo hi tg mx h r) ->
  qinv l /\ qinv r
  /\ (forall y, In y (inorder l) -> snd y < lo)
  /\ (forall y, In y (inorder (Node l lo hi tg mx h r)) -> snd y <= mx).
Proof.
  intros (Hok & Hs & Hd & Hv).
  pose proof (ok_max_bound _ _ _ _ _ _ _ Hok) as Hmx. rewrite Forall_forall in Hmx.
  destruct Hok as (Hl & Hr & _). fold ok in Hl, Hr.
  cbn [inorder] in Hs, Hd, Hv.
  apply sorted_node in Hs as (Hsl & Hsr & Hlk & Hkr).
  apply pd_node in Hd as (Hdl & Hdr & Hdlk & Hdkr).
  apply Forall_app in Hv as (Hvl & Hvkr). inversion Hvkr as [|? ? Hvk Hvr]; subst.
  repeat split; auto.
  intros y Hy. specialize (Hlk y Hy). specialize (Hdlk y Hy).
  unfold lex_le, overlaps, valid in *. cbn [fst snd] in *. lia.
Qed.

Lemma existsb_none {A} (f : A -> bool) l : (forall y, In y l -> f y = false) -> existsb f l = false.
Proof.
  induction l as [|x l IH]; intros H; [reflexivity|]. cbn [existsb].
  rewrite (H x (or_introl eq_refl)), IH; [reflexivity|]. intros y Hy. apply H. right; exact Hy.
Qed.

Lemma intersects_node_exact t low high :
  qinv t -> intersects_node t low high = existsb (overlaps (low, high)) (inorder t).
Proof.
  induction t as [|l IHl lo hi tg mx h r IHr]; intros Hq; [reflexivity|].
  destruct (qinv_node _ _ _ _ _ _ _ Hq) as (Hql & Hqr & Hleft & Hmx).
  cbn [intersects_node].
  destruct (Z.ltb_spec mx low) as [Hprune|Hprune].
  - symmetry. apply existsb_none. intros y Hy. specialize (Hmx y Hy).
    unfold overlaps. cbn [fst snd]. lia.
  - cbn [inorder]. rewrite existsb_app. cbn [existsb]. rewrite <- IHl, <- IHr by assumption.
    unfold overlaps at 1. cbn [fst snd].
    destruct ((lo <=? high) && (low <=? hi)); [rewrite orb_true_r; reflexivity|].
    cbn [orb].
    destruct (Z.ltb_spec low lo) as [Hlow|Hlow]; cbn [andb].
    + destruct (intersects_node l low high); reflexivity.
    + rewrite (IHl Hql). rewrite existsb_none; [reflexivity|].
      intros y Hy. specialize (Hleft y Hy). unfold overlaps. cbn [fst snd]. lia.
Qed.

Lemma check_other_exact t low high slo shi :
  qinv t ->
  check_other t low high slo shi
  = existsb (fun y => overlaps (low, high) y && negb (same (slo, shi) y)) (inorder t).
Proof.
  induction t as [|l IHl lo hi tg mx h r IHr]; intros Hq; [reflexivity|].
  destruct (qinv_node _ _ _ _ _ _ _ Hq) as (Hql & Hqr & Hleft & Hmx).
  cbn [check_other].
  destruct (Z.ltb_spec mx low) as [Hprune|Hprune].
  - symmetry. apply existsb_none. intros y Hy. specialize (Hmx y Hy).
    unfold overlaps. cbn [fst snd].
    replace (low <=? snd y) with false by lia. rewrite andb_false_r. reflexivity.
  - cbn [inorder]. rewrite existsb_app. cbn [existsb]. rewrite <- IHl, <- IHr by assumption.
    unfold overlaps at 1, same at 1. cbn [fst snd].
    replace (negb ((lo =? slo) && (hi =? shi)) && (lo <=? high) && (low <=? hi))
      with ((lo <=? high) && (low <=? hi) && negb ((lo =? slo) && (hi =? shi)))
      by (destruct ((lo =? slo) && (hi =? shi)), (lo <=? high), (low <=? hi); reflexivity).
    destruct ((lo <=? high) && (low <=? hi) && negb ((lo =? slo) && (hi =? shi)));
      [rewrite orb_true_r; reflexivity|].
    cbn [orb].
    destruct (Z.ltb_spec low lo) as [Hlow|Hlow]; cbn [andb].
    + destruct (check_other l low high slo shi); reflexivity.
    + rewrite (IHl Hql). rewrite existsb_none; [reflexivity|].
      intros y Hy. specialize (Hleft y Hy). unfold overlaps. cbn [fst snd].
      replace (low <=? snd y) with false by lia. rewrite andb_false_r. reflexivity.
Qed.
