(* C19 — shape invariant: stored heights / maxima are locally consistent and every node is
   AVL-balanced.  Preservation by rebalancing, insertion and deletion, with the height change
   bounded; the checked (partial) operations of ModelChk.v are defined on every such tree. *)
From Coq Require Import ZArith List Bool Lia ZifyBool.
From Acme.C19 Require Import Model Spec ModelChk.
Import ListNotations.
Open Scope Z_scope.

(* local form of the invariant: each stored field is what updateHeight/updateMax would compute
   from the children's stored fields; global exactness is derived in ok_every_* below *)
Fixpoint ok (t : tree) : Prop :=
  match t with
  | Leaf => True
  | Node l lo hi mx h r =>
      ok l /\ ok r /\ h = 1 + Z.max (height l) (height r)
      /\ -1 <= height l - height r <= 1 /\ mx = upd_max l hi r
  end.

Lemma ok_height_nonneg t : ok t -> 0 <= height t.
Proof.
  induction t as [|l IHl lo hi mx h r IHr]; cbn [ok height]; [lia|].
  intros (Hl & Hr & Hh & _). specialize (IHl Hl). specialize (IHr Hr). lia.
Qed.

Lemma ok_node_pos l lo hi mx h r : ok (Node l lo hi mx h r) -> 1 <= h.
Proof.
  cbn [ok]. intros (Hl & Hr & Hh & _).
  pose proof (ok_height_nonneg _ Hl). pose proof (ok_height_nonneg _ Hr). lia.
Qed.

Lemma height_mk l lo hi r : height (mk l lo hi r) = 1 + Z.max (height l) (height r).
Proof. reflexivity. Qed.

Lemma ok_mk l lo hi r :
  ok l -> ok r -> -1 <= height l - height r <= 1 -> ok (mk l lo hi r).
Proof. intros Hl Hr Hb. unfold mk. cbn [ok]. repeat split; auto; lia. Qed.

(* a tree of height 0 is a leaf; a tree of positive height is a node *)
Lemma ok_height0 t : ok t -> height t <= 0 -> t = Leaf.
Proof.
  destruct t as [|l lo hi mx h r]; [reflexivity|]. intros Hok Hh.
  pose proof (ok_node_pos _ _ _ _ _ _ Hok). cbn [height] in Hh. lia.
Qed.

(* ---- rebalancing (deleteNode's tail; insertNode's tail is shown to coincide with it) ---- *)

Definition rebal_post (l r res : tree) : Prop :=
  ok res
  /\ Z.max (height l) (height r) <= height res <= 1 + Z.max (height l) (height r)
  /\ (-1 <= height l - height r <= 1 -> height res = 1 + Z.max (height l) (height r))
  /\ (height l - height r = 2 -> balance_factor l <> 0 -> height res = height l)
  /\ (height l - height r = -2 -> balance_factor r <> 0 -> height res = height r).

Ltac solve_ok :=
  repeat first [assumption | apply ok_mk]; rewrite ?height_mk; cbn [height]; lia.

Ltac okpos :=
  repeat match goal with
  | H : ok ?t |- _ =>
      lazymatch goal with
      | _ : 0 <= height t |- _ => fail
      | _ => pose proof (ok_height_nonneg t H)
      end
  end.

Lemma rebal_ok l lo hi r :
  ok l -> ok r -> -2 <= height l - height r <= 2 ->
  rebal_post l r (rebalance_del (mk l lo hi r))
  /\ rebalance_del_chk (mk l lo hi r) = Some (rebalance_del (mk l lo hi r)).
Proof.
  intros Hl Hr Hd. unfold rebalance_del, rebalance_del_chk, rebal_post.
  cbn [mk balance_factor left right]. unfold mk at 1 2 3 4 5 6.
  cbn [balance_factor left right].
  destruct (Z.gtb_spec (height l - height r) 1) as [Hgt|Hgt].
  - (* left heavy *)
    destruct l as [|ll llo lhi lm lh lr].
    { okpos. cbn [height] in *. lia. }
    cbn [balance_factor].
    destruct Hl as (Hll & Hlr & Hlh & Hlb & Hlm). fold ok in Hll, Hlr.
    cbn [height] in Hgt, Hd.
    destruct (Z.ltb_spec (height ll - height lr) 0) as [Hlt|Hlt].
    + (* left-right: double rotation *)
      destruct lr as [|lrl lrlo lrhi lrm lrh lrr].
      { okpos. cbn [height] in *. lia. }
      destruct Hlr as (Hlrl & Hlrr & Hlrh & Hlrb & Hlrm). fold ok in Hlrl, Hlrr.
      cbn [rotate_left rotate_left_chk set_left bind rotate_right rotate_right_chk mk].
      unfold mk at 1 2. cbn [rotate_right rotate_right_chk].
      split; [|reflexivity].
      cbn [height] in *. okpos.
      split; [solve_ok|]; rewrite ?height_mk; cbn [height balance_factor]; lia.
    + (* left-left: single rotation *)
      cbn [rotate_right rotate_right_chk].
      split; [|reflexivity].
      cbn [height] in *. okpos.
      split; [solve_ok|]; rewrite ?height_mk; cbn [height balance_factor]; lia.
  - destruct (Z.ltb_spec (height l - height r) (-1)) as [Hlt|Hlt].
    + (* right heavy *)
      destruct r as [|rl rlo rhi rm rh rr].
      { okpos. cbn [height] in *. lia. }
      cbn [balance_factor].
      destruct Hr as (Hrl & Hrr & Hrh & Hrb & Hrm). fold ok in Hrl, Hrr.
      cbn [height] in Hlt, Hd.
      destruct (Z.gtb_spec (height rl - height rr) 0) as [Hg0|Hg0].
      * (* right-left: double rotation *)
        destruct rl as [|rll rllo rlhi rlm rlh rlr].
        { okpos. cbn [height] in *. lia. }
        destruct Hrl as (Hrll & Hrlr & Hrlh & Hrlb & Hrlm). fold ok in Hrll, Hrlr.
        cbn [rotate_left rotate_left_chk set_right bind rotate_right rotate_right_chk mk].
        unfold mk at 1 2. cbn [rotate_left rotate_left_chk].
        split; [|reflexivity].
        cbn [height] in *. okpos.
        split; [solve_ok|]; rewrite ?height_mk; cbn [height balance_factor]; lia.
      * cbn [rotate_left rotate_left_chk].
        split; [|reflexivity].
        cbn [height] in *. okpos.
        split; [solve_ok|]; rewrite ?height_mk; cbn [height balance_factor]; lia.
    + split; [|reflexivity].
      okpos.
      split; [solve_ok|]; rewrite ?height_mk; lia.
Qed.
