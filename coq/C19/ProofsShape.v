(* C19 — shape invariant: stored heights / maxima are locally consistent and every node is
   AVL-balanced.  Preservation by rebalancing, insertion and deletion, with the height change
   bounded; the checked (partial) operations of ModelChk.v are defined on every such tree. *)
From Coq Require Import ZArith List Bool Lia ZifyBool.
From Acme.C19 Require Import Model Spec ModelChk.
Import ListNotations.
Open Scope Z_scope.

(* local form of the invariant: each stored field is what updateHeight/updateMax would compute
   from the children's stored fields; global exactness is derived in ok_every_* below *)
Fixpoint ok (t : tree) : Prop :=
  match t with
  | Leaf => True
  | Node l lo hi tg mx h r =>
      ok l /\ ok r /\ h = 1 + Z.max (height l) (height r)
      /\ -1 <= height l - height r <= 1 /\ mx = upd_max l hi r
  end.

Lemma ok_height_nonneg t : ok t -> 0 <= height t.
Proof.
  induction t as [|l IHl lo hi tg mx h r IHr]; cbn [ok height]; [lia|].
  intros (Hl & Hr & Hh & _). specialize (IHl Hl). specialize (IHr Hr). lia.
Qed.

Lemma ok_node_pos l lo hi tg mx h r : ok (Node l lo hi tg mx h r) -> 1 <= h.
Proof.
  cbn [ok]. intros (Hl & Hr & Hh & _).
  pose proof (ok_height_nonneg _ Hl). pose proof (ok_height_nonneg _ Hr). lia.
Qed.

Lemma height_mk l lo hi tg r : height (mk l lo hi tg r) = 1 + Z.max (height l) (height r).
Proof. reflexivity. Qed.

Lemma ok_mk l lo hi tg r :
  ok l -> ok r -> -1 <= height l - height r <= 1 -> ok (mk l lo hi tg r).
Proof. intros Hl Hr Hb. unfold mk. cbn [ok]. repeat split; auto; lia. Qed.

(* a tree of height 0 is a leaf; a tree of positive height is a node *)
Lemma ok_height0 t : ok t -> height t <= 0 -> t = Leaf.
Proof.
  destruct t as [|l lo hi tg mx h r]; [reflexivity|]. intros Hok Hh.
  pose proof (ok_node_pos _ _ _ _ _ _ _ Hok). cbn [height] in Hh. lia.
Qed.

(* ---- rebalancing (deleteNode's tail; insertNode's tail is shown to coincide with it) ---- *)

Definition rebal_post (l r res : tree) : Prop :=
  ok res
  /\ Z.max (height l) (height r) <= height res <= 1 + Z.max (height l) (height r)
  /\ (-1 <= height l - height r <= 1 -> height res = 1 + Z.max (height l) (height r))
  /\ (height l - height r = 2 -> balance_factor l <> 0 -> height res = height l)
  /\ (height l - height r = -2 -> balance_factor r <> 0 -> height res = height r).

Ltac solve_ok :=
  repeat match goal with
         | |- ok (mk _ _ _ _ _) => apply ok_mk
         | |- ok _ => assumption
         end; rewrite ?height_mk; cbn [height]; lia.

Ltac okpos :=
  repeat match goal with
  | H : ok ?t |- _ =>
      lazymatch goal with
      | _ : 0 <= height t |- _ => fail
      | _ => pose proof (ok_height_nonneg t H)
      end
  end.

Lemma bf_mk l lo hi tg r : balance_factor (mk l lo hi tg r) = height l - height r.
Proof. reflexivity. Qed.
Lemma left_mk l lo hi tg r : left (mk l lo hi tg r) = l.
Proof. reflexivity. Qed.
Lemma right_mk l lo hi tg r : right (mk l lo hi tg r) = r.
Proof. reflexivity. Qed.
Lemma rr_mk ll llo lhi ltg lm lh lr lo hi tg r :
  rotate_right (mk (Node ll llo lhi ltg lm lh lr) lo hi tg r) = mk ll llo lhi ltg (mk lr lo hi tg r)
  /\ rotate_right_chk (mk (Node ll llo lhi ltg lm lh lr) lo hi tg r) = Some (mk ll llo lhi ltg (mk lr lo hi tg r)).
Proof. split; reflexivity. Qed.
Lemma rl_mk l lo hi tg rl rlo rhi rtg rm rh rr :
  rotate_left (mk l lo hi tg (Node rl rlo rhi rtg rm rh rr)) = mk (mk l lo hi tg rl) rlo rhi rtg rr
  /\ rotate_left_chk (mk l lo hi tg (Node rl rlo rhi rtg rm rh rr)) = Some (mk (mk l lo hi tg rl) rlo rhi rtg rr).
Proof. split; reflexivity. Qed.
Lemma rlr_mk ll llo lhi ltg lm lh lrl lrlo lrhi lrtg lrm lrh lrr lo hi tg r :
  let l := Node ll llo lhi ltg lm lh (Node lrl lrlo lrhi lrtg lrm lrh lrr) in
  let res := mk (mk ll llo lhi ltg lrl) lrlo lrhi lrtg (mk lrr lo hi tg r) in
  rotate_right (set_left (mk l lo hi tg r) (rotate_left l)) = res
  /\ bind (rotate_left_chk l) (fun l' => rotate_right_chk (set_left (mk l lo hi tg r) l')) = Some res.
Proof. split; reflexivity. Qed.
Lemma rrl_mk l lo hi tg rll rllo rlhi rltg rlm rlh rlr rlo rhi rtg rm rh rr :
  let r := Node (Node rll rllo rlhi rltg rlm rlh rlr) rlo rhi rtg rm rh rr in
  let res := mk (mk l lo hi tg rll) rllo rlhi rltg (mk rlr rlo rhi rtg rr) in
  rotate_left (set_right (mk l lo hi tg r) (rotate_right r)) = res
  /\ bind (rotate_right_chk r) (fun r' => rotate_left_chk (set_right (mk l lo hi tg r) r')) = Some res.
Proof. split; reflexivity. Qed.

Lemma rebal_ok l lo hi tg r :
  ok l -> ok r -> -2 <= height l - height r <= 2 ->
  rebal_post l r (rebalance_del (mk l lo hi tg r))
  /\ rebalance_del_chk (mk l lo hi tg r) = Some (rebalance_del (mk l lo hi tg r)).
Proof.
  intros Hl Hr Hd. unfold rebalance_del, rebalance_del_chk, rebal_post.
  rewrite !bf_mk, !left_mk, !right_mk.
  destruct (Z.gtb_spec (height l - height r) 1) as [Hgt|Hgt].
  - (* left heavy *)
    destruct l as [|ll llo lhi ltg lm lh lr].
    { okpos. cbn [height] in *. lia. }
    pose proof Hl as (Hll & Hlr & Hlh & Hlb & Hlm). fold ok in Hll, Hlr.
    cbn [balance_factor].
    destruct (Z.ltb_spec (height ll - height lr) 0) as [Hlt|Hlt].
    + (* left-right: double rotation *)
      destruct lr as [|lrl lrlo lrhi lrtg lrm lrh lrr].
      { okpos. cbn [height] in *. lia. }
      pose proof Hlr as (Hlrl & Hlrr & Hlrh & Hlrb & Hlrm). fold ok in Hlrl, Hlrr.
      destruct (rlr_mk ll llo lhi ltg lm lh lrl lrlo lrhi lrtg lrm lrh lrr lo hi tg r) as [E1 E2].
      cbv zeta in E1, E2. rewrite E1, E2. clear E1 E2 Hl Hlr.
      split; [|reflexivity]. okpos. cbn [height] in *.
      split; [solve_ok|]; rewrite ?height_mk; cbn [height balance_factor]; lia.
    + (* left-left: single rotation *)
      destruct (rr_mk ll llo lhi ltg lm lh lr lo hi tg r) as [E1 E2]. rewrite E1, E2. clear E1 E2 Hl.
      split; [|reflexivity]. okpos. cbn [height] in *.
      split; [solve_ok|]; rewrite ?height_mk; cbn [height balance_factor]; lia.
  - destruct (Z.ltb_spec (height l - height r) (-1)) as [Hlt|Hlt].
    + (* right heavy *)
      destruct r as [|rl rlo rhi rtg rm rh rr].
      { okpos. cbn [height] in *. lia. }
      pose proof Hr as (Hrl & Hrr & Hrh & Hrb & Hrm). fold ok in Hrl, Hrr.
      cbn [balance_factor].
      destruct (Z.gtb_spec (height rl - height rr) 0) as [Hg0|Hg0].
      * (* right-left: double rotation *)
        destruct rl as [|rll rllo rlhi rltg rlm rlh rlr].
        { okpos. cbn [height] in *. lia. }
        pose proof Hrl as (Hrll & Hrlr & Hrlh & Hrlb & Hrlm). fold ok in Hrll, Hrlr.
        destruct (rrl_mk l lo hi tg rll rllo rlhi rltg rlm rlh rlr rlo rhi rtg rm rh rr) as [E1 E2].
        cbv zeta in E1, E2. rewrite E1, E2. clear E1 E2 Hr Hrl.
        split; [|reflexivity]. okpos. cbn [height] in *.
        split; [solve_ok|]; rewrite ?height_mk; cbn [height balance_factor]; lia.
      * destruct (rl_mk l lo hi tg rl rlo rhi rtg rm rh rr) as [E1 E2]. rewrite E1, E2. clear E1 E2 Hr.
        split; [|reflexivity]. okpos. cbn [height] in *.
        split; [solve_ok|]; rewrite ?height_mk; cbn [height balance_factor]; lia.
    + split; [|reflexivity]. okpos.
      split; [solve_ok|]; rewrite ?height_mk; lia.
Qed.

Lemma rebal_id l lo hi tg r :
  -1 <= height l - height r <= 1 -> rebalance_del (mk l lo hi tg r) = mk l lo hi tg r.
Proof.
  intros Hb. unfold rebalance_del. rewrite !bf_mk.
  destruct (Z.gtb_spec (height l - height r) 1); [lia|].
  destruct (Z.ltb_spec (height l - height r) (-1)); [lia|]. reflexivity.
Qed.

(* ---- insertion ---- *)

(* shape of a subtree whose height has just grown by an insertion of x: either a fresh
   singleton, or the side x went to is the strictly taller one *)
Definition grown (xlo xhi : Z) (t : tree) : Prop :=
  match t with
  | Leaf => False
  | Node l klo khi ktg _ h r =>
      h = 1 \/ (if less xlo xhi klo khi then height l = height r + 1
                else height r = height l + 1)
  end.

(* on such shapes insertNode's choice of rotation by key comparison is deleteNode's choice by
   balance factor *)
Lemma rebal_ins_eq xlo xhi l lo hi tg r :
  ok l -> ok r ->
  (1 < height l - height r -> grown xlo xhi l) ->
  (height l - height r < -1 -> grown xlo xhi r) ->
  rebalance_ins xlo xhi (mk l lo hi tg r) = rebalance_del (mk l lo hi tg r)
  /\ rebalance_ins_chk xlo xhi (mk l lo hi tg r) = rebalance_del_chk (mk l lo hi tg r).
Proof.
  intros Hl Hr Gl Gr.
  unfold rebalance_ins, rebalance_del, rebalance_ins_chk, rebalance_del_chk.
  rewrite !bf_mk, !left_mk, !right_mk.
  destruct (Z.gtb_spec (height l - height r) 1) as [Hgt|Hgt].
  - specialize (Gl Hgt). destruct l as [|ll llo lhi ltg lm lh lr]; [destruct Gl|].
    cbn [grown] in Gl. cbn [balance_factor]. okpos. cbn [height] in *.
    destruct (less xlo xhi llo lhi); cbn [negb];
      destruct (Z.ltb_spec (height ll - height lr) 0); try (split; reflexivity); lia.
  - destruct (Z.ltb_spec (height l - height r) (-1)) as [Hlt|Hlt]; [|split; reflexivity].
    specialize (Gr Hlt). destruct r as [|rl rlo rhi rtg rm rh rr]; [destruct Gr|].
    cbn [grown] in Gr. cbn [balance_factor]. okpos. cbn [height] in *.
    destruct (less xlo xhi rlo rhi);
      destruct (Z.gtb_spec (height rl - height rr) 0); try (split; reflexivity); lia.
Qed.

Lemma grown_bf xlo xhi t : ok t -> grown xlo xhi t -> height t = 1 \/ balance_factor t <> 0.
Proof.
  destruct t as [|l klo khi ktg m h r]; cbn [grown]; [tauto|].
  intros _ [H1|H]; [left; exact H1|right]. cbn [balance_factor].
  destruct (less xlo xhi klo khi); lia.
Qed.

Lemma ins_ok xlo xhi xtg t :
  ok t ->
  ok (ins xlo xhi xtg t)
  /\ ins_chk xlo xhi xtg t = Some (ins xlo xhi xtg t)
  /\ (height (ins xlo xhi xtg t) = height t
      \/ (height (ins xlo xhi xtg t) = height t + 1 /\ grown xlo xhi (ins xlo xhi xtg t))).
Proof.
  induction t as [|l IHl lo hi tg mx h r IHr]; intros Hok.
  - cbn [ins ins_chk ok height grown upd_max]. repeat split; auto; try lia.
  - destruct Hok as (Hl & Hr & Hh & Hb & Hm). fold ok in Hl, Hr.
    specialize (IHl Hl). specialize (IHr Hr). cbn [ins ins_chk height].
    destruct (less xlo xhi lo hi) eqn:Hless.
    + destruct IHl as (Hl' & Cl & Hhl). rewrite Cl. cbn [bind].
      set (l' := ins xlo xhi xtg l) in *.
      assert (Hd : -2 <= height l' - height r <= 2) by lia.
      assert (G1 : 1 < height l' - height r -> grown xlo xhi l').
      { intros ?. destruct Hhl as [?|[_ G]]; [lia|exact G]. }
      assert (G2 : height l' - height r < -1 -> grown xlo xhi r) by (intros ?; lia).
      destruct (rebal_ins_eq xlo xhi l' lo hi tg r Hl' Hr G1 G2) as [E1 E2]. rewrite E1, E2.
      destruct (rebal_ok l' lo hi tg r Hl' Hr Hd) as [(Ho & Hrange & Hin & Hp2 & Hm2) Hc].
      split; [exact Ho|]. split; [exact Hc|].
      destruct Hhl as [Heq|[Hgr G]].
      * left. lia.
      * destruct (Z.le_gt_cases (height l' - height r) 1) as [Hle|Hbig].
        -- rewrite rebal_id in * by lia. rewrite height_mk.
           destruct (Z.eq_dec (1 + Z.max (height l') (height r)) h) as [?|Hne]; [left; lia|right].
           split; [lia|]. unfold mk. cbn [grown]. right. rewrite Hless. lia.
        -- left. pose proof (grown_bf _ _ _ Hl' G) as [H1|Hbf]; [okpos; lia|].
           rewrite Hp2 by (auto; lia). lia.
    + destruct IHr as (Hr' & Cr & Hhr). rewrite Cr. cbn [bind].
      set (r' := ins xlo xhi xtg r) in *.
      assert (Hd : -2 <= height l - height r' <= 2) by lia.
      assert (G1 : 1 < height l - height r' -> grown xlo xhi l) by (intros ?; lia).
      assert (G2 : height l - height r' < -1 -> grown xlo xhi r').
      { intros ?. destruct Hhr as [?|[_ G]]; [lia|exact G]. }
      destruct (rebal_ins_eq xlo xhi l lo hi tg r' Hl Hr' G1 G2) as [E1 E2]. rewrite E1, E2.
      destruct (rebal_ok l lo hi tg r' Hl Hr' Hd) as [(Ho & Hrange & Hin & Hp2 & Hm2) Hc].
      split; [exact Ho|]. split; [exact Hc|].
      destruct Hhr as [Heq|[Hgr G]].
      * left. lia.
      * destruct (Z.le_gt_cases (-1) (height l - height r')) as [Hle|Hbig].
        -- rewrite rebal_id in * by lia. rewrite height_mk.
           destruct (Z.eq_dec (1 + Z.max (height l) (height r')) h) as [?|Hne]; [left; lia|right].
           split; [lia|]. unfold mk. cbn [grown]. right. rewrite Hless. lia.
        -- left. pose proof (grown_bf _ _ _ Hr' G) as [H1|Hbf]; [okpos; lia|].
           rewrite Hm2 by (auto; lia). lia.
Qed.

(* ---- deletion ---- *)

Lemma del_step_ok l lo hi tg r (k : Z) :
  ok l -> ok r -> -2 <= height l - height r <= 2 ->
  ok (rebalance_del (mk l lo hi tg r))
  /\ bind (rebalance_del_chk (mk l lo hi tg r)) (fun t' => Some (t', k))
     = Some (rebalance_del (mk l lo hi tg r), k)
  /\ Z.max (height l) (height r) <= height (rebalance_del (mk l lo hi tg r))
       <= 1 + Z.max (height l) (height r)
  /\ (-1 <= height l - height r <= 1 ->
      height (rebalance_del (mk l lo hi tg r)) = 1 + Z.max (height l) (height r)).
Proof.
  intros Hl Hr Hd.
  destruct (rebal_ok l lo hi tg r Hl Hr Hd) as [(Ho & Hrange & Hin & _ & _) Hc].
  rewrite Hc. cbn [bind]. auto.
Qed.

Lemma remove_min_node ll llo lhi ltg lm lh lr lo hi tg m h r :
  remove_min (Node (Node ll llo lhi ltg lm lh lr) lo hi tg m h r)
  = (let '(l', k) := remove_min (Node ll llo lhi ltg lm lh lr) in (rebalance_del (mk l' lo hi tg r), k))
  /\ remove_min_chk (Node (Node ll llo lhi ltg lm lh lr) lo hi tg m h r)
    = bind (remove_min_chk (Node ll llo lhi ltg lm lh lr)) (fun '(l', k) =>
        bind (rebalance_del_chk (mk l' lo hi tg r)) (fun t' => Some (t', k))).
Proof. split; reflexivity. Qed.

Lemma remove_min_ok t :
  ok t -> t <> Leaf ->
  ok (fst (remove_min t))
  /\ remove_min_chk t = Some (remove_min t)
  /\ height t - 1 <= height (fst (remove_min t)) <= height t.
Proof.
  induction t as [|l IHl lo hi tg mx h r _]; intros Hok Hne; [congruence|].
  pose proof Hok as (Hl & Hr & Hh & Hb & Hm). fold ok in Hl, Hr.
  destruct l as [|ll llo lhi ltg lm lh lr].
  - cbn [remove_min remove_min_chk fst]. okpos. cbn [height] in *.
    split; [exact Hr|split; [reflexivity|lia]].
  - destruct (remove_min_node ll llo lhi ltg lm lh lr lo hi tg mx h r) as [E1 E2]. rewrite E1, E2.
    destruct (IHl Hl ltac:(discriminate)) as (Hl' & Cl & Hhl). rewrite Cl.
    destruct (remove_min (Node ll llo lhi ltg lm lh lr)) as [l' k]. cbn [fst bind height] in *.
    destruct (del_step_ok l' lo hi tg r k Hl' Hr ltac:(lia)) as (Ho & Hc & Hrange & Hin).
    rewrite Hc. repeat split; auto; lia.
Qed.

Lemma del_ok t : forall dlo dhi,
  ok t ->
  ok (fst (del t dlo dhi))
  /\ del_chk t dlo dhi = Some (del t dlo dhi)
  /\ height t - 1 <= height (fst (del t dlo dhi)) <= height t.
Proof.
  induction t as [|l IHl lo hi tg mx h r IHr]; intros dlo dhi Hok.
  - cbn [del del_chk fst ok height]. repeat split; auto; lia.
  - pose proof Hok as (Hl & Hr & Hh & Hb & Hm). fold ok in Hl, Hr.
    cbn [del del_chk height].
    destruct (less dlo dhi lo hi).
    + destruct (IHl dlo dhi Hl) as (Hl' & Cl & Hhl). rewrite Cl.
      destruct (del l dlo dhi) as [l' k]. cbn [fst bind] in *.
      destruct (del_step_ok l' lo hi tg r k Hl' Hr ltac:(lia)) as (Ho & Hc & Hrange & Hin).
      rewrite Hc. repeat split; auto; lia.
    + destruct (less lo hi dlo dhi).
      * destruct (IHr dlo dhi Hr) as (Hr' & Cr & Hhr). rewrite Cr.
        destruct (del r dlo dhi) as [r' k]. cbn [fst bind] in *.
        destruct (del_step_ok l lo hi tg r' k Hl Hr' ltac:(lia)) as (Ho & Hc & Hrange & Hin).
        rewrite Hc. repeat split; auto; lia.
      * destruct l as [|ll llo lhi ltg lm lh lr].
        { okpos. cbn [fst height] in *. split; [exact Hr|split; [reflexivity|lia]]. }
        destruct r as [|rl rlo rhi rtg rm rh rr].
        { okpos. cbn [fst height] in *. split; [exact Hl|split; [reflexivity|lia]]. }
        destruct (find_min rlo rhi rtg rl) as [[slo shi] stg].
        destruct (remove_min_ok _ Hr ltac:(discriminate)) as (Hr' & Cr & Hhr). rewrite Cr.
        destruct (remove_min (Node rl rlo rhi rtg rm rh rr)) as [r' k]. cbn [fst bind] in *.
        destruct (del_step_ok (Node ll llo lhi ltg lm lh lr) slo shi stg r' k Hl Hr' ltac:(lia))
          as (Ho & Hc & Hrange & Hin).
        rewrite Hc. repeat split; auto; lia.
Qed.

(* ---- from the local invariant to the per-node statements of Spec.v ---- *)

Lemma ok_real_height t : ok t -> height t = real_height t.
Proof.
  induction t as [|l IHl lo hi tg mx h r IHr]; cbn [ok height real_height]; [reflexivity|].
  intros (Hl & Hr & Hh & _). rewrite <- IHl, <- IHr by assumption. exact Hh.
Qed.

Lemma ok_every_height t : ok t -> every_node height_exact_at t.
Proof.
  induction t as [|l IHl lo hi tg mx h r IHr]; cbn [every_node]; [trivial|].
  intros Hok. pose proof Hok as (Hl & Hr & _). fold ok in Hl, Hr.
  split; [exact (ok_real_height _ Hok)|]. split; auto.
Qed.

Lemma ok_every_balanced t : ok t -> every_node balanced_at t.
Proof.
  induction t as [|l IHl lo hi tg mx h r IHr]; cbn [every_node]; [trivial|].
  intros (Hl & Hr & _ & Hb & _). fold ok in Hl, Hr.
  split; [|split; auto]. cbn [balanced_at].
  rewrite <- (ok_real_height l), <- (ok_real_height r) by assumption. exact Hb.
Qed.

Lemma upd_max_is_max l hi r :
  (match l with Leaf => True | Node _ _ _ _ ml _ _ => is_max ml (map snd (inorder l)) end) ->
  (match r with Leaf => True | Node _ _ _ _ mr _ _ => is_max mr (map snd (inorder r)) end) ->
  is_max (upd_max l hi r) (map snd (inorder l) ++ hi :: map snd (inorder r)).
Proof.
  intros Hl Hr. unfold upd_max, is_max in *.
  assert (Hleaf : forall (t : tree), t = Leaf -> map snd (inorder t) = []) by (intros ? ->; reflexivity).
  destruct l as [|ll llo lhi ltg ml lh lr]; destruct r as [|rl rlo rhi rtg mr rh rr].
  - cbn [inorder map app]. split; [left; reflexivity|]. repeat constructor. lia.
  - destruct Hr as [Hin Hall]. cbn [inorder map app] in *.
    destruct (Z.gtb_spec mr hi).
    + split; [right; exact Hin|]. constructor; [lia|exact Hall].
    + split; [left; reflexivity|]. constructor; [lia|].
      eapply Forall_impl; [|exact Hall]. cbn beta. intros; lia.
  - destruct Hl as [Hin Hall]. rewrite (Hleaf Leaf eq_refl).
    destruct (Z.gtb_spec ml hi).
    + split; [apply in_or_app; left; exact Hin|].
      apply Forall_app. split; [exact Hall|]. repeat constructor. lia.
    + split; [apply in_or_app; right; left; reflexivity|].
      apply Forall_app. split; [|repeat constructor; lia].
      eapply Forall_impl; [|exact Hall]. cbn beta. intros; lia.
  - destruct Hl as [Hinl Halll]. destruct Hr as [Hinr Hallr].
    set (L := map snd (inorder (Node ll llo lhi ltg ml lh lr))) in *.
    set (R := map snd (inorder (Node rl rlo rhi rtg mr rh rr))) in *.
    destruct (Z.gtb_spec ml hi) as [H1|H1];
      [destruct (Z.gtb_spec mr ml) as [H2|H2] | destruct (Z.gtb_spec mr hi) as [H2|H2]].
    all: split;
      [ first [ solve [apply in_or_app; left; exact Hinl]
              | solve [apply in_or_app; right; right; exact Hinr]
              | solve [apply in_or_app; right; left; reflexivity] ]
      | apply Forall_app; split;
        [ eapply Forall_impl; [|exact Halll]; cbn beta; intros; lia
        | constructor; [lia| eapply Forall_impl; [|exact Hallr]; cbn beta; intros; lia] ] ].
Qed.

Lemma ok_every_max t : ok t -> every_node max_exact_at t.
Proof.
  induction t as [|l IHl lo hi tg mx h r IHr]; cbn [every_node]; [trivial|].
  intros (Hl & Hr & _ & _ & Hm). fold ok in Hl, Hr.
  specialize (IHl Hl). specialize (IHr Hr).
  split; [|split; assumption]. cbn [max_exact_at inorder]. rewrite map_app. cbn [map snd].
  rewrite Hm. apply upd_max_is_max.
  - destruct l; [trivial|]. cbn [every_node] in IHl. apply IHl.
  - destruct r; [trivial|]. cbn [every_node] in IHr. apply IHr.
Qed.

(* the stored maximum bounds every high end below the node (used by the query pruning) *)
Lemma ok_max_bound l lo hi tg mx h r :
  ok (Node l lo hi tg mx h r) ->
  Forall (fun y => snd y <= mx) (inorder (Node l lo hi tg mx h r)).
Proof.
  intros Hok. pose proof (ok_every_max _ Hok) as [[_ Hall] _].
  rewrite Forall_forall in *. intros y Hy. apply Hall. apply in_map. exact Hy.
Qed.
