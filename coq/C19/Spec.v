(* C19 — specification-level vocabulary used by the theorems of Properties/C19.v.
   Definitions only (no proofs): the multiset semantics of an operation history, the order the
   contents are listed in, the brute-force forms of the two queries, and the "every node of the
   tree" predicates (real height, real subtree maximum, AVL balance). *)
From Coq Require Import ZArith List Bool Sorting.Sorted.
From Acme.C19 Require Import Model.
Import ListNotations.
Open Scope Z_scope.

Notation item := (Z * Z)%type (only parsing).

(* (low, high) lexicographic order: the search key of the tree *)
Definition lex_le (a b : item) : Prop :=
  fst a < fst b \/ (fst a = fst b /\ snd a <= snd b).
Definition lex_lt (a b : item) : Prop :=
  fst a < fst b \/ (fst a = fst b /\ snd a < snd b).

Definition item_eqb (a b : item) : bool := (fst a =? fst b) && (snd a =? snd b).

(* closed intervals q and y share a point (the test of intersectsNode, written for pairs) *)
Definition overlaps (q y : item) : bool := (fst y <=? snd q) && (fst q <=? snd y).
(* y is "the interval being updated" x (the isSameItem test of checkOtherIntervals) *)
Definition same (x y : item) : bool := (fst y =? fst x) && (snd y =? snd x).

(* ---- multiset semantics of a history ---- *)
Fixpoint remove_one (x : item) (l : list item) : list item :=
  match l with
  | [] => []
  | y :: l' => if item_eqb x y then l' else y :: remove_one x l'
  end.

Definition spec_step (sp : list item) (o : op) : list item :=
  match o with
  | Insert lo hi _ => if lo >? hi then sp else sp ++ [(lo, hi)]
  | Delete lo hi => remove_one (lo, hi) sp
  | Clear => []
  end.

Definition spec (ops : list op) : list item := fold_left spec_step ops [].

Definition contents (s : t) : list item := inorder (root s).

(* ---- items: bounds + payload tag (what GetAllIntervals really returns) ---- *)
Notation titem := (Z * Z * Z)%type (only parsing).
Definition key (x : titem) : item := (fst (fst x), snd (fst x)).
Definition tag (x : titem) : Z := snd x.
Definition stored (s : t) : list titem := items (root s).

(* the items the history handed to the tree since the last Clear (inverted ones are ignored) *)
Definition inserted_step (acc : list titem) (o : op) : list titem :=
  match o with
  | Insert lo hi tg => if lo >? hi then acc else acc ++ [(lo, hi, tg)]
  | Delete _ _ => acc
  | Clear => []
  end.
Definition inserted (ops : list op) : list titem := fold_left inserted_step ops [].

(* item-level semantics of one operation.  Delete(lo,hi) removes ONE stored item with those
   bounds -- any of them (the caller cannot name the payload: Delete reads bounds only) -- and
   nothing when there is none. *)
Definition item_step_rel (sp : list titem) (o : op) (sp' : list titem) : Prop :=
  match o with
  | Insert lo hi tg => sp' = if lo >? hi then sp else sp ++ [(lo, hi, tg)]
  | Delete lo hi =>
      (exists l1 y l2, sp = l1 ++ y :: l2 /\ key y = (lo, hi) /\ sp' = l1 ++ l2)
      \/ ((forall y, In y sp -> key y <> (lo, hi)) /\ sp' = sp)
  | Clear => sp' = []
  end.

(* `res` is one admissible item multiset after the history `ops` started from `sp` *)
Fixpoint item_spec_from (sp : list titem) (ops : list op) (res : list titem) : Prop :=
  match ops with
  | [] => res = sp
  | o :: ops' => exists sp1, item_step_rel sp o sp1 /\ item_spec_from sp1 ops' res
  end.
Definition item_spec (ops : list op) (res : list titem) : Prop := item_spec_from [] ops res.

Definition pairwise_disjoint (l : list item) : Prop :=
  ForallOrdPairs (fun a b => overlaps a b = false) l.

(* ---- facts about every node of a tree ---- *)
Fixpoint real_height (t : tree) : Z :=
  match t with
  | Leaf => 0
  | Node l _ _ _ _ _ r => 1 + Z.max (real_height l) (real_height r)
  end.

Fixpoint every_node (P : tree -> Prop) (t : tree) : Prop :=
  match t with
  | Leaf => True
  | Node l _ _ _ _ _ r => P t /\ every_node P l /\ every_node P r
  end.

(* m is the greatest element of the (non-empty) list l *)
Definition is_max (m : Z) (l : list Z) : Prop := In m l /\ Forall (fun y => y <= m) l.

Definition balanced_at (t : tree) : Prop :=
  match t with
  | Leaf => True
  | Node l _ _ _ _ _ r => -1 <= real_height l - real_height r <= 1
  end.

Definition height_exact_at (t : tree) : Prop := height t = real_height t.

Definition max_exact_at (t : tree) : Prop :=
  match t with
  | Leaf => True
  | Node _ _ _ _ mx _ _ => is_max mx (map snd (inorder t))
  end.
