(* C01 - property theorems (statements only; the proofs live in Acme.C01.ProofsXxx). *)
From Coq Require Import ZArith List Sorted.
From Acme.C01 Require Import Layout State Model ProofsLayout ProofsInv Refuted ProofsT1.
Open Scope Z_scope.

(* the boolean predicate evaluated on the implementation's snapshots is the declarative one *)
Theorem wfb_iff_wf : forall size v, wfb size v = true <-> wf size v.
Proof. exact wfb_wf. Qed.
Print Assumptions wfb_iff_wf.

(* T1. For every history whose steps satisfy the per-step hypotheses [ok_op] (ProofsInv.v: no
   re-attachment of a placed signal (D20), SetMinSize not growing attached signals (D03), no two
   signals of one layout sharing a growing enum (D36), resized multiplexed signals followed by
   single-group signals only (D35), parent links of resized signals consistent (C05)), every
   message layout of the reached state is sorted, pairwise disjoint, inside the payload. *)
Theorem layout_wf_reachable : forall ops, ok_hist ops -> forall m,
  wf (8 * gbytes (run ops) m) (msg_view (run ops) m).
Proof. exact t1_layout_wf. Qed.
Print Assumptions layout_wf_reachable.

(* the invariant behind T1 (ProofsInv.InvA: well-formedness of every layout, exclusivity of
   placement, allocation, enum bookkeeping) holds in every such state *)
Theorem layout_invariant_reachable : forall ops, ok_hist ops -> InvA (run ops).
Proof. exact inv_reachable. Qed.
Print Assumptions layout_invariant_reachable.

(* The statement without hypotheses ([layout_wf_full]) is refuted by the faithful model: each
   witness leaves exactly one hypothesis and is replayed on the Go code (known findings). *)
Theorem layout_wf_full_refuted : ~ layout_wf_full.
Proof. exact layout_wf_full_false. Qed.
Print Assumptions layout_wf_full_refuted.

Theorem d03_refuted : exists ops m, ~ wf (8 * gbytes (run ops) m) (msg_view (run ops) m).
Proof. exact t1_full_refuted_d03. Qed.
Print Assumptions d03_refuted.

Theorem d36_refuted : exists ops m, ~ wf (8 * gbytes (run ops) m) (msg_view (run ops) m).
Proof. exact t1_full_refuted_d36. Qed.
Print Assumptions d36_refuted.

Theorem reattach_refuted : exists ops m, ~ wf (8 * gbytes (run ops) m) (msg_view (run ops) m).
Proof. exact t1_full_refuted_reattach. Qed.
Print Assumptions reattach_refuted.
