(* C01 - property theorems (statements only; the proofs live in Acme.C01.ProofsXxx / Acme.C07.ProofsXxx). *)
From Coq Require Import ZArith List Sorted.
From Acme.C01 Require Import Layout State Model ProofsLayout ProofsInv Refuted ProofsT1 ProofsSpec ProofsFrame ProofsAccept Examples.
From Acme.C07 Require Import Proofs ProofsReg ProofsFinal ProofsEffect ProofsRange ProofsNames ProofsTotal.
Open Scope Z_scope.

(* the boolean predicate evaluated on the implementation's snapshots is the declarative one *)
Theorem wfb_iff_wf : forall size v, wfb size v = true <-> wf size v.
Proof. exact wfb_wf. Qed.
Print Assumptions wfb_iff_wf.

(* T1. For every history whose steps satisfy the per-step hypotheses [ok_op_f] (Acme.C07.ProofsReg),
   every message layout of the reached state is sorted, pairwise disjoint and inside the payload.
   [ok_op_f] only excludes the open findings:
     - OAppend / OInsert / OMuxInsert: the signal is in no layout (or already in that multiplexer,
       for further groups)                                                  [D20 re-attachment, C05]
     - OSetType / OSetEnum x: single_moved s (rel s) x a, a = the change of the size: every signal that
       the change actually MOVES in a multiplexer group holding x (all followers on shrink, the
       followers the push reaches on growth: ProofsLayout.moved_in) is held by that group only
       (the Coq counterpart of the harness classifier vinv.SharedFollowerMoved)       [D35]
     - OAddValue / OUpdateIndex changing the enum size: the same for every referencing signal, and,
       when the enum GROWS, no layout holds two referencing signals                   [D35, D36]
     - OSetMinSize: the size of attached referencing signals does not grow            [D03]
     - ONewMsg n: msg_size_ok n, i.e. |n| <= 2^60 (the bit count n * 8 is representable) [ctor]
   The other 20 operations carry no hypothesis. Integer arguments are unbounded (Z): the Go code does
   no arithmetic on an unchecked argument after 594ad9e / 39797fd. *)
Theorem layout_wf_reachable : forall ops, ok_hist_f ops -> forall m,
  wf (8 * gbytes (run ops) m) (msg_view (run ops) m).
Proof. exact layout_wf_f. Qed.
Print Assumptions layout_wf_reachable.

(* the invariants behind T1: InvA (every message layout and every multiplexer group well-formed,
   exclusivity of placement, allocation, enum bookkeeping), InvM (multiplexer membership) and InvR
   (parent-message pointer and message registry = layout tree) hold in every such state, and every
   single operation preserves them *)
Theorem layout_invariant_reachable : forall ops, ok_hist_f ops -> InvA (run ops) /\ InvM (run ops) /\ InvR (run ops).
Proof. exact inv3_reachable. Qed.
Print Assumptions layout_invariant_reachable.

Theorem layout_invariant_step : forall s o, InvA s -> InvM s -> InvR s -> ok_op_f s o ->
  InvA (fst (step s o)) /\ InvM (fst (step s o)) /\ InvR (fst (step s o)).
Proof. exact step_keeps_invariants3. Qed.
Print Assumptions layout_invariant_step.

(* Non-vacuity: a concrete history (an enum shared by signals of two messages growing under their
   followers; a type change; a shift; a compaction; a resize; SetMinSize) satisfies the hypotheses
   of T1 and ends in the expected layouts. *)
Theorem hypotheses_satisfiable : ok_hist_f example_ops /\
  map (fun m => map (fun x => (x, rel (run example_ops) x, sz (run example_ops) x)) (glay (run example_ops) m)) (0%nat :: 1%nat :: nil)
  = (((0%nat, 0, 2) :: (2%nat, 2, 5) :: (3%nat, 7, 3) :: nil) :: ((1%nat, 0, 2) :: (4%nat, 2, 2) :: nil) :: nil).
Proof. exact (conj example_ok example_final). Qed.
Print Assumptions hypotheses_satisfiable.

(* the hypotheses do not exclude two signals of one message referencing an enum that shrinks: both pull
   their followers (only the growth of such an enum is finding D36) *)
Theorem hypotheses_allow_shared_shrink : ok_hist_f shrink_shared_ops /\
  map (fun x => (x, rel (run shrink_shared_ops) x, sz (run shrink_shared_ops) x)) (glay (run shrink_shared_ops) 0)
  = (0%nat, 0, 1) :: (1%nat, 1, 1) :: (2%nat, 2, 3) :: nil.
Proof. exact shrink_shared_all. Qed.
Print Assumptions hypotheses_allow_shared_shrink.

(* The statement without hypotheses ([layout_wf_full]) is refuted by the faithful model: each
   witness leaves exactly one hypothesis and is replayed on the Go code (known findings). *)
Theorem layout_wf_full_refuted : ~ layout_wf_full.
Proof. exact layout_wf_full_false. Qed.
Print Assumptions layout_wf_full_refuted.

Theorem d03_refuted :
  let ops := ONewMsg 1 :: ONewEnum :: ONewEnumSig 0 :: ONewStd 4 :: OAppend 0 0 :: OAppend 0 1 :: OSetMinSize 0 4 :: nil in
  ~ wf (8 * gbytes (run ops) 0%nat) (msg_view (run ops) 0%nat).
Proof. exact d03_witness. Qed.
Print Assumptions d03_refuted.

Theorem d36_refuted :
  let ops := ONewMsg 1 :: ONewEnum :: OSetMinSize 0 2 :: ONewEnumSig 0 :: ONewEnumSig 0 :: ONewStd 3
             :: OAppend 0 0 :: OAppend 0 1 :: OAppend 0 2 :: OAddValue 0 4 :: nil in
  ~ wf (8 * gbytes (run ops) 0%nat) (msg_view (run ops) 0%nat).
Proof. exact d36_witness. Qed.
Print Assumptions d36_refuted.

Theorem reattach_refuted :
  let ops := ONewMsg 1 :: ONewMsg 2 :: ONewStd 4 :: ONewStd 8 :: OAppend 0 0 :: OAppend 1 1 :: OAppend 1 0 :: nil in
  ~ wf (8 * gbytes (run ops) 0%nat) (msg_view (run ops) 0%nat).
Proof. exact reattach_witness. Qed.
Print Assumptions reattach_refuted.

(* constructor overflow (finding "ctor"): NewMessage computes sizeByte * 8 in a 64-bit int (the model wraps like
   the code, [wrap64]). A message of -2^60-1 bytes accepts a signal at bit 100, outside its payload; a message of
   2^61 bytes refuses a 1-bit signal that fits its payload. Excluded by the hypothesis msg_size_ok of ONewMsg. *)
Theorem ctor_overflow_refuted :
  let ops := ONewMsg (-1152921504606846977) :: ONewStd 1 :: OInsert 0 0 100 :: nil in
  ~ wf (8 * gbytes (run ops) 0%nat) (msg_view (run ops) 0%nat).
Proof. exact ctor_witness. Qed.
Print Assumptions ctor_overflow_refuted.

Theorem ctor_overflow_refuses :
  let ops := ONewMsg 2305843009213693952 :: ONewStd 1 :: nil in
  snd (step (run ops) (OAppend 0 0)) = RErr OutOfBounds /\ 0 + sz (run ops) 0 <= 8 * gbytes (run ops) 0.
Proof. exact ctor_refuses. Qed.
Print Assumptions ctor_overflow_refuses.

(* T2 (accepted exactly when the arrangement fits), operation by operation, in every state satisfying the
   invariants: InsertSignal, AppendSignal, UpdateSizeByte (stand-alone and on a bus) here; SetType / SetEnum in
   any container, AddValue / UpdateIndex / RemoveValue further below; the multiplexer InsertSignal in
   Properties/C07.v (insert_refused_iff); the detaching operations at the end of this file. *)
Theorem insert_accepted_iff_fits : forall s m x b, InvA s ->
  (is_ok (snd (step_insert s m x b)) <-> memb x (gnames s m) = false /\ fits_insert s m x b).
Proof. exact insert_accepted_iff. Qed.
Print Assumptions insert_accepted_iff_fits.

Theorem append_accepted_iff_fits : forall s m x, InvA s ->
  (is_ok (snd (step_append s m x)) <->
   memb x (gnames s m) = false /\ sz s x <= 8 * gbytes s m - last_end (sz s) (rel s) (glay s m)).
Proof. exact append_accepted_iff. Qed.
Print Assumptions append_accepted_iff_fits.

Theorem resize_accepted_iff_fits : forall s m n, InvA s ->
  (is_ok (snd (step_resize s m n)) <->
   0 <= n /\ (n = gbytes s m \/ n <= 2 ^ 60 - 1) /\ (glay s m = nil \/ last_end (sz s) (rel s) (glay s m) <= 8 * n)).
Proof. exact resize_accepted_iff. Qed.
Print Assumptions resize_accepted_iff_fits.

(* the same for a message sent on a bus that allows at most lim bytes (CAN 2.0A: 8) *)
Theorem resize_on_bus_accepted_iff_fits : forall s m n lim, InvA s ->
  (is_ok (snd (step_resize_bus s m n lim)) <->
   0 <= n /\ (n = gbytes s m \/ (n <= 2 ^ 60 - 1 /\ n <= lim)) /\
   (glay s m = nil \/ last_end (sz s) (rel s) (glay s m) <= 8 * n)).
Proof. exact resize_bus_accepted_iff. Qed.
Print Assumptions resize_on_bus_accepted_iff_fits.

(* a resize refused by the message or by the bus leaves the whole state (payload size included) as it was *)
Theorem refused_resize_changes_nothing : forall s m n lim,
  ~ is_ok (snd (step_resize_bus s m n lim)) -> fst (step_resize_bus s m n lim) = s.
Proof. exact resize_bus_refused_same. Qed.
Print Assumptions refused_resize_changes_nothing.

(* growing a top-level signal by a is accepted exactly when a <= the gaps behind it plus the
   trailing space; shrinking to a positive size always *)
Theorem grow_accepted_iff_fits : forall s m x old n, InvA s -> InvM s -> InvR s ->
  kind s x = KStd old -> 1 <= n -> In x (glay s m) ->
  (is_ok (snd (step_set_type s x n)) <-> n - old <= free_behind s m x).
Proof. exact set_type_accepted_iff_inv. Qed.
Print Assumptions grow_accepted_iff_fits.

(* T2 for the operations that change the size of a signal, wherever it is (top level of a message, or in
   one or several groups of a multiplexer): accepted exactly when the change fits,
     change_fits s (rel s) x a  :=  a <= 0  \/  every layout holding x has >= a free bits behind x
   (free_in: the gaps between the followers of x plus the trailing space of that layout). *)
Theorem set_type_accepted_iff_fits : forall s x old n, InvA s -> InvM s -> InvR s ->
  kind s x = KStd old -> 1 <= n -> single_moved s (rel s) x (n - old) ->
  (is_ok (snd (step_set_type s x n)) <-> change_fits s (rel s) x (n - old)).
Proof. exact set_type_accepted_iff_f. Qed.
Print Assumptions set_type_accepted_iff_fits.

Theorem set_enum_accepted_iff_fits : forall s x e old, InvA s -> InvM s -> InvR s ->
  kind s x = KEnum old -> single_moved s (rel s) x (esize s e - sz s x) ->
  (is_ok (snd (step_set_enum s x e)) <-> change_fits s (rel s) x (esize s e - sz s x)).
Proof. exact set_enum_accepted_iff_f. Qed.
Print Assumptions set_enum_accepted_iff_fits.

(* enum edits: AddValue / UpdateIndex are accepted exactly when the index is unused and, if it raises the
   size of the enum, EVERY referencing signal can grow by that much (each one alone, in the state before
   the edit: with the hypothesis that no layout holds two of them the growths do not interfere) *)
Theorem add_value_accepted_iff_fits : forall s e idx, InvA s -> InvM s -> InvR s -> ok_op_f s (OAddValue e idx) ->
  (is_ok (snd (step_add_value s e idx)) <->
   ~ In idx (eidx s e) /\ (emax s e < idx -> enum_change_fits s e (esize_of (emin s e) idx - esize s e))).
Proof. exact add_value_accepted_iff_f. Qed.
Print Assumptions add_value_accepted_iff_fits.

Theorem update_index_accepted_iff_fits : forall s v idx, InvA s -> InvM s -> InvR s -> ok_op_f s (OUpdateIndex v idx) ->
  (is_ok (snd (step_update_index s v idx)) <->
   vidx s v = idx \/ vpar s v = None
   \/ exists e, vpar s v = Some e /\ ~ In idx (eidx s e)
                /\ (emax s e < idx -> enum_change_fits s e (esize_of (emin s e) idx - esize s e))).
Proof. exact update_index_accepted_iff_f. Qed.
Print Assumptions update_index_accepted_iff_fits.

(* RemoveValue is accepted exactly for a value of the enum; RemoveAllValues always (SetMinSize has no
   result: finding D03) *)
Theorem remove_value_accepted_iff : forall s e v, is_ok (snd (step_remove_value s e v)) <-> In v (evals s e).
Proof. exact ProofsAccept.remove_value_accepted_iff. Qed.
Print Assumptions remove_value_accepted_iff.

Theorem remove_all_values_accepted : forall s e, is_ok (snd (step_remove_all_values s e)).
Proof. exact ProofsAccept.remove_all_values_accepted. Qed.
Print Assumptions remove_all_values_accepted.

(* T3. Shifts return the distance moved, move the named signal to the declarative clamp, move
   nothing else, and report 0 when nothing can move. *)
Theorem shift_left_spec : forall s m x a, InvA s ->
  exists d, snd (step_shift true s m x a) = RShift d
    /\ d = rel s x - rel (fst (step_shift true s m x a)) x
    /\ (forall y, y <> x -> rel (fst (step_shift true s m x a)) y = rel s y)
    /\ (moves s m x a -> rel (fst (step_shift true s m x a)) x = left_target s (glay s m) x a /\ 0 <= d <= a)
    /\ (~ moves s m x a -> d = 0).
Proof. exact ProofsSpec.shift_left_spec. Qed.
Print Assumptions shift_left_spec.

Theorem shift_right_spec : forall s m x a, InvA s ->
  exists d, snd (step_shift false s m x a) = RShift d
    /\ d = rel (fst (step_shift false s m x a)) x - rel s x
    /\ (forall y, y <> x -> rel (fst (step_shift false s m x a)) y = rel s y)
    /\ (moves s m x a -> rel (fst (step_shift false s m x a)) x = right_target s (glsize s m) (glay s m) x a /\ 0 <= d <= a)
    /\ (~ moves s m x a -> d = 0).
Proof. exact ProofsSpec.shift_right_spec. Qed.
Print Assumptions shift_right_spec.

(* the targets lie in the free space around the signal *)
Theorem shift_into_free_space : forall s m x a, InvA s -> In x (glay s m) -> 0 < a ->
  prev_end_from (rel s) (sz s) 0 (glay s m) x <= left_target s (glay s m) x a <= rel s x
  /\ rel s x <= right_target s (glsize s m) (glay s m) x a
  /\ right_target s (glsize s m) (glay s m) x a + sz s x <= next_start (rel s) (glsize s m) (glay s m) x.
Proof. exact shift_targets_free. Qed.
Print Assumptions shift_into_free_space.

Theorem compact_spec : forall s m, InvA s ->
  let s' := fst (step_compact s m) in
  gapfree (rel s') (sz s') 0 (glay s' m)
  /\ glay s' m = glay s m
  /\ (forall y, sz s' y = sz s y)
  /\ (forall y, ~ In y (glay s m) -> rel s' y = rel s y)
  /\ (forall y, In y (glay s m) -> rel s' y <= rel s y).
Proof. exact ProofsSpec.compact_spec. Qed.
Print Assumptions compact_spec.

(* T4 (frame), sizes: an operation changes the size only of the signal it names (SetType / SetEnum),
   of the signals of the enum it edits, or of the handle it creates. All 29 operations. *)
Theorem frame_sizes : forall s o y, ~ resized_by s o y -> sz (fst (step s o)) y = sz s y.
Proof. exact ProofsFrame.frame_sizes. Qed.
Print Assumptions frame_sizes.

(* T4 (frame), positions: a signal moves only if [may_move] (ProofsFrame) says so: it is the one named by an
   attach / shift, it sits in the compacted message, or it is in the moved set of a size change
   (ProofsLayout.moved_in: in a layout holding the resized signal, every follower on shrink, the followers
   the push reaches on growth) - for SetType / SetEnum of that signal, for AddValue / UpdateIndex of
   some signal referencing the enum. Every other operation moves nothing. *)
Theorem frame_positions : forall s o y, InvA s -> InvM s -> InvR s -> ok_op_f s o ->
  rel (fst (step s o)) y <> rel s y -> may_move s o y.
Proof. exact frame_positions_f. Qed.
Print Assumptions frame_positions.

(* T4 (frame), relative order: two signals that are in a layout (a message layout or a multiplexer group)
   both before and after an operation keep their relative order *)
Theorem frame_order : forall s o L y z, InvA s -> InvM s -> InvR s -> ok_op_f s o ->
  In y (lay s L) -> In z (lay s L) -> In y (lay (fst (step s o)) L) -> In z (lay (fst (step s o)) L) ->
  (rel s y < rel s z <-> rel (fst (step s o)) y < rel (fst (step s o)) z).
Proof. exact frame_order_f. Qed.
Print Assumptions frame_order.

(* Effect of an accepted attach / detach at message level: the post-state view is the pre-state view with the
   signal at the requested position (InsertSignal) / at the end (AppendSignal) / without it (RemoveSignal);
   no other position, size, message layout or multiplexer group changes. *)
Theorem insert_effect : forall s m x b, is_ok (snd (step_insert s m x b)) ->
  let s' := fst (step_insert s m x b) in
  rel s' x = b
  /\ (forall y, y <> x -> rel s' y = rel s y)
  /\ (forall y, sz s' y = sz s y)
  /\ (forall y, In y (glay s' m) <-> y = x \/ In y (glay s m))
  /\ (forall m', m' <> m -> glay s' m' = glay s m')
  /\ ugroups s' = ugroups s
  /\ (~ In x (glay s m) ->
      forall it, In it (msg_view s' m) <-> it = (x, b, sz s x) \/ In it (msg_view s m)).
Proof. exact ProofsEffect.insert_effect. Qed.
Print Assumptions insert_effect.

Theorem append_effect : forall s m x, is_ok (snd (step_append s m x)) ->
  let s' := fst (step_append s m x) in
  rel s' x = last_end (sz s) (rel s) (glay s m)
  /\ (forall y, y <> x -> rel s' y = rel s y)
  /\ (forall y, sz s' y = sz s y)
  /\ glay s' m = (glay s m ++ x :: nil)%list
  /\ (forall m', m' <> m -> glay s' m' = glay s m')
  /\ ugroups s' = ugroups s.
Proof. exact ProofsEffect.append_effect. Qed.
Print Assumptions append_effect.

Theorem remove_effect : forall s m x, pmux s x = None -> is_ok (snd (step_remove s m x)) ->
  let s' := fst (step_remove s m x) in
  rel s' = rel s
  /\ (forall y, In y (glay s' m) <-> In y (glay s m) /\ y <> x)
  /\ (forall m', m' <> m -> glay s' m' = glay s m')
  /\ ugroups s' = ugroups s.
Proof. exact ProofsEffect.remove_effect. Qed.
Print Assumptions remove_effect.

(* every signal of the layout tree of a message (top level or inside multiplexers, at any depth) occupies an
   absolute bit range inside the payload *)
Theorem payload_range_all_depths : forall ops, ok_hist_f ops -> forall m x, in_tree (run ops) m x ->
  0 <= start_bit (run ops) x /\ start_bit (run ops) x + sz (run ops) x <= 8 * gbytes (run ops) m.
Proof. exact range_reachable. Qed.
Print Assumptions payload_range_all_depths.

(* with the name tables inside an invariant (InvN, Properties/C07.v) the raw name condition of
   insert_accepted_iff_fits disappears for a signal that is in no layout: it is accepted exactly when the
   requested range is inside the payload and free *)
Theorem insert_detached_accepted_iff_fits : forall s m x b, InvA s -> InvM s -> InvR s -> InvN s -> ~ attached s x ->
  (is_ok (snd (step_insert s m x b)) <-> fits_insert s m x b).
Proof. exact insert_detached_accepted_iff. Qed.
Print Assumptions insert_detached_accepted_iff_fits.

(* Totality under the invariants and the final hypotheses, for all 29 operations: the result is a shift
   distance, ROk, or a refusal (an error cause / an unusable handle) that leaves the state as it was
   (for AddValue: as it was after the creation of the value object, [pre_state]). In particular the model's
   Panic result - a Go panic - is unreachable, and a refused operation changes nothing. *)
Theorem result_shape : forall s o, InvA s -> InvM s -> InvR s -> ok_op_f s o ->
  (exists d, snd (step s o) = RShift d) \/ snd (step s o) = ROk
  \/ (refused (snd (step s o)) /\ fst (step s o) = pre_state s o).
Proof. exact ProofsTotal.result_shape. Qed.
Print Assumptions result_shape.

Theorem no_panic : forall s o, InvA s -> InvM s -> InvR s -> ok_op_f s o -> snd (step s o) <> RPanic.
Proof. exact ProofsTotal.no_panic. Qed.
Print Assumptions no_panic.

Theorem no_panic_reachable : forall ops o, ok_hist_f (ops ++ o :: nil) -> snd (step (run ops) o) <> RPanic.
Proof. exact ProofsTotal.no_panic_reachable. Qed.
Print Assumptions no_panic_reachable.

Theorem refused_same : forall s o, InvA s -> InvM s -> InvR s -> ok_op_f s o ->
  refused (snd (step s o)) -> fst (step s o) = pre_state s o.
Proof. exact ProofsTotal.refused_same. Qed.
Print Assumptions refused_same.

(* Message.RemoveSignal is accepted exactly for a signal of the layout tree of the message; RemoveAllSignals,
   CompactSignals and ClearAllSignalGroups have no refusing path *)
Theorem remove_accepted_iff : forall s m x, InvA s -> InvM s -> InvR s ->
  (is_ok (snd (step_remove s m x)) <-> in_tree s m x).
Proof. exact ProofsTotal.remove_accepted_iff. Qed.
Print Assumptions remove_accepted_iff.

Theorem always_accepted : forall s m u,
  is_ok (snd (step_remove_all s m)) /\ is_ok (snd (step_compact s m)) /\ is_ok (snd (step_mux_clear_all s u)).
Proof. exact ProofsTotal.always_accepted. Qed.
Print Assumptions always_accepted.
