(* C01 - property theorems (statements only; the proofs live in Acme.C01.ProofsXxx). *)
From Coq Require Import ZArith List Sorted.
From Acme.C01 Require Import Layout State Model ProofsLayout.

(* the boolean predicate evaluated on the implementation's snapshots is the declarative one *)
Theorem wfb_iff_wf : forall size v, wfb size v = true <-> wf size v.
Proof. exact wfb_wf. Qed.
Print Assumptions wfb_iff_wf.
