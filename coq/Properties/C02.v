(* C02 — property theorems (statements only; proofs live in Acme.C02.Proofs*, specification
   vocabulary in Acme.C02.Spec, the model in Acme.C02.Model). *)
From Coq Require Import ZArith List Bool.
From Acme.C02 Require Import Model Spec ProofsBits ProofsFilters Proofs History HistoryProofs ComposeC01 Reattach ReattachProofs.
Import ListNotations.
Local Open Scope Z_scope.

(* --- the big-endian position convention (importer.go / exporter.go) and the Motorola saw-tooth *)
Theorem dbc_of_pos_involutive : forall p, dbc_of_pos (dbc_of_pos p) = p.
Proof. exact ProofsBits.dbc_of_pos_involutive. Qed.
Print Assumptions dbc_of_pos_involutive.

Theorem sawtooth_step : forall p, dbc_of_pos (p + 1) = walk (dbc_of_pos p).
Proof. exact ProofsBits.sawtooth_step. Qed.
Print Assumptions sawtooth_step.

(* bit i (from the most significant one) of a big-endian raw value is the payload bit reached by
   i saw-tooth steps from the DBC start bit *)
Theorem be_sawtooth : forall pos len data (i : nat),
  bytes_ok data -> 0 <= pos -> pos + len <= nbits data -> Z.of_nat i < len ->
  Z.testbit (raw_be pos len data) (len - 1 - Z.of_nat i) = payload_bit data (Nat.iter i walk (dbc_of_pos pos)).
Proof. exact ProofsBits.be_sawtooth. Qed.
Print Assumptions be_sawtooth.

(* little endian: raw bit i is payload bit start+i (byte k/8, bit k%8) *)
Theorem le_bit_order : forall start len data i,
  bytes_ok data -> 0 <= start -> 0 <= i < len ->
  Z.testbit (raw_le start len data) i = payload_bit data (start + i).
Proof. exact ProofsBits.le_bit_order. Qed.
Print Assumptions le_bit_order.

(* --- Decode: one entry per signal in layout order, each carrying that signal's accumulated value *)
Theorem decode_struct : forall size l data, wf size l ->
  decode_all l data = map (fun s => (s_id s, sig_raw s data)) l.
Proof. exact Proofs.decode_struct. Qed.
Print Assumptions decode_struct.

(* one result per standard / enum signal, in layout order (a multiplexer yields none) *)
Theorem decode_order : forall size l data, wf size l ->
  decode l data = map (fun s => (s_id s, sig_raw s data)) (filter not_mux l).
Proof. exact Proofs.decode_order. Qed.
Print Assumptions decode_order.

(* --- the raw value is exactly the payload bits the signal occupies *)
Theorem decode_le_spec : forall size s data,
  sig_ok size s -> narrow s -> s_be s = false -> bytes_ok data ->
  sig_raw s data = raw_le (s_start s) (s_size s) data.
Proof. exact Proofs.decode_le_spec. Qed.
Print Assumptions decode_le_spec.

(* big endian, under the narrowest hypothesis excluding the open finding D08 (big-endian, fits in
   one byte, asymmetric placement) *)
Theorem decode_be_spec : forall size s data,
  sig_ok size s -> narrow s -> s_be s = true -> d08 s = false -> bytes_ok data -> size <= nbits data ->
  sig_raw s data = raw_be (s_start s) (s_size s) data.
Proof. exact Proofs.decode_be_spec. Qed.
Print Assumptions decode_be_spec.

(* the excluded zone, specified: a big-endian signal that fits in one byte is read exactly like a
   little-endian signal at the same start (LSB-anchored offset), whatever its placement ... *)
Theorem decode_be_one_byte_spec : forall size s data,
  sig_ok size s -> s_be s = true -> one_byte s = true -> bytes_ok data ->
  sig_raw s data = raw_le (s_start s) (s_size s) data.
Proof. exact Proofs.decode_be_one_byte_spec. Qed.
Print Assumptions decode_be_one_byte_spec.

(* ... and for EVERY excluded shape that reading is wrong on some payload *)
Theorem decode_be_one_byte_refuted_all : forall size s,
  sig_ok size s -> d08 s = true ->
  exists data, bytes_ok data /\ s_end s <= nbits data /\
               sig_raw s data <> raw_be (s_start s) (s_size s) data.
Proof. exact Proofs.decode_be_one_byte_refuted_all. Qed.
Print Assumptions decode_be_one_byte_refuted_all.

Theorem decode_be_one_byte_refuted :
  exists s data, sig_ok 8 s /\ s_be s = true /\ d08 s = true /\ bytes_ok data /\ 8 <= nbits data /\
    sig_raw s data = 0 /\ raw_be (s_start s) (s_size s) data = 7.
Proof. exact Proofs.decode_be_one_byte_refuted. Qed.
Print Assumptions decode_be_one_byte_refuted.

(* --- masks: cover each signal's full size; never share a payload bit between two signals *)
Theorem masks_cover : forall size s, sig_ok size s ->
  fold_right (fun f a => popcount8 (f_mask f) + a) 0 (sig_filters s) = s_size s.
Proof. exact Proofs.masks_cover. Qed.
Print Assumptions masks_cover.

Theorem masks_disjoint : forall size be l a b f g,
  wf size l -> uniform be l -> d08 a = false -> d08 b = false ->
  In a l -> In b l -> s_id a <> s_id b ->
  In f (sig_filters a) -> In g (sig_filters b) -> f_byte f = f_byte g ->
  Z.land (f_mask f) (f_mask g) = 0.
Proof. exact Proofs.masks_disjoint. Qed.
Print Assumptions masks_disjoint.

Theorem masks_disjoint_refuted :
  exists l a b f g, wf 16 l /\ uniform true l /\ In a l /\ In b l /\ s_id a <> s_id b /\
    In f (sig_filters a) /\ In g (sig_filters b) /\ f_byte f = f_byte g /\
    Z.land (f_mask f) (f_mask g) <> 0.
Proof. exact Proofs.masks_disjoint_refuted. Qed.
Print Assumptions masks_disjoint_refuted.

(* --- the message as a state machine (Acme.C02.History): append / insert / remove / SetByteOrder /
       any size- or position-changing edit of a placed signal / resize, for all histories *)
Theorem byte_order_propagates : forall bits ops s,
  In s (m_sigs (run bits ops)) -> s_be s = m_be (run bits ops).
Proof. exact HistoryProofs.byte_order_propagates. Qed.
Print Assumptions byte_order_propagates.

(* what Filters() returns always describes the current layout in the byte order of the message *)
Theorem filters_fresh : forall bits ops,
  filters (run bits ops) = gen_filters (layout_of (run bits ops)).
Proof. exact HistoryProofs.filters_fresh. Qed.
Print Assumptions filters_fresh.

Theorem decode_fresh : forall bits ops data,
  decode_msg (run bits ops) data = decode (layout_of (run bits ops)) data.
Proof. exact HistoryProofs.decode_fresh. Qed.
Print Assumptions decode_fresh.

Theorem layout_of_geometry : forall bits ops,
  map (fun s => (s_id s, s_start s, s_size s, s_kind s)) (layout_of (run bits ops)) =
  map (fun s => (s_id s, s_start s, s_size s, s_kind s)) (m_sigs (run bits ops)).
Proof. exact HistoryProofs.layout_of_geometry. Qed.
Print Assumptions layout_of_geometry.

(* the cached slice is not such a description while what Filters() returns is: the two ways the
   cache went stale before 11d2260 (placement into a big-endian message; size change of a signal) *)
Theorem cache_stale_after_append :
  let m := run 64 [OSetByteOrder true; OAppend 0 15 KStandard false] in
  m_cache m <> gen_filters (layout_of m) /\ filters m = gen_filters (layout_of m).
Proof. exact HistoryProofs.cache_stale_after_append. Qed.
Print Assumptions cache_stale_after_append.

Theorem cache_stale_after_resize_of_signal :
  let m := run 64 [OAppend 0 7 KStandard false; OSetGeom 0 0 12] in
  m_cache m <> gen_filters (layout_of m) /\ filters m = gen_filters (layout_of m).
Proof. exact HistoryProofs.cache_stale_after_resize_of_signal. Qed.
Print Assumptions cache_stale_after_resize_of_signal.

(* --- composition with C01 (Acme.C01 / Acme.C07, imported read-only): the premise `wf` of the
       theorems above holds for every message layout of every state reachable by C01's 27 payload
       operations under C01's hypotheses ok_hist_w (which exclude C01's open findings D03, D20, D35,
       D36); the 64-bit bound (`narrow`) is asked of the decoded signals only, a multiplexer may be
       wider; byte order and kinds are arbitrary parameters here *)
Theorem layout_wf_reachable : forall ops m be kind,
  Acme.C07.Proofs.ok_hist_w ops ->
  wf (8 * Acme.C01.State.gbytes (Acme.C01.Model.run ops) m) (c02_layout be kind (Acme.C01.Model.run ops) m).
Proof. exact ComposeC01.layout_wf_reachable. Qed.
Print Assumptions layout_wf_reachable.

Theorem decode_reachable : forall ops m be kind data,
  Acme.C07.Proofs.ok_hist_w ops ->
  bytes_ok data -> 8 * Acme.C01.State.gbytes (Acme.C01.Model.run ops) m <= nbits data ->
  let l := c02_layout be kind (Acme.C01.Model.run ops) m in
  decode l data = map (fun s => (s_id s, sig_raw s data)) (filter not_mux l) /\
  (forall s, In s l -> narrow s -> be = false -> sig_raw s data = raw_le (s_start s) (s_size s) data) /\
  (forall s, In s l -> narrow s -> be = true -> d08 s = false -> sig_raw s data = raw_be (s_start s) (s_size s) data) /\
  (forall s, In s l -> be = true -> one_byte s = true -> sig_raw s data = raw_le (s_start s) (s_size s) data) /\
  (forall s, In s l -> narrow s -> 0 <= sig_raw s data < 2 ^ s_size s) /\
  (forall f, In f (gen_filters l) -> 0 <= f_byte f < Acme.C01.State.gbytes (Acme.C01.Model.run ops) m).
Proof. exact ComposeC01.decode_reachable. Qed.
Print Assumptions decode_reachable.

Theorem masks_reachable : forall ops m be kind,
  Acme.C07.Proofs.ok_hist_w ops ->
  let l := c02_layout be kind (Acme.C01.Model.run ops) m in
  (forall s, In s l -> fold_right (fun f a => popcount8 (f_mask f) + a) 0 (sig_filters s) = s_size s) /\
  (forall a b f g, In a l -> In b l -> s_id a <> s_id b -> d08 a = false -> d08 b = false ->
     In f (sig_filters a) -> In g (sig_filters b) -> f_byte f = f_byte g -> Z.land (f_mask f) (f_mask g) = 0).
Proof. exact ComposeC01.masks_reachable. Qed.
Print Assumptions masks_reachable.

(* --- ONE machine for geometry edits and byte-order changes: C01's alphabet contains OByteOrder
       (Message.SetByteOrder).  layout_after ops m = the layout of message m after the history, in the
       byte order set by the last OByteOrder on m (little endian before), kinds read from the state.
       For every interleaving of the 28 operations satisfying ok_hist_w: *)
Theorem history_decode : forall ops m data,
  Acme.C07.Proofs.ok_hist_w ops ->
  bytes_ok data -> 8 * Acme.C01.State.gbytes (Acme.C01.Model.run ops) m <= nbits data ->
  let l := layout_after ops m in
  let be := be_after ops m in
  wf (8 * Acme.C01.State.gbytes (Acme.C01.Model.run ops) m) l /\ uniform be l /\
  decode l data = map (fun s => (s_id s, sig_raw s data)) (filter not_mux l) /\
  (forall s, In s l -> narrow s -> d08 s = false ->
     sig_raw s data = if be then raw_be (s_start s) (s_size s) data else raw_le (s_start s) (s_size s) data) /\
  (forall s, In s l -> narrow s -> 0 <= sig_raw s data < 2 ^ s_size s).
Proof. exact ComposeC01.history_decode. Qed.
Print Assumptions history_decode.

(* every mask lies inside the payload: of one signal, of a layout, after a history *)
Theorem filters_inside : forall size s f, sig_ok size s -> In f (sig_filters s) ->
  0 <= f_byte f /\ 8 * f_byte f < size.
Proof. exact Proofs.filters_inside. Qed.
Print Assumptions filters_inside.

Theorem filters_inside_history : forall ops m f,
  Acme.C07.Proofs.ok_hist_w ops -> In f (gen_filters (layout_after ops m)) ->
  0 <= f_byte f < Acme.C01.State.gbytes (Acme.C01.Model.run ops) m.
Proof. exact ComposeC01.filters_inside_history. Qed.
Print Assumptions filters_inside_history.

(* the raw value of a signal of at most 64 bits has exactly that many bits: it is the `raw` the C03
   decoding theorems take *)
Theorem sig_raw_range : forall size s data,
  sig_ok size s -> narrow s -> bytes_ok data -> size <= nbits data ->
  0 <= sig_raw s data < 2 ^ s_size s.
Proof. exact Proofs.sig_raw_range. Qed.
Print Assumptions sig_raw_range.

(* --- hypothesis made explicit: byte_order_propagates is about ONE message, i.e. signals that are
       placed in at most one message.  Go also accepts a signal that already sits in another message
       (open finding D20, C05).  On the model with two messages and signal objects (Acme.C02.Reattach):
       under no_reattach the byte order propagates in both messages, without it it does not *)
Theorem byte_order_propagates_two_messages : forall ops, no_reattach ops ->
  propagated (rrun ops) 0 /\ propagated (rrun ops) 1.
Proof. exact ReattachProofs.byte_order_propagates_two_messages. Qed.
Print Assumptions byte_order_propagates_two_messages.

Theorem byte_order_reattach_refuted :
  exists ops, ~ no_reattach ops /\ ~ propagated (rrun ops) 0 /\
              In 7 (msg_sigs (rrun ops) 0) /\ sig_be (rrun ops) 7 = true /\ msg_be (rrun ops) 0 = false.
Proof. exact ReattachProofs.byte_order_reattach_refuted. Qed.
Print Assumptions byte_order_reattach_refuted.
