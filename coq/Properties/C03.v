(* C03 — property theorems (statements only; proofs live in Acme.C03.Proofs / ProofsFloat;
   specification vocabulary in Acme.C03.Spec / SpecFloat; non-vacuity in Acme.C03.Examples). *)
From Coq Require Import ZArith Reals List Bool.
From Flocq Require Import Core IEEE754.BinarySingleNaN IEEE754.Binary IEEE754.Bits.
From Acme.C03 Require Import Model Spec SpecFloat Proofs ProofsFloat ProofsFloat2 Examples Shared SharedProofs Links.
Import ListNotations.
Local Open Scope Z_scope.

(* --- sign extension as the code computes it (mask test + or of the high ones, 64-bit wrap) is
       the two's complement reading of the n-bit pattern *)
Theorem sign_extension_spec : forall n raw, 1 <= n <= 64 -> 0 <= raw < 2 ^ n ->
  s64 (ext_raw true n raw) = sext n raw.
Proof. exact ext_raw_sext. Qed.
Print Assumptions sign_extension_spec.

Theorem sext_twos_complement : forall n raw, 1 <= n -> 0 <= raw < 2 ^ n ->
  - 2 ^ (n - 1) <= sext n raw < 2 ^ (n - 1) /\ (sext n raw) mod 2 ^ n = raw.
Proof. exact Proofs.sext_twos_complement. Qed.
Print Assumptions sext_twos_complement.

(* --- integer kinds: physical = raw*scale + offset over the integers *)
Theorem decode_int_spec : forall (signed : bool) (n : Z) (scale offset : f64) (raw sc off : Z),
  1 <= n <= 64 -> 0 <= raw < 2 ^ n ->
  finite64 scale = true -> B2R64 scale = IZR sc ->
  finite64 offset = true -> B2R64 offset = IZR off ->
  (if signed then - two63 <= sc < two63 /\ - two63 <= off < two63 /\
                  - two63 <= sext n raw * sc + off < two63
   else - two63 < sc < two64 /\ - two63 < off < two64 /\ 0 <= raw * sc + off < two64) ->
  decode_int signed n scale offset raw = sext_if signed n raw * sc + off.
Proof. exact ProofsFloat.decode_int_spec. Qed.
Print Assumptions decode_int_spec.

(* --- which Go type a kind decodes to, and the whole observable of an integer-kind signal *)
Theorem value_type_spec : forall (k : kind) (signed : bool) (n : Z) (scale offset : f64) (raw : Z),
  match decode_std k signed n scale offset raw with
  | VFlag b => k = KFlag /\ b = decode_flag raw
  | VInt z => k = KInteger /\ signed = true /\ z = decode_int true n scale offset raw
  | VUint z => k = KInteger /\ signed = false /\ z = decode_int false n scale offset raw
  | VFloat f => (k = KDecimal \/ k = KCustom) /\ f = decode_float signed n scale offset raw
  end.
Proof. exact ProofsFloat.value_type_spec. Qed.
Print Assumptions value_type_spec.

Theorem decode_std_integer_spec : forall (signed : bool) (n : Z) (scale offset : f64) (raw sc off : Z),
  1 <= n <= 64 -> 0 <= raw < 2 ^ n ->
  finite64 scale = true -> B2R64 scale = IZR sc ->
  finite64 offset = true -> B2R64 offset = IZR off ->
  (if signed then - two63 <= sc < two63 /\ - two63 <= off < two63 /\
                  - two63 <= sext n raw * sc + off < two63
   else - two63 < sc < two64 /\ - two63 < off < two64 /\ 0 <= raw * sc + off < two64) ->
  decode_std KInteger signed n scale offset raw =
  if signed then VInt (sext n raw * sc + off) else VUint (raw * sc + off).
Proof. exact ProofsFloat.decode_std_integer_spec. Qed.
Print Assumptions decode_std_integer_spec.

(* --- float kinds: float64(value)*scale + offset with the two roundings of binary64 *)
Theorem decode_float_spec : forall (signed : bool) (n : Z) (scale offset : f64) (raw : Z),
  1 <= n <= 64 -> 0 <= raw < 2 ^ n ->
  finite64 scale = true -> finite64 offset = true ->
  let x := rnd (IZR (sext_if signed n raw)) in
  let p := rnd (x * B2R64 scale) in
  (Rabs p < max64)%R -> (Rabs (rnd (p + B2R64 offset)) < max64)%R ->
  B2R64 (decode_float signed n scale offset raw) = rnd (p + B2R64 offset) /\
  finite64 (decode_float signed n scale offset raw) = true.
Proof. exact ProofsFloat.decode_float_spec. Qed.
Print Assumptions decode_float_spec.

Theorem decode_float_exact : forall (signed : bool) (n : Z) (scale offset : f64) (raw : Z),
  1 <= n <= 64 -> 0 <= raw < 2 ^ n ->
  finite64 scale = true -> finite64 offset = true ->
  let v := IZR (sext_if signed n raw) in
  representable v -> representable (v * B2R64 scale) -> representable (v * B2R64 scale + B2R64 offset) ->
  (Rabs (v * B2R64 scale) < max64)%R -> (Rabs (v * B2R64 scale + B2R64 offset) < max64)%R ->
  B2R64 (decode_float signed n scale offset raw) = (v * B2R64 scale + B2R64 offset)%R.
Proof. exact ProofsFloat.decode_float_exact. Qed.
Print Assumptions decode_float_exact.

(* values up to 53 bits convert to float64 without rounding *)
Theorem float_of_int_exact : forall z, Z.abs z <= 2 ^ 53 -> B2R64 (of_int z) = IZR z.
Proof. exact of_int_exact. Qed.
Print Assumptions float_of_int_exact.

(* --- flags *)
Theorem decode_flag_spec : forall raw, decode_flag raw = true <-> raw <> 0.
Proof. exact Proofs.decode_flag_spec. Qed.
Print Assumptions decode_flag_spec.

(* --- enums: the name whose index equals the raw value, else none; map order irrelevant *)
Theorem decode_enum_hit : forall vs raw nm,
  0 <= raw < two64 -> Forall (fun p => - two63 <= snd p < two63) vs -> NoDup (map snd vs) ->
  In (nm, raw) vs -> decode_enum vs raw = Some nm.
Proof. exact Proofs.decode_enum_hit. Qed.
Print Assumptions decode_enum_hit.

Theorem decode_enum_miss : forall vs raw,
  0 <= raw < two64 -> Forall (fun p => - two63 <= snd p < two63) vs ->
  ~ In raw (map snd vs) -> decode_enum vs raw = None.
Proof. exact Proofs.decode_enum_miss. Qed.
Print Assumptions decode_enum_miss.

Theorem decode_enum_order_free : forall vs vs' raw,
  0 <= raw < two64 -> Forall (fun p => - two63 <= snd p < two63) vs -> NoDup (map snd vs) ->
  (forall p, In p vs <-> In p vs') -> NoDup (map snd vs') ->
  decode_enum vs raw = decode_enum vs' raw.
Proof. exact Proofs.decode_enum_order_free. Qed.
Print Assumptions decode_enum_order_free.

(* ... and those hypotheses hold for every enum an edit history can build: unique indexes, unique
   names, the value with index raw is found, any other raw gives the empty string *)
Theorem decode_enum_reachable : forall ops raw, Forall op_in_range ops -> 0 <= raw < two64 ->
  let vs := e_values (enum_run ops) in
  NoDup (map snd vs) /\ NoDup (map fst vs) /\
  (forall nm, In (nm, raw) vs -> decode_enum vs raw = Some nm) /\
  (~ In raw (map snd vs) -> decode_enum vs raw = None).
Proof. exact Proofs.decode_enum_reachable. Qed.
Print Assumptions decode_enum_reachable.

(* --- type ranges: exactly the n-bit two's complement / unsigned range (as binary64) *)
Theorem range_spec : forall (signed : bool) (n : Z), 1 <= n <= 64 ->
  int_range signed n =
    if signed then (of_int (- 2 ^ (n - 1)), of_int (2 ^ (n - 1) - 1))
    else (of_int 0, of_int (2 ^ n - 1)).
Proof. exact ProofsFloat.range_spec. Qed.
Print Assumptions range_spec.

Theorem range_value : forall (signed : bool) (n : Z), 1 <= n <= 64 ->
  let lo := if signed then - 2 ^ (n - 1) else 0 in
  let hi := if signed then 2 ^ (n - 1) - 1 else 2 ^ n - 1 in
  B2R64 (fst (int_range signed n)) = rnd (IZR lo) /\ B2R64 (snd (int_range signed n)) = rnd (IZR hi) /\
  (n <= 53 -> B2R64 (fst (int_range signed n)) = IZR lo /\ B2R64 (snd (int_range signed n)) = IZR hi).
Proof. exact ProofsFloat.range_value. Qed.
Print Assumptions range_value.

(* --- calcSizeFromValue: the smallest width able to represent the value *)
Theorem calc_size_spec : forall v, 0 <= v < two63 -> calc_size v = bit_width v.
Proof. exact Proofs.calc_size_spec. Qed.
Print Assumptions calc_size_spec.

Theorem calc_size_fits : forall v, 0 <= v < two63 -> v < 2 ^ calc_size v.
Proof. exact Proofs.calc_size_fits. Qed.
Print Assumptions calc_size_fits.

Theorem calc_size_minimal : forall v w, 0 <= v < two63 -> 1 <= w -> v < 2 ^ w -> calc_size v <= w.
Proof. exact Proofs.calc_size_minimal. Qed.
Print Assumptions calc_size_minimal.

Theorem calc_value_spec : forall n, 1 <= n <= 62 -> calc_value n = 2 ^ n.
Proof. exact Proofs.calc_value_spec. Qed.
Print Assumptions calc_value_spec.

Theorem calc_size_calc_value : forall n, 1 <= n <= 62 -> calc_size (calc_value n - 1) = n.
Proof. exact Proofs.calc_size_calc_value. Qed.
Print Assumptions calc_size_calc_value.

(* --- enum width: after every history of AddValue / RemoveValue / RemoveAllValues / UpdateIndex /
       SetMinSize the reported size is
       the smallest width >= the configured minimum able to represent the largest index *)
Theorem enum_size_spec : forall ops m, Forall op_in_range ops ->
  is_max (e_values (enum_run ops)) m ->
  enum_size (enum_run ops) = enum_width (e_min (enum_run ops)) m.
Proof. exact enum_size_history. Qed.
Print Assumptions enum_size_spec.

Theorem enum_width_fits : forall mn mx, 0 <= mx ->
  mn <= enum_width mn mx /\ 1 <= enum_width mn mx /\ mx < 2 ^ enum_width mn mx.
Proof. exact Proofs.enum_width_fits. Qed.
Print Assumptions enum_width_fits.

Theorem enum_width_minimal : forall mn mx w, 0 <= mx -> mn <= w -> 1 <= w -> mx < 2 ^ w -> enum_width mn mx <= w.
Proof. exact Proofs.enum_width_minimal. Qed.
Print Assumptions enum_width_minimal.

(* --- multiplexer selector: smallest width (>= 1) holding every group id 0..count-1 *)
Theorem mux_selector_spec : forall c, 1 <= c <= two63 -> mux_selector_size c = bit_width (c - 1).
Proof. exact Proofs.mux_selector_spec. Qed.
Print Assumptions mux_selector_spec.

Theorem mux_selector_fits : forall c, 1 <= c <= two63 -> c <= 2 ^ mux_selector_size c.
Proof. exact Proofs.mux_selector_fits. Qed.
Print Assumptions mux_selector_fits.

Theorem mux_selector_minimal : forall c w, 1 <= c <= two63 -> 1 <= w -> c <= 2 ^ w -> mux_selector_size c <= w.
Proof. exact Proofs.mux_selector_minimal. Qed.
Print Assumptions mux_selector_minimal.

Theorem mux_size_spec : forall c g, 1 <= c <= two63 -> 0 <= g < two63 - 64 -> mux_size c g = g + bit_width (c - 1).
Proof. exact Proofs.mux_size_spec. Qed.
Print Assumptions mux_size_spec.

(* --- hypothesis made explicit: enum_size_spec is about enums that own their values (enum_run copies
       (name, index) pairs).  Go's AddValue also accepts a value object that already belongs to another
       enum (open finding D20 for enum values, C05); on the model with shared value objects
       (Acme.C03.Shared) the width of the enum that is not the value's parent goes stale: *)
Theorem enum_size_shared_value_refuted :
  exists ops, let h := srun ops in
    unshared h = false /\
    se_size (h_a h) <> enum_width 1 (se_real_max h (h_a h)) /\
    se_size (h_a h) = 1 /\ se_real_max h (h_a h) = 1000 /\
    se_size (h_b h) = enum_width 1 (se_real_max h (h_b h)).
Proof. exact SharedProofs.enum_size_shared_value_refuted. Qed.
Print Assumptions enum_size_shared_value_refuted.

(* --- what the code does at the edges (AUDIT3): integer kinds TRUNCATE a non-integral scale / offset
       toward zero (the property's quantifier asks for integral ones, where this is decode_int_spec) *)
Theorem decode_int_trunc_spec : forall (signed : bool) (n : Z) (scale offset : f64) (raw : Z),
  1 <= n <= 64 -> 0 <= raw < 2 ^ n ->
  finite64 scale = true -> finite64 offset = true ->
  let sc := Ztrunc (B2R64 scale) in
  let off := Ztrunc (B2R64 offset) in
  (if signed then - two63 <= sc < two63 /\ - two63 <= off < two63 /\
                  - two63 <= sext n raw * sc + off < two63
   else - two63 < sc < two64 /\ - two63 < off < two64 /\ 0 <= raw * sc + off < two64) ->
  decode_int signed n scale offset raw = sext_if signed n raw * sc + off.
Proof. exact ProofsFloat2.decode_int_trunc_spec. Qed.
Print Assumptions decode_int_trunc_spec.

(* float kinds: finite parameters do not imply a finite result; overflow gives the infinity of the
   product's sign, in the product or in the sum *)
Theorem decode_float_overflow_product : forall (signed : bool) (n : Z) (scale offset : f64) (raw : Z),
  1 <= n <= 64 -> 0 <= raw < 2 ^ n ->
  finite64 scale = true -> finite64 offset = true ->
  let x := value_float signed n raw in
  (max64 <= Rabs (rnd (B2R64 x * B2R64 scale)))%R ->
  decode_float signed n scale offset raw =
  B754_infinity 53 1024 (xorb (Bsign 53 1024 x) (Bsign 53 1024 scale)).
Proof. exact ProofsFloat2.decode_float_overflow_product. Qed.
Print Assumptions decode_float_overflow_product.

Theorem decode_float_overflow_sum : forall (signed : bool) (n : Z) (scale offset : f64) (raw : Z),
  1 <= n <= 64 -> 0 <= raw < 2 ^ n ->
  finite64 scale = true -> finite64 offset = true ->
  let x := value_float signed n raw in
  let p := fmul x scale in
  (Rabs (rnd (B2R64 x * B2R64 scale)) < max64)%R ->
  (max64 <= Rabs (rnd (B2R64 p + B2R64 offset)))%R ->
  decode_float signed n scale offset raw = B754_infinity 53 1024 (Bsign 53 1024 p) /\
  Bsign 53 1024 p = Bsign 53 1024 offset.
Proof. exact ProofsFloat2.decode_float_overflow_sum. Qed.
Print Assumptions decode_float_overflow_sum.

(* the sign of a zero result: raw 0 decodes to the offset, or to the zero whose sign is negative only
   when scale and offset are both negative (zeros) *)
Theorem decode_float_zero : forall (signed : bool) (n : Z) (scale offset : f64),
  1 <= n <= 64 -> finite64 scale = true -> finite64 offset = true ->
  decode_float signed n scale offset 0 =
  match offset with
  | B754_zero _ _ so => B754_zero 53 1024 (andb (Bsign 53 1024 scale) so)
  | _ => offset
  end.
Proof. exact ProofsFloat2.decode_float_zero. Qed.
Print Assumptions decode_float_zero.

(* --- links.  C03 <-> C01: the closed forms C01's model uses are the functions proved correct here *)
Theorem calc_size_agrees : forall v, - two63 <= v < two63 -> calc_size v = Acme.C01.Model.calc_size v.
Proof. exact Links.calc_size_agrees. Qed.
Print Assumptions calc_size_agrees.

Theorem selector_agrees : forall c, - two63 < c <= two63 -> mux_selector_size c = Acme.C01.Model.selw c.
Proof. exact Links.selector_agrees. Qed.
Print Assumptions selector_agrees.

Theorem enum_size_agrees : forall e, - two63 <= e_max e < two63 ->
  enum_size e = Acme.C01.Model.esize_of (e_min e) (e_max e).
Proof. exact Links.enum_size_agrees. Qed.
Print Assumptions enum_size_agrees.

(* C02 -> C03: the raw value Decode extracts for a placed signal is the payload slice, a number of
   exactly size bits (the `raw` of the theorems above); hence the physical value of a placed signal *)
Theorem raw_of_signal : forall size s data,
  Acme.C02.Spec.sig_ok size s -> Acme.C02.Spec.narrow s -> Acme.C02.Spec.d08 s = false ->
  Acme.C02.Spec.bytes_ok data -> size <= Acme.C02.Spec.nbits data ->
  Acme.C02.Model.sig_raw s data = payload_raw s data /\
  1 <= Acme.C02.Model.s_size s <= 64 /\ 0 <= Acme.C02.Model.sig_raw s data < 2 ^ Acme.C02.Model.s_size s.
Proof. exact Links.raw_of_signal. Qed.
Print Assumptions raw_of_signal.

Theorem signal_value_integer : forall size s data (signed : bool) (scale offset : f64) (sc off : Z),
  Acme.C02.Spec.sig_ok size s -> Acme.C02.Spec.narrow s -> Acme.C02.Spec.d08 s = false ->
  Acme.C02.Spec.bytes_ok data -> size <= Acme.C02.Spec.nbits data ->
  finite64 scale = true -> B2R64 scale = IZR sc -> finite64 offset = true -> B2R64 offset = IZR off ->
  let n := Acme.C02.Model.s_size s in
  let raw := payload_raw s data in
  (if signed then - two63 <= sc < two63 /\ - two63 <= off < two63 /\ - two63 <= sext n raw * sc + off < two63
   else - two63 < sc < two64 /\ - two63 < off < two64 /\ 0 <= raw * sc + off < two64) ->
  decode_std KInteger signed n scale offset (Acme.C02.Model.sig_raw s data) =
  if signed then VInt (sext n raw * sc + off) else VUint (raw * sc + off).
Proof. exact Links.signal_value_integer. Qed.
Print Assumptions signal_value_integer.

Theorem signal_value_float : forall size s data (signed : bool) (scale offset : f64),
  Acme.C02.Spec.sig_ok size s -> Acme.C02.Spec.narrow s -> Acme.C02.Spec.d08 s = false ->
  Acme.C02.Spec.bytes_ok data -> size <= Acme.C02.Spec.nbits data ->
  finite64 scale = true -> finite64 offset = true ->
  let n := Acme.C02.Model.s_size s in
  let x := rnd (IZR (sext_if signed n (payload_raw s data))) in
  let p := rnd (x * B2R64 scale) in
  (Rabs p < max64)%R -> (Rabs (rnd (p + B2R64 offset)) < max64)%R ->
  B2R64 (decode_float signed n scale offset (Acme.C02.Model.sig_raw s data)) = rnd (p + B2R64 offset).
Proof. exact Links.signal_value_float. Qed.
Print Assumptions signal_value_float.
