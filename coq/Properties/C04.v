(* C04 — names and identifiers stay unique and lookups agree with the contents.
   Theorems only (proofs in Acme.C04.Proofs_Xxx); statements: Acme.C04.Invariant (Inv, op_ok, Reach),
   Acme.C04.Spec (KeysUnique, LookupByNameSpec). Layer 1 of the model: networks, buses, nodes,
   interfaces, messages as opaque items, enums and enum values (33 operations); layer 2 (second half
   of this file; Acme.C04.Reg, RegInv, Spec2): signals by name inside messages and multiplexers at
   any nesting depth, a product construction over layers 1 and 3 ([step2] covers the whole operation
   alphabet: inv2_step, inv2_step_covers_all). *)
From stdpp Require Import gmap.
From Acme.C04 Require Import Spec Proofs_New Proofs_Step Proofs_Cor Proofs_Witness Proofs_Pre.
From Acme.C04 Require Import Spec2 Proofs_RegInv Proofs_RegCor Proofs_RegWitness SpecSig Proofs_RegPre.

Theorem inv_init : Inv init.
Proof. exact Proofs_New.inv_init. Qed.
Print Assumptions inv_init.

(* PARTIAL with respect to the operation alphabet of DESIGN Appendix A: the layer-1 step function
   [step] has the 33 public mutators / constructors of the flat registries + NewOther; the full
   statement [inv_step_full_statement] (Acme.C04.Spec: every mutator of the alphabet is an operation
   of [step]) does not hold for [step].  The remaining 24 mutators (signals inside messages /
   multiplexers: I1, I2; shared definitions: I8) are operations of [step2], for which the statement
   is proved below: inv2_step with inv2_step_covers_all. *)
Theorem inv_step_partial : forall s o, Inv s -> op_ok s o -> Inv (fst (step s o)).
Proof. exact Proofs_Step.inv_step. Qed.
Print Assumptions inv_step_partial.

Theorem inv_step_partial_covers : length covered_mutators = 33 /\ length all_mutators = 59.
Proof. exact Proofs_Witness.covered_count. Qed.
Print Assumptions inv_step_partial_covers.

Theorem inv_reachable : forall s, Reach s -> Inv s.
Proof. exact Proofs_Step.inv_reachable. Qed.
Print Assumptions inv_reachable.

Theorem keys_unique : forall s, Reach s -> KeysUnique s.
Proof. exact Proofs_Cor.keys_unique_reach. Qed.
Print Assumptions keys_unique.

Theorem lookup_by_name_spec : forall s, Reach s -> LookupByNameSpec s.
Proof. exact Proofs_Cor.lookup_by_name_reach. Qed.
Print Assumptions lookup_by_name_spec.

Theorem op_ok_satisfiable :
  all_okb init sample_history = true /\ all_accepted sample_history = true /\ Reach (run sample_history).
Proof. exact Proofs_Witness.op_ok_satisfiable. Qed.
Print Assumptions op_ok_satisfiable.

(* a key that is in use is refused: any violated documented precondition ([viol], Spec.v; for the
   name / id / static CAN-ID / index clauses: "some current child of the container carries the key") *)
Theorem used_key_refused : forall s o cw, Inv s -> viol s o cw -> is_err (snd (step s o)) = true.
Proof. exact Proofs_Pre.used_key_refused. Qed.
Print Assumptions used_key_refused.

(* a key released by a rename, id change or removal is immediately reusable: after any accepted or
   refused call o1, a call o2 is accepted as soon as its precondition holds on the *current*
   contents, whatever the history was *)
Theorem released_key_reusable :
  forall s o1 o2, Inv s -> op_ok s o1 -> pre (fst (step s o1)) o2 -> snd (step (fst (step s o1)) o2) = Ok.
Proof. exact Proofs_Pre.released_key_reusable. Qed.
Print Assumptions released_key_reusable.

Theorem released_key_reused :
  results reuse_history =
  cons Ok (cons Ok (cons Ok (cons Ok (cons (Err (cons (Duplicated, WName) nil)) (cons Ok
  (cons (Err (cons (Duplicated, WMessageID) nil)) (cons Ok (cons Ok (cons Ok
  (cons (Err (cons (Duplicated, WCANID) nil)) (cons Ok (cons Ok nil)))))))))))).
Proof. exact Proofs_Witness.released_key_reused. Qed.
Print Assumptions released_key_reused.

(* side condition (c) of op_ok (an interface removed from its node is not used again) excludes a
   real defect, recorded as an open finding: the removed interface can still be attached to a bus,
   and a later rename of the node leaves the bus index with the old name *)
Theorem removed_interface_refuted :
  exists ops b nm, all_accepted ops = true /\ stale_node_name (run ops) b nm = true /\ ~ Inv (run ops).
Proof. exact Proofs_Witness.removed_interface_refuted. Qed.
Print Assumptions removed_interface_refuted.

(* a rename / an id change / a removal really releases the key: afterwards no child of the container
   carries it (so, by refused_iff_pre of C06, the next call that needs it is accepted) *)
Theorem rename_releases_name : forall s, Inv s -> forall m M i new,
  msgs s !! m = Some M -> m_sender M = Some i -> m_name M <> new ->
  snd (step s (MsgUpdateName m new)) = Ok ->
  ~ iface_sends (fst (step s (MsgUpdateName m new))) i (fun M' => m_name M' = m_name M).
Proof. exact Proofs_Pre.rename_releases_name. Qed.
Print Assumptions rename_releases_name.

Theorem update_id_releases_static : forall s, Inv s -> forall m M i Ii new,
  msgs s !! m = Some M -> m_sender M = Some i -> ifaces s !! i = Some Ii -> m_hasStatic M = true ->
  snd (step s (MsgUpdateID m new)) = Ok ->
  let s' := fst (step s (MsgUpdateID m new)) in
  ~ iface_sends s' i (has_static (m_static M)) /\
  forall b, i_parent Ii = Some b -> ~ bus_carries s' b (has_static (m_static M)).
Proof. exact Proofs_Pre.update_id_releases_static. Qed.
Print Assumptions update_id_releases_static.

Theorem removal_releases_name : forall s, Inv s -> forall i Ii m M,
  ifaces s !! i = Some Ii -> m ∈ i_sent Ii -> msgs s !! m = Some M ->
  ~ iface_sends (fst (step s (IfRemoveSent i m))) i (fun M' => m_name M' = m_name M).
Proof. exact Proofs_Pre.removal_releases_name. Qed.
Print Assumptions removal_releases_name.

(* ---- layer 2: signals inside messages and multiplexers (first clause of the property) ------------- *)
Theorem inv2_init : Inv2 init2.
Proof. exact Proofs_RegInv.inv2_init. Qed.
Print Assumptions inv2_init.

(* every operation of the model (all 59 mutators of the alphabet, see inv2_step_covers_all) preserves
   the invariant of layers 1, 2 and 3; [op_ok2] adds to [op_ok] the same side condition for signals:
   an attach is not applied to a signal that already sits in another message / multiplexer (open
   finding D20; signal_exclusive_without_side_condition_refuted in C05.v) *)
Theorem inv2_step : forall s o, Inv2 s -> op_ok2 s o -> Inv2 (fst (step2 s o)).
Proof. exact Proofs_RegInv.inv2_step. Qed.
Print Assumptions inv2_step.

Theorem inv2_step_covers_all : forall m, m ∈ all_mutators -> is_Some (model_op2 m).
Proof. exact Proofs_RegWitness.inv2_step_covers_all. Qed.
Print Assumptions inv2_step_covers_all.

Theorem inv2_reachable : forall s, Reach2 s -> Inv2 s.
Proof. exact Proofs_RegInv.inv2_reachable. Qed.
Print Assumptions inv2_reachable.

Theorem op_ok2_satisfiable :
  all_ok2b init2 sample_history2 = true /\ all_accepted2 sample_history2 = true /\ Reach2 (run2 sample_history2).
Proof. exact Proofs_RegWitness.op_ok2_satisfiable. Qed.
Print Assumptions op_ok2_satisfiable.

(* no two signals of a message share a name, whatever their multiplexing depth ([InMessage]: reachable
   from the payload through multiplexer groups); the same among the signals one multiplexer holds *)
Theorem signal_names_unique_all_depths : forall s, Reach2 s -> SignalNamesUnique s.
Proof. exact Proofs_RegCor.signal_names_unique_all_depths. Qed.
Print Assumptions signal_names_unique_all_depths.

(* Message.GetSignalByName returns exactly the signal of the message that carries the name *)
Theorem get_signal_by_name_spec : forall s, Reach2 s -> GetSignalByNameSpec s.
Proof. exact Proofs_RegCor.get_signal_by_name_spec. Qed.
Print Assumptions get_signal_by_name_spec.

(* a name carried by a signal of the message - at any depth - is refused for an incoming signal, for
   a signal held by an incoming multiplexer, and for a rename; the state is unchanged *)
Theorem signal_name_used_refused : forall s m x y nm fits,
  Inv2 s -> is_Some (msgs (base (l3 s)) !! m) ->
  InMessage s m y -> sname s !! y = Some nm -> sname s !! x = Some nm ->
  step2 s (MsgAttach m (Some x) fits) = (s, Err (cons (Duplicated, WName) nil)).
Proof. exact Proofs_RegCor.signal_name_used_refused. Qed.
Print Assumptions signal_name_used_refused.

Theorem signal_nested_name_used_refused : forall s m x d y nm fits,
  Inv2 s -> is_Some (msgs (base (l3 s)) !! m) ->
  InMessage s m y -> sname s !! y = Some nm ->
  Under s x d -> d <> x -> d <> y -> sname s !! d = Some nm -> is_Some (sname s !! x) ->
  step2 s (MsgAttach m (Some x) fits) = (s, Err (cons (Duplicated, WName) nil)).
Proof. exact Proofs_RegCor.signal_nested_name_used_refused. Qed.
Print Assumptions signal_nested_name_used_refused.

Theorem signal_rename_used_refused : forall s m x y new,
  Inv2 s -> InMessage s m x -> InMessage s m y -> y <> x -> sname s !! y = Some new ->
  step2 s (SigUpdateName x new) = (s, Err (cons (Duplicated, WName) nil)).
Proof. exact Proofs_RegCor.signal_rename_used_refused. Qed.
Print Assumptions signal_rename_used_refused.

(* a name released by Message.RemoveSignal (of a signal at any depth) is free: the lookup finds
   nothing and a signal carrying the name is accepted; a rename frees the old name *)
Theorem signal_name_released_reusable : forall s m x y nm,
  Inv2 s -> op_ok2 s (MsgRemoveSignal m x) -> is_Some (msgs (base (l3 s)) !! m) ->
  InMessage s m x -> sname s !! x = Some nm ->
  sname s !! y = Some nm -> spmsg s !! y = None -> spmux s !! y = None -> xshape s !! y = None ->
  let s' := fst (step2 s (MsgRemoveSignal m x)) in
  snd (step2 s (MsgRemoveSignal m x)) = Ok /\
  lookup_signal_by_name s' m nm = None /\
  snd (step2 s' (MsgAttach m (Some y) true)) = Ok.
Proof. exact Proofs_RegCor.signal_name_released_reusable. Qed.
Print Assumptions signal_name_released_reusable.

Theorem signal_rename_releases_name : forall s m x old new,
  Inv2 s -> InMessage s m x -> sname s !! x = Some old -> old <> new ->
  snd (step2 s (SigUpdateName x new)) = Ok ->
  lookup_signal_by_name (fst (step2 s (SigUpdateName x new))) m old = None /\
  lookup_signal_by_name (fst (step2 s (SigUpdateName x new))) m new = Some x.
Proof. exact Proofs_RegCor.signal_rename_releases_name. Qed.
Print Assumptions signal_rename_releases_name.

(* the general form for the whole alphabet ([pre2] / [viol2]: Acme.C04.SpecSig, on the contents): any
   violated documented precondition is refused, and after any call a call is accepted as soon as its
   precondition holds on the current contents, whatever the history was *)
Theorem used_key_refused2 : forall s o cw, Inv2 s -> viol2 s o cw -> is_err (snd (step2 s o)) = true.
Proof. exact Proofs_RegPre.used_key_refused2. Qed.
Print Assumptions used_key_refused2.

Theorem released_key_reusable2 :
  forall s o1 o2, Inv2 s -> op_ok2 s o1 -> pre2 (fst (step2 s o1)) o2 -> snd (step2 (fst (step2 s o1)) o2) = Ok.
Proof. exact Proofs_RegPre.released_key_reusable2. Qed.
Print Assumptions released_key_reusable2.

(* ONE theorem for other streams to cite: every reachable state of the three-layer model satisfies all the
   statements of C04 and C05 at once ([ModelInvariants], Acme.C04.Spec2: KeysUnique, LookupByNameSpec,
   LinksSymmetric, ContainersExclusive, NodeInterfacesContiguous on the layer-1 part, ReferencesExact on
   the layer-3 part, SignalNamesUnique, GetSignalByNameSpec, SignalParentLinks, SignalExclusive) *)
Theorem reach2_model_invariants : forall s, Reach2 s -> ModelInvariants s.
Proof. exact Proofs_RegWitness.reach2_model_invariants. Qed.
Print Assumptions reach2_model_invariants.
