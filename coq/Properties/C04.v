(* C04 — names and identifiers stay unique and lookups agree with the contents.
   Theorems only (proofs in Acme.C04.Proofs_Xxx); statements: Acme.C04.Invariant (Inv, op_ok, Reach),
   Acme.C04.Spec (KeysUnique, LookupByNameSpec). Layer 1 of the model: networks, buses, nodes,
   interfaces, messages as opaque items, enums and enum values (33 operations). *)
From Acme.C04 Require Import Spec Proofs_New Proofs_Step Proofs_Cor Proofs_Witness.

Theorem inv_init : Inv init.
Proof. exact Proofs_New.inv_init. Qed.
Print Assumptions inv_init.

Theorem inv_step : forall s o, Inv s -> op_ok s o -> Inv (fst (step s o)).
Proof. exact Proofs_Step.inv_step. Qed.
Print Assumptions inv_step.

Theorem inv_reachable : forall s, Reach s -> Inv s.
Proof. exact Proofs_Step.inv_reachable. Qed.
Print Assumptions inv_reachable.

Theorem keys_unique : forall s, Reach s -> KeysUnique s.
Proof. exact Proofs_Cor.keys_unique_reach. Qed.
Print Assumptions keys_unique.

Theorem lookup_by_name_spec : forall s, Reach s -> LookupByNameSpec s.
Proof. exact Proofs_Cor.lookup_by_name_reach. Qed.
Print Assumptions lookup_by_name_spec.

Theorem op_ok_satisfiable :
  all_okb init sample_history = true /\ all_accepted sample_history = true /\ Reach (run sample_history).
Proof. exact Proofs_Witness.op_ok_satisfiable. Qed.
Print Assumptions op_ok_satisfiable.
