(* C04 — names and identifiers stay unique and lookups agree with the contents.
   Theorems only (proofs in Acme.C04.Proofs_Xxx); statements: Acme.C04.Invariant (Inv, op_ok, Reach),
   Acme.C04.Spec (KeysUnique, LookupByNameSpec). Layer 1 of the model: networks, buses, nodes,
   interfaces, messages as opaque items, enums and enum values (33 operations). *)
From stdpp Require Import gmap.
From Acme.C04 Require Import Spec Proofs_New Proofs_Step Proofs_Cor Proofs_Witness Proofs_Pre.

Theorem inv_init : Inv init.
Proof. exact Proofs_New.inv_init. Qed.
Print Assumptions inv_init.

(* PARTIAL with respect to the operation alphabet of DESIGN Appendix A: proved for every operation of
   the model (33 public mutators / constructors of the flat registries + NewOther); the full statement
   [inv_step_full_statement] (Acme.C04.Spec: every mutator of the alphabet is modelled) is not
   proved: 24 mutators on signals inside messages / multiplexers (I1, I2) and on shared
   definitions (I8) are covered by the Go-side predicates of the harness only. *)
Theorem inv_step_partial : forall s o, Inv s -> op_ok s o -> Inv (fst (step s o)).
Proof. exact Proofs_Step.inv_step. Qed.
Print Assumptions inv_step_partial.

Theorem inv_step_partial_covers : length covered_mutators = 33 /\ length all_mutators = 57.
Proof. exact Proofs_Witness.covered_count. Qed.
Print Assumptions inv_step_partial_covers.

Theorem inv_reachable : forall s, Reach s -> Inv s.
Proof. exact Proofs_Step.inv_reachable. Qed.
Print Assumptions inv_reachable.

Theorem keys_unique : forall s, Reach s -> KeysUnique s.
Proof. exact Proofs_Cor.keys_unique_reach. Qed.
Print Assumptions keys_unique.

Theorem lookup_by_name_spec : forall s, Reach s -> LookupByNameSpec s.
Proof. exact Proofs_Cor.lookup_by_name_reach. Qed.
Print Assumptions lookup_by_name_spec.

Theorem op_ok_satisfiable :
  all_okb init sample_history = true /\ all_accepted sample_history = true /\ Reach (run sample_history).
Proof. exact Proofs_Witness.op_ok_satisfiable. Qed.
Print Assumptions op_ok_satisfiable.

(* a key that is in use is refused: any violated documented precondition ([viol], Spec.v; for the
   name / id / static CAN-ID / index clauses: "some current child of the container carries the key") *)
Theorem used_key_refused : forall s o cw, Inv s -> viol s o cw -> is_err (snd (step s o)) = true.
Proof. exact Proofs_Pre.used_key_refused. Qed.
Print Assumptions used_key_refused.

(* a key released by a rename, id change or removal is immediately reusable: after any accepted or
   refused call o1, a call o2 is accepted as soon as its precondition holds on the *current*
   contents, whatever the history was *)
Theorem released_key_reusable :
  forall s o1 o2, Inv s -> op_ok s o1 -> pre (fst (step s o1)) o2 -> snd (step (fst (step s o1)) o2) = Ok.
Proof. exact Proofs_Pre.released_key_reusable. Qed.
Print Assumptions released_key_reusable.

Theorem released_key_reused :
  results reuse_history =
  cons Ok (cons Ok (cons Ok (cons Ok (cons (Err (cons (Duplicated, WName) nil)) (cons Ok
  (cons (Err (cons (Duplicated, WMessageID) nil)) (cons Ok (cons Ok (cons Ok
  (cons (Err (cons (Duplicated, WCANID) nil)) (cons Ok (cons Ok nil)))))))))))).
Proof. exact Proofs_Witness.released_key_reused. Qed.
Print Assumptions released_key_reused.

(* side condition (c) of op_ok (an interface removed from its node is not used again) excludes a
   real defect, recorded as an open finding: the removed interface can still be attached to a bus,
   and a later rename of the node leaves the bus index with the old name *)
Theorem removed_interface_refuted :
  exists ops b nm, all_accepted ops = true /\ stale_node_name (run ops) b nm = true /\ ~ Inv (run ops).
Proof. exact Proofs_Witness.removed_interface_refuted. Qed.
Print Assumptions removed_interface_refuted.

(* a rename / an id change / a removal really releases the key: afterwards no child of the container
   carries it (so, by refused_iff_pre of C06, the next call that needs it is accepted) *)
Theorem rename_releases_name : forall s, Inv s -> forall m M i new,
  msgs s !! m = Some M -> m_sender M = Some i -> m_name M <> new ->
  snd (step s (MsgUpdateName m new)) = Ok ->
  ~ iface_sends (fst (step s (MsgUpdateName m new))) i (fun M' => m_name M' = m_name M).
Proof. exact Proofs_Pre.rename_releases_name. Qed.
Print Assumptions rename_releases_name.

Theorem update_id_releases_static : forall s, Inv s -> forall m M i Ii new,
  msgs s !! m = Some M -> m_sender M = Some i -> ifaces s !! i = Some Ii -> m_hasStatic M = true ->
  snd (step s (MsgUpdateID m new)) = Ok ->
  let s' := fst (step s (MsgUpdateID m new)) in
  ~ iface_sends s' i (has_static (m_static M)) /\
  forall b, i_parent Ii = Some b -> ~ bus_carries s' b (has_static (m_static M)).
Proof. exact Proofs_Pre.update_id_releases_static. Qed.
Print Assumptions update_id_releases_static.

Theorem removal_releases_name : forall s, Inv s -> forall i Ii m M,
  ifaces s !! i = Some Ii -> m ∈ i_sent Ii -> msgs s !! m = Some M ->
  ~ iface_sends (fst (step s (IfRemoveSent i m))) i (fun M' => m_name M' = m_name M).
Proof. exact Proofs_Pre.removal_releases_name. Qed.
Print Assumptions removal_releases_name.
