(* C05 — containment links are symmetric and exclusive; a node's interfaces are numbered 0..n-1.
   Theorems only (proofs in Acme.C04.Proofs_Xxx). The side condition [op_ok] of [Reach] excludes the
   two open findings (D20 re-attach, D22 two receiving interfaces of one node); the *_refuted
   theorems exhibit exactly those cases on the faithful model. References (I8): Acme.C04.Refs (layer 3,
   a product construction over the flat-registry state); signal <-> message / multiplexer links (I1, I2):
   Acme.C04.Reg / RegInv (layer 2, a product construction over layer 3; inv2_step in C04.v), with the
   same side condition for signals ([op_ok2]) and its refutation below. *)
From Acme.C04 Require Import Spec Proofs_Step Proofs_Cor Proofs_Witness Proofs_Refs.
From Acme.C04 Require Import Proofs_RegInv Proofs_RegCor Proofs_RegWitness.

Theorem links_symmetric : forall s, Reach s -> LinksSymmetric s.
Proof. exact Proofs_Cor.links_symmetric_reach. Qed.
Print Assumptions links_symmetric.

Theorem containers_exclusive : forall s, Reach s -> ContainersExclusive s.
Proof. exact Proofs_Cor.containers_exclusive_reach. Qed.
Print Assumptions containers_exclusive.

Theorem node_interfaces_contiguous : forall s, Reach s -> NodeInterfacesContiguous s.
Proof. exact Proofs_Cor.node_interfaces_contiguous_reach. Qed.
Print Assumptions node_interfaces_contiguous.

Theorem exclusive_without_side_condition_refuted :
  exists ops n1 n2 b, n1 <> n2 /\ all_accepted ops = true /\ listed_twice (run ops) n1 n2 b = true /\ ~ Inv (run ops).
Proof. exact Proofs_Witness.exclusive_without_side_condition_refuted. Qed.
Print Assumptions exclusive_without_side_condition_refuted.

Theorem receivers_without_side_condition_refuted :
  exists ops i m, all_accepted ops = true /\ received_not_listed (run ops) i m = true /\ ~ Inv (run ops).
Proof. exact Proofs_Witness.receivers_without_side_condition_refuted. Qed.
Print Assumptions receivers_without_side_condition_refuted.

(* layer 3: types, units, enums, attributes (assignments), CAN-ID builders *)
Theorem inv3_step : forall s o, Inv3 s -> op_ok3 s o -> Inv3 (fst (step3 s o)).
Proof. exact Proofs_Refs.inv3_step. Qed.
Print Assumptions inv3_step.

Theorem references_exact : forall s, Reach3 s -> ReferencesExact s.
Proof. exact Proofs_Refs.references_exact. Qed.
Print Assumptions references_exact.

(* layer 2: a signal reports a message exactly when it is reachable from the payload of that message
   through multiplexer groups (and the registry of the message is that set); it reports a multiplexer
   exactly when that multiplexer holds it *)
Theorem signal_parent_links : forall s, Reach2 s -> SignalParentLinks s.
Proof. exact Proofs_RegCor.signal_parent_links. Qed.
Print Assumptions signal_parent_links.

(* a signal sits in one payload or in one multiplexer, never both, and belongs to one message *)
Theorem signal_exclusive : forall s, Reach2 s -> SignalExclusive s.
Proof. exact Proofs_RegCor.signal_exclusive. Qed.
Print Assumptions signal_exclusive.

(* without the side condition of [op_ok2] (open finding D20 for signals) both fail *)
Theorem signal_exclusive_without_side_condition_refuted :
  exists ops m1 m2 x, m1 <> m2 /\ all_accepted2 ops = true /\ in_two_payloads (run2 ops) m1 m2 x = true /\ ~ Inv2 (run2 ops).
Proof. exact Proofs_RegWitness.signal_exclusive_without_side_condition_refuted. Qed.
Print Assumptions signal_exclusive_without_side_condition_refuted.

Theorem multiplexed_exclusive_without_side_condition_refuted :
  exists ops u1 u2 x, u1 <> u2 /\ all_accepted2 ops = true /\ in_two_muxes (run2 ops) u1 u2 x = true /\ ~ Inv2 (run2 ops).
Proof. exact Proofs_RegWitness.multiplexed_exclusive_without_side_condition_refuted. Qed.
Print Assumptions multiplexed_exclusive_without_side_condition_refuted.
