(* C06 — rejected operations change nothing and fail for the documented reason.
   Theorems only (proofs in Acme.C04.Proofs_Xxx). "No mutating call panics" is what the
   correspondence run exhibits for the Go code (every call runs inside recover()); the model is
   total by construction. *)
From Acme.C04 Require Import Spec Proofs_Noop Proofs_Pre Proofs_Refs Proofs_RegCor SpecSig Proofs_RegPre.

(* The three theorems *_model below are statements about the MODEL: its error branches return the input
   state (the only non-syntactic case is Node.RemoveInterface), and the model has no positions, sizes in
   bits, descriptions or attribute values.  That a refused call of the IMPLEMENTATION changes nothing is
   decided by the correspondence: the whole-pool snapshot before / after every failing call
   (c06-error-mutates) and the step-by-step comparison of the complete model state. *)
Theorem error_is_noop_model : forall s o, Inv s -> is_err (snd (step s o)) = true -> fst (step s o) = s.
Proof. exact Proofs_Noop.error_is_noop. Qed.
Print Assumptions error_is_noop_model.

(* [pre], [viol], [doc_cause] (Acme.C04.Spec) are written from the doc comments of the Go methods in
   terms of the contents: children listed by the containers and their fields, never the indexes *)
Theorem refused_iff_pre : forall s o, Inv s -> (is_err (snd (step s o)) = true <-> ~ pre s o).
Proof. exact Proofs_Pre.refused_iff_pre. Qed.
Print Assumptions refused_iff_pre.

Theorem cause_spec :
  forall s o cs, Inv s -> snd (step s o) = Err cs -> cs <> nil /\ forall cw, In cw cs -> doc_cause s o cw.
Proof. exact Proofs_Pre.cause_spec_In. Qed.
Print Assumptions cause_spec.

(* layer 3 (SetType / SetUnit / SetEnum / AssignAttribute / RemoveAttributeAssignment / … / SetCANIDBuilder) *)
Theorem error_is_noop3_model : forall s o, Inv3 s -> is_err (snd (step3 s o)) = true -> fst (step3 s o) = s.
Proof. exact Proofs_Refs.error_is_noop3. Qed.
Print Assumptions error_is_noop3_model.

(* layer 2 (AppendSignal / InsertSignal / RemoveSignal / RemoveAllSignals / Signal.UpdateName /
   MultiplexerSignal.InsertSignal / RemoveSignal / ClearSignalGroup / ClearAllSignalGroups and the
   signal constructors; every operation of layers 1 and 3 lifted): a refused call changes nothing *)
Theorem error_is_noop2_model : forall s o, Inv2 s -> is_err (snd (step2 s o)) = true -> fst (step2 s o) = s.
Proof. exact Proofs_RegCor.error_is_noop2. Qed.
Print Assumptions error_is_noop2_model.

(* the documented preconditions of layers 3 and 2 ([pre3] / [viol3] / [doc_cause3], [pre2] / [viol2] /
   [doc_cause2] of Acme.C04.SpecSig) are written on the contents: the signals reachable from the
   payload of a message ([InMessage]), the signals a multiplexer holds, the assignments of an entity;
   geometry and attribute value checks are oracle arguments of the operations *)
Theorem refused_iff_pre3 : forall s o, Inv3 s -> (is_err (snd (step3 s o)) = true <-> ~ pre3 s o).
Proof. exact Proofs_RegPre.refused_iff_pre3. Qed.
Print Assumptions refused_iff_pre3.

Theorem cause_spec3 :
  forall s o cs, Inv3 s -> snd (step3 s o) = Err cs -> cs <> nil /\ forall cw, In cw cs -> doc_cause3 s o cw.
Proof. exact Proofs_RegPre.cause_spec3. Qed.
Print Assumptions cause_spec3.

(* the whole alphabet ([step2]: all 59 constructors / mutators, inv2_step_covers_all in C04.v) *)
Theorem refused_iff_pre2 : forall s o, Inv2 s -> (is_err (snd (step2 s o)) = true <-> ~ pre2 s o).
Proof. exact Proofs_RegPre.refused_iff_pre2. Qed.
Print Assumptions refused_iff_pre2.

Theorem cause_spec2 :
  forall s o cs, Inv2 s -> snd (step2 s o) = Err cs -> cs <> nil /\ forall cw, In cw cs -> doc_cause2 s o cw.
Proof. exact Proofs_RegPre.cause_spec2. Qed.
Print Assumptions cause_spec2.
