(* C06 — rejected operations change nothing and fail for the documented reason.
   Theorems only (proofs in Acme.C04.Proofs_Xxx). "No mutating call panics" is what the
   correspondence run exhibits for the Go code (every call runs inside recover()); the model is
   total by construction. *)
From Acme.C04 Require Import Spec Proofs_Noop.

Theorem error_is_noop : forall s o, Inv s -> is_err (snd (step s o)) = true -> fst (step s o) = s.
Proof. exact Proofs_Noop.error_is_noop. Qed.
Print Assumptions error_is_noop.
