(* C07 - property theorems (statements only; the proofs live in Acme.C01.ProofsXxx / Acme.C07.ProofsXxx). *)
From Coq Require Import ZArith List.
From Acme.C01 Require Import Layout State Model ProofsLayout ProofsInv Refuted ProofsT1.
From Acme.C07 Require Import Model.
Open Scope Z_scope.

(* A multiplexer's size is its group size plus the selector width for its group count. *)
Theorem mux_size : forall s u c g, kind s u = KMux c g -> sz s u = (g + selw c)%Z.
Proof. intros s u c g H. unfold sz. rewrite H. reflexivity. Qed.
Print Assumptions mux_size.

(* Every group of every multiplexer is a well-formed layout within the group size, in every state
   reached by a history satisfying the per-step hypotheses (see Properties/C01.v). *)
Theorem groups_wf : forall ops, ok_hist ops -> forall u g,
  wf (mux_gsize (run ops) u) (group_view (run ops) u g).
Proof. exact t1_groups_wf. Qed.
Print Assumptions groups_wf.

Theorem groups_wf_full_refuted : ~ groups_wf_full.
Proof. exact groups_wf_full_false. Qed.
Print Assumptions groups_wf_full_refuted.

Theorem d35_refuted : exists ops u g, ~ wf (mux_gsize (run ops) u) (group_view (run ops) u g).
Proof. exact groups_full_refuted_d35. Qed.
Print Assumptions d35_refuted.

Theorem d35_grow_refuted : exists ops u g, ~ wf (mux_gsize (run ops) u) (group_view (run ops) u g).
Proof. exact groups_full_refuted_d35_grow. Qed.
Print Assumptions d35_grow_refuted.
