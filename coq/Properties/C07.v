(* C07 - property theorems (statements only; the proofs live in Acme.C01.ProofsXxx / Acme.C07.Proofs). *)
From Coq Require Import ZArith List.
From Acme.C01 Require Import Layout State Model ProofsLayout ProofsInv Refuted ProofsT1.
From Acme.C07 Require Import Model Proofs.
From Acme.C01 Require Import Examples.
Import ListNotations.
Open Scope Z_scope.

(* A multiplexer's size is its group size plus the selector width for its group count. *)
Theorem mux_size : forall s u c g, kind s u = KMux c g -> sz s u = (g + selw c)%Z.
Proof. exact mux_size_proof. Qed.
Print Assumptions mux_size.

(* Every group of every multiplexer is a well-formed layout within the group size, in every state
   reached by a history satisfying the per-step hypotheses (see Properties/C01.v, T1). *)
Theorem groups_wf : forall ops, ok_hist_w ops -> forall u g,
  wf (mux_gsize (run ops) u) (group_view (run ops) u g).
Proof. exact t1_groups_wf. Qed.
Print Assumptions groups_wf.

(* A signal inserted without group ids (fixed) is present in every group (at its one relative
   position) and has no group ids. *)
Theorem membership_fixed : forall ops, ok_hist_w ops -> forall u x, ufixed (run ops) u x = true ->
  (forall g, (Z.of_nat g < mux_count (run ops) u) -> In x (gget (run ops) u g))
  /\ ugids (run ops) u x = None.
Proof. exact membership_fixed_w. Qed.
Print Assumptions membership_fixed.

(* A signal inserted with group ids is present in exactly those groups; the ids are distinct,
   inside 0..count-1, and the signal is not fixed. *)
Theorem membership_ids : forall ops, ok_hist_w ops -> forall u x ids, ugids (run ops) u x = Some ids ->
  (forall g : nat, In x (gget (run ops) u g) <-> In (Z.of_nat g) ids)
  /\ NoDup ids /\ ids <> [] /\ (forall g, In g ids -> 0 <= g < mux_count (run ops) u) /\ ufixed (run ops) u x = false.
Proof. exact membership_ids_w. Qed.
Print Assumptions membership_ids.

(* every signal listed by a group is fixed or grouped there, and that multiplexer is its parent *)
Theorem membership_cover : forall ops, ok_hist_w ops -> forall u g x, In x (gget (run ops) u g) ->
  (ufixed (run ops) u x = true \/ ugids (run ops) u x <> None) /\ pmux (run ops) x = Some u.
Proof. exact membership_cover_w. Qed.
Print Assumptions membership_cover.

(* insert_refused_iff: an insertion is accepted exactly when the name is free and
   - without group ids: the signal is not yet in the multiplexer and the range is free in every group;
   - with group ids: every id is inside 0..count-1, its group does not already hold the signal, the
     start bit is the one the signal already has (if it is in the multiplexer) and the range is free. *)
Theorem insert_refused_iff : forall s u x b gids, InvA s -> InvM s -> vmux s u = true ->
  (is_ok (snd (step_mux_insert s u x b gids)) <-> name_free s u x /\ insert_conditions s u x b gids).
Proof. exact mux_insert_accepted_iff. Qed.
Print Assumptions insert_refused_iff.

(* message_view_in_step: inserting, removing, shifting, resizing or clearing (any operation
   satisfying its hypothesis) at any depth keeps every group and every message layout well-formed
   and the membership bookkeeping exact *)
Theorem message_view_in_step : forall s o, InvA s -> InvM s -> ok_op_w s o ->
  InvA (fst (step s o)) /\ InvM (fst (step s o)).
Proof. exact step_keeps_invariants. Qed.
Print Assumptions message_view_in_step.

(* abs_start_bit, partial: one unfolding of the GetStartBit recursion (the fuel-free statement
   [abs_start_bit_full] needs the well-foundedness of the parent chain and is not proved; the
   formula is evaluated on the implementation at every depth by vinv.CheckMultiplexer). *)
Theorem abs_start_bit_partial : forall f s x u, pmux s x = Some u ->
  abs_start (S f) s x = abs_start f s u + selw (mux_count s u) + rel s x.
Proof. exact abs_start_step. Qed.
Print Assumptions abs_start_bit_partial.

Theorem abs_start_bit_top : forall f s x, pmux s x = None -> abs_start f s x = rel s x.
Proof. exact abs_start_top. Qed.
Print Assumptions abs_start_bit_top.

(* the unconditioned statement is refuted by the faithful model (finding D35) *)
Theorem groups_wf_full_refuted : ~ groups_wf_full.
Proof. exact groups_wf_full_false. Qed.
Print Assumptions groups_wf_full_refuted.

Theorem d35_refuted : exists ops u g, ~ wf (mux_gsize (run ops) u) (group_view (run ops) u g).
Proof. exact groups_full_refuted_d35. Qed.
Print Assumptions d35_refuted.

Theorem d35_grow_refuted : exists ops u g, ~ wf (mux_gsize (run ops) u) (group_view (run ops) u g).
Proof. exact groups_full_refuted_d35_grow. Qed.
Print Assumptions d35_grow_refuted.

(* Non-vacuity: a concrete multiplexer history (fixed, two-group, repeated insertion into a further
   group, shift, clear-group, remove) satisfies the hypotheses. *)
Theorem hypotheses_satisfiable : ok_hist_w mux_example_ops.
Proof. exact mux_example_ok. Qed.
Print Assumptions hypotheses_satisfiable.
