(* C07 - property theorems (statements only; the proofs live in Acme.C01.ProofsXxx / Acme.C07.ProofsXxx). *)
From Coq Require Import ZArith List.
From Acme.C01 Require Import Layout State Model ProofsLayout ProofsInv ProofsSpec ProofsAccept Refuted ProofsT1 Examples.
From Acme.C07 Require Import Model Proofs ProofsReg ProofsFinal ProofsEffect ProofsRange ProofsNames ProofsTotal.
Import ListNotations.
Open Scope Z_scope.

(* The hypotheses [ok_hist_f] / [ok_op_f] are those of Properties/C01.v (T1): they only exclude the
   open findings D20 (re-attachment), D35 (a resized multiplexed signal followed by a signal held by
   two or more groups), D36 (two signals of one layout on a growing enum) and D03 (SetMinSize). *)

(* A multiplexer's size is its group size plus the selector width for its group count ... *)
Theorem mux_size : forall s u c g, kind s u = KMux c g -> sz s u = (g + selw c)%Z.
Proof. exact mux_size_spec. Qed.
Print Assumptions mux_size.

(* ... and the selector width is the least number of bits (at least one) addressing `count` groups *)
Theorem selector_width_spec : forall c, 1 <= c ->
  1 <= selw c /\ c <= 2 ^ selw c /\ (2 <= c -> 2 ^ (selw c - 1) < c).
Proof. exact selw_spec. Qed.
Print Assumptions selector_width_spec.

(* Every group of every multiplexer is a well-formed layout within the group size. *)
Theorem groups_wf : forall ops, ok_hist_f ops -> forall u g,
  wf (mux_gsize (run ops) u) (group_view (run ops) u g).
Proof. exact groups_wf_f. Qed.
Print Assumptions groups_wf.

(* A signal inserted without group ids (fixed) is present in every group (at its one relative
   position) and has no group ids. *)
Theorem membership_fixed : forall ops, ok_hist_f ops -> forall u x, ufixed (run ops) u x = true ->
  (forall g, (Z.of_nat g < mux_count (run ops) u) -> In x (gget (run ops) u g))
  /\ ugids (run ops) u x = None.
Proof. exact membership_fixed_f. Qed.
Print Assumptions membership_fixed.

(* A signal inserted with group ids is present in exactly those groups; the ids are distinct,
   inside 0..count-1, and the signal is not fixed. *)
Theorem membership_ids : forall ops, ok_hist_f ops -> forall u x ids, ugids (run ops) u x = Some ids ->
  (forall g : nat, In x (gget (run ops) u g) <-> In (Z.of_nat g) ids)
  /\ NoDup ids /\ ids <> [] /\ (forall g, In g ids -> 0 <= g < mux_count (run ops) u) /\ ufixed (run ops) u x = false.
Proof. exact membership_ids_f. Qed.
Print Assumptions membership_ids.

(* every signal listed by a group is fixed or grouped there, and that multiplexer is its parent *)
Theorem membership_cover : forall ops, ok_hist_f ops -> forall u g x, In x (gget (run ops) u g) ->
  (ufixed (run ops) u x = true \/ ugids (run ops) u x <> None) /\ pmux (run ops) x = Some u.
Proof. exact membership_cover_f. Qed.
Print Assumptions membership_cover.

(* insert_refused_iff: an insertion is accepted exactly when the name is free and
   - without group ids: the signal is not yet in the multiplexer and the range is free in every group;
   - with group ids: every id is inside 0..count-1, its group does not already hold the signal, the
     start bit is the one the signal already has (if it is in the multiplexer) and the range is free. *)
Theorem insert_refused_iff : forall s u x b gids, InvA s -> InvM s -> vmux s u = true ->
  (is_ok (snd (step_mux_insert s u x b gids)) <-> name_free s u x /\ insert_conditions s u x b gids).
Proof. exact mux_insert_accepted_iff. Qed.
Print Assumptions insert_refused_iff.

(* abs_start_bit: the absolute start bit of a multiplexed signal is its parent's start bit plus the
   selector width plus its relative position, at every nesting depth (the parent chain is
   well-founded: sizes grow strictly towards the root), and a signal without parent multiplexer
   starts at its relative position *)
Theorem abs_start_bit : forall ops, ok_hist_f ops -> forall x u, pmux (run ops) x = Some u ->
  start_bit (run ops) x = start_bit (run ops) u + selw (mux_count (run ops) u) + rel (run ops) x.
Proof. exact abs_start_bit_f. Qed.
Print Assumptions abs_start_bit.

Theorem abs_start_bit_top : forall s x, pmux s x = None -> start_bit s x = rel s x.
Proof. exact abs_start_bit_top_f. Qed.
Print Assumptions abs_start_bit_top.

(* message_view_in_step: inserting, removing, shifting, resizing or clearing (any operation
   satisfying its hypothesis) at any depth keeps every group and every message layout well-formed
   (InvA), the membership bookkeeping exact (InvM) and the owning message's registry and the
   parent-message pointers equal to the layout tree (InvR) ... *)
Theorem message_view_in_step : forall s o, InvA s -> InvM s -> InvR s -> ok_op_f s o ->
  InvA (fst (step s o)) /\ InvM (fst (step s o)) /\ InvR (fst (step s o)).
Proof. exact step_keeps_invariants3. Qed.
Print Assumptions message_view_in_step.

(* ... so that in every reached state the message finds (GetSignal) exactly the signals of its
   layout tree, and exactly those report it as their parent message *)
Theorem message_view : forall ops, ok_hist_f ops -> forall m x,
  (memb x (gsigs (run ops) m) = true <-> in_tree (run ops) m x)
  /\ (pmsg (run ops) x = Some m <-> in_tree (run ops) m x).
Proof. exact message_view_reachable. Qed.
Print Assumptions message_view.

(* size changes inside a multiplexer: accepted exactly when EVERY group holding the signal has that many
   free bits behind it (change_fits quantifies over all layouts holding x) *)
Theorem set_type_in_mux_accepted_iff_fits : forall s x old n, InvA s -> InvM s -> InvR s ->
  kind s x = KStd old -> 1 <= n -> single_moved s (rel s) x (n - old) ->
  (is_ok (snd (step_set_type s x n)) <->
   n - old <= 0 \/ forall L, In x (lay s L) -> n - old <= free_in s (rel s) L x).
Proof. exact set_type_accepted_iff_f. Qed.
Print Assumptions set_type_in_mux_accepted_iff_fits.

(* ShiftSignalLeft / ShiftSignalRight of a multiplexer: only a signal held by exactly one group moves;
   the returned distance is the distance moved, the target is the declarative clamp in that group, no
   other signal moves *)
Theorem mux_shift_left_spec : forall s u x a, InvA s -> InvM s ->
  exists d, snd (step_mux_shift true s u x a) = RShift d
    /\ d = rel s x - rel (fst (step_mux_shift true s u x a)) x
    /\ (forall y, y <> x -> rel (fst (step_mux_shift true s u x a)) y = rel s y)
    /\ (forall g, mux_moves s u x a g ->
          rel (fst (step_mux_shift true s u x a)) x = left_target s (gget s u (Z.to_nat g)) x a /\ 0 <= d <= a)
    /\ ((forall g, ~ mux_moves s u x a g) -> d = 0).
Proof. exact mux_shift_left_spec_f. Qed.
Print Assumptions mux_shift_left_spec.

Theorem mux_shift_right_spec : forall s u x a, InvA s -> InvM s ->
  exists d, snd (step_mux_shift false s u x a) = RShift d
    /\ d = rel (fst (step_mux_shift false s u x a)) x - rel s x
    /\ (forall y, y <> x -> rel (fst (step_mux_shift false s u x a)) y = rel s y)
    /\ (forall g, mux_moves s u x a g ->
          rel (fst (step_mux_shift false s u x a)) x = right_target s (mux_gsize s u) (gget s u (Z.to_nat g)) x a /\ 0 <= d <= a)
    /\ ((forall g, ~ mux_moves s u x a g) -> d = 0).
Proof. exact mux_shift_right_spec_f. Qed.
Print Assumptions mux_shift_right_spec.

(* Non-vacuity: a multiplexer attached to a message with a nested multiplexer, fixed / two-group /
   repeated insertion, SetType (shrink and grow) inside the nested multiplexer, shift, clear-group,
   removals (also Message.RemoveSignal with a nested id) satisfies the hypotheses. *)
Theorem hypotheses_satisfiable : ok_hist_f mux_example_ops.
Proof. exact mux_example_ok. Qed.
Print Assumptions hypotheses_satisfiable.

(* the hypothesis about a size change inside a multiplexer is value-based: a follower held by two
   groups that the push does not reach does not matter (the position-independent condition
   single_followers fails on this history) *)
Theorem hypotheses_value_based : ok_hist_f reach_example_ops /\
  map (fun l => map (fun x => (x, rel (run reach_example_ops) x, sz (run reach_example_ops) x)) l) (ugroups (run reach_example_ops) 0)
  = ((1%nat, 0, 5) :: (2%nat, 5, 2) :: (3%nat, 8, 2) :: nil) :: ((3%nat, 8, 2) :: nil) :: nil
  /\ ~ single_followers (run (firstn 7 reach_example_ops)) 1.
Proof. exact reach_example_all. Qed.
Print Assumptions hypotheses_value_based.

(* the unconditioned statement is refuted by the faithful model (finding D35) *)
Theorem groups_wf_full_refuted : ~ groups_wf_full.
Proof. exact groups_wf_full_false. Qed.
Print Assumptions groups_wf_full_refuted.

Theorem d35_refuted :
  let ops := ONewMux 2 16 :: ONewStd 4 :: ONewStd 4 :: OMuxInsert 0 1 0 nil :: OMuxInsert 0 2 4 nil :: OSetType 1 3 :: nil in
  ~ wf (mux_gsize (run ops) 0%nat) (group_view (run ops) 0%nat 0%nat).
Proof. exact d35_witness. Qed.
Print Assumptions d35_refuted.

Theorem d35_grow_refuted :
  let ops := ONewMux 2 8 :: ONewStd 2 :: ONewStd 2 :: ONewStd 2 :: OMuxInsert 0 1 0 nil :: OMuxInsert 0 2 2 nil
             :: OMuxInsert 0 3 4 (1 :: nil) :: OSetType 1 3 :: nil in
  ~ wf (mux_gsize (run ops) 0%nat) (group_view (run ops) 0%nat 1%nat).
Proof. exact d35_grow_witness. Qed.
Print Assumptions d35_grow_refuted.

(* Effect (post-state) theorems. An accepted InsertSignal of a signal that was in no layout: afterwards the
   signal is at the one requested position and - without group ids - in EVERY group, - with group ids - in
   EXACTLY the listed groups; no other signal enters, leaves or moves. *)
Theorem mux_insert_membership : forall s u x b gids, InvM s -> vmux s u = true -> ~ attached s x ->
  is_ok (snd (step_mux_insert s u x b gids)) ->
  let s' := fst (step_mux_insert s u x b gids) in
  rel s' x = b
  /\ (forall g, In x (gget s' u g) <->
                (g < length (ugroups s u))%nat /\ (gids = nil \/ In (Z.of_nat g) gids))
  /\ (forall g y, y <> x -> (In y (gget s' u g) <-> In y (gget s u g)))
  /\ (forall y, y <> x -> rel s' y = rel s y).
Proof. exact ProofsEffect.mux_insert_membership. Qed.
Print Assumptions mux_insert_membership.

(* the general form (also for further groups of a signal already in the multiplexer), with sizes, the other
   multiplexers, the message layouts and the bookkeeping *)
Theorem mux_insert_effect : forall s u x b gids, ugroups s u <> nil ->
  is_ok (snd (step_mux_insert s u x b gids)) ->
  let s' := fst (step_mux_insert s u x b gids) in
  rel s' x = b
  /\ (forall y, y <> x -> rel s' y = rel s y)
  /\ (forall y, sz s' y = sz s y)
  /\ (forall g y, In y (gget s' u g) <-> In y (gget s u g) \/ (y = x /\ named_group s u gids g))
  /\ (forall u', u' <> u -> ugroups s' u' = ugroups s u')
  /\ glay s' = glay s
  /\ (gids = nil -> ufixed s' u x = true)
  /\ memb x (usigs s' u) = true.
Proof. exact ProofsEffect.mux_insert_effect. Qed.
Print Assumptions mux_insert_effect.

(* RemoveSignal: the signal is in no group of the multiplexer any more and not a member; nothing else changes *)
Theorem mux_remove_effect : forall s u x, InvM s -> is_ok (snd (step_mux_remove s u x)) ->
  let s' := fst (step_mux_remove s u x) in
  rel s' = rel s
  /\ (forall g y, In y (gget s' u g) <-> In y (gget s u g) /\ y <> x)
  /\ (forall u', u' <> u -> ugroups s' u' = ugroups s u')
  /\ glay s' = glay s
  /\ ufixed s' u x = false /\ ugids s' u x = None /\ memb x (usigs s' u) = false.
Proof. exact ProofsEffect.mux_remove_effect. Qed.
Print Assumptions mux_remove_effect.

(* ClearSignalGroup: the group keeps exactly its fixed signals; every other group is untouched *)
Theorem mux_clear_group_effect : forall s u g, InvM s -> vmux s u = true -> is_ok (snd (step_mux_clear_group s u g)) ->
  let s' := fst (step_mux_clear_group s u g) in
  let n := Z.to_nat g in
  rel s' = rel s /\ glay s' = glay s
  /\ (forall u' k, u' <> u \/ k <> n -> gget s' u' k = gget s u' k)
  /\ (forall y, In y (gget s' u n) <-> In y (gget s u n) /\ ufixed s u y = true).
Proof. exact mux_clear_group_effect_f. Qed.
Print Assumptions mux_clear_group_effect.

(* ClearAllSignalGroups: every group is empty, no signal is fixed or grouped *)
Theorem mux_clear_all_effect : forall s u,
  let s' := fst (step_mux_clear_all s u) in
  rel s' = rel s /\ glay s' = glay s
  /\ (forall g, gget s' u g = nil)
  /\ (forall u', u' <> u -> ugroups s' u' = ugroups s u')
  /\ (forall x, ufixed s' u x = false /\ ugids s' u x = None).
Proof. exact ProofsEffect.mux_clear_all_effect. Qed.
Print Assumptions mux_clear_all_effect.

(* The absolute bit range of a multiplexed signal at any nesting depth: behind the selector and inside the
   size of its multiplexer, hence of every ancestor, and inside the payload of the owning message. *)
Theorem range_in_parent : forall s x u, InvA s -> InvM s -> pmux s x = Some u ->
  start_bit s u + selw (mux_count s u) <= start_bit s x
  /\ start_bit s x + sz s x <= start_bit s u + sz s u
  /\ 1 <= selw (mux_count s u).
Proof. exact ProofsRange.range_in_parent. Qed.
Print Assumptions range_in_parent.

Theorem range_in_ancestor : forall n s a x, InvA s -> InvM s -> belowN n s a x ->
  start_bit s a + selw (mux_count s a) <= start_bit s x /\ start_bit s x + sz s x <= start_bit s a + sz s a.
Proof. exact ProofsRange.range_in_ancestor. Qed.
Print Assumptions range_in_ancestor.

Theorem range_in_message : forall ops, ok_hist_f ops -> forall m x, in_tree (run ops) m x ->
  0 <= start_bit (run ops) x /\ start_bit (run ops) x + sz (run ops) x <= 8 * gbytes (run ops) m.
Proof. exact range_reachable. Qed.
Print Assumptions range_in_message.

(* The name tables are inside an invariant (InvN: the name table of a multiplexer is its member list, the name
   table of a message names exactly the signals of its registry), preserved by all 29 operations and holding
   after EVERY history (no hypothesis). With InvM / InvR: SignalNames of a message = the signals of its layout
   tree, the names a multiplexer holds = the signals whose parent it is. *)
Theorem names_invariant_step : forall s o, InvN s -> InvN (fst (step s o)).
Proof. exact invn_step. Qed.
Print Assumptions names_invariant_step.

Theorem names_invariant_reachable : forall ops, InvN (run ops).
Proof. exact invn_reachable. Qed.
Print Assumptions names_invariant_reachable.

Theorem message_names_are_tree : forall s m x, InvA s -> InvM s -> InvR s -> InvN s ->
  (memb x (gnames s m) = true <-> in_tree s m x).
Proof. exact names_are_tree. Qed.
Print Assumptions message_names_are_tree.

Theorem mux_names_are_members : forall s u x, InvM s -> InvN s -> (memb x (unames s u) = true <-> pmux s x = Some u).
Proof. exact ProofsNames.mux_names_are_members. Qed.
Print Assumptions mux_names_are_members.

(* acceptance of the detaching operations of a multiplexer: RemoveSignal exactly for a member, ClearSignalGroup
   exactly for a group id of the multiplexer (its loop never reaches the panic branch) *)
Theorem mux_remove_accepted_iff : forall s u x, InvM s ->
  (is_ok (snd (step_mux_remove s u x)) <-> pmux s x = Some u).
Proof. exact ProofsTotal.mux_remove_accepted_iff. Qed.
Print Assumptions mux_remove_accepted_iff.

Theorem mux_clear_group_accepted_iff : forall s u g, InvA s -> InvM s -> vmux s u = true ->
  (is_ok (snd (step_mux_clear_group s u g)) <-> 0 <= g < mux_count s u).
Proof. exact ProofsTotal.mux_clear_group_accepted_iff. Qed.
Print Assumptions mux_clear_group_accepted_iff.

(* no operation on a multiplexer panics, and a refused one changes nothing (all 29 operations: Properties/C01.v) *)
Theorem mux_no_panic : forall s o, InvA s -> InvM s -> InvR s -> ok_op_f s o -> snd (step s o) <> RPanic.
Proof. exact ProofsTotal.no_panic. Qed.
Print Assumptions mux_no_panic.
