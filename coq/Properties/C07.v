(* C07 - property theorems (statements only; the proofs live in Acme.C07.ProofsXxx). *)
From Coq Require Import ZArith List.
From Acme.C01 Require Import Layout State Model.
From Acme.C07 Require Import Model.

(* A multiplexer's size is its group size plus the selector width for its group count. *)
Theorem mux_size : forall s u c g, kind s u = KMux c g -> sz s u = (g + selw c)%Z.
Proof. intros s u c g H. unfold sz. rewrite H. reflexivity. Qed.
Print Assumptions mux_size.
