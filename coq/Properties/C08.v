(* C08 — property theorems (statements only; proofs live in Acme.C08.Proofs...). *)
From Coq Require Import NArith List.
From Acme.C08 Require Import DbcAst Chars DbcLex DbcParse DbcWrite Expr ProofsLex ProofsLexPrint.
Import ListNotations.

(* every scan consumes a prefix of the remaining text *)
Theorem scan_consumes_prefix : forall ud c r k w rest, scan_after ud c r = (k, w, rest) -> r = w ++ rest.
Proof. exact ProofsLex.scan_after_split. Qed.
Print Assumptions scan_consumes_prefix.

(* lex_print_tokens: for every list of writer pieces (tokens and blanks) in which every token is
   well formed for its kind and is followed by a blank or punctuation that cannot be glued to it
   ([pok]), the parser's view of the rendered text is exactly the printed tokens, then end of
   input — for every extension [ud] of the digit class outside ASCII. *)
Theorem lex_print_tokens : forall ud, ud_ok ud -> forall ps, pok ps [] ->
  tokens_of_text ud (render ps) = Some (toks_of ps ++ [eof_tok]).
Proof. exact ProofsLexPrint.lex_print_tokens. Qed.
Print Assumptions lex_print_tokens.
