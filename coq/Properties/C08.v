(* C08 — property theorems (statements only; proofs live in Acme.C08.Proofs...).

   Model: coq/C08/DbcAst.v (document), DbcLex.v (scanner.go), DbcParse.v (parser.go), DbcWrite.v
   (writer.go).  [ud] is unicode.IsDigit outside ASCII (a parameter; the theorems hold for every
   [ud] that is false on ASCII), [fmt]/[prs] are the strconv float oracles with the two laws
   [oracle_ok] (round trip and 'f' shape), [hex] is the number mode.  [wf_file] is "expressible in
   the DBC grammar" made precise (coq/C08/ProofsSections.v, ProofsFile.v): identifiers
   [A-Za-z][A-Za-z0-9_-]* that scanText classifies as identifiers, quote- and NUL-free strings,
   blank-free attribute names, uint32 / int64 ranges, finite floats, NS_ symbols from the format's
   list, at least one receiver / access node / range.  [norm_file] fills the writer's header
   defaults and reads numeric attribute literals back ("compared by value"). *)
From Coq Require Import NArith ZArith List.
From Acme.C08 Require Import DbcAst Chars DbcLex DbcParse DbcWrite Expr ProofsLex ProofsLexPrint ProofsFormat
  ProofsSections ProofsFile ProofsPok ProofsGood ProofsRoundTrip Examples.
Import ListNotations.
From Acme.C10 Require DbcDoc Export.
From Acme.C08 Require BridgeC10.

(* every scan consumes a prefix of the remaining text *)
Theorem scan_consumes_prefix : forall ud c r k w rest, scan_after ud c r = (k, w, rest) -> r = w ++ rest.
Proof. exact ProofsLex.scan_after_split. Qed.
Print Assumptions scan_consumes_prefix.

(* lex_print_tokens: for every list of writer pieces (tokens and blanks) in which every token is
   well formed for its kind and is followed by a blank or punctuation that cannot be glued to it
   ([pok]), the parser's view of the rendered text is exactly the printed tokens, then end of
   input. *)
Theorem lex_print_tokens : forall ud, ud_ok ud -> forall ps, pok (peek_digits ud) ps [] ->
  tokens_of_text ud (render ps) = Some (toks_of ps ++ [eof_tok]).
Proof. exact ProofsLexPrint.lex_print_tokens. Qed.
Print Assumptions lex_print_tokens.

(* the writer's pieces of an expressible document satisfy that condition *)
Theorem write_lexable : forall up, ud_ok up -> forall fmt prs hex, oracle_ok fmt prs -> forall f, wf_file up f -> pok up (w_file fmt hex f) [].
Proof. exact ProofsPok.pok_file. Qed.
Print Assumptions write_lexable.

(* token level: the section loop over the printed tokens returns the document's entries *)
Theorem parse_write_tokens : forall up fmt prs hex, oracle_ok fmt prs -> forall f, wf_file up f ->
  exists items,
    parse_loop prs hex (S (length (toks_of (w_file fmt hex f) ++ [eof_tok]))) fl0 (toks_of (w_file fmt hex f) ++ [eof_tok]) = ROk items /\
    assemble items = norm_file fmt hex f.
Proof. exact ProofsFile.parse_write_tokens. Qed.
Print Assumptions parse_write_tokens.

(* parse_write (all 19 sections, both number modes): parsing the written text of an expressible
   document succeeds and returns the document with header defaults filled in and numeric
   attribute literals in read-back form *)
Theorem parse_write : forall ud fmt prs hex, ud_ok ud -> oracle_ok fmt prs -> forall f, wf_file (peek_digits ud) f ->
  parse ud prs hex (write fmt hex f) = OOk (norm_file fmt hex f).
Proof. exact ProofsRoundTrip.parse_write. Qed.
Print Assumptions parse_write.

(* ... which is a document equivalent to the original (equal after [norm_file], idempotent) *)
Theorem parse_write_equiv : forall ud fmt prs hex, ud_ok ud -> oracle_ok fmt prs -> forall f, wf_file (peek_digits ud) f ->
  exists f', parse ud prs hex (write fmt hex f) = OOk f' /\ equiv fmt hex f' f.
Proof. exact ProofsRoundTrip.parse_write_equiv. Qed.
Print Assumptions parse_write_equiv.

(* parse_output_expressible: every document the parser returns is expressible (identifier and
   string tokens are well formed by construction of the lexer, numbers are range-checked by the
   conversions, lists the grammar requires non-empty are non-empty); the float oracle must return
   finite values on texts that do not spell a special value ([not_special]: after an optional sign
   the text does not start with a letter — strconv.ParseFloat returns +-Inf / NaN without error
   only for inf / infinity / nan; an out-of-range number such as 1e999 is an error); every number
   token the lexer emits is such a text (proved), and the law is asserted on every token of every
   case by the harness *)
Theorem parse_output_expressible : forall ud prs hex, ud_ok ud ->
  (forall v b, not_special v = true -> prs v = Some b -> fin b = true) ->
  forall t f, parse ud prs hex t = OOk f -> wf_file (peek_digits ud) f.
Proof. exact ProofsGood.parse_output_expressible. Qed.
Print Assumptions parse_output_expressible.

(* parse_write_parse (second half of the property, full): for every accepted text, writing the
   parsed document and parsing it again yields an equivalent document *)
Theorem parse_write_parse : forall ud fmt prs hex, ud_ok ud -> oracle_ok fmt prs ->
  (forall v b, not_special v = true -> prs v = Some b -> fin b = true) ->
  forall t f, parse ud prs hex t = OOk f ->
  exists f', parse ud prs hex (write fmt hex f) = OOk f' /\ equiv fmt hex f' f.
Proof. exact ProofsRoundTrip.parse_write_parse. Qed.
Print Assumptions parse_write_parse.

(* the same without any equivalence: the re-parsed document is exactly [norm_file f], and a
   second round trip changes nothing more *)
Theorem parse_write_parse_exact : forall ud fmt prs hex, ud_ok ud -> oracle_ok fmt prs ->
  (forall v b, not_special v = true -> prs v = Some b -> fin b = true) ->
  forall t f, parse ud prs hex t = OOk f ->
  parse ud prs hex (write fmt hex f) = OOk (norm_file fmt hex f) /\
  parse ud prs hex (write fmt hex (norm_file fmt hex f)) = OOk (norm_file fmt hex f).
Proof. exact ProofsRoundTrip.parse_write_parse_exact. Qed.
Print Assumptions parse_write_parse_exact.

(* what the equivalence forgets, exactly: [norm_file f = f] iff the version is not empty, NS_ / BS_ /
   BU_ are present, and every numeric attribute literal is in read-back form ([val_fixed]: an INT or
   a string; a HEX only in hex mode; a FLOAT only if its decimal text has a fraction or does not
   fit int64).  Nothing else is touched: every other section comes back identical. *)
Theorem norm_file_fixed : forall fmt hex f, norm_file fmt hex f = f <-> file_fixed fmt hex f.
Proof. exact ProofsRoundTrip.norm_file_fixed. Qed.
Print Assumptions norm_file_fixed.

(* exact equality does fail in each of these ways (model witnesses, replayed on the Go code by the
   harness: signatures c08-exact-version / the header and literal-form cases are evaluated under the
   property's "compared by value" and the writer's documented header completion, see NOTES.md) *)
Theorem version_exact_refuted :
  exists f f', parse_text txt_empty_version = OOk f /\ reparse (OOk f) = OOk f' /\
               f_version f = [] /\ f_version f' = underscore_str /\ f' <> f.
Proof. exact Examples.version_exact_refuted. Qed.
Print Assumptions version_exact_refuted.

Theorem header_exact_refuted :
  exists f f', parse_text txt_no_header = OOk f /\ reparse (OOk f) = OOk f' /\
               f_ns f = None /\ f_ns f' = Some new_symbols_values /\ f_bs f = None /\ f_bs f' <> None /\ f_bu f = None /\ f_bu f' = Some [].
Proof. exact Examples.header_exact_refuted. Qed.
Print Assumptions header_exact_refuted.

Theorem float_retyped_exact_refuted :
  exists f f', parse_text txt_float_literal = OOk f /\ reparse (OOk f) = OOk f' /\
               map av_value (f_avs f) = [AVFloat 5] /\ map av_value (f_avs f') = [AVInt 5%Z].
Proof. exact Examples.float_retyped_exact_refuted. Qed.
Print Assumptions float_retyped_exact_refuted.

(* what [wf_file] ("identifiers and strings expressible in the DBC grammar") leaves out is left out because the
   writer's text of such a document is not read back as the document: one smallest document per exclusion, decided
   by evaluation of the model; [doc_inside] has the same shape inside [wf_file] and does round-trip
   (round_trips f := parse (write f) = OOk (norm_file f), toy oracle) *)
Theorem wf_file_exclusions_refuted :
  round_trips doc_inside /\
  ~ round_trips doc_ident_underscore /\ ~ round_trips doc_ident_m1 /\ ~ round_trips doc_ident_M /\
  ~ round_trips doc_ident_keyword /\ ~ round_trips doc_no_receivers /\ ~ round_trips doc_no_access_nodes /\
  ~ round_trips doc_no_ranges /\ ~ round_trips doc_foreign_symbol /\ ~ round_trips doc_blank_attr_name /\
  ~ round_trips doc_quote_in_string /\ ~ round_trips doc_nul_in_string.
Proof. exact Examples.wf_file_exclusions_refuted. Qed.
Print Assumptions wf_file_exclusions_refuted.

(* the two float cases of the FLOAT -> INT re-typing: -0.0 comes back as the INT 0 (equal as numbers, the sign of
   the zero is gone); 2^60, printed by its shortest decimal, comes back as the INT 1152921504606847000 (the same
   double when converted back, another integer) - with an oracle printing these two values like strconv does *)
Theorem negative_zero_and_large_float_retyped :
  (exists f', parse no_ud toy_prs false (write strconv_like_fmt false (with_value (AVFloat neg_zero_bits))) = OOk f'
              /\ map av_value (f_avs f') = [AVInt 0%Z]) /\
  (exists f', parse no_ud toy_prs false (write strconv_like_fmt false (with_value (AVFloat two_pow_60_bits))) = OOk f'
              /\ map av_value (f_avs f') = [AVInt 1152921504606847000%Z] /\ (1152921504606847000 <> 2 ^ 60)%Z).
Proof. exact Examples.negative_zero_and_large_float_retyped. Qed.
Print Assumptions negative_zero_and_large_float_retyped.

(* the hypotheses are satisfiable: an oracle pair with the two laws, a document over several
   sections (multiplexing, extended mux, every attribute value form) that is expressible, and its
   round trip evaluated in both number modes *)
Theorem oracle_laws_satisfiable : oracle_ok toy_fmt toy_prs /\ (forall v b, not_special v = true -> toy_prs v = Some b -> fin b = true).
Proof. exact (conj Examples.toy_oracle_ok Examples.toy_prs_finite). Qed.
Print Assumptions oracle_laws_satisfiable.

Theorem expressible_satisfiable : wf_file no_ud sample_file.
Proof. exact Examples.sample_file_wf. Qed.
Print Assumptions expressible_satisfiable.

Theorem sample_round_trip :
  parse no_ud toy_prs false (write toy_fmt false sample_file) = OOk (norm_file toy_fmt false sample_file)
  /\ parse no_ud toy_prs true (write toy_fmt true sample_file) = OOk (norm_file toy_fmt true sample_file).
Proof. exact Examples.sample_round_trip. Qed.
Print Assumptions sample_round_trip.

(* ---- bridge to the C10/C11 stream (coq/C08/BridgeC10.v) ----
   Their model of the exporter's document (Acme.C10.DbcDoc.doc) embedded into this AST; their
   "names_ok"-style proviso stated on their type; and their ASSUMED effect of dbc.Write + dbc.Parse
   (Acme.C10.Export.text_roundtrip) derived from parse_write. *)
Theorem exporter_expressible : forall fb up, (forall f, fin (fb f) = true) ->
  forall d, BridgeC10.doc_ok up d -> wf_file up (BridgeC10.doc_to_file fb d).
Proof. exact BridgeC10.doc_to_file_wf. Qed.
Print Assumptions exporter_expressible.

Theorem exporter_sections_round_trip : forall (fb : DbcDoc.fl -> N) ud fmt prs hex,
  ud_ok ud -> oracle_ok fmt prs -> (forall f, fin (fb f) = true) ->
  forall d, BridgeC10.doc_ok (peek_digits ud) d ->
  parse ud prs hex (write fmt hex (BridgeC10.doc_to_file fb d)) = OOk (norm_file fmt hex (BridgeC10.doc_to_file fb d)).
Proof. exact BridgeC10.exporter_round_trip. Qed.
Print Assumptions exporter_sections_round_trip.

(* ... and that result is their text_roundtrip d (decimal mode), under the two facts about the
   'f' text of integral doubles up to 2^53 that their model uses *)
Theorem text_roundtrip_is_norm : forall (fb : DbcDoc.fl -> N) (fmt : N -> str),
  (forall f, DbcDoc.fl_is_decimal f = true -> has_dot (fmt (fb f)) = true) ->
  (forall f, DbcDoc.fl_is_decimal f = false -> (Z.abs (Export.fl_to_Z f) <= 9007199254740992)%Z ->
             fmt (fb f) = format_int (Export.fl_to_Z f)) ->
  forall d, BridgeC10.defs_small d ->
  let n := norm_file fmt false (BridgeC10.doc_to_file fb d) in
  let t := BridgeC10.doc_to_file fb (Export.text_roundtrip d) in
  f_afs n = f_afs t /\ f_avs n = f_avs t /\
  f_bu n = f_bu t /\ f_vts n = f_vts t /\ f_msgs n = f_msgs t /\ f_cms n = f_cms t /\ f_ads n = f_ads t /\
  f_ves n = f_ves t /\ f_xms n = f_xms t /\
  f_txs n = [] /\ f_evs n = [] /\ f_eds n = [] /\ f_sts n = [] /\ f_srs n = [] /\ f_sgs n = [] /\ f_svs n = [].
Proof. exact BridgeC10.text_roundtrip_is_norm. Qed.
Print Assumptions text_roundtrip_is_norm.
