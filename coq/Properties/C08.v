(* C08 — property theorems (statements only; proofs live in Acme.C08.Proofs...). *)
From Coq Require Import NArith List.
From Acme.C08 Require Import DbcAst Chars DbcLex DbcParse DbcWrite ProofsLex.
Import ListNotations.

(* every scan consumes a prefix of the remaining text *)
Theorem scan_consumes_prefix : forall ud c r k w rest, scan_after ud c r = (k, w, rest) -> r = w ++ rest.
Proof. exact ProofsLex.scan_after_split. Qed.
Print Assumptions scan_consumes_prefix.
