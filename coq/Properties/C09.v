(* C09 — property theorems (statements only; proofs live in Acme.C08.Proofs...).
   The model of dbc.Parse (lexer DbcLex + parser DbcParse) is total with explicit fuel bounds, and
   every syntax error carries the recorded start of a token, a position inside the text.
   That the Go code itself has no panic / hang is exhibited by the harness only (partial by nature). *)
From Coq Require Import NArith List.
From Acme.C08 Require Import DbcAst Chars DbcLex DbcParse ProofsLex ProofsPos ProofsTotal.
Import ListNotations.
Local Open Scope N_scope.

(* lex_fuel_enough: fuel = |text| + 1 suffices, every scan consumes at least one character *)
Theorem lex_fuel_enough : forall ud fuel inp p start,
  (length inp < fuel)%nat -> exists ts, lex_fuel ud fuel inp p start = Some ts.
Proof. exact ProofsLex.lex_fuel_enough. Qed.
Print Assumptions lex_fuel_enough.

Theorem lex_total : forall ud text, exists ts, lex ud text = Some ts.
Proof. exact ProofsLex.lex_total. Qed.
Print Assumptions lex_total.

(* parse_fuel_enough: fuel = |tokens| + 1 suffices, every iteration of the file loop consumes
   at least the section keyword and every section parser returns a suffix of its input *)
Theorem parse_fuel_enough : forall prs hex fuel fl ts,
  (length ts < fuel)%nat -> parse_loop prs hex fuel fl ts <> ROutOfFuel.
Proof. exact ProofsTotal.parse_loop_fuel. Qed.
Print Assumptions parse_fuel_enough.

Theorem parse_total : forall ud prs hex text, parse ud prs hex text <> OOutOfFuel.
Proof. exact ProofsTotal.parse_total. Qed.
Print Assumptions parse_total.

(* every token start is the scanner's position after a prefix of the text *)
Theorem token_positions_inside : forall ud text ts, lex ud text = Some ts ->
  Forall (fun t => valid_pos text (rt_line t, rt_col t)) ts.
Proof. exact ProofsPos.lex_positions. Qed.
Print Assumptions token_positions_inside.

(* error_position_spec: a syntax error names the recorded start of a token of the text; that is
   the scanner's position after some prefix of the text *)
Theorem error_position_spec : forall ud prs hex text l c,
  parse ud prs hex text = OSyntax l c ->
  valid_pos text (l, c) /\
  (exists raw t, lex ud text = Some raw /\ In t raw /\ (rt_line t, rt_col t) = (l, c)).
Proof. exact ProofsPos.error_position_spec. Qed.
Print Assumptions error_position_spec.

(* ... which in numbers means: 1 <= line <= 1 + newlines of the text, col <= 5 per character *)
Theorem error_position_bounds : forall text l c, valid_pos text (l, c) ->
  1 <= l /\ l <= 1 + count_nl text /\ c <= 5 * N.of_nat (length text).
Proof. exact ProofsPos.valid_pos_bounds. Qed.
Print Assumptions error_position_bounds.
