(* C09 — property theorems (statements only; proofs live in Acme.C08.Proofs...).
   The model of dbc.Parse (lexer DbcLex + parser DbcParse) is total with explicit fuel bounds, and
   every syntax error carries the recorded start of a token, a position inside the text.
   That the Go code itself has no panic / hang is exhibited by the harness only (partial by nature). *)
From Coq Require Import NArith ZArith List.
From Acme.C08 Require Import DbcAst Chars DbcLex DbcParse ProofsLex ProofsPos ProofsTotal ProofsErrPos ProofsPrefix.
From Acme.C09 Require Import ImportSkeleton ImportProofs ImportPanics.
Import ListNotations.
Local Open Scope N_scope.

(* lex_fuel_enough: fuel = |text| + 1 suffices, every scan consumes at least one character *)
Theorem lex_fuel_enough : forall ud fuel inp p start,
  (length inp < fuel)%nat -> exists ts, lex_fuel ud fuel inp p start = Some ts.
Proof. exact ProofsLex.lex_fuel_enough. Qed.
Print Assumptions lex_fuel_enough.

Theorem lex_total : forall ud text, exists ts, lex ud text = Some ts.
Proof. exact ProofsLex.lex_total. Qed.
Print Assumptions lex_total.

(* parse_fuel_enough: fuel = |tokens| + 1 suffices, every iteration of the file loop consumes
   at least the section keyword and every section parser returns a suffix of its input *)
Theorem parse_fuel_enough : forall prs hex fuel fl ts,
  (length ts < fuel)%nat -> parse_loop prs hex fuel fl ts <> ROutOfFuel.
Proof. exact ProofsTotal.parse_loop_fuel. Qed.
Print Assumptions parse_fuel_enough.

Theorem parse_total : forall ud prs hex text, parse ud prs hex text <> OOutOfFuel.
Proof. exact ProofsTotal.parse_total. Qed.
Print Assumptions parse_total.

(* every token start is the scanner's position after a prefix of the text *)
Theorem token_positions_inside : forall ud text ts, lex ud text = Some ts ->
  Forall (fun t => valid_pos text (rt_line t, rt_col t)) ts.
Proof. exact ProofsPos.lex_positions. Qed.
Print Assumptions token_positions_inside.

(* error_position_spec: a syntax error names the recorded start of a token of the text; that is
   the scanner's position after some prefix of the text *)
Theorem error_position_spec : forall ud prs hex text l c,
  parse ud prs hex text = OSyntax l c ->
  valid_pos text (l, c) /\
  (exists raw t, lex ud text = Some raw /\ In t raw /\ (rt_line t, rt_col t) = (l, c)).
Proof. exact ProofsPos.error_position_spec. Qed.
Print Assumptions error_position_spec.

(* a syntax error is raised with the number of tokens left, the rejected token first; that number
   never exceeds the tokens given (per parser: *_eb, 40 lemmas) *)
Theorem error_index_in_range : forall prs hex fuel fl ts n,
  parse_loop prs hex fuel fl ts = RSyntax n -> (n <= length ts)%nat.
Proof. exact ProofsErrPos.parse_loop_eb. Qed.
Print Assumptions error_index_in_range.

(* error_position_offending: the reported position is the recorded start of the FIRST token the
   parser had not consumed when it rejected (the head of the remaining tokens: everything before
   it was consumed by the sections already parsed), and the end-of-input position exactly when all
   tokens had been consumed *)
Theorem error_position_offending : forall ud prs hex text l c,
  parse ud prs hex text = OSyntax l c ->
  exists raw consumed remaining,
    lex ud text = Some raw /\ pfilter raw = consumed ++ remaining /\
    parse_loop prs hex (S (length (map strip (pfilter raw)))) {| fl_ver := false; fl_ns := false; fl_bu := false |}
               (map strip (pfilter raw)) = RSyntax (length remaining) /\
    (l, c) = match remaining with
             | t :: _ => (rt_line t, rt_col t)
             | [] => match last_opt (pfilter raw) with Some t => (rt_line t, rt_col t) | None => (1, 0) end
             end.
Proof. exact ProofsErrPos.error_position_offending. Qed.
Print Assumptions error_position_offending.

(* The reported token is pinned by prefix determinism (ProofsPrefix: [local] for every section parser,
   every loop and the file loop).  [err_index] is the index of the token the error is raised at;
   [error_position_index] ties the line and column of dbc.Parse to it. *)
Theorem error_position_index : forall ud prs hex text l c,
  parse ud prs hex text = OSyntax l c ->
  exists raw i, lex ud text = Some raw /\ err_index prs hex (map strip (pfilter raw)) = Some i /\
    (l, c) = match nth_error (pfilter raw) i with
             | Some t => (rt_line t, rt_col t)
             | None => match last_opt (pfilter raw) with Some t => (rt_line t, rt_col t) | None => (1, 0) end
             end.
Proof. exact ProofsPrefix.error_position_index. Qed.
Print Assumptions error_position_index.

(* every token list sharing the tokens up to and including the offending one fails at that token *)
Theorem error_token_determined : forall prs hex ts i, err_index prs hex ts = Some i -> (i < length ts)%nat ->
  forall ts', firstn (S i) ts' = firstn (S i) ts -> err_index prs hex ts' = Some i.
Proof. exact ProofsPrefix.error_index_determined. Qed.
Print Assumptions error_token_determined.

(* no token list sharing the tokens before the offending one is rejected at an earlier token: the
   offending token is the first at which the prefix stops being acceptable *)
Theorem error_token_first : forall prs hex ts i, err_index prs hex ts = Some i ->
  forall ts' j, firstn i ts' = firstn i ts -> err_index prs hex ts' = Some j -> (i <= j)%nat.
Proof. exact ProofsPrefix.error_index_first. Qed.
Print Assumptions error_token_first.

(* ... which in numbers means: 1 <= line <= 1 + newlines of the text, col <= 5 per character *)
Theorem error_position_bounds : forall text l c, valid_pos text (l, c) ->
  1 <= l /\ l <= 1 + count_nl text /\ c <= 5 * N.of_nat (length text).
Proof. exact ProofsPos.valid_pos_bounds. Qed.
Print Assumptions error_position_bounds.

(* ---- the importer's counter loops (model coq/C09/ImportSkeleton.v) ----
   All other loops of importer.go range over slices / maps of the parsed document (one iteration per
   element); the two counter loops are modelled with the uint32 wrap written out. *)

(* import_fuel_enough / import_total for the extended-multiplexing range expansion after the
   repairs b2ffdf4, f52045e, c48347e: it terminates with an error or a result for every list of
   uint32 ranges and every multiplexer with fewer than 2^32 groups, within groupCount + 1
   iterations per range, and a result holds at most groupCount ids *)
Theorem import_ranges_total : forall ranges gc,
  gc < 4294967296 -> Forall (fun r => u32 (fst r) /\ u32 (snd r)) ranges ->
  match expand_signal ranges gc with
  | XOk _ ids => (length ids <= N.to_nat gc)%nat
  | XErr _ => True
  | XFuel => False
  end.
Proof. exact ImportProofs.import_ranges_total. Qed.
Print Assumptions import_ranges_total.

(* the loop as it was before b2ffdf4 (D26): with To = 2^32 - 1 no fuel is enough *)
Theorem import_range_loop_refuted : forall fuel from ids, u32 from ->
  expand_range_unguarded fuel from 4294967295 ids = None.
Proof. exact ImportProofs.import_range_loop_refuted. Qed.
Print Assumptions import_range_loop_refuted.

(* importer.go:645, for j := n - 1; j >= 0; j-- : exactly max(n,0) iterations *)
Theorem import_countdown_total : forall n : Z, countdown (S (Z.to_nat n)) (n - 1) 0 = Some (Z.to_nat n).
Proof. exact ImportProofs.countdown_total. Qed.
Print Assumptions import_countdown_total.

(* ---- the panic(err) statements at the end of importFile (importer.go), over the model of the importer
   (coq/C10/Import.v, whose outcome the harness compares with ImportDBCFile on every run): when the steps
   before the last one succeed, the bus holds exactly one node with the placeholder name, so the lookup
   finds it and the removal has something to remove *)
Theorem import_placeholder_present : forall d b, Acme.C10.Import.import d = Acme.C10.BusModel.Ok b ->
  exists sm b0 b1,
    Acme.C10.Import.import_attributes sm d b0 = Acme.C10.BusModel.Ok b1 /\
    In Acme.C10.DbcDoc.dummy_node (map Acme.C10.BusModel.n_name (Acme.C10.BusModel.b_nodes b1)) /\
    count_occ String.string_dec (map Acme.C10.BusModel.n_name (Acme.C10.BusModel.b_nodes b1)) Acme.C10.DbcDoc.dummy_node = 1%nat /\
    b = (if existsb (fun m => String.eqb (Acme.C10.BusModel.m_sender m) Acme.C10.DbcDoc.dummy_node) (Acme.C10.BusModel.b_messages b1) then b1
         else Acme.C10.Import.set_b_nodes b1
                (filter (fun n => negb (String.eqb (Acme.C10.BusModel.n_name n) Acme.C10.DbcDoc.dummy_node)) (Acme.C10.BusModel.b_nodes b1))).
Proof. exact ImportPanics.placeholder_present_before_removal. Qed.
Print Assumptions import_placeholder_present.
