(* C10 — property theorems (statements only; proofs live in Acme.C10.Proofs / BitsProofs).
   Model: Acme.C10.{DbcDoc,BusModel,Import,Bits}.  `import : doc -> result bus`.
   Signal faithfulness as ONE statement: import_faithful_full (every signal of every message, multiplexed or
   not, at every nesting depth: name, absolute position, size, comment, kind, enum values of the last VAL_ line
   or the standard type data) for documents whose multiplexor switches have a non-negative size (the parser's
   sizes are unsigned; the model's documents carry integers).  It supersedes
   Acme.C10.Proofs.import_signal_faithful_full_statement, which lacked that hypothesis (for a negative switch
   size the model accepts the document and the selector width differs from the size) and described the last
   VAL_ line by a mis-stated list equation; the clause theorems below (import_signal_faithful_partial: messages
   without switch, ...) are kept. *)
From Coq Require Import String ZArith List.
From Acme.C10 Require Import DbcDoc BusModel Import Bits BitsProofs Proofs ProofsEnum ProofsLayout ProofsFaithful ProofsMux ProofsExtMux ProofsDecode ProofsIds ProofsEnumMux ProofsAttrs ProofsAttrsAll ProofsTraverse ProofsAttrsSig ProofsExtAbs ProofsGroups ProofsDecodeMux ProofsAttrsExact ProofsSigMap ProofsAttrsSigExact ProofsFull.
Import ListNotations.
Open Scope Z_scope.

(* importer.getSignalStartBit and exporter.getStartBit are mutually inverse *)
Theorem start_bit_inverse :
  forall o p, 0 <= p -> pos_of_dbc o (dbc_of_pos o p) = p /\ dbc_of_pos o (pos_of_dbc o p) = p.
Proof. exact Proofs.start_bit_inverse. Qed.
Print Assumptions start_bit_inverse.

(* bit-level kernel of the decode clause (no `import` in it; the statement over the imported signal is
   import_decode_dbc_imported below): the library's raw value of a signal at the position the importer
   computes = the raw value an independent interpreter of the DBC Intel/Motorola numbering reads *)
Theorem import_decode_dbc : forall ds data,
  0 <= ds_start ds -> 1 <= ds_size ds -> get_start_bit ds + ds_size ds <= 64 ->
  d08_excluded (ds_order ds) (get_start_bit ds) (ds_size ds) = false ->
  go_raw (ds_order ds) (get_start_bit ds) (ds_size ds) data
  = dbc_raw (ds_order ds) (ds_start ds) (ds_size ds) data.
Proof. exact Proofs.import_decode_dbc. Qed.
Print Assumptions import_decode_dbc.

(* the excluded placements (big endian, one byte, asymmetric: D08) really disagree *)
Theorem import_decode_dbc_refuted : exists o pos size data,
  0 <= pos /\ 1 <= size /\ pos + size <= 64 /\ d08_excluded o pos size = true /\
  go_raw o pos size data <> dbc_raw o (dbc_of_pos o pos) size data.
Proof. exact BitsProofs.go_raw_d08_refuted. Qed.
Print Assumptions import_decode_dbc_refuted.

(* exactly the file's nodes in order, plus the placeholder sender when a message names none *)
Theorem import_nodes : forall d b, import d = Ok b ->
  map n_name (b_nodes b) =
  filter not_dummy (d_nodes d)
  ++ (if existsb (fun dm => String.eqb (dm_tx dm) dummy_node) (d_messages d) then [dummy_node] else []).
Proof. exact Proofs.import_nodes_thm. Qed.
Print Assumptions import_nodes.

(* message by message: CAN-ID, name, byte size, sender, receivers, byte order *)
Theorem import_messages : forall d b, import d = Ok b ->
  map msg_head (b_messages b) = map dmsg_head (d_messages d).
Proof. exact Proofs.import_messages_heads. Qed.
Print Assumptions import_messages.

(* ... where the receivers are the union of the signals' receivers (placeholder excluded) *)
Theorem import_receivers_union : forall dm r,
  In r (recs_of dm) <-> r <> dummy_node /\ exists s, In s (dm_signals dm) /\ In r (ds_receivers s).
Proof. exact Proofs.recs_of_spec. Qed.
Print Assumptions import_receivers_union.

(* signals of messages without multiplexor switch: name, position, comment, and the file's
   signedness / factor / offset / minimum / maximum / unit, or kind enum with a value table *)
Theorem import_signal_faithful_partial : forall d b, import d = Ok b ->
  exists se,
    (forall k, (exists e, lookup key_eqb k se = Some e) <-> has_valenc d k) /\
    Forall2 (msg_faithful (doc_env d se)) (d_messages d) (b_messages b).
Proof. exact Proofs.import_signal_faithful. Qed.
Print Assumptions import_signal_faithful_partial.

(* invariants over the plain model: node names and CAN-IDs unique, sender and receivers are nodes
   of the bus, at most 8 bytes *)
Theorem import_valid : forall d b, import d = Ok b ->
  NoDup (map n_name (b_nodes b)) /\ NoDup (map m_canid (b_messages b)) /\
  Forall (msg_valid (map n_name (b_nodes b))) (b_messages b).
Proof. exact Proofs.import_valid. Qed.
Print Assumptions import_valid.

(* enum signals of messages without multiplexor switch: kind enum, exactly the values of the
   signal's (last) VAL_ line, and the file's size, read in the final enum table *)
Theorem import_enum_faithful : forall d b, import d = Ok b ->
  exists se : list (key * Z),
    (forall k, (exists e, lookup key_eqb k se = Some e) <-> has_valenc d k) /\
    Forall2 (fun dm m => no_muxor dm ->
      Forall2 (fun ds s =>
        forall ei0, lookup key_eqb (dm_id dm, ds_name ds) se = Some ei0 ->
          exists vals, last_valenc (d_valencs d) (dm_id dm, ds_name ds) = Some vals /\
            s_kind s = KEnum /\
            sorted_enum_values (nth_enum (b_enums b) (s_enum s)) = vals /\
            sig_size (b_enums b) s = ds_size ds)
        (sorted_signals dm) (m_signals m))
      (d_messages d) (b_messages b).
Proof. exact ProofsFaithful.import_enum_faithful. Qed.
Print Assumptions import_enum_faithful.

(* layout validity over the plain model, every message (multiplexed ones included): the top-level
   signals lie inside the payload and are pairwise disjoint, sizes read in the final enum table *)
Theorem import_layout_valid : forall d b, import d = Ok b ->
  Forall (fun m => tops_valid (b_enums b) (m_size m * 8) (m_signals m)) (b_messages b).
Proof. exact ProofsLayout.import_layout_valid. Qed.
Print Assumptions import_layout_valid.

(* signal faithfulness, the whole statement: every signal `ds` of every message of the file is in the imported
   message - by name - at the file's absolute position, with the file's size (selector width for a switch) and its
   CM_ comment; a switch is a multiplexer; with a VAL_ line: an enum signal whose enum in the final table holds
   the values of the LAST such line (sorted by index); without: a standard signal with the file's sign, factor,
   offset, minimum, maximum and unit.  `se` is the importer's map of signals with a VAL_ line *)
Theorem import_faithful_full : forall d b, switch_sizes_ok d -> import d = Ok b ->
  exists se, (forall k, (exists e, lookup key_eqb k se = Some e) <-> has_valenc d k) /\
    Forall2 (fun dm m => forall ds, In ds (dm_signals dm) -> faithful_sig d b se dm m ds) (d_messages d) (b_messages b).
Proof. exact ProofsFull.import_faithful_full. Qed.
Print Assumptions import_faithful_full.

(* C10 as ONE statement: a successful import is a faithful AND valid model of the file - the nodes and message heads
   of the file, every signal of every message as in import_faithful_full; node names and CAN-IDs unique, sender
   and receivers resolved, sizes in range (`msg_valid`), signal names and ids unique at every depth, the top-level
   layout inside the payload and disjoint, the layout inside every multiplexer valid at every depth (the decode
   and attribute clauses are the theorems further down) *)
Theorem import_faithful_valid : forall d b, switch_sizes_ok d -> import d = Ok b ->
  map n_name (b_nodes b) =
    filter not_dummy (d_nodes d) ++ (if existsb (fun dm => String.eqb (dm_tx dm) dummy_node) (d_messages d) then [dummy_node] else []) /\
  map msg_head (b_messages b) = map dmsg_head (d_messages d) /\
  (exists se, (forall k, (exists e, lookup key_eqb k se = Some e) <-> has_valenc d k) /\
     Forall2 (fun dm m => forall ds, In ds (dm_signals dm) -> faithful_sig d b se dm m ds) (d_messages d) (b_messages b)) /\
  NoDup (map n_name (b_nodes b)) /\ NoDup (map m_canid (b_messages b)) /\
  Forall (msg_valid (map n_name (b_nodes b))) (b_messages b) /\
  Forall2 (fun dm m => names_ids_ok dm (m_signals m)) (d_messages d) (b_messages b) /\
  Forall (fun m => tops_valid (b_enums b) (m_size m * 8) (m_signals m)) (b_messages b) /\
  Forall (fun m => groups_valid (b_enums b) (m_signals m)) (b_messages b).
Proof. exact ProofsFull.import_faithful_valid. Qed.
Print Assumptions import_faithful_valid.

(* messages with exactly one multiplexor switch (simple multiplexing, SG_MUL_VAL_ entries allowed):
   the switch is a top-level multiplexer at its position with 2^size groups; every other signal of
   the file is present with the file's data, top-level at its position or child of the multiplexer
   at its position relative to the end of the switch, member of the groups the file names *)
Theorem import_simple_mux_faithful : forall d b, import d = Ok b ->
  exists se : list (key * Z),
    (forall k, (exists e, lookup key_eqb k se = Some e) <-> has_valenc d k) /\
    Forall2 (fun dm m => simple_mux_faithful (doc_env d se) dm (m_signals m)) (d_messages d) (b_messages b).
Proof. exact ProofsMux.import_simple_mux_faithful. Qed.
Print Assumptions import_simple_mux_faithful.

(* messages with two or more multiplexor switches (extended multiplexing, nesting): every signal of
   the file is present with the file's data; a multiplexed signal is a child of the multiplexer its
   SG_MUL_VAL_ entry names, at its position relative to the end of that switch, in the groups the entry
   lists (all groups = fixed); a switch is a top-level multiplexer at its position, or nested in the
   multiplexer its own entry names (which is placed before it) *)
Theorem import_ext_mux_faithful : forall d b, import d = Ok b ->
  exists se : list (key * Z),
    (forall k, (exists e, lookup key_eqb k se = Some e) <-> has_valenc d k) /\
    Forall2 (fun dm m => ext_mux_faithful (doc_env d se) dm (m_signals m)) (d_messages d) (b_messages b).
Proof. exact ProofsExtMux.import_ext_mux_faithful. Qed.
Print Assumptions import_ext_mux_faithful.

(* the decode clause over the IMPORTED signal (messages without multiplexor switch): position, size in
   the final enum table and byte order of the imported message give the DBC rule's raw value *)
Theorem import_decode_dbc_imported : forall d b, import d = Ok b ->
  Forall2 (fun dm m => no_muxor dm ->
    Forall2 (fun ds s => forall data,
      0 <= ds_start ds -> 1 <= ds_size ds -> get_start_bit ds + ds_size ds <= 64 ->
      d08_excluded (ds_order ds) (get_start_bit ds) (ds_size ds) = false ->
      go_raw (m_order m) (s_rel s) (sig_size (b_enums b) s) data
      = dbc_raw (ds_order ds) (ds_start ds) (ds_size ds) data)
      (sorted_signals dm) (m_signals m))
    (d_messages d) (b_messages b).
Proof. exact ProofsDecode.import_decode_dbc_imported. Qed.
Print Assumptions import_decode_dbc_imported.

(* the decode clause over the IMPORTED signal, messages WITH multiplexor switches (one or several, any nesting
   depth; switch sizes not negative): every signal of the file is present under its index and name, and the raw
   value the library's filters assemble at its ABSOLUTE position (relative positions summed along the chain of
   multiplexers) with its size in the final enum table - the selector width for a multiplexer - and the message's
   byte order is the value the DBC rule gives for the file's start bit, size and byte order (D08 placements
   excluded as above) *)
Theorem import_decode_dbc_mux : forall d b, import d = Ok b ->
  Forall2 (fun dm m => decode_mux_ok (b_enums b) dm m) (d_messages d) (b_messages b).
Proof. exact ProofsDecodeMux.import_decode_dbc_mux. Qed.
Print Assumptions import_decode_dbc_mux.

(* every imported message, every multiplexing depth: signal names distinct, signal ids distinct, and every
   imported signal carries the position index (in payload order) and the name of a signal of the file *)
Theorem import_names_ids_unique : forall d b, import d = Ok b ->
  Forall2 (fun dm m =>
      NoDup (map s_name (m_signals m)) /\ NoDup (map s_id (m_signals m)) /\
      forall s, In s (m_signals m) -> exists ds, In (s_id s, ds) (index_from 0 (sorted_signals dm)) /\ s_name s = ds_name ds)
    (d_messages d) (b_messages b).
Proof. exact ProofsIds.import_names_ids_unique. Qed.
Print Assumptions import_names_ids_unique.

(* messages with exactly one multiplexor switch (of a non-negative size, as the parser delivers): every
   signal of the file is present with the file's ABSOLUTE start position (multiplexed signals included:
   switch position + selector width + relative position) and the switch is a multiplexer whose SELECTOR
   WIDTH is the file's size *)
Theorem import_simple_mux_abs : forall d b, import d = Ok b ->
  Forall2 (fun dm m =>
    forall mid dmx, one_muxor dm mid dmx -> 0 <= ds_size dmx ->
    forall id ds, In (id, ds) (index_from 0 (sorted_signals dm)) ->
      exists s, In s (m_signals m) /\ s_id s = id /\ s_name s = ds_name ds /\
                abs_start (length (m_signals m)) (m_signals m) s = get_start_bit ds /\
                (id = mid -> s_kind s = KMux /\ sel_width s = ds_size ds))
    (d_messages d) (b_messages b).
Proof. exact ProofsIds.import_simple_mux_abs. Qed.
Print Assumptions import_simple_mux_abs.

(* enum signals at every multiplexing depth, in every message: an imported enum signal is the signal of the
   file with its index and name, that signal has a VAL_ line, the enum it refers to in the final table holds
   exactly the values of its last VAL_ line (sorted by index) and its size is the file's size *)
Theorem import_enum_all_depths : forall d b, import d = Ok b ->
  Forall2 (fun dm m => forall s, In s (m_signals m) -> s_kind s = KEnum ->
      exists ds vals, In (s_id s, ds) (index_from 0 (sorted_signals dm)) /\ s_name s = ds_name ds /\
        last_valenc (d_valencs d) (dm_id dm, ds_name ds) = Some vals /\
        sorted_enum_values (nth_enum (b_enums b) (s_enum s)) = vals /\
        sig_size (b_enums b) s = ds_size ds)
    (d_messages d) (b_messages b).
Proof. exact ProofsEnumMux.import_enum_all_depths. Qed.
Print Assumptions import_enum_all_depths.

(* importAttributes, bus level: the definitions the importer uses come from a BA_DEF_ and the BA_DEF_DEF_ of
   the same name through `import_attr_def`; the attribute assignments of the bus are exactly the BA_ lines
   without object, in file order, read with `attr_value`, later lines of one name replacing earlier ones;
   every such value conforms to its definition (otherwise the import fails) *)
Theorem import_bus_attributes : forall d b, import d = Ok b ->
  exists amap, def_map d = Ok amap /\
    b_attrs b = fold_left (gen_step amap) (d_attrvals d) [] /\
    (forall av ad, In av (d_attrvals d) -> av_kind av = OGeneral -> lookup String.eqb (av_name av) amap = Some ad ->
       exists v, attr_value ad av = Ok v /\ check_value ad v = true) /\
    (forall name ad, In (name, ad) amap ->
       exists a df, In a (d_attrs d) /\ at_name a = name /\ In df (d_attrdefs d) /\ ad_name df = name /\
                    import_attr_def a df = Ok ad).
Proof. exact ProofsAttrs.import_bus_attributes. Qed.
Print Assumptions import_bus_attributes.

(* numeric attribute values are accepted whether written as integer or decimal: the value read from each
   literal form *)
Theorem attr_value_literals : forall av,
  (forall d mn mx, av_type av = VInt -> attr_value (DefFloat d mn mx) av = Ok (ValFloat (fl_of_Z (av_int av)))) /\
  (forall d mn mx, av_type av = VFloat -> attr_value (DefFloat d mn mx) av = Ok (ValFloat (av_fl av))) /\
  (forall d mn mx h, av_type av = VInt -> attr_value (DefInt d mn mx h) av = Ok (ValInt (av_int av))) /\
  (forall d mn mx h, av_type av = VHex -> attr_value (DefInt d mn mx h) av = Ok (ValInt (av_hex av))).
Proof. exact ProofsAttrs.attr_value_literals. Qed.
Print Assumptions attr_value_literals.

(* well-known message attributes land in the dedicated fields: a non-zero cycle / delay / start-delay time or
   send type of an imported message is the value of a BA_ line of that message (by CAN-ID) with the
   well-known name, read with `attr_value` under the imported definition *)
Theorem import_message_fields : forall d b, import d = Ok b ->
  exists amap, def_map d = Ok amap /\ Forall (MF d amap) (b_messages b).
Proof. exact ProofsAttrs.import_message_fields. Qed.
Print Assumptions import_message_fields.

(* attribute data on NODES, MESSAGES and SIGNALS of any accepted document: every assignment an imported node /
   message / signal carries, and a signal's start value / send type when not 0, comes from a BA_ line of the
   matching object kind that names this node, this message's CAN-ID, or - through the importer's signals map,
   which is sound (`sm_ok`: an entry points to the message at that position with that CAN-ID, and the signal of
   that message with the entry's id has the entry's name) - this signal; under the importer's definition for
   the attribute name, with the value read by `attr_value`, conforming to the definition *)
Theorem import_attributes_spec : forall d b, import d = Ok b ->
  exists amap sm, def_map d = Ok amap /\
    Forall (NA d amap) (b_nodes b) /\ Forall (MA d amap) (b_messages b) /\
    sm_ok (b_messages b) sm /\ SAs d amap sm (b_messages b).
Proof. exact ProofsAttrsSig.import_attributes_spec. Qed.
Print Assumptions import_attributes_spec.

(* messages with SEVERAL multiplexor switches (each of a non-negative size, as the parser delivers): every
   signal of the file is present with the file's ABSOLUTE start position, composed along the chain of nested
   multiplexers (parent position + selector width + relative position), and every switch is a multiplexer
   whose SELECTOR WIDTH is the file's size *)
Theorem import_ext_mux_abs : forall d b, import d = Ok b ->
  Forall2 (fun dm m => ext_mux_abs dm (m_signals m)) (d_messages d) (b_messages b).
Proof. exact ProofsExtAbs.import_ext_mux_abs. Qed.
Print Assumptions import_ext_mux_abs.

(* attribute assignments of NODES and MESSAGES, exactly (completeness and last-line-wins; import_attributes_spec
   is the soundness direction): the assignments of an imported node are the BA_ BU_ lines that name it (the
   placeholder node takes none), in file order, each read with `attr_value` under the imported definition and kept
   when it conforms, a later line of the same attribute replacing the earlier one (`assign`); the user assignments
   of an imported message are, in the same way, the BA_ BO_ lines with its CAN-ID whose attribute is not a
   well-known one; the four dedicated fields of the message (cycle, delay, start-delay time, send type:
   `mfields`) start at 0 and are set by the lines with its CAN-ID and the well-known names, integer values for the
   times, the label for the send type (`msg_send_type_from_dbc`), the last such line winning (`fld_step`) *)
Theorem import_node_message_attributes_exact : forall d b, import d = Ok b ->
  exists amap, def_map d = Ok amap /\
    Forall (fun n => n_attrs n = fold_left (node_step amap (n_name n)) (d_attrvals d) []) (b_nodes b) /\
    Forall (fun m => m_attrs m = fold_left (msg_step amap (m_canid m)) (d_attrvals d) [] /\
                     mfields m = fold_left (fld_step amap (m_canid m)) (d_attrvals d) (0, 0, 0, 0)) (b_messages b).
Proof. exact ProofsAttrsExact.import_node_message_attributes_exact. Qed.
Print Assumptions import_node_message_attributes_exact.

(* attribute data of SIGNALS, exactly, at every multiplexing depth: the user assignments of an imported signal are
   the BA_ SG_ lines whose CAN-ID is its message's and whose signal name is its name (attribute not a well-known
   one), in file order, read with `attr_value` under the imported definition, kept when conforming, a later line of
   one attribute replacing the earlier (`sig_step`); its start value and send type (`sfields`) start at 0 and are set
   by the lines with the well-known names GenSigStartValue (decimal or integer value) and GenSigSendType (label),
   the last one winning (`sfld_step`).  Rests on the importer's signals map being complete - every signal of the
   file is registered under (CAN-ID, name) in all three cases of importMessage (ProofsSigMap) - and sound *)
Theorem import_signal_attributes_exact : forall d b, import d = Ok b ->
  exists amap, def_map d = Ok amap /\
    Forall (fun m => Forall (fun s => s_attrs s = fold_left (sig_step amap (m_canid m) (s_name s)) (d_attrvals d) [] /\
                                      sfields s = fold_left (sfld_step amap (m_canid m) (s_name s)) (d_attrvals d) (fl_zero, 0)) (m_signals m)) (b_messages b).
Proof. exact ProofsAttrsSigExact.import_signal_attributes_exact. Qed.
Print Assumptions import_signal_attributes_exact.

(* layout validity INSIDE multiplexers, every message, every nesting depth: two children of one multiplexer
   that share a group (a child without group list is fixed and shares every group) do not overlap, every
   child lies inside the group size of its multiplexer - which is a signal of the message -, and its group ids
   are below the group count; sizes read in the final enum table (top level: import_layout_valid) *)
Theorem import_group_layout_valid : forall d b, import d = Ok b ->
  Forall (fun m => groups_valid (b_enums b) (m_signals m)) (b_messages b).
Proof. exact ProofsGroups.import_group_layout_valid. Qed.
Print Assumptions import_group_layout_valid.
