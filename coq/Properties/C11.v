(* C11 — property theorems (statements only; proofs live in Acme.C11.Proofs). *)
From Coq Require Import ZArith List.
From Acme.C10 Require Import DbcDoc BusModel Import Export Bits.
From Acme.C11 Require Import Proofs.
Open Scope Z_scope.

Theorem start_bit_inverse :
  forall o p, 0 <= p -> pos_of_dbc o (dbc_of_pos o p) = p /\ dbc_of_pos o (pos_of_dbc o p) = p.
Proof. exact Proofs.start_bit_inverse. Qed.
Print Assumptions start_bit_inverse.
