(* C11 — property theorems (statements only; proofs live in Acme.C11.{Proofs,Strings,RoundTrip,RoundTripEnum,RoundTripAttr,RoundTripMux,RoundTripAll}).
   Model: Acme.C10.{Export,Import,BusModel}; `export_import b = import (text_roundtrip (export b))`.
   Partial: the whole-bus theorem `export_import_ast_plain_partial` is an AST-level statement (import of the
   exported AST after the MODELLED write/parse effect; names need not be identifiers) proved for PLAIN buses (standard signals,
   descriptions of the bus, nodes, messages and signals; no attributes / timing / enums / multiplexers):
   nodes in order with description, messages by CAN-ID with name, size, byte order, sender, receivers,
   description, signals with name, start bit in both byte orders, size, signedness, factor, offset,
   minimum, maximum, unit, description, names with blanks; `export_import_ast_enum_partial` extends it to
   buses with ENUM signals (`ebus`: any well-formed enum table, enums shared between signals, enums
   with equal values and different minimum sizes, enums without values): enum values and signal size
   are reproduced although the imported enum table differs (tables matched by content, clones per size);
   `export_import_ast_attr_partial` extends that to buses with ATTRIBUTES (`abus`): assignments of the four
   attribute types (and hex format) on the bus, the nodes, the messages and the signals, and the dedicated
   fields cycle / delay / start-delay time, message send type, signal start value, signal send type
   (exported as the well-known Gen* attributes and landing back in the fields);
   `export_import_ast_mux_partial` covers SIMPLE MULTIPLEXERS (`mbus`: per message ANY NUMBER of multiplexers
   at top level (none, one, or several - then every child is written with its SG_MUL_VAL_ line and the importer's
   several-multiplexer path is taken) whose children are standard or enum signals, each child in one group, in several groups
   - all of them included - or fixed (SG_MUL_VAL_ ranges are written and read back; a signal that lists every group
   comes back fixed, a fixed signal under a one-group multiplexer comes back listing group 0: same membership);
   standard and enum signals beside it; descriptions
   everywhere; no attributes);
   `export_import_ast_partial` is the MERGED whole-bus theorem (`ambus`): the structure of `mbus` (standard and
   enum signals, descriptions, per message any number of top-level simple multiplexers) TOGETHER WITH attribute
   assignments and the six dedicated fields on every entity, including a message that holds multiplexers, the
   multiplexers themselves and their children (standard or enum; one group, several groups or fixed).  Not covered
   by a whole-bus theorem: a multiplexer inside a multiplexer (nested multiplexing).
   The full statement is
   Acme.C11.RoundTrip.export_import_full_statement (well_formed, names_ok spelled out there);
   `export_import_wf_flat` proves its conclusion from exactly those two hypotheses plus `flat_bus` (every
   multiplexer top-level, top-level signals listed in position order, minimum enum sizes below 2^32):
   `wf_flat_in_fragment` shows such a bus lies in the merged fragment `ambus`.
   The other ingredients are proved in isolation: the four attribute types (+hex) and their defaults
   through the write/parse effect, SG_MUL_VAL_ ranges, the start-bit conversion, the sanitiser. *)
From Coq Require Import String ZArith List.
From Acme.C10 Require Import DbcDoc BusModel Import Export Bits.
From Acme.C11 Require Import Strings Proofs RoundTrip RoundTripEnum RoundTripAttr RoundTripMux RoundTripAll Bridge Refuted.
From Acme.C11 Require TextBridge.
From Acme.C08 Require Expr DbcParse DbcWrite DbcLex BridgeC10.
Import ListNotations.
Open Scope Z_scope.

Theorem start_bit_inverse :
  forall o p, 0 <= p -> pos_of_dbc o (dbc_of_pos o p) = p /\ dbc_of_pos o (pos_of_dbc o p) = p.
Proof. exact Proofs.start_bit_inverse. Qed.
Print Assumptions start_bit_inverse.

(* AST level (export, modelled write/parse effect, import), PLAIN buses only (standard signals and
   descriptions): the projection is reproduced *)
Theorem export_import_ast_plain_partial : forall b, plain_bus b ->
  exists b', export_import b = Ok b' /\ proj_bus b' = proj_bus b.
Proof. exact RoundTrip.export_import_plain_thm. Qed.
Print Assumptions export_import_ast_plain_partial.

(* the same for buses with standard AND enum signals (top-level; no attributes / timing / multiplexers) *)
Theorem export_import_ast_enum_partial : forall b, ebus b ->
  exists b', export_import b = Ok b' /\ proj_bus b' = proj_bus b.
Proof. exact RoundTripEnum.export_import_enum_thm. Qed.
Print Assumptions export_import_ast_enum_partial.

(* ... and with attribute assignments on every entity kind and the six dedicated fields (`abus`: the
   structure of `ebus`, per entity distinct sanitised attribute names that are not well-known names,
   `wf_asg` assignments, equal names carry equal definitions, send types inside their tables, canonical
   start values) *)
Theorem export_import_ast_attr_partial : forall b, abus b ->
  exists b', export_import b = Ok b' /\ proj_bus b' = proj_bus b.
Proof. exact RoundTripAttr.export_import_attr_thm. Qed.
Print Assumptions export_import_ast_attr_partial.

(* any number of top-level multiplexers per message (none, one, several): the children of each (standard or enum
   signals, with descriptions) sit in one group, in several groups (SG_MUL_VAL_ ranges) or in every group (fixed); parent, group membership, absolute positions and
   selector width are reproduced.
   The importer re-sorts the signals by start bit, the proof is invariant under that permutation *)
Theorem export_import_ast_mux_partial : forall b, mbus b ->
  exists b', export_import b = Ok b' /\ proj_bus b' = proj_bus b.
Proof. exact RoundTripMux.export_import_mux_thm. Qed.
Print Assumptions export_import_ast_mux_partial.

(* the merged statement: standard + enum signals, descriptions, attributes and dedicated fields on every entity,
   any number of top-level multiplexers per message (children standard or enum signals in one group, several groups
   or fixed; enum signals also beside them);
   attributes also on the multiplexers, their children and the message holding them *)
Theorem export_import_ast_partial : forall b, ambus b ->
  exists b', export_import b = Ok b' /\ proj_bus b' = proj_bus b.
Proof. exact RoundTripAll.export_import_all_thm. Qed.
Print Assumptions export_import_ast_partial.

(* the merged fragment seen from the hypotheses of the full statement: a well-formed (`well_formed`: the library's
   invariants as far as export / import depend on them), DBC-expressible (`names_ok`) bus that is FLAT - every
   multiplexer top-level, top-level signals in position order, minimum enum sizes below 2^32 - lies in `ambus` ... *)
Theorem wf_flat_in_fragment : forall b, well_formed b -> names_ok b -> flat_bus b -> ambus b.
Proof. exact Bridge.wf_flat_ambus. Qed.
Print Assumptions wf_flat_in_fragment.

(* ... so the conclusion of export_import_full_statement holds for every such bus: what the full statement still
   lacks is nested multiplexing (and signal lists not in position order) *)
Theorem export_import_wf_flat : forall b, well_formed b -> names_ok b -> flat_bus b ->
  exists b', export_import b = Ok b' /\ proj_bus b' = proj_bus b.
Proof. exact Bridge.export_import_wf_flat. Qed.
Print Assumptions export_import_wf_flat.

(* the merged hypothesis is the union of the fragments: the multiplexer fragment lies inside it, and so does the
   attribute fragment (hence the enum and plain fragments) when the signal ids of every message are distinct -
   `export_import_ast_mux_partial` and, under that proviso, `_attr/_enum/_plain_partial` are corollaries *)
Theorem merged_fragment_contains_mux : forall b, mbus b -> ambus b.
Proof. exact RoundTripAll.mbus_ambus. Qed.
Print Assumptions merged_fragment_contains_mux.

Theorem merged_fragment_contains_attr : forall b, abus b ->
  Forall (fun m => NoDup (map s_id (m_signals m))) (b_messages b) -> ambus b.
Proof. exact RoundTripAll.abus_ambus. Qed.
Print Assumptions merged_fragment_contains_attr.

(* attribute definitions of the four types (and hex format), defaults included *)
Theorem attr_def_roundtrip : forall k name d, wf_def d ->
  let '(da, dd) := export_attribute k name d in
  import_attr_def da (reparse_def dd) = Ok d.
Proof. exact Proofs.attr_def_roundtrip. Qed.
Print Assumptions attr_def_roundtrip.

(* attribute values of the four types (and hex format) *)
Theorem attr_value_roundtrip : forall k node msg sig a acc, wf_asg a ->
  exists av, ea_attrvals (export_assignment k node msg sig a acc) = ea_attrvals acc ++ [av] /\
             av_name av = clear_spaces (aa_name a) /\
             attr_value (aa_def a) (reparse_val av) = Ok (aa_val a).
Proof. exact Proofs.attr_value_roundtrip. Qed.
Print Assumptions attr_value_roundtrip.

(* group membership written as SG_MUL_VAL_ ranges is read back exactly *)
Theorem mux_ranges_roundtrip : forall gcount g,
  ascending (-1) g -> (forall x, In x g -> x < gcount) -> gcount <= 2 ^ 32 ->
  expand_ranges gcount (ranges_of g) = Ok g.
Proof. exact Proofs.mux_ranges_roundtrip. Qed.
Print Assumptions mux_ranges_roundtrip.

(* the exporter's name sanitising is idempotent (names are compared after it) *)
Theorem clear_spaces_idempotent : forall s, clear_spaces (clear_spaces s) = clear_spaces s.
Proof. exact Strings.clear_spaces_idem. Qed.
Print Assumptions clear_spaces_idempotent.

(* the three shapes the full statement's hypotheses exclude really fail (open known findings) *)
Theorem export_import_hex_negative_refuted :
  check_value (DefInt 0 (-5) 10 true) (ValInt 3) = true /\ forall b', export_import bus_hex_negative <> Ok b'.
Proof. exact Refuted.export_import_hex_negative_refuted. Qed.
Print Assumptions export_import_hex_negative_refuted.

Theorem export_import_canid_clash_refuted : forall b', export_import bus_canid_clash <> Ok b'.
Proof. exact Refuted.export_import_canid_clash_refuted. Qed.
Print Assumptions export_import_canid_clash_refuted.

Theorem export_import_receivers_without_signals_refuted :
  exists b', export_import bus_receivers_without_signals = Ok b' /\
             proj_bus b' <> proj_bus bus_receivers_without_signals.
Proof. exact Refuted.export_import_receivers_without_signals_refuted. Qed.
Print Assumptions export_import_receivers_without_signals_refuted.

(* Composition with the C08 stream (coq/C11/TextBridge.v): `export_import` above is stated over
   `text_roundtrip`, the MODELLED effect of dbc.Write + dbc.Parse.  For every bus of the merged fragment
   whose exported document is DBC-expressible (`doc_ok`, `defs_small`: C08's provisos on the document),
   C08's model of the real writer prints a text that C08's model of the real lexer + parser accepts, the
   file read back has exactly the sections of the embedding of `text_roundtrip (export b)` (and none of the
   sections the exporter never emits), and the import of that document reproduces the projection of `b`.
   Oracle hypotheses (strconv laws) are those of C08's `exporter_sections_round_trip` /
   `text_roundtrip_is_norm`, unchanged. *)
Theorem export_text_import_composed :
  forall (fb : DbcDoc.fl -> N) (ud : N -> bool) fmt prs,
  Acme.C08.Expr.ud_ok ud -> Acme.C08.Expr.oracle_ok fmt prs -> (forall f, Acme.C08.Expr.fin (fb f) = true) ->
  (forall f, DbcDoc.fl_is_decimal f = true -> Acme.C08.DbcParse.has_dot (fmt (fb f)) = true) ->
  (forall f, DbcDoc.fl_is_decimal f = false -> (Z.abs (Export.fl_to_Z f) <= 9007199254740992)%Z ->
             fmt (fb f) = Acme.C08.DbcWrite.format_int (Export.fl_to_Z f)) ->
  forall b, ambus b ->
  Acme.C08.BridgeC10.doc_ok (Acme.C08.DbcLex.peek_digits ud) (export b) -> Acme.C08.BridgeC10.defs_small (export b) ->
  exists f b',
    Acme.C08.DbcParse.parse ud prs false (Acme.C08.DbcWrite.write fmt false (Acme.C08.BridgeC10.doc_to_file fb (export b)))
      = Acme.C08.DbcParse.OOk f
    /\ TextBridge.same_sections f (Acme.C08.BridgeC10.doc_to_file fb (text_roundtrip (export b)))
    /\ import (text_roundtrip (export b)) = Ok b' /\ proj_bus b' = proj_bus b.
Proof. exact TextBridge.export_text_import. Qed.
Print Assumptions export_text_import_composed.
