(* C12 — property theorems (statements only; the proofs live in the Acme.C12.Proofs... files). *)
From Coq Require Import ZArith List Bool.
From Acme.C12 Require Import Proto NetModel Save Load ProofsSel.
Import ListNotations.
Open Scope Z_scope.

Theorem save_selects : forall mask w,
  (snd (save_outputs mask w) = true <-> forallb (present w) (selected mask) = true) /\
  (snd (save_outputs mask w) = true -> fst (save_outputs mask w) = selected mask).
Proof. exact save_selects_lemma. Qed.
Print Assumptions save_selects.

Theorem save_refusal : forall mask w,
  snd (save_outputs mask w) = false ->
  exists e rest, selected mask = fst (save_outputs mask w) ++ e :: rest /\ present w e = false /\
                 forallb (present w) (fst (save_outputs mask w)) = true.
Proof. exact save_refusal_lemma. Qed.
Print Assumptions save_refusal.
