(* C12 — property theorems (statements only; the proofs live in the Acme.C12.Proofs... files). *)
From Coq Require Import ZArith List Bool.
From Acme.C12 Require Import Proto NetModel Save Load Proj Domain ProofsSel ProofsRT8 Proofs Builder Refuted LayoutC01.
From Acme.C13 Require Import ProofsBuilder.
Import ListNotations.
Open Scope Z_scope.

(* Save then load reproduces the network, for EVERY well-formed network inside the value ranges
   of the format (multiplexer trees of any depth included).  `canon n` is `n` with the tables of
   shared definitions pruned to what the buses refer to and put in the saver's order (a Go network
   has no tables); `proj = canon`.  Everything else is reproduced literally: entity ids, names,
   descriptions, creation times, bus type, baud rate, CAN-ID builder and its operations, nodes /
   interfaces, messages (id, static CAN-ID, size, priority, byte order, timing, send type,
   receivers), signal trees with positions and group membership (fixed / per group), types,
   units, enums, attributes and assignments on every kind of entity. *)
Theorem load_save : forall now n,
  wfb n = true -> in_domain n = true ->
  load now (save n) = Ok (canon n) /\ proj (canon n) = proj n.
Proof. exact load_save_lemma. Qed.
Print Assumptions load_save.

Theorem save_selects : forall mask w,
  (snd (save_outputs mask w) = true <-> forallb (present w) (selected mask) = true) /\
  (snd (save_outputs mask w) = true -> fst (save_outputs mask w) = selected mask).
Proof. exact save_selects_lemma. Qed.
Print Assumptions save_selects.

Theorem save_refusal : forall mask w,
  snd (save_outputs mask w) = false ->
  exists e rest, selected mask = fst (save_outputs mask w) ++ e :: rest /\ present w e = false /\
                 forallb (present w) (fst (save_outputs mask w)) = true.
Proof. exact save_refusal_lemma. Qed.
Print Assumptions save_refusal.

(* The hypothesis `wfb` is reachable: every network produced by the builder of coq/C12/Builder.v (the
   constructors / mutators the flat generator of the harness calls, each with the checks of the Go
   mutator; multiplexers not covered; see the header of Builder.v for the usage discipline) is
   well-formed, hence round-trips whenever its values are inside the ranges of the format.  `ids_fresh e ops`: the
   entity ids the environment supplies to the constructor calls are pairwise distinct (Go draws them from nanoid); a
   hypothesis, not a check of `build`.  The
   harness logs the calls of every flat network it builds, `build` is replayed on them and compared
   with the network observed through the getters (props/C12/NOTES.md). *)
Theorem built_wf : forall e ops n, build e ops = Some n -> ids_fresh e ops -> wfb n = true.
Proof. exact built_wf_lemma. Qed.
Print Assumptions built_wf.

(* `built_load_save` (the round trip for every built network inside the value ranges) is the composition of `built_wf`
   and `load_save`: a corollary, `Acme.C13.ProofsBuilder.built_load_save_lemma`, not a property theorem of its own. *)

(* `in_domain` is needed: one well-formed network per exclusion (integer beyond uint32, negative integer, enum-typed
   constant outside the declared ones, bus type other than CAN 2.0A, integer attribute beyond int32, enum minimum size 0,
   start value -0.0) for which load (save n) is NOT canon n.  The Go implementation shows the same losses on the
   networks of these kinds built through the API (open findings c12-domain:KIND). *)
Theorem in_domain_needed : Forall refutes domain_witnesses.
Proof. exact in_domain_needed_lemma. Qed.
Print Assumptions in_domain_needed.

(* The layouts `wfb` demands are well-formed in the sense of C01: every message payload and every group of every
   multiplexer at any depth, seen as a C01 view (handle = index, start = relative start bit, len = size), satisfies
   Acme.C01.Layout.wfb - the same boolean layout predicate C01's theorems are about. *)
Theorem wfb_layouts_c01 : forall n, wfb n = true -> net_c01_okb n = true.
Proof. exact wfb_layouts_c01_lemma. Qed.
Print Assumptions wfb_layouts_c01.

(* `canon` only prunes and sorts the tables of shared definitions: every definition the buses refer to (types, units,
   enums, attributes, nodes, CAN-ID builders) is found in `canon n` exactly as in `n`.  With `load_save` this is the part
   of "derived observables coincide" that concerns lookups: whatever is computed from the network through its
   references sees the same definitions after the round trip.  (The observables themselves - GetCANID, Decode,
   ExportBus - are compared Go-against-Go by the harness; they are not restated here.) *)
Theorem lookup_agree : forall n, wfb n = true -> lookups_agree n.
Proof. exact lookup_agree_lemma. Qed.
Print Assumptions lookup_agree.
