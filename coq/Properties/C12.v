(* C12 — property theorems (statements only; the proofs live in the Acme.C12.Proofs... files). *)
From Coq Require Import ZArith List Bool.
From Acme.C12 Require Import Proto NetModel Save Load Proj Domain ProofsSel ProofsRT8 Proofs.
Import ListNotations.
Open Scope Z_scope.

(* Save then load reproduces the network, for EVERY well-formed network inside the value ranges
   of the format (multiplexer trees of any depth included).  `canon n` is `n` with the tables of
   shared definitions pruned to what the buses refer to and put in the saver's order (a Go network
   has no tables); `proj = canon`.  Everything else is reproduced literally: entity ids, names,
   descriptions, creation times, bus type, baud rate, CAN-ID builder and its operations, nodes /
   interfaces, messages (id, static CAN-ID, size, priority, byte order, timing, send type,
   receivers), signal trees with positions and group membership (fixed / per group), types,
   units, enums, attributes and assignments on every kind of entity. *)
Theorem load_save : forall now n,
  wfb n = true -> in_domain n = true ->
  load now (save n) = Ok (canon n) /\ proj (canon n) = proj n.
Proof. exact load_save_lemma. Qed.
Print Assumptions load_save.

Theorem save_selects : forall mask w,
  (snd (save_outputs mask w) = true <-> forallb (present w) (selected mask) = true) /\
  (snd (save_outputs mask w) = true -> fst (save_outputs mask w) = selected mask).
Proof. exact save_selects_lemma. Qed.
Print Assumptions save_selects.

Theorem save_refusal : forall mask w,
  snd (save_outputs mask w) = false ->
  exists e rest, selected mask = fst (save_outputs mask w) ++ e :: rest /\ present w e = false /\
                 forallb (present w) (fst (save_outputs mask w)) = true.
Proof. exact save_refusal_lemma. Qed.
Print Assumptions save_refusal.
