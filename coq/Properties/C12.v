(* C12 — property theorems (statements only; the proofs live in the Acme.C12.Proofs... files). *)
From Coq Require Import ZArith List Bool.
From Acme.C12 Require Import Proto NetModel Save Load Proj Domain ProofsSel ProofsRT5 ProofsRT7 Proofs.
Import ListNotations.
Open Scope Z_scope.

(* Save then load reproduces the network.  `proj` orders and prunes the tables of shared
   definitions as the saver does (a Go network has no tables); everything else is compared as is:
   entity ids, names, descriptions, creation times, bus type, baud rate, CAN-ID builder and its
   operations, nodes / interfaces, messages (id, static CAN-ID, size, priority, byte order,
   timing, send type, receivers), signals with positions, types, units, enums, attributes and
   assignments.  Proved for every well-formed, in-domain network whose signals are standard or
   enum signals; the full statement (multiplexer trees included) is
   Proofs.load_save_full_statement, checked on instances
   (Proofs.load_save_full_statement_on_a_multiplexer) and by the correspondence run. *)
Theorem load_save_partial : forall now n,
  wfb n = true -> in_domain n = true -> net_simple n = true ->
  load now (save n) = Ok (canon n) /\ proj (canon n) = proj n.
Proof. exact load_save_nomux_lemma. Qed.
Print Assumptions load_save_partial.

Theorem save_selects : forall mask w,
  (snd (save_outputs mask w) = true <-> forallb (present w) (selected mask) = true) /\
  (snd (save_outputs mask w) = true -> fst (save_outputs mask w) = selected mask).
Proof. exact save_selects_lemma. Qed.
Print Assumptions save_selects.

Theorem save_refusal : forall mask w,
  snd (save_outputs mask w) = false ->
  exists e rest, selected mask = fst (save_outputs mask w) ++ e :: rest /\ present w e = false /\
                 forallb (present w) (fst (save_outputs mask w)) = true.
Proof. exact save_refusal_lemma. Qed.
Print Assumptions save_refusal.
