(* C13 — property theorems (statements only; the proofs live in the Acme.C13.Proofs... files). *)
From Coq Require Import ZArith List Bool.
From Acme.C12 Require Import Proto NetModel Load.
From Acme.C13 Require Import ProofsWf Proofs.
Import ListNotations.
Open Scope Z_scope.

(* definitional: the loader model is a total Gallina function (every protobuf tree is mapped to an error
   or to a network).  It carries no information about the Go code: absence of Go panics, hangs and
   fatal errors is established by the guarded exploration of ./check C13, not by this statement. *)
Theorem load_total : forall (now : time) (p : PNet),
  (exists c, load now p = Err c) \/ (exists n, load now p = Ok n).
Proof. exact load_total_lemma. Qed.
Print Assumptions load_total.

(* a successful load only yields well-formed networks, for EVERY tree p whose size_byte fields
   are non-negative (uint32 in the .proto): unique names and entity ids, references resolve,
   every layout sorted / disjoint / in bounds, multiplexer groups consistent, attribute values
   typed and bounded (NetModel.wfb) *)
Theorem load_ok_wf : forall (now : time) (p : PNet) (n : net),
  pnet_u32_ok p -> load now p = Ok n -> wfb n = true.
Proof. exact load_ok_wf_lemma. Qed.
Print Assumptions load_ok_wf.
