(* C13 — property theorems (statements only; the proofs live in the Acme.C13.Proofs... files). *)
From Coq Require Import ZArith List Bool.
From Acme.C12 Require Import Proto NetModel Load.
From Acme.C12 Require Import Received LayoutC01.
From Acme.C13 Require Import ProofsWf Proofs ProofsAlloc.
Import ListNotations.
Open Scope Z_scope.

(* (`load_total`, the totality of the Gallina function `load`, is definitional and carries no information about
   the Go code; it is kept as a remark, `Acme.C13.Proofs.load_total_lemma`, and is not a property theorem.) *)

(* a successful load only yields well-formed networks, for EVERY tree p whose size_byte fields
   are non-negative (uint32 in the .proto): unique names and entity ids, references resolve,
   every layout sorted / disjoint / in bounds, multiplexer groups consistent, attribute values
   typed and bounded (NetModel.wfb) *)
Theorem load_ok_wf : forall (now : time) (p : PNet) (n : net),
  pnet_u32_ok p -> load now p = Ok n -> wfb n = true.
Proof. exact load_ok_wf_lemma. Qed.
Print Assumptions load_ok_wf.

(* What the loader allocates from.  For every network the loader model returns: message size <= 8 bytes, the group
   count of every multiplexer (at any depth) = the number of group lists present, every group size between 1 and the
   bits of the enclosing layout (<= 64).  These are the size / count fields the Go loader validates before it
   allocates (fixes 86ac827, b0301f8). *)
Theorem alloc_bound : forall (now : time) (p : PNet) (n : net),
  pnet_u32_ok p -> load now p = Ok n -> net_alloc_okb n = true.
Proof. exact alloc_bound_lemma. Qed.
Print Assumptions alloc_bound.

(* ... and the one it does not validate: inputs of one fixed shape load with ANY interface count, so the eager
   allocation of the node's interfaces is bounded by no function of the input size.  The termination / resource
   clause of C13 is REFUTED for this field (open finding c13-fatal@newNodeFromEntity:out-of-memory+interface_count). *)
Theorem interface_count_unbounded : forall (now : time) (k : Z),
  exists n nd, load now (ifcount_input k) = Ok n /\ n_nodes n = [nd] /\ nd_ifcount nd = k.
Proof. exact interface_count_unbounded_lemma. Qed.
Print Assumptions interface_count_unbounded.

(* Open finding D22 on the model side: a save that lists two interfaces of one node as receivers loads into a
   well-formed network (`wfb` has no received-messages relation) in which the converse of the receiver relation is
   broken: the first interface was registered as receiving the message (`received_rel`), the message lists only the
   second.  (c13-inv:c05-received-but-replaced-by-second-interface-of-same-node) *)
Theorem d22_load_refuted :
  exists n, load (0, 0) d22_input = Ok n /\ wfb n = true /\ ~ recv_link_ok n (received_rel d22_input).
Proof. exact d22_load_refuted_lemma. Qed.
Print Assumptions d22_load_refuted.

(* "a network satisfying the model invariants": the layouts of every loaded network (message payloads, multiplexer
   groups at any depth) satisfy Acme.C01.Layout.wfb, the layout predicate of C01 itself. *)
Theorem load_ok_layouts_c01 : forall (now : time) (p : PNet) (n : net),
  pnet_u32_ok p -> load now p = Ok n -> net_c01_okb n = true.
Proof. exact load_ok_layouts_c01_lemma. Qed.
Print Assumptions load_ok_layouts_c01.
