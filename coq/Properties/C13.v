(* C13 — property theorems (statements only; the proofs live in Acme.C13.Proofs). *)
From Coq Require Import ZArith List Bool.
From Acme.C12 Require Import Proto NetModel Load.
From Acme.C13 Require Import Proofs.
Import ListNotations.
Open Scope Z_scope.

Theorem load_total : forall (now : time) (p : PNet),
  (exists c, load now p = Err c) \/ (exists n, load now p = Ok n).
Proof. exact load_total_lemma. Qed.
Print Assumptions load_total.
