(* C14 — property theorems (statements only; proofs live in Acme.C14.Proofs).
   CAN-IDs are the documented function of static id, builder, priority and ids.
   Model: Acme.C14.Model (canid_builder.go, Message.GetCANID).  All statements are unbounded:
   every Z value (the uint32 truncations are part of the model), every operation list. *)
From Coq Require Import ZArith List Bool.
From Acme.C14 Require Import Model Proofs.
Import ListNotations.
Open Scope Z_scope.

(* --- one operation: an id / priority operation ORs the low len bits of its source, shifted left
   by from; a mask operation keeps only bits from .. from+len-1 --- *)
Theorem calc_op_value : forall k from len prev prio mid nid,
  value_kind k -> legal from len -> in32 prev ->
  calc_op (mkOp k from len) prev prio mid nid
  = Z.lor prev (((src_of k prio mid nid mod 2 ^ len) * 2 ^ from) mod 2 ^ 32).
Proof. exact calc_op_value_lemma. Qed.
Print Assumptions calc_op_value.

Theorem calc_op_value_nowrap : forall k from len prev prio mid nid,
  value_kind k -> legal from len -> in32 prev ->
  calc_op (mkOp k from len) prev prio mid nid
  = Z.lor prev ((src_of k prio mid nid mod 2 ^ len) * 2 ^ from).
Proof. exact calc_op_value_nowrap_lemma. Qed.
Print Assumptions calc_op_value_nowrap.

Theorem calc_op_value_bits : forall k from len prev prio mid nid i,
  value_kind k -> legal from len -> in32 prev -> 0 <= i ->
  Z.testbit (calc_op (mkOp k from len) prev prio mid nid) i
  = Z.testbit prev i || ((from <=? i) && (i <? from + len) && Z.testbit (src_of k prio mid nid) (i - from)).
Proof. exact calc_op_value_bits_lemma. Qed.
Print Assumptions calc_op_value_bits.

Theorem calc_op_mask : forall from len prev prio mid nid,
  legal from len -> in32 prev ->
  calc_op (mkOp KBitMask from len) prev prio mid nid
  = Z.land prev (((2 ^ len - 1) * 2 ^ from) mod 2 ^ 32).
Proof. exact calc_op_mask_lemma. Qed.
Print Assumptions calc_op_mask.

Theorem calc_op_mask_bits : forall from len prev prio mid nid i,
  legal from len -> in32 prev -> 0 <= i ->
  Z.testbit (calc_op (mkOp KBitMask from len) prev prio mid nid) i
  = Z.testbit prev i && ((from <=? i) && (i <? from + len)).
Proof. exact calc_op_mask_bits_lemma. Qed.
Print Assumptions calc_op_mask_bits.

Theorem calc_op_range : forall o prev prio mid nid, in32 (calc_op o prev prio mid nid).
Proof. exact calc_op_range_lemma. Qed.
Print Assumptions calc_op_range.

(* --- the builder applies its operations in order, starting from zero --- *)
Theorem calculate_fold : forall ops prio mid nid,
  calculate ops prio mid nid = fold_left (fun a o => calc_op o a prio mid nid) ops 0.
Proof. exact calculate_fold_lemma. Qed.
Print Assumptions calculate_fold.

Theorem calculate_snoc : forall ops o prio mid nid,
  calculate (ops ++ [o]) prio mid nid = calc_op o (calculate ops prio mid nid) prio mid nid.
Proof. exact calculate_snoc_lemma. Qed.
Print Assumptions calculate_snoc.

Theorem calculate_range : forall ops prio mid nid, in32 (calculate ops prio mid nid).
Proof. exact calculate_range_lemma. Qed.
Print Assumptions calculate_range.

(* --- the final value equals the last partial result --- *)
Theorem partials_last : forall ops prio mid nid d,
  ops <> [] -> last (calculate_partials ops prio mid nid) d = calculate ops prio mid nid.
Proof. exact partials_last_lemma. Qed.
Print Assumptions partials_last.

Theorem partials_length : forall ops prio mid nid,
  length (calculate_partials ops prio mid nid) = length ops.
Proof. exact partials_length_lemma. Qed.
Print Assumptions partials_length.

Theorem partials_prefix : forall k ops prio mid nid,
  calculate_partials (firstn k ops) prio mid nid = firstn k (calculate_partials ops prio mid nid).
Proof. exact partials_prefix_lemma. Qed.
Print Assumptions partials_prefix.

Theorem partials_nth : forall k ops prio mid nid d,
  (k < length ops)%nat ->
  nth k (calculate_partials ops prio mid nid) d = calculate (firstn (S k) ops) prio mid nid.
Proof. exact partials_nth_lemma. Qed.
Print Assumptions partials_nth.

(* --- the default builder and the CAN 2.0A mask yield 11-bit values --- *)
Theorem default_11bit : forall prio mid nid, 0 <= calculate default_ops prio mid nid < 2 ^ 11.
Proof. exact default_11bit_lemma. Qed.
Print Assumptions default_11bit.

Theorem default_value : forall prio mid nid,
  calculate default_ops prio mid nid = nid mod 2 ^ 4 + (mid mod 2 ^ 7) * 2 ^ 4.
Proof. exact default_value_lemma. Qed.
Print Assumptions default_value.

Theorem can2a_11bit : forall ops prio mid nid, 0 <= calculate (use_can2a ops) prio mid nid < 2 ^ 11.
Proof. exact can2a_11bit_lemma. Qed.
Print Assumptions can2a_11bit.

(* --- inserting / removing validates bounds and otherwise is positional insert / delete --- *)
Theorem insert_validates : forall ops k from len idx l',
  insert_operation ops k from len idx = Ok l'
  <-> (0 <= from <= 31 /\ 0 <= len <= 32 - from /\ 0 <= idx <= Z.of_nat (length ops))
      /\ l' = insert_at (Z.to_nat idx) (mkOp k from len) ops.
Proof. exact insert_validates_lemma. Qed.
Print Assumptions insert_validates.

Theorem insert_refuses : forall ops k from len idx,
  ~ (0 <= from <= 31 /\ 0 <= len <= 32 - from /\ 0 <= idx <= Z.of_nat (length ops))
  <-> exists e, insert_operation ops k from len idx = Err e.
Proof. exact insert_refuses_lemma. Qed.
Print Assumptions insert_refuses.

Theorem insert_is_positional : forall ops k from len idx l',
  insert_operation ops k from len idx = Ok l' ->
  let i := Z.to_nat idx in
  l' = firstn i ops ++ mkOp k from len :: skipn i ops
  /\ length l' = S (length ops)
  /\ forall j d, nth j l' d = if (j <? i)%nat then nth j ops d
                              else if (j =? i)%nat then mkOp k from len else nth (j - 1) ops d.
Proof. exact insert_is_positional_lemma. Qed.
Print Assumptions insert_is_positional.

Theorem remove_validates : forall ops idx l',
  remove_operation ops idx = Ok l'
  <-> 0 <= idx < Z.of_nat (length ops) /\ l' = delete_at (Z.to_nat idx) ops.
Proof. exact remove_validates_lemma. Qed.
Print Assumptions remove_validates.

Theorem remove_refuses : forall ops idx,
  ~ (0 <= idx < Z.of_nat (length ops)) <-> remove_operation ops idx = Err ErrOpIndex.
Proof. exact remove_refuses_lemma. Qed.
Print Assumptions remove_refuses.

Theorem remove_is_positional : forall ops idx l',
  remove_operation ops idx = Ok l' ->
  let i := Z.to_nat idx in
  l' = firstn i ops ++ skipn (S i) ops
  /\ S (length l') = length ops
  /\ forall j d, nth j l' d = if (j <? i)%nat then nth j ops d else nth (S j) ops d.
Proof. exact remove_is_positional_lemma. Qed.
Print Assumptions remove_is_positional.

(* --- GetCANID: static id; no sender or no bus => message id; otherwise the bus's builder --- *)
Theorem get_can_id_cases : forall m,
  (m_has_static m = true -> get_can_id m = m_static m)
  /\ (m_has_static m = false -> m_sender m = None -> get_can_id m = m_id m)
  /\ (forall ni, m_has_static m = false -> m_sender m = Some ni -> ni_parent_bus ni = None ->
        get_can_id m = m_id m)
  /\ (forall ni b, m_has_static m = false -> m_sender m = Some ni -> ni_parent_bus ni = Some b ->
        get_can_id m = fold_left (fun a o => calc_op o a (m_priority m) (m_id m) (ni_node_id ni)) (b_builder b) 0).
Proof. exact get_can_id_cases_lemma. Qed.
Print Assumptions get_can_id_cases.

Theorem world_cases : forall w,
  world_can_id w =
  if w_has_static w then w_static w
  else if w_attached w && w_on_bus w
       then calculate (nth (w_cur w) (w_builders w) []) (w_prio w) (w_id w) (w_node_id w)
       else w_id w.
Proof. exact world_cases_lemma. Qed.
Print Assumptions world_cases.

(* every detach path (RemoveSentMessage, RemoveAllSentMessages, RemoveNodeInterface,
   RemoveAllNodeInterfaces, Node.RemoveInterface) leads back to the plain message id, and
   re-attaching leads back to the builder result; `wapply` is the effect of an accepted operation,
   `accepted` the model's prediction of the library's refusals, `wstep` = refused ? unchanged : wapply *)
Theorem wstep_refused : forall w o, accepted w o = false -> wstep w o = w.
Proof. exact wstep_refused_lemma. Qed.
Print Assumptions wstep_refused.

Theorem world_detach : forall w o,
  detaches o -> accepted w o = true -> w_iface_removed w = false -> w_has_static w = false ->
  world_can_id (wstep w o) = w_id w.
Proof. exact world_detach_lemma. Qed.
Print Assumptions world_detach.

Theorem world_reattach : forall w o,
  detaches o -> w_has_static w = false ->
  world_can_id (wapply (wapply (wapply w o) WAttach) WBusAdd)
  = calculate (nth (w_cur w) (w_builders w) []) (w_prio w) (w_id w) (w_node_id w).
Proof. exact world_reattach_lemma. Qed.
Print Assumptions world_reattach.

Theorem world_static : forall w x,
  accepted w (WSetStatic x) = true -> world_can_id (wstep w (WSetStatic x)) = u32 x.
Proof. exact world_static_lemma. Qed.
Print Assumptions world_static.

Theorem world_frame : forall w o, frame_op o -> world_can_id (wstep w o) = world_can_id w.
Proof. exact world_frame_lemma. Qed.
Print Assumptions world_frame.

(* refused attach attempts change nothing: the CAN-ID stays the plain message id *)
Theorem world_refused_attach : forall w o,
  (o = WBusAdd \/ o = WAttach) -> accepted w o = false ->
  w_has_static w = false -> w_attached w && w_on_bus w = false ->
  world_can_id (wstep w o) = w_id w.
Proof. exact world_refused_attach_lemma. Qed.
Print Assumptions world_refused_attach.

Theorem bus_add_refused : forall w,
  w_big w = true \/ (w_on_bus2 w = true /\ w_node_id w = w_node2_id w) \/ w_on_bus w = true
  \/ (w_attached w = true /\ w_has_static w = true /\ w_on_bus2 w = true /\ w_static2 w = Some (w_static w)) ->
  accepted w WBusAdd = false.
Proof. exact bus_add_refused_lemma. Qed.
Print Assumptions bus_add_refused.

(* which error InsertOperation returns: the code checks from, then length, then opIndex *)
Theorem insert_error_kind : forall ops k from len idx,
  (insert_operation ops k from len idx = Err ErrFrom <-> ~ (0 <= from <= 31))
  /\ (insert_operation ops k from len idx = Err ErrLength <-> 0 <= from <= 31 /\ ~ (0 <= len <= 32 - from))
  /\ (insert_operation ops k from len idx = Err ErrOpIndex
      <-> 0 <= from <= 31 /\ 0 <= len <= 32 - from /\ ~ (0 <= idx <= Z.of_nat (length ops))).
Proof. exact insert_error_kind_lemma. Qed.
Print Assumptions insert_error_kind.

(* reachable worlds (from init_world by wstep, i.e. by what the library accepts) satisfy an
   invariant; the statements below are about such worlds, not about arbitrary records *)
Theorem wreach_inv : forall w, wreach w ->
  (w_cur w < length (w_builders w))%nat
  /\ in32 (w_id w) /\ in32 (w_prio w) /\ in32 (w_static w) /\ in32 (w_node_id w)
  /\ (w_has_static w = true -> w_static w = w_id w)
  /\ (w_has_static w = false -> w_static w = 0)
  /\ (w_big w = true -> w_on_bus w = false).
Proof. exact wreach_inv_lemma. Qed.
Print Assumptions wreach_inv.

Theorem reach_can_id_in32 : forall w, wreach w -> in32 (world_can_id w).
Proof. exact reach_can_id_in32_lemma. Qed.
Print Assumptions reach_can_id_in32.

(* a static CAN-ID is also the message id *)
Theorem reach_static_is_id : forall w, wreach w -> w_has_static w = true -> world_can_id w = w_id w.
Proof. exact reach_static_is_id_lemma. Qed.
Print Assumptions reach_static_is_id.

(* the bus always has a builder of the pool (also after SetCANIDBuilder(nil), which installs a new
   default builder): the default of `nth` in world_cases is never used *)
Theorem reach_builder_defined : forall w, wreach w ->
  exists ops, nth_error (w_builders w) (w_cur w) = Some ops
    /\ (w_has_static w = false -> w_attached w = true -> w_on_bus w = true ->
        world_can_id w = calculate ops (w_prio w) (w_id w) (w_node_id w)).
Proof. exact reach_builder_defined_lemma. Qed.
Print Assumptions reach_builder_defined.

(* Bus.SetCANIDBuilder(nil): the CAN-ID of an attached message becomes the default builder's *)
Theorem world_nil_builder : forall w,
  w_has_static w = false -> w_attached w = true -> w_on_bus w = true ->
  world_can_id (wstep w WSetBuilderNil) = calculate default_ops (w_prio w) (w_id w) (w_node_id w).
Proof. exact world_nil_builder_lemma. Qed.
Print Assumptions world_nil_builder.

(* gateway node: the message sent through the node's SECOND interface, which is on another bus, is
   not touched by anything done to the first bus / interface / message: every operation except
   Node.RemoveInterface keeps that interface on its bus, and RemoveInterface only reaches it once
   the first interface is gone *)
Theorem gateway_frame : forall w o,
  o <> WRemoveInterface -> w_gw_on_bus (wstep w o) = w_gw_on_bus w.
Proof. exact gateway_frame_lemma. Qed.
Print Assumptions gateway_frame.

Theorem gateway_remove_first : forall w,
  w_iface_removed w = false -> w_gw_on_bus (wstep w WRemoveInterface) = w_gw_on_bus w.
Proof. exact gateway_remove_first_lemma. Qed.
Print Assumptions gateway_remove_first.

Theorem gateway_cases : forall w,
  gateway_can_id w = if w_gw_on_bus w then calculate default_ops 0 (w_gw_id w) (w_node_id w) else w_gw_id w.
Proof. exact gateway_cases_lemma. Qed.
Print Assumptions gateway_cases.
