(* C15 — Exports are deterministic functions of the model.
   Statements only; proofs live in Acme.C15.Proofs.  A raw network keeps acmelib's map-like
   fields as lists in arbitrary order; every getter takes its iteration order from an oracle
   that may return ANY permutation and then sorts.  [md_raw] is the complete Markdown block
   model (Acme.C16) on top of the getters; [save_raw] / [dbc_raw] are the order skeletons of
   saver.go / exporter.go (scope: props/C15/NOTES.md).  The number of CPUs is not in the
   model; it is varied on the implementation side only. *)
From Coq Require Import ZArith List String.
Local Open Scope string_scope.
From Acme.C16 Require Import Model.
From Acme.C15 Require Import Model Spec Proofs Mutators ProofsMut.

(* Map iteration order (every oracle, at every site) cannot be observed. *)
Theorem md_oracle_free : forall o1 o2 r, valid o1 -> valid o2 -> wf_net r ->
  md_raw o1 r = md_raw o2 r.
Proof. exact md_oracle_free_lemma. Qed.
Print Assumptions md_oracle_free.

Theorem export_dbc_oracle_free : forall o1 o2 r, valid o1 -> valid o2 -> wf_net r ->
  dbc_raw o1 r = dbc_raw o2 r.
Proof. exact dbc_oracle_free_lemma. Qed.
Print Assumptions export_dbc_oracle_free.

Theorem save_oracle_free : forall o1 o2 r, valid o1 -> valid o2 -> wf_net r ->
  save_raw o1 r = save_raw o2 r.
Proof. exact save_oracle_free_lemma. Qed.
Print Assumptions save_oracle_free.

(* The scalar content of every emitted record is a function of the entity alone ([record_of_bus],
   [record_of_nif], [record_of_msg], [record_of_sig] take no oracle); listed in emission order it is
   oracle-free like the skeletons, so byte identity rests only on the encoders being functions. *)
Theorem records_oracle_free : forall o1 o2 r, valid o1 -> valid o2 -> wf_net r ->
  records_raw o1 r = records_raw o2 r.
Proof. exact records_oracle_free_lemma. Qed.
Print Assumptions records_oracle_free.

(* The order in which an equal model was built (the internal order of every map-like field,
   at every level, entity ids being part of the model) cannot be observed either. *)
Theorem build_order_free : forall o1 o2 r1 r2, valid o1 -> valid o2 -> wf_net r1 -> net_equiv r1 r2 ->
  md_raw o1 r1 = md_raw o2 r2 /\ save_raw o1 r1 = save_raw o2 r2 /\ dbc_raw o1 r1 = dbc_raw o2 r2.
Proof. exact build_order_free_lemma. Qed.
Print Assumptions build_order_free.

(* Exports are functions of the CURRENT model, not of the history of reads: whatever exports and
   getter calls (each with its own map iteration orders) were interleaved with the changes, the
   three exports equal those of the model that received the changes alone.  For the (pure) model
   this is immediate; its content is the correspondence run, which executes such histories on the
   implementation (props/C15/NOTES.md). *)
Theorem export_history_free : forall evs s o1 o2, valid o1 -> valid o2 ->
  wf_net (hrun (changes_only evs) s) ->
  outputs o1 (hrun evs s) = outputs o2 (hrun (changes_only evs) s).
Proof. exact export_history_free_lemma. Qed.
Print Assumptions export_history_free.

(* Two builds of one model have different (random) entity ids.  When no sort key falls back to the
   id - the id-erased networks are well-formed: attribute names per owner, receiver names per
   message and (id, name) of the messages per interface are unique - the exports of two networks
   that are equal up to their ids and the order of their map-like fields agree: the Markdown
   outright (it shows no id), the save and DBC skeletons with the ids forgotten (entities are
   identified by their handles). *)
Theorem build_order_free_mod_ids : forall o1 o2 r1 r2, valid o1 -> valid o2 ->
  wf_net (erase_net r1) -> wf_net (erase_net r2) -> net_equiv (erase_net r1) (erase_net r2) ->
  md_raw o1 r1 = md_raw o2 r2 /\ save_noids o1 r1 = save_noids o2 r2 /\ dbc_noids o1 r1 = dbc_noids o2 r2.
Proof. exact build_order_free_mod_ids_lemma. Qed.
Print Assumptions build_order_free_mod_ids.

(* The hypothesis cannot be dropped: two same-named attributes assigned to one entity are ordered
   by their entity ids (ccef8ea), so two builds whose ids happen to compare the other way round
   save and export them in the other order - both builds are well-formed, they are equal up to ids,
   and their id-free outputs differ.  (Recorded as the open finding c15-rebuild-id-keyed-ties.) *)
Theorem build_order_ids_refuted :
  wf_net (tie_net "a" "b") /\ wf_net (tie_net "b" "a")
  /\ net_equiv (erase_net (tie_net "a" "b")) (erase_net (tie_net "b" "a"))
  /\ ~ wf_net (erase_net (tie_net "a" "b"))
  /\ save_noids o_id (tie_net "a" "b") <> save_noids o_id (tie_net "b" "a")
  /\ dbc_noids o_id (tie_net "a" "b") <> dbc_noids o_id (tie_net "b" "a").
Proof. exact build_order_ids_refuted_lemma. Qed.
Print Assumptions build_order_ids_refuted.

(* Underlying fact: the getters return the same walked network. *)
Theorem walk_canonical : forall o1 o2, valid o1 -> valid o2 ->
  forall r1 r2, net_equiv r1 r2 -> wf_net r1 -> walk o1 r1 = walk o2 r2.
Proof. exact walk_eq. Qed.
Print Assumptions walk_canonical.

(* The hypotheses are satisfiable: the oracles used for execution are valid, and a network with
   a tie in every sort key that acmelib allows to tie is well-formed. *)
Theorem oracles_valid : valid o_id /\ valid o_rev /\ forall k, valid (o_rot k).
Proof. exact (conj o_id_valid (conj o_rev_valid o_rot_valid)). Qed.
Print Assumptions oracles_valid.

(* [wf_net] is decidable: the correspondence driver evaluates [wf_netb] on every raw network dumped
   from the implementation through its getters (initial and post-history states), so the theorems
   above apply to exactly the networks the run has seen. *)
Theorem wf_netb_correct : forall r, wf_netb r = true -> wf_net r.
Proof. exact wf_netb_sound. Qed.
Print Assumptions wf_netb_correct.

Theorem wf_netb_complete_thm : forall r, wf_net r -> wf_netb r = true.
Proof. exact wf_netb_complete. Qed.
Print Assumptions wf_netb_complete_thm.

(* [wf_net] is preserved by the changes of the history leg that move an entity in a sorted getter,
   under the conditions under which acmelib accepts them (fresh bus name / node id free on every
   bus); the other generated changes rewrite scalars that are in no sort key. *)
Theorem wf_net_preserved :
  (forall h new r, wf_net r -> NoDup (map rb_h (rt_buses r)) -> ~ In new (map rb_name (rt_buses r)) ->
     wf_net (mut_bus_name h new r))
  /\ (forall h new r, wf_net r ->
        Forall (fun b => NoDup (map rn_h (rb_nifs b)) /\ ~ In new (map rn_id (rb_nifs b))) (rt_buses r) ->
        wf_net (mut_node_id h new r)).
Proof. exact (conj mut_bus_name_wf mut_node_id_wf). Qed.
Print Assumptions wf_net_preserved.

Theorem wf_net_example : wf_net ex_rnet.
Proof. exact ex_rnet_wf. Qed.
Print Assumptions wf_net_example.

(* More of the history leg inside the model (coq/C15/Mutators.v): the mutators that rewrite a
   component of [msg_key] (Message.UpdateName / UpdateID / SetStaticCANID), permute the receiver map
   (RemoveReceiver / AddReceiver) or move an enum value (SignalEnumValue.UpdateIndex) preserve
   [wf_net] under the conditions under which acmelib accepts the call, stated on the network before
   the call.  The mutators themselves are compared with the Go methods on dumped (before, after)
   pairs by the correspondence driver (signature c15-mutator-model:<mutator>). *)
Theorem wf_net_preserved_more :
  (forall h new r, wf_net r -> msg_name_ok h new r -> wf_net (mut_msg_name h new r))
  /\ (forall h new canid r, wf_net r -> msg_id_ok h new r -> wf_net (mut_msg_id h new canid r))
  /\ (forall h new r, wf_net r -> msg_static_ok r -> wf_net (mut_msg_static h new r))
  /\ (forall h node r, wf_net r -> wf_net (mut_msg_remove_recv h node r))
  /\ (forall h rc r, wf_net r -> msg_add_recv_ok h rc r -> wf_net (mut_msg_add_recv h rc r))
  /\ (forall eid old new r, wf_net r -> enum_index_ok eid new r -> wf_net (mut_enum_value_index eid old new r))
  /\ (forall h new r, wf_net r ->
        Forall (fun b => NoDup (map rn_h (rb_nifs b)) /\ ~ In new (map rn_id (rb_nifs b))) (rt_buses r) ->
        wf_net (mut_node_id_full h new r)).
Proof. exact wf_net_preserved_more_lemma. Qed.
Print Assumptions wf_net_preserved_more.

(* The acceptance conditions hold on the example network for changes that really move an entry of
   a sorted getter. *)
Theorem wf_net_preserved_more_example :
  (msg_name_ok 10 "a first" ex_rnet /\ getter_order (mut_msg_name 10 "a first" ex_rnet) <> getter_order ex_rnet)
  /\ (msg_id_ok 10 3 ex_rnet /\ getter_order (mut_msg_id 10 3 3 ex_rnet) <> getter_order ex_rnet)
  /\ (msg_static_ok ex_rnet /\ getter_order (mut_msg_static 11 6 ex_rnet) <> getter_order ex_rnet)
  /\ (getter_order (mut_msg_remove_recv 10 21 ex_rnet) <> getter_order ex_rnet)
  /\ (msg_add_recv_ok 10 ex_new_recv ex_rnet /\ getter_order (mut_msg_add_recv 10 ex_new_recv ex_rnet) <> getter_order ex_rnet)
  /\ (enum_index_ok 0 7 ex_rnet /\ value_order (mut_enum_value_index 0 0 7 ex_rnet) <> value_order ex_rnet).
Proof. exact mutators_example. Qed.
Print Assumptions wf_net_preserved_more_example.
