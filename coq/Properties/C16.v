(* C16 — Human-readable exports succeed and list every entity.
   Statements only; proofs live in Acme.C16.Proofs.  [md] is the model of ExportToMarkdown
   (Acme.C16.Model), [blocks n] its block list; String() renderings are modelled only as total
   and are exercised by the run (props/C16). *)
From Coq Require Import ZArith List String.
From Acme.C16 Require Import Model Spec Proofs.
Import ListNotations.

(* The export never fails — for every network tree, well-formed or not. *)
Theorem md_ok : forall n, is_ok (md n) = true.
Proof. exact md_ok_lemma. Qed.
Print Assumptions md_ok.

(* ... and its result is the block list [blocks n]. *)
Theorem md_result : forall n, md n = Ok (blocks n).
Proof. exact md_is_blocks. Qed.
Print Assumptions md_result.

(* One level-1 heading (the network), one level-2 heading per bus followed by the three
   appendices, one level-3 heading per node interface, one level-4 heading per message (then
   one per listed enum), all in the order of the tree.  [esc_heading] is the name on one line (a line
   break in a name is written as a blank, headingText in md_exporter.go). *)
Theorem md_sections : forall n,
  headings 1 (blocks n) = [esc_heading (nt_name n)]
  /\ headings 2 (blocks n) = map (fun b => esc_heading (b_name b)) (nt_buses n) ++ appendix_titles
  /\ headings 3 (blocks n) = map (fun x => esc_heading (n_name x)) (flat_map b_nifs (nt_buses n))
  /\ headings 4 (blocks n) = map (fun m => esc_heading (m_name m)) (msgs_of_net n)
                             ++ map (fun e => esc_heading (se_name e)) (enums_listed n).
Proof. exact md_sections_lemma. Qed.
Print Assumptions md_sections.

(* Read as CommonMark the document has no other headings: no paragraph line is directly followed
   by a line of dashes (every paragraph ends with the library's blank LF line before a rule), so no
   setext heading arises and the CommonMark headings are the ATX headings of md_sections.
   Descriptions are written with [esc_par]: a line that starts like a block is escaped. *)
Theorem md_sections_commonmark : forall n k,
  setext_free (blocks n) = true /\ cm_headings k (blocks n) = headings k (blocks n).
Proof. exact md_sections_commonmark_lemma. Qed.
Print Assumptions md_sections_commonmark.

(* Every row of every table is as wide as the table's header. *)
Theorem md_rows_width : forall n bs h rows,
  md n = Ok bs -> In (Table h rows) bs ->
  Forall (fun r => List.length r = List.length h) rows.
Proof. exact md_rows_width_lemma. Qed.
Print Assumptions md_rows_width.

(* [mk_table h rows] is the table whose cells are the ESCAPED cells of [rows] ('|' -> "\|", line
   breaks -> "<br>", as md_exporter.go writes them), so that a pipe or a line break in a name or a
   description cannot add or end cells in the rendered text.
   Every message's section is a contiguous segment of the document; it holds exactly one table
   when the message has signals (none otherwise), and that table has one row per signal
   occurrence — every signal at every multiplexing depth, once in each group section it belongs
   to, group sections opened by a marker row — starting with name, start bit and size. *)
Theorem md_signal_rows : forall n m, In m (msgs_of_net n) ->
  seg (blocks n) (msg_blocks m)
  /\ tables (msg_blocks m) =
       match m_sigs m with [] => [] | _ => [mk_table sig_header (rows_sigs 0 (m_sigs m))] end
  /\ Forall2 row_matches (rows_sigs 0 (m_sigs m)) (occs 0 (m_sigs m)).
Proof. exact md_signal_rows_lemma. Qed.
Print Assumptions md_signal_rows.

(* The document ends with the appendices; their tables list exactly the referenced types, units
   and enums, each once. *)
Theorem md_appendix_exact : forall n, well_formed n ->
  (exists pre, blocks n = pre ++ appendix_blocks n)
  /\ tables (appendix_blocks n) =
       mk_table type_header (map type_row (types_listed n))
       :: mk_table unit_header (map unit_row (units_listed n))
       :: map (fun e => mk_table value_header (map value_row (se_values e))) (enums_listed n)
  /\ headings 4 (appendix_blocks n) = map (fun e => esc_heading (se_name e)) (enums_listed n)
  /\ lists_exactly st_id (types_listed n) (all_types n)
  /\ lists_exactly su_id (units_listed n) (all_units n)
  /\ lists_exactly se_id (enums_listed n) (all_enums n).
Proof. exact md_appendix_exact_lemma. Qed.
Print Assumptions md_appendix_exact.

(* Without the hypothesis (two different definitions carrying one id) the lists are still
   duplicate-free, contain only referenced definitions and cover every referenced id. *)
Theorem md_appendix_sound : forall n,
  NoDup (map st_id (types_listed n))
  /\ (forall a, In a (types_listed n) -> In a (all_types n))
  /\ (forall a, In a (all_types n) -> exists a', In a' (types_listed n) /\ st_id a' = st_id a).
Proof. exact md_appendix_sound_lemma. Qed.
Print Assumptions md_appendix_sound.

(* The hypothesis of md_appendix_exact is satisfiable by a non-trivial network (nested
   multiplexers, a signal shared by two groups, an empty group, a message without signals). *)
Theorem well_formed_example : well_formed ex_net.
Proof. exact ex_net_wf. Qed.
Print Assumptions well_formed_example.

(* ---------------------------------------------------------------- String() renderings *)
(* [Acme.C16.ModelStr] models every stringify method as a structurally recursive function from the
   entity tree to a list of lines ([tabs n] = getTabString): total by construction, never empty.
   The run compares the model's text with Go's String() for every generated entity, exactly. *)
From Acme.C16 Require Import ModelStr ProofsStr.

Theorem string_total : forall n, net_string n = render (net_lines n) /\ net_string n <> ""%string.
Proof. exact (fun n => conj eq_refl (net_string_nonempty n)). Qed.
Print Assumptions string_total.

(* Network.String() lists every child entity by name, at its indentation: every bus and its CAN-ID
   builder (1 tab), every node (3) and sent message (3) of every interface, and every signal at
   every multiplexing depth ([below 4 s t' c]: c is rendered at t' tabs somewhere below the
   top-level signal s). *)
Theorem string_lists_children : forall n b x m s t' c,
  In b (nw_buses n) -> In x (bs_nifs b) -> In m (ni_sent x) -> In s (mg_sigs m) -> below 4 s t' c ->
  In (name_line 1 (bs_ent b)) (net_lines n)
  /\ In (name_line 1 (bd_ent (bs_builder b))) (net_lines n)
  /\ In (name_line 3 (nd_ent (ni_node x))) (net_lines n)
  /\ In (name_line 3 (mg_ent m)) (net_lines n)
  /\ In (name_line t' (sb_ent (ssig_base c))) (net_lines n).
Proof. exact net_lists_everything. Qed.
Print Assumptions string_lists_children.

(* The rendering of a signal lists the signals it multiplexes (any depth) ... *)
Theorem string_signal_lists_children : forall t s t' c,
  below t s t' c -> incl (sig_lines t' c) (sig_lines t s).
Proof. exact below_incl. Qed.
Print Assumptions string_signal_lists_children.

(* ... and the definitions it refers to; an enum lists its values. *)
Theorem string_lists_definitions :
  (forall t b ty un, In (name_line (S t) (ty_ent ty)) (sig_lines t (StrStd b ty un)))
  /\ (forall t b ty u, In (name_line (S t) (un_ent u)) (sig_lines t (StrStd b ty (Some u))))
  /\ (forall t b en, In (name_line (S t) (en_ent en)) (sig_lines t (StrEnum b en)))
  /\ (forall t en v, In v (en_values en) -> In (name_line (S t) (va_ent v)) (enum_lines t en)).
Proof. exact (conj type_in_std (conj unit_in_std (conj enum_in_enum value_in_enum))). Qed.
Print Assumptions string_lists_definitions.

(* ---------------------------------------------------------------- row width on the RENDERED line *)
(* [render_row cells] is the printed table line ("| c1 | c2 |", tablewriter's padding aside),
   [split_unescaped] cuts a line at the pipes that are not directly preceded by a backslash
   (Acme.C16.Render).  An escaped cell contains no line break and no unescaped pipe, so the
   rendered line of any row of escaped cells is read back as exactly those cells ... *)
From Acme.C16 Require Import Render ProofsRender.

Theorem rendered_row_roundtrip : forall raw,
  split_unescaped (render_row (map esc_cell raw)) = map esc_cell raw
  /\ Forall (fun c => no_breakb c = true) (map esc_cell raw).
Proof. exact escaped_row_roundtrip. Qed.
Print Assumptions rendered_row_roundtrip.

(* ... and in the document every table's rendered header and rendered rows are read back as their
   cell lists, every row is a single line, and every rendered row has as many cells as the
   rendered header: "every table row has as many cells as its header" on the text. *)
Theorem md_rows_width_rendered : forall n bs h rows,
  md n = Ok bs -> In (Table h rows) bs ->
  split_unescaped (render_row h) = h
  /\ Forall (fun r => split_unescaped (render_row r) = r
                     /\ Forall (fun c => no_breakb c = true) r
                     /\ List.length (split_unescaped (render_row r)) = List.length (split_unescaped (render_row h))) rows.
Proof. exact md_rows_width_rendered_lemma. Qed.
Print Assumptions md_rows_width_rendered.
