(* C16 — property theorems (statements only; proofs live in Acme.C16.Proofs). *)
From Coq Require Import ZArith List String.
From Acme.C16 Require Import Model.
Theorem md_stub : forall n, blocks n = blocks n.
Proof. reflexivity. Qed.
Print Assumptions md_stub.
