(* C16 — Human-readable exports succeed and list every entity.
   Statements only; proofs live in Acme.C16.Proofs.  [md] is the model of ExportToMarkdown
   (Acme.C16.Model), [blocks n] its block list; String() renderings are modelled only as total
   and are exercised by the run (props/C16). *)
From Coq Require Import ZArith List String.
From Acme.C16 Require Import Model Spec Proofs.
Import ListNotations.

(* The export never fails — for every network tree, well-formed or not. *)
Theorem md_ok : forall n, is_ok (md n) = true.
Proof. exact md_ok_lemma. Qed.
Print Assumptions md_ok.

(* ... and its result is the block list [blocks n]. *)
Theorem md_result : forall n, md n = Ok (blocks n).
Proof. exact md_is_blocks. Qed.
Print Assumptions md_result.

(* One level-1 heading (the network), one level-2 heading per bus followed by the three
   appendices, one level-3 heading per node interface, one level-4 heading per message (then
   one per listed enum), all in the order of the tree. *)
Theorem md_sections : forall n,
  headings 1 (blocks n) = [nt_name n]
  /\ headings 2 (blocks n) = map b_name (nt_buses n) ++ appendix_titles
  /\ headings 3 (blocks n) = map n_name (flat_map b_nifs (nt_buses n))
  /\ headings 4 (blocks n) = map m_name (msgs_of_net n) ++ map se_name (enums_listed n).
Proof. exact md_sections_lemma. Qed.
Print Assumptions md_sections.

(* Every row of every table is as wide as the table's header. *)
Theorem md_rows_width : forall n bs h rows,
  md n = Ok bs -> In (Table h rows) bs ->
  Forall (fun r => List.length r = List.length h) rows.
Proof. exact md_rows_width_lemma. Qed.
Print Assumptions md_rows_width.

(* [mk_table h rows] is the table whose cells are the ESCAPED cells of [rows] ('|' -> "\|", line
   breaks -> "<br>", as md_exporter.go writes them), so that a pipe or a line break in a name or a
   description cannot add or end cells in the rendered text.
   Every message's section is a contiguous segment of the document; it holds exactly one table
   when the message has signals (none otherwise), and that table has one row per signal
   occurrence — every signal at every multiplexing depth, once in each group section it belongs
   to, group sections opened by a marker row — starting with name, start bit and size. *)
Theorem md_signal_rows : forall n m, In m (msgs_of_net n) ->
  seg (blocks n) (msg_blocks m)
  /\ tables (msg_blocks m) =
       match m_sigs m with [] => [] | _ => [mk_table sig_header (rows_sigs 0 (m_sigs m))] end
  /\ Forall2 row_matches (rows_sigs 0 (m_sigs m)) (occs 0 (m_sigs m)).
Proof. exact md_signal_rows_lemma. Qed.
Print Assumptions md_signal_rows.

(* The document ends with the appendices; their tables list exactly the referenced types, units
   and enums, each once. *)
Theorem md_appendix_exact : forall n, well_formed n ->
  (exists pre, blocks n = pre ++ appendix_blocks n)
  /\ tables (appendix_blocks n) =
       mk_table type_header (map type_row (types_listed n))
       :: mk_table unit_header (map unit_row (units_listed n))
       :: map (fun e => mk_table value_header (map value_row (se_values e))) (enums_listed n)
  /\ headings 4 (appendix_blocks n) = map se_name (enums_listed n)
  /\ lists_exactly st_id (types_listed n) (all_types n)
  /\ lists_exactly su_id (units_listed n) (all_units n)
  /\ lists_exactly se_id (enums_listed n) (all_enums n).
Proof. exact md_appendix_exact_lemma. Qed.
Print Assumptions md_appendix_exact.

(* Without the hypothesis (two different definitions carrying one id) the lists are still
   duplicate-free, contain only referenced definitions and cover every referenced id. *)
Theorem md_appendix_sound : forall n,
  NoDup (map st_id (types_listed n))
  /\ (forall a, In a (types_listed n) -> In a (all_types n))
  /\ (forall a, In a (all_types n) -> exists a', In a' (types_listed n) /\ st_id a' = st_id a).
Proof. exact md_appendix_sound_lemma. Qed.
Print Assumptions md_appendix_sound.

(* The hypothesis of md_appendix_exact is satisfiable by a non-trivial network (nested
   multiplexers, a signal shared by two groups, an empty group, a message without signals). *)
Theorem well_formed_example : well_formed ex_net.
Proof. exact ex_net_wf. Qed.
Print Assumptions well_formed_example.
