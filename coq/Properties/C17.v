(* C17 — property theorems (statements only; proofs live in Acme.C17.Proofs).
   Bus load figures are arithmetically consistent.  Model: Acme.C17.Model (utils.go
   CalculateBusLoad) over exact rationals; the float64 results of the implementation are compared
   with it within a stated bound by the correspondence check (props/C17).
   Domain of the property (valid_bus): CAN 2.0A bus, message sizes >= 0, cycle times >= 0 (0 means
   "use the default").  Any number of interfaces and messages. *)
From Coq Require Import ZArith QArith List Bool Permutation Sorted.
From Acme.C17 Require Import Model Proofs.
Require Acme.C17.FloatRemark.
Import ListNotations.
Open Scope Q_scope.

(* worst-case frame bits: payload + header + trailer + stuffing bits (integer division) *)
Theorem frame_bits_spec : forall n, (0 <= n)%Z ->
  frame_bits 0 n = (8 * n + 19 + 25 + (34 + 8 * n - 1) / 4)%Z.
Proof. exact frame_bits_spec_lemma. Qed.
Print Assumptions frame_bits_spec.

(* the load is the sum over all sent messages of frame bits per cycle time, divided by the baud rate *)
Theorem load_is_sum : forall b def load es,
  (0 < def)%Z -> b_baud b <> 0%Z -> calculate_bus_load b def = BLOk load es ->
  load == qsum (map (fun m => inject_Z (frame_bits (b_typ b) (m_size m))
                              / inject_Z (cycle_or_default (m_cycle m) def) * inject_Z 1000)
                    (bus_msgs b))
          / inject_Z (b_baud b) * inject_Z 100.
Proof. exact load_is_sum_lemma. Qed.
Print Assumptions load_is_sum.

(* each message appears exactly once *)
Theorem each_message_once : forall b def load es,
  (0 < def)%Z -> b_baud b <> 0%Z -> calculate_bus_load b def = BLOk load es ->
  Permutation (map e_msg es) (bus_msgs b).
Proof. exact each_message_once_lemma. Qed.
Print Assumptions each_message_once.

(* ... with its own rate and a percentage equal to its share of the total *)
Theorem entries_spec : forall b def load es,
  (0 < def)%Z -> b_baud b <> 0%Z -> calculate_bus_load b def = BLOk load es ->
  Forall (fun e => e_bps e = bps (b_typ b) def (e_msg e)
                   /\ e_pct e == e_bps e / qsum (map (bps (b_typ b) def) (bus_msgs b)) * inject_Z 100) es.
Proof. exact entries_spec_lemma. Qed.
Print Assumptions entries_spec.

(* shares sum to 100 when there is a message *)
Theorem shares_sum_100 : forall b def load es,
  (0 < def)%Z -> b_baud b <> 0%Z -> valid_bus b -> bus_msgs b <> [] ->
  calculate_bus_load b def = BLOk load es ->
  qsum (map e_pct es) == inject_Z 100.
Proof. exact shares_sum_100_lemma. Qed.
Print Assumptions shares_sum_100.

(* entries are ordered by non-increasing bits per second (every earlier entry >= every later one) *)
Theorem sorted_desc : forall b def load es,
  calculate_bus_load b def = BLOk load es -> StronglySorted (fun a b => e_bps b <= e_bps a) es.
Proof. exact sorted_desc_lemma. Qed.
Print Assumptions sorted_desc.

(* a zero baud rate yields zero load *)
Theorem zero_baud : forall b def, (0 < def)%Z -> b_baud b = 0%Z -> calculate_bus_load b def = BLOk 0 [].
Proof. exact zero_baud_lemma. Qed.
Print Assumptions zero_baud.

(* a non-positive default cycle time is refused (whatever the bus), and only then *)
Theorem nonpositive_default_refused : forall b def, (def <= 0)%Z ->
  calculate_bus_load b def = BLErr (if (def <? 0)%Z then ErrIsNegative else ErrIsZero).
Proof. exact nonpositive_default_refused_lemma. Qed.
Print Assumptions nonpositive_default_refused.

Theorem accepted_iff_positive : forall b def,
  (exists load es, calculate_bus_load b def = BLOk load es) <-> (0 < def)%Z.
Proof. exact accepted_iff_positive_lemma. Qed.
Print Assumptions accepted_iff_positive.

(* enlarging a message never decreases the load *)
Theorem monotone_size : forall b b' def load es load' es' l1 l2 m m',
  (0 < def)%Z -> (0 < b_baud b)%Z -> b_baud b' = b_baud b -> b_typ b = 0%Z -> b_typ b' = 0%Z ->
  bus_msgs b = l1 ++ m :: l2 -> bus_msgs b' = l1 ++ m' :: l2 ->
  valid_msg m -> m_cycle m' = m_cycle m -> (m_size m <= m_size m')%Z ->
  calculate_bus_load b def = BLOk load es -> calculate_bus_load b' def = BLOk load' es' ->
  load <= load'.
Proof. exact monotone_size_lemma. Qed.
Print Assumptions monotone_size.

(* shortening its (effective) cycle time never decreases the load *)
Theorem antitone_cycle : forall b b' def load es load' es' l1 l2 m m',
  (0 < def)%Z -> (0 < b_baud b)%Z -> b_baud b' = b_baud b -> b_typ b = 0%Z -> b_typ b' = 0%Z ->
  bus_msgs b = l1 ++ m :: l2 -> bus_msgs b' = l1 ++ m' :: l2 ->
  valid_msg m -> m_size m' = m_size m ->
  (0 < cycle_or_default (m_cycle m') def <= cycle_or_default (m_cycle m) def)%Z ->
  calculate_bus_load b def = BLOk load es -> calculate_bus_load b' def = BLOk load' es' ->
  load <= load'.
Proof. exact antitone_cycle_lemma. Qed.
Print Assumptions antitone_cycle.

(* the exact load does not depend on the order in which the (map-stored) messages are visited *)
Theorem load_order_free : forall b b' def load es load' es',
  (0 < def)%Z -> b_baud b <> 0%Z -> b_baud b' = b_baud b -> b_typ b' = b_typ b ->
  Permutation (bus_msgs b) (bus_msgs b') ->
  calculate_bus_load b def = BLOk load es -> calculate_bus_load b' def = BLOk load' es' ->
  load == load'.
Proof. exact load_order_free_lemma. Qed.
Print Assumptions load_order_free.

(* several calls on the same bus: each result is the function of (bus, that call's default) alone,
   whatever was asked before *)
Theorem load_call_independent : forall b defs i d,
  nth_error defs i = Some d -> nth_error (session b defs) i = Some (calculate_bus_load b d).
Proof. exact load_call_independent_lemma. Qed.
Print Assumptions load_call_independent.

Theorem session_prefix_free : forall b pre pre' d,
  last (session b (pre ++ [d])) (BLErr ErrIsZero) = last (session b (pre' ++ [d])) (BLErr ErrIsZero).
Proof. exact session_prefix_free_lemma. Qed.
Print Assumptions session_prefix_free.

(* Remark over IEEE binary64 (Flocq): accumulating three rates of the model's domain in two
   different (map) orders gives two different float64 totals, one unit in the last place apart.
   The float total is therefore determined only up to reassociation; the property is claimed on
   the exact model above and the implementation is compared with it within a bound. *)
Theorem float_sum_order_matters :
  Acme.C17.FloatRemark.sum_abc <> Acme.C17.FloatRemark.sum_cba
  /\ (Acme.C17.FloatRemark.sum_cba - Acme.C17.FloatRemark.sum_abc = 1)%Z.
Proof. exact (conj Acme.C17.FloatRemark.float_sum_order_matters_lemma Acme.C17.FloatRemark.float_sum_orders_adjacent_lemma). Qed.
Print Assumptions float_sum_order_matters.
