(* C17 — property theorems (statements only; proofs live in Acme.C17.Proofs).
   Bus load figures are arithmetically consistent.  Model: Acme.C17.Model (utils.go
   CalculateBusLoad) over exact rationals; the float64 results of the implementation are compared
   with it within a stated bound by the correspondence check (props/C17).
   Domain of the property (valid_bus): CAN 2.0A bus, message sizes >= 0, cycle times >= 0 (0 means
   "use the default").  Any number of interfaces and messages. *)
From Coq Require Import Reals Qreals.
From Flocq Require Import Core IEEE754.Binary.
From Coq Require Import ZArith QArith List Bool Permutation Sorted.
Require Acme.C17.FloatBound.
Require Acme.C17.FloatExec.
Require Acme.C17.FloatExecProofs.
From Acme.C17 Require Import Model Proofs.
Import ListNotations.
Open Scope Q_scope.

(* worst-case frame bits: payload + header + trailer + stuffing bits (integer division) *)
Theorem frame_bits_spec : forall n, (0 <= n)%Z ->
  frame_bits 0 n = (8 * n + 19 + 25 + (34 + 8 * n - 1) / 4)%Z.
Proof. exact frame_bits_spec_lemma. Qed.
Print Assumptions frame_bits_spec.

(* the load is the sum over all sent messages of frame bits per cycle time, divided by the baud rate *)
Theorem load_is_sum : forall b def load es,
  (0 < def)%Z -> b_baud b <> 0%Z -> calculate_bus_load b def = BLOk load es ->
  load == qsum (map (fun m => inject_Z (frame_bits (b_typ b) (m_size m))
                              / inject_Z (cycle_or_default (m_cycle m) def) * inject_Z 1000)
                    (bus_msgs b))
          / inject_Z (b_baud b) * inject_Z 100.
Proof. exact load_is_sum_lemma. Qed.
Print Assumptions load_is_sum.

(* each message appears exactly once *)
Theorem each_message_once : forall b def load es,
  (0 < def)%Z -> b_baud b <> 0%Z -> calculate_bus_load b def = BLOk load es ->
  Permutation (map e_msg es) (bus_msgs b).
Proof. exact each_message_once_lemma. Qed.
Print Assumptions each_message_once.

(* ... with its own rate and a percentage equal to its share of the total.  The share is stated only
   for a non-zero total (x / 0 = 0 in Q is a totalisation, the Go code yields NaN there);
   `total_nonzero` derives the hypothesis on the property's domain whenever there is a message *)
Theorem entries_spec : forall b def load es,
  (0 < def)%Z -> b_baud b <> 0%Z ->
  ~ qsum (map (bps (b_typ b) def) (bus_msgs b)) == 0 ->
  calculate_bus_load b def = BLOk load es ->
  Forall (fun e => e_bps e = bps (b_typ b) def (e_msg e)
                   /\ e_pct e == e_bps e / qsum (map (bps (b_typ b) def) (bus_msgs b)) * inject_Z 100) es.
Proof. exact entries_spec_lemma. Qed.
Print Assumptions entries_spec.

Theorem total_nonzero : forall b def,
  (0 < def)%Z -> valid_bus b -> bus_msgs b <> [] ->
  ~ qsum (map (bps (b_typ b) def) (bus_msgs b)) == 0.
Proof. exact total_nonzero_lemma. Qed.
Print Assumptions total_nonzero.

(* shares sum to 100 when there is a message *)
Theorem shares_sum_100 : forall b def load es,
  (0 < def)%Z -> b_baud b <> 0%Z -> valid_bus b -> bus_msgs b <> [] ->
  calculate_bus_load b def = BLOk load es ->
  qsum (map e_pct es) == inject_Z 100.
Proof. exact shares_sum_100_lemma. Qed.
Print Assumptions shares_sum_100.

(* entries are ordered by non-increasing bits per second (every earlier entry >= every later one) *)
Theorem sorted_desc : forall b def load es,
  calculate_bus_load b def = BLOk load es -> StronglySorted (fun a b => e_bps b <= e_bps a) es.
Proof. exact sorted_desc_lemma. Qed.
Print Assumptions sorted_desc.

(* a zero baud rate yields zero load *)
Theorem zero_baud : forall b def, (0 < def)%Z -> b_baud b = 0%Z -> calculate_bus_load b def = BLOk 0 [].
Proof. exact zero_baud_lemma. Qed.
Print Assumptions zero_baud.

(* a non-positive default cycle time is refused (whatever the bus), and only then *)
Theorem nonpositive_default_refused : forall b def, (def <= 0)%Z ->
  calculate_bus_load b def = BLErr (if (def <? 0)%Z then ErrIsNegative else ErrIsZero).
Proof. exact nonpositive_default_refused_lemma. Qed.
Print Assumptions nonpositive_default_refused.

Theorem accepted_iff_positive : forall b def,
  (exists load es, calculate_bus_load b def = BLOk load es) <-> (0 < def)%Z.
Proof. exact accepted_iff_positive_lemma. Qed.
Print Assumptions accepted_iff_positive.

(* enlarging a message never decreases the load — for a POSITIVE baud rate and ANY bus type value (the property says
   non-zero; for a negative one the claim is false, see monotone_negative_baud_refuted; for zero the
   load stays 0, see monotone_zero_baud) *)
Theorem monotone_size_pos_baud : forall b b' def load es load' es' l1 l2 m m',
  (0 < def)%Z -> (0 < b_baud b)%Z -> b_baud b' = b_baud b -> b_typ b' = b_typ b ->
  bus_msgs b = l1 ++ m :: l2 -> bus_msgs b' = l1 ++ m' :: l2 ->
  valid_msg m -> m_cycle m' = m_cycle m -> (m_size m <= m_size m')%Z ->
  calculate_bus_load b def = BLOk load es -> calculate_bus_load b' def = BLOk load' es' ->
  load <= load'.
Proof. exact monotone_size_lemma. Qed.
Print Assumptions monotone_size_pos_baud.

(* shortening its (effective) cycle time never decreases the load — for a positive baud rate *)
Theorem antitone_cycle_pos_baud : forall b b' def load es load' es' l1 l2 m m',
  (0 < def)%Z -> (0 < b_baud b)%Z -> b_baud b' = b_baud b -> b_typ b' = b_typ b ->
  bus_msgs b = l1 ++ m :: l2 -> bus_msgs b' = l1 ++ m' :: l2 ->
  valid_msg m -> m_size m' = m_size m ->
  (0 < cycle_or_default (m_cycle m') def <= cycle_or_default (m_cycle m) def)%Z ->
  calculate_bus_load b def = BLOk load es -> calculate_bus_load b' def = BLOk load' es' ->
  load <= load'.
Proof. exact antitone_cycle_lemma. Qed.
Print Assumptions antitone_cycle_pos_baud.

(* outside the hypothesis 0 < baud: Bus.SetBaudrate accepts a negative int; then the load is
   negative and enlarging a message or shortening its cycle time DEcreases it (recorded finding
   c17-monotone-negative-baud) *)
Theorem monotone_negative_baud_refuted :
  exists b b1 b2 def load es load1 es1 load2 es2,
    (0 < def)%Z /\ b_baud b <> 0%Z /\ valid_bus b /\ valid_bus b1 /\ valid_bus b2
    /\ bus_msgs b = [plain 0 8 100; plain 1 8 10] ++ plain 2 0 0 :: []
    /\ bus_msgs b1 = [plain 0 8 100; plain 1 8 10] ++ plain 2 3 0 :: []
    /\ bus_msgs b2 = [plain 0 8 100; plain 1 8 10] ++ plain 2 0 499 :: []
    /\ calculate_bus_load b def = BLOk load es
    /\ calculate_bus_load b1 def = BLOk load1 es1
    /\ calculate_bus_load b2 def = BLOk load2 es2
    /\ load1 < load /\ load2 < load.
Proof. exact monotone_negative_baud_refuted_lemma. Qed.
Print Assumptions monotone_negative_baud_refuted.

Theorem monotone_zero_baud : forall b b' def,
  (0 < def)%Z -> b_baud b = 0%Z -> b_baud b' = 0%Z ->
  calculate_bus_load b def = BLOk 0 [] /\ calculate_bus_load b' def = BLOk 0 [].
Proof. exact monotone_zero_baud_lemma. Qed.
Print Assumptions monotone_zero_baud.

(* outside valid_bus: a bus of an undefined type value with only an empty message has total rate 0
   and its shares do not sum to 100 (recorded finding c17-nan-unknown-bus-type: Go returns NaN) *)
Theorem shares_unknown_type_refuted :
  exists b def load es,
    (0 < def)%Z /\ b_baud b <> 0%Z /\ bus_msgs b <> [] /\ Forall valid_msg (bus_msgs b)
    /\ calculate_bus_load b def = BLOk load es
    /\ qsum (map (bps (b_typ b) def) (bus_msgs b)) == 0
    /\ ~ qsum (map e_pct es) == inject_Z 100.
Proof. exact shares_unknown_type_refuted_lemma. Qed.
Print Assumptions shares_unknown_type_refuted.

(* the exact load does not depend on the order in which the (map-stored) messages are visited *)
Theorem load_order_free : forall b b' def load es load' es',
  (0 < def)%Z -> b_baud b <> 0%Z -> b_baud b' = b_baud b -> b_typ b' = b_typ b ->
  Permutation (bus_msgs b) (bus_msgs b') ->
  calculate_bus_load b def = BLOk load es -> calculate_bus_load b' def = BLOk load' es' ->
  load == load'.
Proof. exact load_order_free_lemma. Qed.
Print Assumptions load_order_free.

(* several calls on the same bus: each result is the function of (bus, that call's default) alone,
   whatever was asked before *)
Theorem load_call_independent : forall b defs i d,
  nth_error defs i = Some d -> nth_error (session b defs) i = Some (calculate_bus_load b d).
Proof. exact load_call_independent_lemma. Qed.
Print Assumptions load_call_independent.

Theorem session_prefix_free : forall b pre pre' d,
  last (session b (pre ++ [d])) (BLErr ErrIsZero) = last (session b (pre' ++ [d])) (BLErr ErrIsZero).
Proof. exact session_prefix_free_lemma. Qed.
Print Assumptions session_prefix_free.

(* frame: the result depends on size and cycle time of the messages only — not on delay time, start
   delay, priority, send type, static CAN-ID, receivers, signals (msg_rest) nor on the key *)
Theorem load_ignores_delay : forall b b' def,
  b_typ b' = b_typ b -> b_baud b' = b_baud b -> Forall2 same_core (bus_msgs b) (bus_msgs b') ->
  match calculate_bus_load b def, calculate_bus_load b' def with
  | BLOk l es, BLOk l' es' => l = l' /\ map figures es = map figures es'
  | BLErr e, BLErr e' => e = e'
  | _, _ => False
  end.
Proof. exact load_ignores_delay_lemma. Qed.
Print Assumptions load_ignores_delay.

(* The float64 link (coq/C17/FloatBound.v), w.r.t. Flocq's IEEE-754 binary64 semantics: the Go
   computation, modelled operation by operation in Go's order with round-to-nearest-even
   (`load_float`), never overflows on the domain `float_domain` (any bus type value, 1..900 messages,
   sizes 0..8 (1..8 for a type other than CAN 2.0A), cycles 0..3600000, default 1..3600000, 1 <= baud < 2^53) and its result is within the
   relative bound n * 2^-50 of the exact rational load — the bound the correspondence check uses —
   whatever the order in which the messages are visited.  Uses the standard-library real-number
   axioms through Flocq (listed by Print Assumptions).  Trusted: Go's float64 is IEEE-754 binary64. *)
Theorem load_float_close : forall b def load es,
  Acme.C17.FloatBound.float_domain b def -> calculate_bus_load b def = BLOk load es ->
  is_finite 53 1024 (Acme.C17.FloatBound.load_float b def) = true
  /\ (Rabs (B2R 53 1024 (Acme.C17.FloatBound.load_float b def) - Q2R load)
      <= INR (length (bus_msgs b)) * bpow radix2 (-50) * Q2R load)%R.
Proof. exact Acme.C17.FloatBound.load_float_close_lemma. Qed.
Print Assumptions load_float_close.

(* the float64 BitsPerSec of every message is finite and within 2^-51 (relative) of its exact rate *)
Theorem rate_float_close : forall b def m,
  Acme.C17.FloatBound.float_domain b def -> In m (bus_msgs b) ->
  is_finite 53 1024 (Acme.C17.FloatBound.rate_float b def m) = true
  /\ (Rabs (B2R 53 1024 (Acme.C17.FloatBound.rate_float b def m) - Q2R (bps (b_typ b) def m))
      <= bpow radix2 (-51) * Q2R (bps (b_typ b) def m))%R.
Proof. exact Acme.C17.FloatBound.rate_float_close_lemma. Qed.
Print Assumptions rate_float_close.

(* order under rounding.  Rounding is monotone: a message with a larger (or equal) exact rate never
   has a smaller float64 rate ... *)
Theorem rate_float_order : forall b def m m',
  Acme.C17.FloatBound.float_domain b def -> In m (bus_msgs b) -> In m' (bus_msgs b) ->
  bps (b_typ b) def m <= bps (b_typ b) def m' ->
  (B2R 53 1024 (Acme.C17.FloatBound.rate_float b def m) <= B2R 53 1024 (Acme.C17.FloatBound.rate_float b def m'))%R.
Proof. exact Acme.C17.FloatBound.rate_float_order_lemma. Qed.
Print Assumptions rate_float_order.

(* ... so a strictly larger float64 rate means a strictly larger exact rate: in a list sorted by
   non-increasing float64 rate two entries can be in the "wrong" exact order only if their float64
   rates are equal (a tie created by rounding) ... *)
Theorem rate_float_strict : forall b def m m',
  Acme.C17.FloatBound.float_domain b def -> In m (bus_msgs b) -> In m' (bus_msgs b) ->
  (B2R 53 1024 (Acme.C17.FloatBound.rate_float b def m') < B2R 53 1024 (Acme.C17.FloatBound.rate_float b def m))%R ->
  bps (b_typ b) def m' < bps (b_typ b) def m.
Proof. exact Acme.C17.FloatBound.rate_float_strict_lemma. Qed.
Print Assumptions rate_float_strict.

(* ... and the order the exact model returns is itself non-increasing in the float64 rates *)
Theorem model_order_float_sorted : forall b def load es,
  Acme.C17.FloatBound.float_domain b def -> calculate_bus_load b def = BLOk load es ->
  StronglySorted (fun a c => (B2R 53 1024 (Acme.C17.FloatBound.rate_float b def (e_msg c))
                              <= B2R 53 1024 (Acme.C17.FloatBound.rate_float b def (e_msg a)))%R) es.
Proof. exact Acme.C17.FloatBound.model_order_float_sorted_lemma. Qed.
Print Assumptions model_order_float_sorted.

(* enlarging messages / shortening cycle times never decreases the FLOAT64 load, for the same
   visiting order (no slack: rounding is monotone) *)
Theorem load_float_monotone : forall b b' def,
  Acme.C17.FloatBound.float_domain b def -> Acme.C17.FloatBound.float_domain b' def ->
  b_typ b' = b_typ b -> b_baud b' = b_baud b ->
  Forall2 (Acme.C17.FloatBound.grows (b_typ b) def) (bus_msgs b) (bus_msgs b') ->
  (B2R 53 1024 (Acme.C17.FloatBound.load_float b def) <= B2R 53 1024 (Acme.C17.FloatBound.load_float b' def))%R.
Proof. exact Acme.C17.FloatBound.load_float_monotone_lemma. Qed.
Print Assumptions load_float_monotone.

(* the float64 Percentage of every message is finite and within 2 (n+5) 2^-53 (relative) of its
   exact share bps / total * 100 (which is e_pct of its entry by entries_spec); for n >= 2 this is
   below the n 2^-50 used by the correspondence check (for n = 1 the float64 share is exactly 100) *)
Theorem pct_float_close : forall b def m,
  Acme.C17.FloatBound.float_domain b def -> In m (bus_msgs b) ->
  let share := Q2R (bps (b_typ b) def m / qsum (map (bps (b_typ b) def) (bus_msgs b)) * inject_Z 100) in
  is_finite 53 1024 (Acme.C17.FloatBound.pct_float b def m) = true
  /\ (Rabs (B2R 53 1024 (Acme.C17.FloatBound.pct_float b def m) - share)
      <= 2 * INR (length (bus_msgs b) + 5) * Acme.C17.FloatBound.u * share)%R
  /\ ((2 <= length (bus_msgs b))%nat ->
      (2 * INR (length (bus_msgs b) + 5) * Acme.C17.FloatBound.u <= INR (length (bus_msgs b)) * bpow radix2 (-50))%R).
Proof. exact Acme.C17.FloatBound.pct_float_close_lemma. Qed.
Print Assumptions pct_float_close.

(* the executable wrappers extracted for the bit-exact correspondence check (coq/C17/FloatExec.v ->
   coq/extracted/c17_float.ml) are, for the identity visiting order, the float model the theorems
   above speak about *)
Theorem float_exec_is_float_model : forall b def m,
  Acme.C17.FloatExec.rate_x (b_typ b) def m = Acme.C17.FloatBound.rate_float b def m
  /\ Acme.C17.FloatExec.total_order (b_typ b) def (bus_msgs b) = Acme.C17.FloatBound.total_float b def
  /\ Acme.C17.FloatExec.load_order (b_typ b) (b_baud b) def (bus_msgs b) = Acme.C17.FloatBound.load_float b def
  /\ Acme.C17.FloatExec.pct_order (b_typ b) def (bus_msgs b) m = Acme.C17.FloatBound.pct_float b def m.
Proof. exact Acme.C17.FloatExecProofs.exec_is_float_model. Qed.
Print Assumptions float_exec_is_float_model.
