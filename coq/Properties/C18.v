(* C18 — property theorems (statements only; proofs live in Acme.C18.Proofs).

   Scope, stated honestly: a data race needs a write.  These theorems show, for the model of the
   write footprint of acmelib's non-mutating operations (Acme.C18.Model), that in every state
   reachable by any history of mutators and read-only operations NO read-only operation writes
   shared state, and therefore every schedule of goroutines issuing read-only operations
   (including the per-bus workers of ExportNetwork) leaves the shared state untouched and
   gives each goroutine exactly its sequential result.  The quantifier of the property over
   schedules OF THE GO MEMORY MODEL is not expressible here; it is sampled by the race
   detector in props/C18 (PARTIAL claim, see props/C18/NOTES.md). *)
From Coq Require Import ZArith List Bool Permutation.
From Acme.C18 Require Import Model Proofs.
Import ListNotations.
Open Scope Z_scope.

(* the full model-level statement: for every reachable shared state, every family of workers and
   every schedule, the shared state is unchanged and finished workers hold their sequential
   results *)
Definition full_statement : Prop :=
  forall s ps sch, Reach s ->
    fst (sched_run s ps sch) = s /\
    (forallb is_done (snd (sched_run s ps sch)) = true ->
     map result_of (snd (sched_run s ps sch)) = map (eval s) ps).

Theorem sched_sequential : full_statement.
Proof. exact sched_sequential_l. Qed.
Print Assumptions sched_sequential.

(* I11: the error-context hints are unset between calls in every reachable state *)
Theorem hints_quiescent : forall s, Reach s ->
  Forall (fun h => h = -1) (fst (hints s)) /\ Forall (fun h => h = None) (snd (hints s)).
Proof. exact hints_quiescent_l. Qed.
Print Assumptions hints_quiescent.

Theorem ro_no_write : forall s q, Reach s -> fst (ro s q) = s.
Proof. exact ro_no_write_l. Qed.
Print Assumptions ro_no_write.

Theorem ro_seq_outputs : forall s qs, Reach s ->
  run_ro s qs = (s, map (fun q => snd (ro s q)) qs).
Proof. exact ro_seq_outputs_l. Qed.
Print Assumptions ro_seq_outputs.

Theorem ro_order_irrelevant : forall s qs qs', Reach s -> Permutation qs qs' ->
  Permutation (combine qs (snd (run_ro s qs))) (combine qs' (snd (run_ro s qs'))).
Proof. exact ro_order_irrelevant_l. Qed.
Print Assumptions ro_order_irrelevant.

(* N goroutines, each a list of read-only operations, any interleaving *)
Theorem ro_commute : forall s (threads : list (list ro_op)) sch, Reach s ->
  let r := sched_run s (map (fun qs => seq_prog qs []) threads) sch in
  fst r = s /\
  (forallb is_done (snd r) = true ->
   map result_of (snd r) = map (fun qs => map (fun q => snd (ro s q)) qs) threads).
Proof. exact ro_commute_l. Qed.
Print Assumptions ro_commute.

(* ExportNetwork: whatever the schedule of the per-bus workers, each file is export_bus of the
   shared state *)
Theorem export_network_per_bus : forall s sch, Reach s ->
  fst (export_network s sch) = s /\
  (forallb is_done (snd (export_network s sch)) = true ->
   map result_of (snd (export_network s sch)) = map (export_bus s) (net_buses s)).
Proof. exact export_network_per_bus_l. Qed.
Print Assumptions export_network_per_bus.

Theorem sort_by_perm : forall {A} (key : A -> Z) l, Permutation (sort_by key l) l.
Proof. exact @sort_by_perm_l. Qed.
Print Assumptions sort_by_perm.

(* non-vacuity: Reach is inhabited by a state whose history exercised both hint protocols *)
Theorem ex_reach : Reach (run ex_ops).
Proof. exact ex_reach_l. Qed.
Print Assumptions ex_reach.

Theorem ex_rename_routed :
  snd (mstep (run (firstn 5 ex_ops)) (MNodeRename 1 10)) = [-1; K_NODE; K_BUS].
Proof. exact ex_rename_routed_l. Qed.
Print Assumptions ex_rename_routed.

Theorem ex_addvalue_routed :
  snd (mstep (run (firstn 9 ex_ops)) (MEnumAddValue 0 101 8 None)) = [-1; K_ENUM; K_SIG; K_MSG].
Proof. exact ex_addvalue_routed_l. Qed.
Print Assumptions ex_addvalue_routed.

(* the per-bus worker of the example reads the shared attribute definition, type, unit and enum,
   and the signal nested in a multiplexer group *)
Theorem ex_export : export_bus (run ex_ops) 0 =
  [[500000; 1; 2; 3; 0]; [0]; [0; 7]; [10; 1; 0]; [0]; [ 0; 7]; [3; 1; 5; 1; 1; 2; 3]; [0]; [
   0; 7]; [ 1; 0; 3]; [0]; [0; 7]; [1025]; [0; 0; -1]; [ 8; 0; 0; 255; 1; 0]; [86]; []; []; [
   1025]; [ -1; -1; 0]; [100]; []; []; [1025]; [-1; -1; -1]; [ 2; -1; -1]; []; [1025]; [
   0; -1; -1]; [8; 0; 0; 255; 1; 0]; []; [11; 2; -1; 0]; []].
Proof. exact ex_export_l. Qed.
Print Assumptions ex_export.

Theorem ex_md : eval (run ex_ops) export_md_prog =
  [[0]; [500000; 1; 2; 3; 0]; [10; 1; 0]; [3; 1; 5; 1; 1; 2; 3]; [1; 0; 3]; [1025]; [
   0; 0; -1]; [8; 0; 0; 255; 1; 0]; [86]; []; [1025]; [-1; -1; 0]; [100]; []; [1025]; [
   -1; -1; -1]; [ 2; -1; -1]; [1025]; [0; -1; -1]; [8; 0; 0; 255; 1; 0]; []; [11; 2; -1; 0]].
Proof. exact ex_md_l. Qed.
Print Assumptions ex_md.

Theorem ex_save : eval (run ex_ops) save_prog =
  [[0]; [500000; 1; 2; 3; 0]; [0]; [0; 7]; [10; 1; 0]; [0]; [ 0; 7]; [5; 1; 8; 100]; [0]; [
   0; 7]; [1; 0; 3]; [0]; [ 0; 7]; [1025]; [0; 0; -1]; [8; 0; 0; 255; 1; 0]; [86]; []; []; [
   1025]; [-1; -1; 0]; [100]; []; []; [1025]; [ -1; -1; -1]; [2; -1; -1]; []; [1025]; [
   0; -1; -1]; [8; 0; 0; 255; 1; 0]; []; [11; 2; -1; 0]; []].
Proof. exact ex_save_l. Qed.
Print Assumptions ex_save.

(* Markdown export, save, Network.String and one DBC export per bus running together *)
Theorem all_exports_sequential : forall s sch, Reach s ->
  let ps := export_md_prog :: save_prog :: net_string_prog :: map export_bus_prog (net_buses s) in
  fst (sched_run s ps sch) = s /\
  (forallb is_done (snd (sched_run s ps sch)) = true ->
   map result_of (snd (sched_run s ps sch)) =
   eval s export_md_prog :: eval s save_prog :: eval s net_string_prog :: map (export_bus s) (net_buses s)).
Proof. exact all_exports_sequential_l. Qed.
Print Assumptions all_exports_sequential.

(* the model contains the writes: with a hint left set (unreachable) the two lookups write *)
Theorem ro_writes_when_hint_set :
  (exists s n a, fst (ro s (RNodeGetAttr n a)) <> s) /\
  (exists s e v, fst (ro s (REnumGetValue e v)) <> s).
Proof. exact ro_writes_when_hint_set_l. Qed.
Print Assumptions ro_writes_when_hint_set.
