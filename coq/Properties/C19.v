(* C19 — property theorems (statements only; proofs live in Acme.C19.Proofs and ProofsShape, ProofsOrder, ProofsQuery).
   Vocabulary: Acme.C19.Model (the executable model of internal/interval_bst.go: run, step, size,
   root, inorder, intersects, can_update), Acme.C19.Spec (spec = multiset semantics of a history,
   contents, lex_le, overlaps, same, pairwise_disjoint, every_node, balanced_at, height_exact_at,
   max_exact_at), Acme.C19.ModelChk (run_chk: the same operations, failing where the Go code would
   dereference nil). All statements quantify over every finite operation history `ops`. *)
From Coq Require Import ZArith List Bool Sorting.Sorted Sorting.Permutation.
From Acme.C19 Require Import Model Spec ModelChk PreFix Proofs ProofsItems.
Import ListNotations.
Open Scope Z_scope.

(* Size() is the cardinality of the multiset *)
Theorem size_spec : forall ops, size (run ops) = Z.of_nat (length (spec ops)).
Proof. exact size_spec_proof. Qed.
Print Assumptions size_spec.

(* IsEmpty() *)
Theorem is_empty_spec : forall ops, (size (run ops) =? 0) = true <-> spec ops = [].
Proof. exact is_empty_proof. Qed.
Print Assumptions is_empty_spec.

(* GetAllIntervals(): the multiset, in (low, high) lexicographic order, hence ascending by low *)
Theorem contents_spec : forall ops,
  Permutation (contents (run ops)) (spec ops)
  /\ StronglySorted lex_le (contents (run ops))
  /\ Sorted Z.le (map fst (contents (run ops))).
Proof. exact contents_spec_proof. Qed.
Print Assumptions contents_spec.

(* AVL balance at every node, w.r.t. real heights *)
Theorem balanced : forall ops, every_node balanced_at (root (run ops)).
Proof. exact balanced_proof. Qed.
Print Assumptions balanced.

(* stored height = real height at every node *)
Theorem heights_exact : forall ops, every_node height_exact_at (root (run ops)).
Proof. exact heights_exact_proof. Qed.
Print Assumptions heights_exact.

(* stored max = greatest high end in the subtree, at every node *)
Theorem max_exact : forall ops, every_node max_exact_at (root (run ops)).
Proof. exact max_exact_proof. Qed.
Print Assumptions max_exact.

(* the hypothesis of the two query theorems may be read on the history or on the tree *)
Theorem disjoint_spec_iff_contents : forall ops,
  pairwise_disjoint (spec ops) <-> pairwise_disjoint (contents (run ops)).
Proof. exact disjoint_spec_contents. Qed.
Print Assumptions disjoint_spec_iff_contents.

(* Intersects = brute-force scan (no restriction on the query interval) *)
Theorem intersects_exact : forall ops lo hi,
  pairwise_disjoint (spec ops) ->
  intersects (run ops) lo hi = existsb (overlaps (lo, hi)) (contents (run ops)).
Proof. exact intersects_exact_proof. Qed.
Print Assumptions intersects_exact.

(* CanUpdateInterval for a stored interval x = no *other* stored interval meets the new bounds *)
Theorem can_update_exact : forall ops (x : Z * Z) newlo newhi,
  pairwise_disjoint (spec ops) ->
  In x (contents (run ops)) ->
  can_update (run ops) (fst x) (snd x) newlo newhi
  = negb (existsb (fun y => overlaps (newlo, newhi) y && negb (same x y)) (contents (run ops))).
Proof. exact can_update_exact_proof. Qed.
Print Assumptions can_update_exact.

(* the hypotheses of the two query theorems hold in a non-trivial reachable state
   (7 stored intervals, height 4, after an ignored inverted insert and a delete) *)
Theorem query_hypotheses_satisfiable :
  pairwise_disjoint (spec example_ops)
  /\ In (8, 10) (contents (run example_ops))
  /\ length (contents (run example_ops)) = 7%nat
  /\ height (root (run example_ops)) = 4.
Proof. exact example_disjoint. Qed.
Print Assumptions query_hypotheses_satisfiable.

(* ... and they are needed: with overlapping contents the pruned searches are not exact *)
Theorem intersects_without_disjointness_refuted :
  exists ops lo hi,
    intersects (run ops) lo hi <> existsb (overlaps (lo, hi)) (contents (run ops)).
Proof. exact intersects_needs_disjoint. Qed.
Print Assumptions intersects_without_disjointness_refuted.

Theorem can_update_without_disjointness_refuted :
  exists ops x newlo newhi,
    In x (contents (run ops)) /\
    can_update (run ops) (fst x) (snd x) newlo newhi
    <> negb (existsb (fun y => overlaps (newlo, newhi) y && negb (same x y)) (contents (run ops))).
Proof. exact can_update_needs_disjoint. Qed.
Print Assumptions can_update_without_disjointness_refuted.

(* ---- items: the tree stores values with a payload (modelled as a tag) and must hand back
   exactly the items it was given.  `stored s = items (root s)` is GetAllIntervals with payloads,
   `contents` its bounds. ---- *)

(* the stored items are a permutation of an admissible item-level resolution of the history:
   Insert adds the given item (unless inverted), Delete(lo,hi) removes ONE item with those bounds
   (whichever) or nothing when there is none, Clear empties *)
Theorem items_spec : forall ops,
  exists res, item_spec ops res /\ Permutation (stored (run ops)) res.
Proof. exact items_spec_proof. Qed.
Print Assumptions items_spec.

(* the bounds of the stored items are the `contents` all other theorems speak about *)
Theorem items_keys : forall ops, map key (stored (run ops)) = contents (run ops).
Proof. exact items_keys_proof. Qed.
Print Assumptions items_keys.

(* sub-multiset: every stored item was inserted since the last Clear, no more often than inserted *)
Theorem items_from_inserted : forall ops,
  exists rest, Permutation (stored (run ops) ++ rest) (inserted ops).
Proof. exact items_from_inserted_proof. Qed.
Print Assumptions items_from_inserted.

(* no payload is ever duplicated *)
Theorem items_nodup : forall ops,
  NoDup (map tag (inserted ops)) -> NoDup (map tag (stored (run ops))).
Proof. exact items_nodup_proof. Qed.
Print Assumptions items_nodup.

(* satisfiable and non-trivial: five items with equal bounds, two-children deletes *)
Theorem items_example :
  NoDup (map tag (inserted dup_ops))
  /\ map tag (stored (run dup_ops)) = [1; 3; 4; 8]
  /\ contents (run dup_ops) = [(0, 0); (0, 0); (0, 0); (0, 0)].
Proof. exact dup_example. Qed.
Print Assumptions items_example.

(* finding c19-items (fixed by /repo ca4c8a3): the previous algorithm, which deleted the successor
   BY KEY (PreFix.del_by_key), stores one payload twice and loses another while bounds and size
   stay right *)
Theorem items_by_key_refuted :
  exists ops,
    NoDup (map tag (inserted ops))
    /\ ~ NoDup (map tag (stored (run_by_key ops)))
    /\ (exists x, In x (stored (run ops)) /\ ~ In x (stored (run_by_key ops)))
    /\ contents (run_by_key ops) = contents (run ops)
    /\ size (run_by_key ops) = size (run ops).
Proof. exact items_by_key_refuted_proof. Qed.
Print Assumptions items_by_key_refuted.

(* can_update_exact needs `In x contents`: for an item that is not stored the `size <= 1` shortcut
   answers true although the one stored interval is hit.  The property's "the interval being
   updated" is a stored interval, so this lies outside it. *)
Theorem can_update_foreign_item_refuted :
  exists ops (x : Z * Z) newlo newhi,
    pairwise_disjoint (spec ops) /\ ~ In x (contents (run ops)) /\
    can_update (run ops) (fst x) (snd x) newlo newhi
    <> negb (existsb (fun y => overlaps (newlo, newhi) y && negb (same x y)) (contents (run ops))).
Proof. exact can_update_foreign_refuted_proof. Qed.
Print Assumptions can_update_foreign_item_refuted.

(* rot_defined: the branches where Model.v totalises a nil dereference of the Go code
   (rotateLeft/rotateRight on a missing child, root.left.item / root.right.item in insertNode,
   removeMin on an empty subtree)
   are never taken from a reachable state: the partial model succeeds and agrees with `run` *)
Theorem rot_defined : forall ops, run_chk ops = Some (run ops).
Proof. exact run_chk_defined. Qed.
Print Assumptions rot_defined.
