(* C19 — property theorems (statements only; proofs live in Acme.C19.Proofs). *)
From Coq Require Import ZArith List.
From Acme.C19 Require Import Model.
Theorem clear_empty : forall s, step s Clear = empty.
Proof. reflexivity. Qed.
Print Assumptions clear_empty.
