"""Shared machinery for the /verif checks (see DESIGN.md section 3).

Every per-property check (props/Cxx/check.py) is a python module exposing
    run(ctx) -> None
and uses the helpers below for: locating /repo, the Go environment, building the Coq
development, re-checking the property file and reading its `Print Assumptions` output,
the forbidden-keyword gate, building OCaml drivers from extracted code, known findings,
verdict lines and evidence files.
"""
import fcntl
import hashlib
import json
import os
import re
import shutil
import subprocess
import sys
import tempfile
import time

VERIF = os.path.dirname(os.path.dirname(os.path.abspath(__file__)))
COQ = os.path.join(VERIF, "coq")
BUILD = os.path.join(VERIF, "build")
EVID = os.environ.get("VERIF_EVIDENCE_DIR") or os.path.join(VERIF, "evidence")  # the override is for seeded self-tests only
NCPU = os.cpu_count() or 4


def repo():
    """Path of the implementation under check (always /repo for registered commands;
    VERIF_REPO lets the seeded-change self-test point at a scratch worktree)."""
    return os.environ.get("VERIF_REPO", "/repo")


def goenv():
    e = dict(os.environ)
    e["GOFLAGS"] = "-mod=mod"
    e["GOPROXY"] = "off"
    # GOTOOLCHAIN=local / GOSUMDB=off break the cached go1.24.0 switch in this sandbox
    e.pop("GOTOOLCHAIN", None)
    e.pop("GOSUMDB", None)
    e.pop("GOFLAGS_EXTRA", None)
    return e


def sh(cmd, cwd=None, env=None, timeout=1200, check=False, stdin=None):
    """Run a command, return (rc, stdout+stderr)."""
    try:
        p = subprocess.run(cmd, cwd=cwd, env=env, shell=isinstance(cmd, str),
                           stdout=subprocess.PIPE, stderr=subprocess.STDOUT,
                           timeout=timeout, input=stdin)
        out = p.stdout.decode("utf-8", "replace")
        rc = p.returncode
    except subprocess.TimeoutExpired as ex:
        out = (ex.stdout or b"").decode("utf-8", "replace") + "\n[timeout after %ss]" % timeout
        rc = 124
    if check and rc != 0:
        raise RuntimeError("command failed (%s): %s\n%s" % (rc, cmd, out[-4000:]))
    return rc, out


class Lock:
    def __init__(self, name, shared=False):
        os.makedirs(BUILD, exist_ok=True)
        self.path = os.path.join(BUILD, name + ".lock")
        self.shared = shared

    def __enter__(self):
        self.f = open(self.path, "a")
        fcntl.flock(self.f, fcntl.LOCK_SH if self.shared else fcntl.LOCK_EX)
        return self

    def __exit__(self, *a):
        fcntl.flock(self.f, fcntl.LOCK_UN)
        self.f.close()


# --------------------------------------------------------------------------------------
# Coq side
# --------------------------------------------------------------------------------------

FORBIDDEN = re.compile(
    r"\b(Admitted|admit|Axiom|Axioms|Parameter|Parameters|Conjecture|Conjectures|"
    r"Admit Obligations|bypass_check|native_compute)\b|Unset\s+Guard|Unset\s+Positivity|"
    r"Unset\s+Universe\s+Checking|type-in-type|impredicative-set")

# axioms of the standard library / Flocq's dependencies that may appear (named in the trusted base)
STDLIB_AXIOMS = {
    "ClassicalDedekindReals.sig_not_dec", "ClassicalDedekindReals.sig_forall_dec",
    "FunctionalExtensionality.functional_extensionality_dep",
    "Classical_Prop.classic", "Eqdep.Eq_rect_eq.eq_rect_eq", "JMeq.JMeq_eq",
    "ProofIrrelevance.proof_irrelevance", "PropExtensionality.propositional_extensionality",
    "ClassicalEpsilon.constructive_indefinite_description",
}


def coq_sources():
    out = []
    for root, _, files in os.walk(COQ):
        for f in files:
            if f.endswith(".v"):
                out.append(os.path.join(root, f))
    return sorted(out)


def strip_coq_comments(text):
    res, depth, i = [], 0, 0
    while i < len(text):
        if text.startswith("(*", i):
            depth += 1
            i += 2
        elif text.startswith("*)", i) and depth > 0:
            depth -= 1
            i += 2
        else:
            if depth == 0:
                res.append(text[i])
            i += 1
    return "".join(res)


def forbidden_scan(files=None):
    """Return list of (file, line, text) for forbidden constructs outside comments.
    `Variable`/`Hypothesis`/`Context` are allowed only inside a Section (checked coarsely)."""
    bad = []
    for f in files or coq_sources():
        txt = strip_coq_comments(open(f, encoding="utf-8").read())
        depth = 0
        for n, line in enumerate(txt.split("\n"), 1):
            if re.match(r"\s*Section\s+\w+", line):
                depth += 1
            m = re.match(r"\s*End\s+\w+", line)
            if m and depth > 0:
                depth -= 1
            if FORBIDDEN.search(line):
                bad.append((os.path.relpath(f, VERIF), n, line.strip()))
            if depth == 0 and re.match(r"\s*(Variable|Variables|Hypothesis|Hypotheses|Context)\b", line):
                bad.append((os.path.relpath(f, VERIF), n, line.strip()))
    return bad


def coq_tree_hash(files=None):
    h = hashlib.sha256()
    for f in files or coq_sources():
        h.update(f.encode())
        h.update(open(f, "rb").read())
    return h.hexdigest()[:16]


COQ_WARN = "-notation-overridden,-deprecated-hint-without-locality,-deprecated-instance-without-locality,-ambiguous-paths,-deprecated-syntactic-definition"
COQC_FILE_TIMEOUT = 600   # seconds per file; a closure is meant to compile in < 5 min altogether


def coq_deps(rel_files):
    """{file: [direct Acme dependencies]} for the transitive closure of coq/ files (relative
    paths) under `Require ... Acme.X.Y`."""
    deps, todo = {}, list(rel_files)
    while todo:
        f = todo.pop()
        if f in deps or not os.path.exists(os.path.join(COQ, f)):
            continue
        deps[f] = []
        txt = strip_coq_comments(open(os.path.join(COQ, f), encoding="utf-8").read())
        for m in re.finditer(r"(?:From\s+(Acme[\w.]*)\s+)?Require\s+(?:Import\s+|Export\s+)?([^.]*(?:\.[\w]+)*[^.]*)\.(?=\s)", txt):
            pre = m.group(1)
            for name in m.group(2).split():
                full = (pre + "." + name) if pre else name
                if full.startswith("Acme."):
                    d = full[len("Acme."):].replace(".", "/") + ".v"
                    if d != f and d not in deps[f] and os.path.exists(os.path.join(COQ, d)):
                        deps[f].append(d)
                        todo.append(d)
    return deps


def coq_closure(rel_files):
    return sorted(coq_deps(rel_files))


def _vo(f):
    return os.path.join(COQ, f[:-2] + ".vo")


def _stale(f, deps):
    vo = _vo(f)
    if not os.path.exists(vo):
        return True
    t = os.path.getmtime(vo)
    if os.path.getmtime(os.path.join(COQ, f)) > t:
        return True
    return any((not os.path.exists(_vo(d))) or os.path.getmtime(_vo(d)) > t for d in deps[f])


def _compile_one(f, deps, log):
    """Compile one file under its own lock (so that only checks depending on a slow or diverging
    file wait for it). Full .vo compilation with coqc, never -vos."""
    with Lock("coq-" + f.replace("/", "_")):
        if not _stale(f, deps):
            return True
        rc, out = sh(["timeout", str(COQC_FILE_TIMEOUT), "coqc", "-R", ".", "Acme", "-w", COQ_WARN, f], cwd=COQ,
                     timeout=COQC_FILE_TIMEOUT + 30)
        log.append("COQC %s rc=%d\n%s" % (f, rc, out[-3000:] if rc else out[-300:]))
        if rc != 0:
            try:
                os.remove(_vo(f))
            except OSError:
                pass
        return rc == 0


def coq_build(timeout=3000, targets=None):
    """.vo build of coq/. targets=None (setup): coq_makefile + `make -k -j` over everything under
    the global lock. targets=[relative .v paths] (checks): only the closure of the targets, each
    stale file compiled by coqc under a per-file lock, in dependency order, in parallel where the
    dependencies allow. No-op when up to date. Never -vos. Returns (ok, log)."""
    os.makedirs(os.path.join(COQ, "extracted"), exist_ok=True)
    if targets:
        import concurrent.futures as cf
        deps = coq_deps(targets)
        log, done, failed = [], set(), set()
        with Lock("coq-global-shared", shared=True):
            with cf.ThreadPoolExecutor(max_workers=max(2, NCPU // 2)) as ex:
                pending = {}
                while len(done) + len(failed) < len(deps):
                    for f in deps:
                        if f in done or f in failed or f in pending.values():
                            continue
                        if any(d in failed for d in deps[f]):
                            failed.add(f)
                            log.append("SKIP %s (a dependency failed)" % f)
                            continue
                        if all(d in done for d in deps[f]):
                            pending[ex.submit(_compile_one, f, deps, log)] = f
                    if not pending:
                        if len(done) + len(failed) < len(deps):
                            continue
                        break
                    fin, _ = cf.wait(list(pending), return_when=cf.FIRST_COMPLETED)
                    for fu in fin:
                        f = pending.pop(fu)
                        (done if fu.result() else failed).add(f)
        return not failed, "\n".join(log)
    with Lock("coq-global-shared"):
        srcs = [os.path.relpath(f, COQ) for f in coq_sources()]
        proj = "-R . Acme\n-arg -w -arg " + COQ_WARN + "\n" + "\n".join(srcs) + "\n"
        pj = os.path.join(COQ, "_CoqProject")
        old = open(pj).read() if os.path.exists(pj) else None
        if old != proj or not os.path.exists(os.path.join(COQ, "Makefile")):
            open(pj, "w").write(proj)
            sh("coq_makefile -f _CoqProject -o Makefile", cwd=COQ, check=True)
        rc, out = sh("make COQC='timeout %d coqc' -k -j%d" % (COQC_FILE_TIMEOUT, NCPU), cwd=COQ, timeout=timeout)
        return rc == 0, out


def coq_property(pid, timeout=900):
    """Re-check coq/Properties/<pid>.v with coqc (its dependencies are already built) and parse
    what it proves.  Returns dict: ok, theorems [names], assumptions {theorem: [axioms] or []},
    log.  A theorem counts as discharged when the file compiled and its Print Assumptions
    output lists only whitelisted standard-library axioms."""
    src = os.path.join(COQ, "Properties", pid + ".v")
    res = {"ok": False, "theorems": [], "assumptions": {}, "log": "", "file": src}
    if not os.path.exists(src):
        res["log"] = "missing " + src
        return res
    text = strip_coq_comments(open(src, encoding="utf-8").read())
    res["theorems"] = re.findall(r"^\s*(?:Theorem|Corollary)\s+(\w+)", text, re.M)
    with Lock("coq-Properties_%s.v" % pid):
        rc, out = sh(["coqc", "-R", ".", "Acme", "-w", COQ_WARN,
                      os.path.join("Properties", pid + ".v")], cwd=COQ, timeout=timeout)
    res["log"] = out
    res["ok"] = rc == 0
    # Print Assumptions blocks, in order of appearance, one per `Print Assumptions name.`
    names = re.findall(r"Print\s+Assumptions\s+([\w.]+)\s*\.", text)
    blocks = re.split(r"(?=Closed under the global context|Axioms:)", out)
    blocks = [b for b in blocks if b.startswith("Closed under") or b.startswith("Axioms:")]
    for i, nm in enumerate(names):
        if i >= len(blocks):
            res["assumptions"][nm] = None
            continue
        b = blocks[i]
        if b.startswith("Closed under"):
            res["assumptions"][nm] = []
        else:
            axs = re.findall(r"^([A-Za-z_][\w.']*)\s*:", b, re.M)
            res["assumptions"][nm] = [a for a in axs if a != "Axioms"]
    return res


def theorem_statements(pid):
    """{name: sha256 of the whitespace-normalised statement} for every Theorem/Corollary of
    Properties/<pid>.v, plus the list of theorems whose proof is not a bare `exact`."""
    src = os.path.join(COQ, "Properties", pid + ".v")
    text = strip_coq_comments(open(src, encoding="utf-8").read()) if os.path.exists(src) else ""
    stm, inline = {}, []
    for m in re.finditer(r"^\s*(?:Theorem|Corollary)\s+(\w+)(.*?)\bProof\.(.*?)\b(Qed|Defined)\.", text, re.M | re.S):
        name, statement, body = m.group(1), m.group(2), m.group(3)
        stm[name] = hashlib.sha256(" ".join(statement.split()).encode()).hexdigest()[:16]
        sentences = [x for x in re.split(r"\.(?:\s+|$)", body.strip()) if x.strip()]
        if len(sentences) != 1 or not sentences[0].lstrip().startswith("exact"):
            inline.append(name)
    return stm, inline


def theorem_lock_problems(pid):
    """props/<pid>/theorems.lock.json pins the names and statements of the property theorems
    (written deliberately by meta/lock_theorems.py): a theorem that disappears or whose statement
    changes is an unchecked obligation, not a silently smaller proof."""
    lock = os.path.join(VERIF, "props", pid, "theorems.lock.json")
    stm, inline = theorem_statements(pid)
    probs = ["theorem %s is proved inline in Properties/%s.v (must be `exact <lemma>`)" % (n, pid) for n in inline]
    if not os.path.exists(lock):
        return probs + ["props/%s/theorems.lock.json is missing (run meta/lock_theorems.py %s)" % (pid, pid)], False
    pinned = json.load(open(lock)).get("theorems", {})
    for n, h in pinned.items():
        if n not in stm:
            probs.append("pinned theorem %s is missing from Properties/%s.v" % (n, pid))
        elif stm[n] != h:
            probs.append("statement of pinned theorem %s changed (re-lock deliberately with meta/lock_theorems.py)" % n)
    return probs, True


def proof_status(pid, extra_targets=()):
    """Build (the property file's closure + extra targets such as Cxx/Extract.v) + gate +
    property file. Returns dict with obligations/discharged/axioms/problems."""
    t0 = time.time()
    problems = []
    targets = ["Properties/%s.v" % pid] + list(extra_targets)
    ok, log = coq_build(targets=targets)
    if not ok:
        problems.append("coq build failed: " + log[-1500:])
    closure = coq_closure(targets)
    bad = forbidden_scan([os.path.join(COQ, f) for f in closure])
    for b in bad:
        problems.append("forbidden construct %s:%d: %s" % b)
    pr = coq_property(pid) if ok else {"ok": False, "theorems": [], "assumptions": {}, "log": ""}
    if ok and not pr["ok"]:
        problems.append("Properties/%s.v does not check: %s" % (pid, pr["log"][-1500:]))
    lock_probs, locked = theorem_lock_problems(pid)
    problems += lock_probs
    obligations = len(pr["theorems"])
    discharged = 0
    axioms = set()
    undischarged = []
    for th in pr["theorems"]:
        ax = pr["assumptions"].get(th)
        if pr["ok"] and ax is not None and all(a in STDLIB_AXIOMS for a in ax) and not bad:
            discharged += 1
            axioms.update(ax)
        else:
            undischarged.append(th)
            if ax is None:
                problems.append("theorem %s has no Print Assumptions output" % th)
            elif any(a not in STDLIB_AXIOMS for a in ax):
                problems.append("theorem %s depends on non-stdlib axioms %s" % (th, ax))
    return {"obligations": obligations, "discharged": discharged, "theorems": pr["theorems"],
            "undischarged": undischarged, "axioms": sorted(axioms), "problems": problems,
            "closure": closure, "theorems_pinned": locked,
            "wall_s": time.time() - t0,
            "coq_hash": coq_tree_hash([os.path.join(COQ, f) for f in closure])}


def coqchk(pid, timeout=3000):
    """Thorough tier: independent re-check of the property's library closure (cached by tree hash)."""
    h = coq_tree_hash([os.path.join(COQ, f) for f in coq_closure(["Properties/%s.v" % pid])])
    stamp = os.path.join(BUILD, "coqchk-%s-%s.log" % (pid, h))
    if os.path.exists(stamp):
        return True, open(stamp).read()
    with Lock("coq-global-shared", shared=True):
        rc, out = sh(["coqchk", "-silent", "-o", "-R", ".", "Acme", "Acme.Properties." + pid],
                     cwd=COQ, timeout=timeout)
    if rc == 0:
        open(stamp, "w").write(out)
    return rc == 0, out


def build_ocaml_driver(name, extract_dir, driver_ml, extra_pkgs=("zarith",), only=None):
    """Compile extracted model (*.ml/*.mli in extract_dir, produced by coqc during `make`) with
    the hand-written driver into build/<name>. Rebuilt when any input is newer."""
    os.makedirs(BUILD, exist_ok=True)
    exe = os.path.join(BUILD, name)
    ins = [driver_ml] + [os.path.join(extract_dir, f) for f in sorted(os.listdir(extract_dir))
                         if f.endswith((".ml", ".mli")) and (only is None or f.rsplit(".", 1)[0] in only)]
    if os.path.exists(exe) and all(os.path.getmtime(exe) >= os.path.getmtime(i) for i in ins):
        return exe
    with Lock("ocaml-" + name):
        tmp = tempfile.mkdtemp(prefix="ocb-")
        try:
            for i in ins:
                shutil.copy(i, tmp)
            mls = [os.path.basename(i) for i in ins if i.endswith(".ml") and i != driver_ml]
            mlis = [os.path.basename(i) for i in ins if i.endswith(".mli")]
            ordered = []
            for m in mls:          # each .mli before its .ml
                if m + "i" in mlis:
                    ordered.append(m + "i")
                ordered.append(m)
            cmd = ["ocamlfind", "ocamlopt", "-w", "-a", "-package", ",".join(extra_pkgs), "-linkpkg"] + \
                ordered + [os.path.basename(driver_ml), "-o", exe]
            sh(cmd, cwd=tmp, check=True, timeout=900)
        finally:
            shutil.rmtree(tmp, ignore_errors=True)
    return exe


# --------------------------------------------------------------------------------------
# Go side
# --------------------------------------------------------------------------------------

def go_harness_dir(prop_dir, scratch):
    """Copy props/Cxx/harness (a Go module with `replace … => REPO`) into scratch, pointing the
    replace directive at the repo under check and taking go.sum from it."""
    src = os.path.join(prop_dir, "harness")
    dst = os.path.join(scratch, "harness")
    shutil.copytree(src, dst)
    gm = os.path.join(dst, "go.mod")
    txt = open(gm).read().replace("=> /repo", "=> " + repo())
    open(gm, "w").write(txt)
    shutil.copy(os.path.join(repo(), "go.sum"), os.path.join(dst, "go.sum"))
    return dst


def overlay_json(scratch, mapping):
    """Write an overlay.json mapping <repo-relative path> -> <file under /verif>."""
    ov = {"Replace": {os.path.join(repo(), k): v for k, v in mapping.items()}}
    p = os.path.join(scratch, "overlay.json")
    json.dump(ov, open(p, "w"))
    return p


# --------------------------------------------------------------------------------------
# Known findings, verdicts, evidence
# --------------------------------------------------------------------------------------

MACHINERY_SIG = re.compile(r"(^|-)(proof-obligation|machinery-error|correspondence|harness|driver|impl-run-failed|"
                           r"too-few-evaluations|no-model-checks|vm-compute-cross-check|crosscheck|driver-count)(-|$|@)")


def known_findings(pid):
    """known_findings.json is assembled from props/*/known_findings.json by meta/manifest_src.py;
    both are read so that a stale root file cannot hide an entry."""
    import glob
    allf = []
    for p in [os.path.join(VERIF, "known_findings.json")] + sorted(glob.glob(os.path.join(VERIF, "props", "*", "known_findings.json"))):
        if os.path.exists(p):
            for f in json.load(open(p)).get("findings", []):
                if f not in allf:
                    allf.append(f)
    # an entry must say explicitly whether it is open or fixed; a signature of the machinery
    # itself (proof gate, correspondence, harness/driver failures) can never be a known finding
    open_ = [f for f in allf if f["property"] == pid and f.get("status") == "open"
             and not MACHINERY_SIG.search(f.get("signature", ""))]
    fixed = [f for f in allf if f["property"] == pid and f.get("status") == "fixed"]
    return open_, fixed


class Ctx:
    """One run of one check."""

    def __init__(self, pid, tier, seed, replay=None):
        self.pid, self.tier, self.seed, self.replay = pid, tier, seed, replay
        self.t0 = time.time()
        self.scratch = tempfile.mkdtemp(prefix="verif-%s-" % pid)
        self.prop_dir = os.path.join(VERIF, "props", pid)
        self.violations = []      # (signature, description, replay_path, found_input: bool)
        self.known_hits = {}      # signature -> description
        self.coverage = {}
        self.assumptions = []
        self.level = "proof"
        # a replay run must not overwrite the file it is replaying
        self.replay_dir = os.path.join(BUILD, "replay", pid, "replayed") if replay else os.path.join(BUILD, "replay", pid)
        os.makedirs(self.replay_dir, exist_ok=True)
        self.min_evaluations = 10     # a run that explored (almost) nothing shows nothing; checks may raise it
        self.known_open, self.known_fixed = known_findings(pid)

    # ---- candidate handling -----------------------------------------------------------
    def write_replay(self, name, obj):
        p = os.path.join(self.replay_dir, name)
        with open(p, "w") as f:
            if isinstance(obj, str):
                f.write(obj)
            else:
                json.dump(obj, f, indent=1)
        return p

    def violation(self, signature, description, replay_obj, found_input=True):
        """Report a property-level failure. `signature` is the classifier value compared with
        known_findings.json (an open entry with the same signature turns it into KNOWN-FINDING)."""
        for k in self.known_open:
            if k["signature"] == signature:
                self.known_hits.setdefault(signature, k.get("what", description))
                return
        if any(v[0] == signature for v in self.violations):
            return
        path = self.write_replay("%s-%s.json" % (self.pid, re.sub(r"[^\w.-]+", "_", signature)[:80]),
                                 {"property": self.pid, "signature": signature,
                                  "description": description, "found_failing_input": found_input,
                                  "replay": replay_obj})
        self.violations.append((signature, description, path, found_input))

    def proof_gate(self, status):
        """Turn an undischarged obligation into a candidate (DESIGN 3.4 step 1)."""
        self.coverage.update({
            "obligations": status["obligations"], "discharged": status["discharged"],
            "theorems": status["theorems"], "axioms_reported": status["axioms"],
            "coq_files": status.get("closure", []), "theorems_pinned": status.get("theorems_pinned", False),
            "coq_tree_hash": status["coq_hash"],
            "checker_cmd": "make -C coq (coq_makefile, full .vo build) && coqc -R coq Acme coq/Properties/%s.v (Print Assumptions parsed)" % self.pid,
        })
        if status["problems"] or status["obligations"] == 0 or status["discharged"] < status["obligations"]:
            self.proof_problems = status["problems"] or ["no theorem found in Properties/%s.v" % self.pid]
        else:
            self.proof_problems = []
        return not self.proof_problems

    # ---- finish -----------------------------------------------------------------------
    def finish(self):
        # a degenerate run (no or almost no cases explored / compared) is not a pass
        ev_n = self.coverage.get("evaluations")
        if not self.replay and (not isinstance(ev_n, int) or ev_n < self.min_evaluations) \
                and not any(v[3] for v in self.violations):
            path = self.write_replay("%s-too-few-evaluations.json" % self.pid,
                                     {"property": self.pid, "evaluations": ev_n, "floor": self.min_evaluations,
                                      "note": "the correspondence run explored too few cases; the property is not shown"})
            self.violations.append(("too-few-evaluations", "only %r cases were explored (floor %d)" % (ev_n, self.min_evaluations), path, False))
        # an undischarged obligation without any concrete failing input is still a violation
        if getattr(self, "proof_problems", None) and not any(v[3] for v in self.violations):
            path = self.write_replay("%s-proof.json" % self.pid,
                                     {"property": self.pid, "unchecked": self.proof_problems,
                                      "note": "theorem / build no longer checks; no failing input found"})
            self.violations.append(("proof-obligation", "; ".join(self.proof_problems)[:300], path, False))
        for sig, what in sorted(self.known_hits.items()):
            print("KNOWN-FINDING: property=%s %s [%s]" % (self.pid, what, sig))
        not_hit = sorted(k["signature"] for k in self.known_open if k["signature"] not in self.known_hits)
        if not_hit:
            print("note: open findings not exercised by this run: %s" % ", ".join(not_hit))
        self.coverage["open_findings_not_hit"] = not_hit
        for sig, desc, path, found in self.violations:
            print("VIOLATION property=%s replay=%s%s" % (self.pid, path, "" if found else " no-failing-input-found"))
            print("  (%s) %s" % (sig, desc[:600]))
        ev = {
            "property_id": self.pid, "tier": self.tier, "seed": int(self.seed), "level": self.level,
            "coverage": self.coverage, "assumptions": self.assumptions,
            "wall_s": round(time.time() - self.t0, 2), "violations": len(self.violations),
            "known_findings_hit": sorted(self.known_hits),
        }
        if not self.replay:   # a replay run re-executes one case; it must not overwrite the evidence
            os.makedirs(EVID, exist_ok=True)
            with open(os.path.join(EVID, self.pid + ".json"), "w") as f:
                json.dump(ev, f, indent=1, sort_keys=True)
        shutil.rmtree(self.scratch, ignore_errors=True)
        print("%s %s tier=%s seed=%s wall=%.1fs violations=%d known=%d" % (
            "FAIL" if self.violations else "PASS", self.pid, self.tier, self.seed,
            time.time() - self.t0, len(self.violations), len(self.known_hits)))
        return 1 if self.violations else 0


class SplitMix64:
    def __init__(self, seed):
        self.s = seed & 0xFFFFFFFFFFFFFFFF

    def next(self):
        self.s = (self.s + 0x9E3779B97F4A7C15) & 0xFFFFFFFFFFFFFFFF
        z = self.s
        z = ((z ^ (z >> 30)) * 0xBF58476D1CE4E5B9) & 0xFFFFFFFFFFFFFFFF
        z = ((z ^ (z >> 27)) * 0x94D049BB133111EB) & 0xFFFFFFFFFFFFFFFF
        return z ^ (z >> 31)

    def below(self, n):
        return self.next() % n
