#!/usr/bin/env python3
"""Insert meta/DESIGN_section9.md into DESIGN.md between the NARRATIVE markers (after section 8)."""
import os
H = os.path.dirname(os.path.dirname(os.path.abspath(__file__)))
B, E = "<!-- NARRATIVE:BEGIN (meta/DESIGN_section9.md, merged by meta/design_merge.py) -->", "<!-- NARRATIVE:END -->"
s = open(os.path.join(H, "DESIGN.md")).read()
body = open(os.path.join(H, "meta", "DESIGN_section9.md")).read().rstrip() + "\n"
block = B + "\n\n" + body + "\n" + E
if B in s:
    s = s[:s.index(B)] + block + s[s.index(E) + len(E):]
else:
    marker = "<!-- RESULTS:END -->"
    i = s.index(marker) + len(marker)
    s = s[:i] + "\n\n---------------------------------------------------------------------------------------------------\n\n" + block + s[i:]
open(os.path.join(H, "DESIGN.md"), "w").write(s)
