#!/bin/sh
# meta/import_red.sh Cxx [round]  — copy the output of a red-team agent (/tmp/red/Cxx<round>/m*/)
# into seeded/Cxx-<round>m<i>/, confirm each change myself (seeded_confirm.sh), clean the scratch
# worktree; prints the confirm lines. The quick-tier result is produced by meta/selftest.py.
P="$1"; R="${2:-}"
cd /verif
for d in /tmp/red/$P$R/m*; do
  [ -f "$d/patch.diff" ] || continue
  i=$(basename "$d" | sed 's/^m//')
  sid="$P-${R}m$i"
  mkdir -p seeded/$sid
  cp "$d/patch.diff" "$d/demo_test.go" seeded/$sid/
  python3 - "$d/meta.json" "seeded/$sid/meta.json" "$P" <<'PY'
import json, sys
m = json.load(open(sys.argv[1]))
m['run_checks'] = [sys.argv[3]]
m['origin'] = 'independent sub-agent given only the property text (and one-line summaries of earlier seeded changes to avoid) and a scratch worktree'
for sep in ('   (', '  (', ' (MUST', ' #'):
    if sep in m.get('demo_run', ''):
        m['demo_run_note'] = m['demo_run']; m['demo_run'] = m['demo_run'].split(sep)[0].strip()
json.dump(m, open(sys.argv[2], 'w'), indent=1)
PY
  meta/seeded_confirm.sh $sid
done
git -C /repo worktree remove --force /tmp/wt/red-$P$R 2>/dev/null
git -C /repo branch -D red-$P -q 2>/dev/null; git -C /repo branch -D red2-$P -q 2>/dev/null; git -C /repo branch -D red3-$P -q 2>/dev/null; git -C /repo branch -D red4-$P -q 2>/dev/null; git -C /repo branch -D red5-$P -q 2>/dev/null; git -C /repo branch -D red6-$P -q 2>/dev/null
rm -rf /tmp/red/$P$R
