#!/usr/bin/env python3
"""Pin the property theorems: meta/lock_theorems.py Cxx [Cyy ...]  (or `all`).
Writes props/Cxx/theorems.lock.json = {theorem name: hash of its statement}. Run deliberately
after a statement was added or strengthened; the checks treat a missing / changed pinned theorem
as an unchecked obligation."""
import json, os, sys
sys.path.insert(0, os.path.join(os.path.dirname(os.path.dirname(os.path.abspath(__file__))), "lib"))
import vlib
pids = sys.argv[1:]
if pids == ["all"]:
    pids = sorted(f[:-2] for f in os.listdir(os.path.join(vlib.COQ, "Properties")) if f.endswith(".v"))
for pid in pids:
    stm, inline = vlib.theorem_statements(pid)
    json.dump({"theorems": stm}, open(os.path.join(vlib.VERIF, "props", pid, "theorems.lock.json"), "w"), indent=1, sort_keys=True)
    print(pid, len(stm), "theorems pinned", ("; INLINE proofs: %s" % inline) if inline else "")
