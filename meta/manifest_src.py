#!/usr/bin/env python3
"""Source of MANIFEST.json: edit the CHECKS table here and run it (keeps the manifest valid)."""
import json, os
HERE = os.path.dirname(os.path.dirname(os.path.abspath(__file__)))
TB = ("Trusted: Coq 8.16.1 kernel (+coqchk in thorough tier); stdlib axioms only as reported by Print Assumptions in the "
      "evidence; hand-written Gallina model tied to /repo by the correspondence run (Go overlay harness + extracted OCaml "
      "model/driver, ExtrOcamlBasic only); see DESIGN.md 3.6 and the per-property section.")
CHECKS = {}
_unused = {
 "C19": dict(cat="proof", ref="DESIGN.md §4 C19",
   text="Theorems over the Gallina model of internal/interval_bst.go for all operation sequences (size/contents = multiset "
        "spec, AVL balance, stored height/max exact, exact queries under pairwise disjointness); the model is compared with "
        "the real tree shape-for-shape after every step of exhaustive small-scope and random histories, and the property "
        "predicates are evaluated on the implementation directly.",
   tech="Coq proof (induction over op histories, AVL invariants) + shape-level correspondence check against the Go code"),
}
NOT_YET = {}
def main():
    import glob
    # per-property entries: props/Cxx/manifest_entry.json {cat, ref, text, tech, [note]} (or {"not_applicable": reason})
    for f in sorted(glob.glob(os.path.join(HERE, "props", "C*", "manifest_entry.json"))):
        pid = os.path.basename(os.path.dirname(f))
        e = json.load(open(f))
        if "not_applicable" in e:
            NOT_YET[pid] = e["not_applicable"]
        else:
            CHECKS[pid] = e
    # known_findings.json (root) = concatenation of the per-property files
    allf = []
    for f in sorted(glob.glob(os.path.join(HERE, "props", "C*", "known_findings.json"))):
        allf += json.load(open(f)).get("findings", [])
    json.dump({"comment": "assembled from props/*/known_findings.json by meta/manifest_src.py; open entries turn a violation with the same signature into a KNOWN-FINDING line, fixed entries suppress nothing; never written at run time",
               "findings": allf}, open(os.path.join(HERE, "known_findings.json"), "w"), indent=1)
    props = [json.loads(l) for l in open(os.path.join(HERE, "properties.jsonl"))]
    checks, na = [], []
    for p in props:
        pid = p["id"]
        if pid in CHECKS:
            c = CHECKS[pid]
            checks.append({
                "property_id": pid,
                "quick_cmd": "./check %s --tier quick" % pid,
                "thorough_cmd": "./check %s --tier thorough" % pid,
                "evidence_file": "/verif/evidence/%s.json" % pid,
                "replay_cmd_template": "./check %s --replay {path}" % pid,
                "engine": "coq-model+correspondence",
                "level_claimed": {"category": c["cat"], "text": c["text"], "design_ref": c["ref"]},
                "level_note": c.get("note", TB),
                "technique": c["tech"],
            })
        else:
            na.append({"property_id": pid, "reason": NOT_YET.get(pid, "check under construction in this round; not claimed until its theorem file and correspondence run exist (not a statement that the technique cannot apply)")})
    m = {
        "version": 1,
        "setup_cmd": "./setup.sh",
        "hooks": {"guard": "verif",
                  "enable": "go test/build -tags verif -overlay <generated overlay.json> (add-only files from /verif/props/*/overlay injected into /repo packages; /repo itself is never modified by hooks)",
                  "baseline_off_cmd": "cd /repo && GOFLAGS=-mod=mod GOPROXY=off go test -count=1 ./...",
                  "source_commits": [], "add_only": True},
        "engines": [{"name": "coq-model+correspondence", "path": "/verif/coq + /verif/props/*/",
                     "serves_properties": sorted(CHECKS), "kind_free_text": "Coq 8.16.1 development (model, proofs, property files) + per-property Go harness and extracted OCaml model driver"}],
        "checks": checks,
        "not_applicable": na,
        "notes": "See DESIGN.md. known_findings.json lists recorded/fixed defects; seeded/ holds confirmed breaking changes used to test the checks.",
    }
    json.dump(m, open(os.path.join(HERE, "MANIFEST.json"), "w"), indent=1)
if __name__ == "__main__":
    main()
