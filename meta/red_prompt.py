#!/usr/bin/env python3
"""Print the brief for an independent 'breaking change' sub-agent for property Cxx (it gets the
property text and a scratch worktree only, nothing from /verif)."""
import json, sys
pid = sys.argv[1]; n = int(sys.argv[2]) if len(sys.argv) > 2 else 5
rnd = sys.argv[3] if len(sys.argv) > 3 else ""      # e.g. "r2": second round, avoids the first round's mechanisms
import glob, os
avoid = ""
if rnd:
    prev = []
    for d in sorted(glob.glob('/verif/seeded/%s-*/meta.json' % pid)):
        m = json.load(open(d)); prev.append("- " + (m.get('summary') or m.get('needs', ''))[:300].replace("\n", " "))
    if prev:
        avoid = "\nAn earlier round already produced the following changes; yours must differ from ALL of them in location and mechanism (different functions, different kinds of slip):\n" + "\n".join(prev) + "\n"
p = [json.loads(l) for l in open('/verif/properties.jsonl') if json.loads(l)['id'] == pid][0]
wt = "/tmp/wt/red-" + pid + rnd; out = "/tmp/red/" + pid + rnd
print(f"""You are testing how well a verification effort can detect subtle bugs. You work ONLY inside the scratch git worktree {wt} (a checkout of the Go library github.com/squadracorsepolito/acmelib: CAN network modelling, DBC parser/writer, signal layout/decoding, protobuf save/load, markdown export) and the output directory {out} (create it). Do not read or write anything under /verif or /repo, and do not look at other directories under /tmp/wt or /tmp/red.

Go environment for every shell call: `export GOFLAGS=-mod=mod GOPROXY=off` (do NOT set GOTOOLCHAIN or GOSUMDB; there is no network). The existing test suite is `cd {wt} && go test -count=1 ./...` and passes.

The property ({pid}: {p['title']}):
"{p['statement']}"
Quantifier: {p['quantifier']['text']}
Code it is anchored in: {', '.join(p['anchors']['files'])}.

Task: produce {n} DIFFERENT source changes (mutants) to the library (non-test .go files), each of which (a) still compiles, (b) still passes the whole existing test suite unedited, (c) breaks the property above (observable through the public API of package acmelib / its subpackages), and (d) needs something specific to manifest — a particular multi-step sequence of operations, an unusual but legal input or boundary value, a particular state (e.g. only after a rename, only for nested multiplexers, only for big-endian signals crossing a byte boundary, only with two entities sharing a definition), or two cooperating sites that each look fine alone — NOT something the first ordinary use would expose at once. Make them realistic (the kind of slip a maintainer could make in a refactor or an 'optimisation'), small, and distinct from each other in mechanism and location.
{avoid}
For each mutant i = 1..{n} write to {out}/m<i>/: `patch.diff` (output of `git diff` in the worktree, must apply cleanly with `git apply` to the unmodified checkout), `demo_test.go` (a Go test file — state in meta.json into which package directory it must be dropped and the exact `go test -run …` command — that FAILS with the change and PASSES without it; verify both), and `meta.json` {{"property":"{pid}","summary":"…","needs":"what is required for the bug to manifest","demo_dest":"<path inside the repo where demo_test.go goes, e.g. demo_verif_test.go or dbc/demo_verif_test.go>","demo_run":"go test -count=1 -run <TestName> ./<pkg>/","verified":"commands you ran and their outcome"}}. After producing each mutant, reset the worktree (`git checkout -- . && git clean -fd`) so that each patch is relative to the unmodified tree. Confirm for each: `go build ./... && go test -count=1 ./...` passes with the patch applied (without the demo); the demo fails with the patch and passes without.
Report: a short list of the {n} mutants (one line each) and confirmation of the verification steps.""")
