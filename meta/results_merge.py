#!/usr/bin/env python3
"""Merge the output of a filtered `meta/selftest.py <filter>` run (lines `<seeded-id> CAUGHT|MISSED|NOAPPLY`)
into seeded/RESULTS.md (which an unfiltered run rewrites as a whole):  meta/results_merge.py <logfile>..."""
import json, os, sys
H = os.path.dirname(os.path.dirname(os.path.abspath(__file__)))
rp = os.path.join(H, "seeded", "RESULTS.md")
lines = open(rp).read().splitlines()
head, rows = lines[:2], {}
for l in lines[2:]:
    if l.startswith("| "):
        rows[l.split("|")[1].strip()] = l
for f in sys.argv[1:]:
    for l in open(f):
        p = l.split()
        if len(p) == 2 and p[1] in ("CAUGHT", "MISSED", "NOAPPLY") and os.path.isdir(os.path.join(H, "seeded", p[0])):
            m = json.load(open(os.path.join(H, "seeded", p[0], "meta.json")))
            rows[p[0]] = "| %s | %s | %s | %s |" % (p[0], m["property"], m.get("needs", "").replace("|", "/").replace("\n", " ")[:160], p[1])
open(rp, "w").write("\n".join(head + [rows[k] for k in sorted(rows)]) + "\n")
print(len(rows), "rows;", sum(1 for r in rows.values() if r.rstrip().endswith("CAUGHT |")), "caught")
