#!/bin/sh
# Confirm a seeded change myself: applies cleanly, builds, existing suite passes with it, the
# demonstration fails with it and passes without it.  meta/seeded_confirm.sh <seeded-id>
# meta.json: demo_dest (path inside the repo for the demo file(s), default internal/demo_test.go),
#            demo_run (command run inside the repo, default `go test -count=1 -run Demo ./internal/`)
set -u
id="$1"; d="/verif/seeded/$id"
export GOFLAGS=-mod=mod GOPROXY=off
dest=$(python3 -c "import json;print(json.load(open('$d/meta.json')).get('demo_dest','internal/demo_test.go'))")
run=$(python3 -c "import json;print(json.load(open('$d/meta.json')).get('demo_run','go test -count=1 -run Demo ./internal/'))")
demo=$(python3 -c "import json;print(json.load(open('$d/meta.json')).get('demo_file','demo_test.go'))")
wt="/tmp/wt/confirm-$id"
git -C /repo worktree remove --force "$wt" 2>/dev/null
git -C /repo worktree add -q --detach "$wt" HEAD || exit 2
res="applies=no"
if git -C "$wt" apply "$d/patch.diff"; then
  res="applies=yes"
  (cd "$wt" && go build ./... >/dev/null 2>&1) && res="$res builds=yes" || res="$res builds=NO"
  (cd "$wt" && go test -count=1 ./... >/dev/null 2>&1) && res="$res suite=pass" || res="$res suite=FAIL"
  mkdir -p "$(dirname "$wt/$dest")"; cp "$d/$demo" "$wt/$dest"
  (cd "$wt" && sh -c "$run" >/dev/null 2>&1) && res="$res demo_with_change=PASS(unexpected)" || res="$res demo_with_change=fail"
  git -C "$wt" apply -R "$d/patch.diff"
  (cd "$wt" && sh -c "$run" >/dev/null 2>&1) && res="$res demo_without=pass" || res="$res demo_without=FAIL(unexpected)"
fi
git -C /repo worktree remove --force "$wt"
echo "$id: $res"
case "$res" in *"applies=yes builds=yes suite=pass demo_with_change=fail demo_without=pass") exit 0;; *) exit 1;; esac
