#!/bin/sh
# Run the registered quick check(s) of a seeded change against a scratch worktree of /repo
# (never /repo itself while other work is going on):   meta/seeded_run.sh <seeded-id> [Cxx ...]
# Exit 0 when at least one of the listed checks reports a VIOLATION (i.e. the change is caught).
set -u
id="$1"; shift
d="/verif/seeded/$id"
[ -f "$d/patch.diff" ] || { echo "no $d/patch.diff"; exit 2; }
props="$*"
[ -n "$props" ] || props=$(python3 -c "import json;print(' '.join(json.load(open('$d/meta.json'))['run_checks']))")
wt="/tmp/wt/seed-$id"
git -C /repo worktree remove --force "$wt" 2>/dev/null
git -C /repo worktree add -q --detach "$wt" HEAD || exit 2
if ! git -C "$wt" apply "$d/patch.diff"; then echo "PATCH-DOES-NOT-APPLY $id"; git -C /repo worktree remove --force "$wt"; exit 3; fi
caught=1
for p in $props; do
  out=$(cd /verif && VERIF_REPO="$wt" VERIF_EVIDENCE_DIR="/tmp/wt/seed-evid-$id" ./check "$p" --tier quick 2>&1)
  echo "$out" | grep -E "^(VIOLATION|KNOWN-FINDING|PASS|FAIL)" | sed "s/^/[$id $p] /"
  if echo "$out" | grep -q "^VIOLATION property=$p"; then caught=0; fi
done
git -C /repo worktree remove --force "$wt"
rm -rf "/tmp/wt/seed-evid-$id"
[ $caught -eq 0 ] && echo "CAUGHT $id" || echo "MISSED $id"
exit $caught
