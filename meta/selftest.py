#!/usr/bin/env python3
"""Run every seeded change (seeded/<id>/) through the quick tier of the checks named in its
meta.json (`run_checks`, default: the property it breaks) against a scratch worktree and write
seeded/RESULTS.md.  Development aid, not a registered command."""
import json, os, subprocess, sys, glob, concurrent.futures as cf
HERE = os.path.dirname(os.path.dirname(os.path.abspath(__file__)))
def one(d):
    sid = os.path.basename(d)
    meta = json.load(open(os.path.join(d, "meta.json")))
    checks = meta.get("run_checks") or [meta["property"]]
    p = subprocess.run([os.path.join(HERE, "meta", "seeded_run.sh"), sid] + checks, stdout=subprocess.PIPE, stderr=subprocess.STDOUT)
    out = p.stdout.decode()
    status = "CAUGHT" if "CAUGHT " + sid in out else ("NOAPPLY" if "PATCH-DOES-NOT-APPLY" in out else "MISSED")
    sigs = [l for l in out.splitlines() if "VIOLATION" in l]
    return sid, meta, status, sigs, out
def main():
    only = sys.argv[1:]
    dirs = sorted(d for d in glob.glob(os.path.join(HERE, "seeded", "*")) if os.path.isdir(d) and os.path.exists(os.path.join(d, "meta.json")))
    if only:
        dirs = [d for d in dirs if any(o in os.path.basename(d) for o in only)]
    rows = []
    with cf.ThreadPoolExecutor(max_workers=4) as ex:
        for sid, meta, status, sigs, out in ex.map(one, dirs):
            print(sid, status, flush=True)
            rows.append((sid, meta, status, sigs))
    if not only:
        with open(os.path.join(HERE, "seeded", "RESULTS.md"), "w") as f:
            f.write("| seeded change | property | what it needs to manifest | quick tier |\n|---|---|---|---|\n")
            for sid, meta, status, sigs in rows:
                f.write("| %s | %s | %s | %s |\n" % (sid, meta["property"], meta.get("needs", "").replace("|", "/")[:160], status))
    sys.exit(0 if all(r[2] == "CAUGHT" for r in rows) else 1)
main()
