#!/usr/bin/env python3
"""Validate MANIFEST.json and every evidence file against the schemas; sanity-check the counts."""
import json, sys, os
import jsonschema
H = os.path.dirname(os.path.dirname(os.path.abspath(__file__)))
m = json.load(open(os.path.join(H, "MANIFEST.json")))
jsonschema.validate(m, json.load(open("/root/.vp/MANIFEST.schema.json")))
es = json.load(open("/root/.vp/EVIDENCE.schema.json"))
bad = 0
for c in m["checks"]:
    pid = c["property_id"]
    p = os.path.join(H, "evidence", pid + ".json")
    try:
        e = json.load(open(p)); jsonschema.validate(e, es)
        cov = e["coverage"]
        notes = []
        if cov.get("obligations") != cov.get("discharged"): notes.append("obligations %s != discharged %s" % (cov.get("obligations"), cov.get("discharged")))
        if not cov.get("evaluations"): notes.append("no evaluations")
        if (cov.get("distinct_nontrivial") or 0) < 2: notes.append("distinct_nontrivial < 2")
        if not cov.get("samples"): notes.append("no samples")
        if not cov.get("trusted_base"): notes.append("no trusted_base")
        if e.get("violations"): notes.append("violations=%s" % e["violations"])
        print(pid, e["tier"], "seed", e["seed"], "obl", cov.get("obligations"), "eval", cov.get("evaluations"), "nontriv", cov.get("distinct_nontrivial"), "wall", e["wall_s"], "known", len(e.get("known_findings_hit", [])), "pinned", cov.get("theorems_pinned"), "; ".join(notes))
        bad += bool(notes)
    except Exception as ex:
        print(pid, "INVALID", str(ex)[:200]); bad += 1
print("manifest ok; not_applicable:", [n["property_id"] for n in m.get("not_applicable", [])])
sys.exit(1 if bad else 0)
