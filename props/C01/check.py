"""C01 — message payload layout stays well-formed under every edit history (and, with MODE=c07,
C07 — multiplexer groups; props/C07/check.py calls run_mode(ctx, "c07")).

Proof: coq/Properties/C01.v (C07.v) over the Gallina model coq/C01/{Layout,State,Model}.v.
Tie to the code: props/C01/harness (Go, public API of /repo's working tree) runs seeded random,
corpus and exhaustive small-scope operation histories on the real objects and writes, after every
operation, the result (accepted / refused + errors.Is cause / returned shift / panic) and a
canonical snapshot; props/C01/driver replays the same histories on the extracted model and
compares step by step, and evaluates the extracted `wfb` on the implementation's snapshots.
The harness also evaluates the property predicates (wf via verif/vinv, fits, shift/compact,
frame, membership, message view) directly on the implementation."""
import json
import os
import re
import subprocess
import vlib

HERE = os.path.dirname(os.path.abspath(__file__))


def build_harness(ctx):
    d = vlib.go_harness_dir(HERE, ctx.scratch)
    exe = os.path.join(ctx.scratch, "c01h")
    rc, log = vlib.sh(["go", "build", "-o", exe, "."], cwd=d, env=vlib.goenv(), timeout=900)
    return (exe if rc == 0 else None), log


def parse_summary(path):
    d = {"hist": {}, "propfail": {}, "samples": []}
    if not os.path.exists(path):
        return d
    for line in open(path):
        line = line.rstrip("\n")
        if line.startswith("hist "):
            _, k, v = line.split(" ", 2)
            d["hist"][k] = int(v)
        elif line.startswith("PROPFAIL "):
            sig, cnt, ops, detail = line[len("PROPFAIL "):].split(" ## ", 3)
            d["propfail"][sig] = {"count": int(cnt), "ops": ops, "detail": detail}
        elif line.startswith("SAMPLE "):
            d["samples"].append(line[len("SAMPLE "):][:600])
        else:
            k, v = line.split(" ", 1)
            d[k] = int(v)
    return d


def run_pair(ctx, exe, drv, mode, env_extra, verbose=False):
    """harness -> fifo -> model driver (the case file of a thorough run is > 1 GB)"""
    fifo = os.path.join(ctx.scratch, "cases-%s.fifo" % mode)
    if os.path.exists(fifo):
        os.remove(fifo)
    os.mkfifo(fifo)
    env = vlib.goenv()
    env.update({"VERIF_OUT": fifo, "VERIF_SEED": str(ctx.seed), "VERIF_TIER": ctx.tier, "VERIF_MODE": mode,
                "VERIF_CASES_V": os.path.join(ctx.scratch, "Cases_%s.v" % mode)})
    env.update(env_extra)
    dp = subprocess.Popen([drv, fifo] + (["-v"] if verbose else []), stdout=subprocess.PIPE, stderr=subprocess.STDOUT)
    hp = subprocess.Popen([exe], env=env, stdout=subprocess.PIPE, stderr=subprocess.STDOUT, cwd=ctx.scratch)
    try:
        hout, _ = hp.communicate(timeout=3000)
    except subprocess.TimeoutExpired:
        hp.kill()
        dp.kill()
        return 124, "[timeout]", 124, "[timeout]", fifo + ".summary"
    # the harness is gone: the driver finishes with the stream. A harness that died before it opened the
    # fifo leaves the driver blocked in open(): give it a reader's end-of-file, then a short grace period
    try:
        fd = os.open(fifo, os.O_WRONLY | os.O_NONBLOCK)
        os.close(fd)
    except OSError:
        pass
    try:
        dout, _ = dp.communicate(timeout=120 if hp.returncode != 0 else 900)
    except subprocess.TimeoutExpired:
        dp.kill()
        dout, _ = dp.communicate()
        dout = (dout or b"") + b"\n[driver killed: it did not finish after the harness had exited]"
    return hp.returncode, hout.decode("utf-8", "replace"), dp.returncode, dout.decode("utf-8", "replace"), fifo + ".summary"


def vm_cross_check(ctx, mode):
    """DESIGN 3.3: the sample of this run's histories that the harness wrote as a Coq term (operations, observed
    results, observed snapshots) is evaluated inside Coq: Acme.C01.Observe.mismatches with vm_compute.
    Returns (ok, histories, steps, log)."""
    src = os.path.join(ctx.scratch, "Cases_%s.v" % mode)
    if not os.path.exists(src):
        return False, 0, 0, "the harness wrote no Cases_%s.v" % mode
    n = sum(1 for l in open(src) if l.startswith("Definition c") and not l.startswith("Definition cases"))
    rc, out = vlib.sh(["coqc", "-R", vlib.COQ, "Acme", os.path.basename(src)], cwd=ctx.scratch, timeout=1500)
    m = re.search(r"M\s*=\s*\(\s*\[\s*\]\s*,\s*(\d+)\s*\)", out)
    return (rc == 0 and m is not None), n, (int(m.group(1)) if m else 0), out[-1500:]


def run_mode(ctx, mode):
    pid = ctx.pid
    ctx.level = "proof"
    ctx.min_evaluations = 5000      # the quick tier explores > 40,000 histories; far fewer means the run shows nothing
    status = vlib.proof_status(pid, extra_targets=["C01/Extract.v", "C01/Observe.v"])
    ctx.proof_gate(status)
    drv = vlib.build_ocaml_driver("c01_driver", os.path.join(vlib.COQ, "extracted"),
                                  os.path.join(HERE, "driver", "c01_driver.ml"), only=["c01_model"])
    exe, blog = build_harness(ctx)
    if exe is None:
        ctx.violation("harness-build-failed", "the Go harness no longer builds against the repo: " + blog[-800:],
                      {"log": blog[-3000:]}, found_input=False)
        ctx.coverage.update({"evaluations": 0})
        return
    extra = {}
    if ctx.replay:
        r = json.load(open(ctx.replay))
        ops = (r.get("replay") or {}).get("ops")
        if ops:
            extra["VERIF_REPLAY_OPS"] = ops
    hrc, hlog, drc, dlog, summ_path = run_pair(ctx, exe, drv, mode, extra, verbose=bool(ctx.replay))
    if ctx.replay:
        print(hlog)
        print(dlog)
    if hrc != 0 or not os.path.exists(summ_path):
        m = re.search(r"panic: .*", hlog)
        ctx.violation("impl-run-failed", "harness run failed (%s): %s" % (m.group(0) if m else "rc=%d" % hrc, hlog[-800:]),
                      {"log": hlog[-3000:]}, found_input=bool(m))
        ctx.coverage.update({"evaluations": 0})
        return
    summ = parse_summary(summ_path)
    m = re.search(r"CASES (\d+) STEPS (\d+) MISMATCHES (\d+) WFBFAIL (\d+)", dlog)
    mism = int(m.group(3)) if m else -1
    wfbfail = int(m.group(4)) if m else -1
    # the model side must have seen the whole stream: every case and op line the harness generated, and the END line
    seen = re.search(r"SEEN (\d+) (\d+)", dlog)
    endl = re.search(r"STREAM END (\d+) (\d+)", dlog)
    zun = re.search(r"ZONE-STEPS (\d+) ZONE-UNCOMPARED (\d+)", dlog)
    want = (summ.get("cases", -1), summ.get("steps", -2))
    got_seen = (int(seen.group(1)), int(seen.group(2))) if seen else None
    got_end = (int(endl.group(1)), int(endl.group(2))) if endl else None
    compared_cases = int(m.group(1)) if m else -1
    if drc != 0 or got_seen != want or got_end != want or compared_cases != want[0] or (zun and int(zun.group(2)) != 0):
        ctx.violation("%s-model-compared-too-few" % pid.lower(),
                      "the model driver did not compare the whole run: harness generated %s cases / %s steps, the driver saw %s, "
                      "its END line says %s, it compared %s cases, exit code %s, zone steps without comparison: %s; driver output: %s"
                      % (want[0], want[1], got_seen, got_end, compared_cases, drc, zun.group(2) if zun else "?", dlog[-500:]),
                      {"driver_output": dlog[-3000:], "mode": mode}, found_input=False)

    # property-level failures on the implementation (found input): one violation per signature
    known_sigs = {k["signature"] for k in ctx.known_open}
    unknown_fail = any("%s-%s" % (pid.lower(), sig) not in known_sigs for sig in summ["propfail"])
    for sig, d in sorted(summ["propfail"].items()):
        ctx.violation("%s-%s" % (pid.lower(), sig),
                      "%s fails on the implementation (%s, %d case(s)); shortest history: [%s]: %s"
                      % (pid, sig, d["count"], d["ops"], d["detail"]),
                      {"ops": d["ops"], "detail": d["detail"], "mode": mode, "how": "./check %s --replay <this file>" % pid})
    # a model / implementation disagreement is reported on its own: known findings must not hide it
    # (their zones are written "R ?"/"S ?" or are deterministic in the faithful model)
    if mism != 0:
        first = re.search(r"MISMATCH[^\n]*\n[^\n]*\n?[^\n]*\n?[^\n]*", dlog)
        ops = re.search(r"ops: (.*)", first.group(0)) if first else None
        ctx.violation("%s-correspondence" % pid.lower(),
                      "model and implementation disagree on %s case(s)%s; the theorems of Properties/%s.v no "
                      "longer speak about this code: %s"
                      % (mism, "" if unknown_fail else " and no property predicate fails on the implementation outside the known findings",
                         pid, first.group(0)[:900] if first else dlog[-600:]),
                      {"ops": ops.group(1).strip().rstrip(";") if ops else None, "mode": mode, "driver_output": dlog[:4000]},
                      found_input=False)
    # the extracted wfb must fail on exactly the snapshots on which the Go predicate fails (a wf
    # failure ends its case, so the counts agree when both sides see the same failures)
    go_wf = summ.get("wfcases", 0)   # histories in which the Go predicate (vinv) reported a wf-* failure
    if wfbfail > go_wf:
        ctx.violation("%s-wfb-extracted" % pid.lower(), "extracted wfb fails on implementation snapshots but the Go "
                      "predicate does not: " + dlog[:600], {"driver_output": dlog[:3000]}, found_input=False)

    ctx.coverage.update({
        "evaluations": summ.get("cases", 0),
        "steps_observed": summ.get("steps", 0),
        "distinct_nontrivial": summ.get("nontrivial", 0),
        "rule": RULES[mode],
        "distribution": summ["hist"],
        "model_mismatches": mism,
        "model_compared": {"cases": compared_cases, "op_lines_seen": got_seen[1] if got_seen else None, "end_line": bool(got_end),
                           "d36_zone_steps_compared_with_all_visiting_orders": int(zun.group(1)) if zun else None},
        "extracted_wfb_failures_on_impl": wfbfail,
        "property_predicate_failures": {k: v["count"] for k, v in summ["propfail"].items()},
        "samples": summ["samples"] or ["(none)"],
        "exhaustive": False,
        "trusted_base": [
            "Coq 8.16.1 kernel (coqc; coqchk in the thorough tier); vm_compute only in the refutation witnesses (Refuted.v), the non-vacuity examples (Examples.v) and the in-Coq cross-check of the sampled histories (Observe.v)",
            ("axioms: none (Print Assumptions: Closed under the global context)" if not status["axioms"]
             else "axioms: " + ", ".join(status["axioms"])),
            "extraction (ExtrOcamlBasic only) + OCaml 4.13.1 + props/C01/driver/c01_driver.ml (zarith for decimal I/O; "
            "function-valued state fields are re-tabulated after every step, extensionally the same state)",
            "Go harness props/C01/harness (generators, snapshot/projection, id<->handle table, declarative predicate "
            "evaluators) and props/common/vinv/{layout,mux}.go",
            "the model coq/C01/{Layout,State,Model}.v is a hand-written restatement of signal_layout.go, message.go, "
            "signal.go, signal_enum.go, mux_signal.go; tied to the code by the step-by-step comparison above; Go int "
            "modelled as unbounded Z (indexes < 2^62, sizes <= 64); unique entity names; enum values never shared "
            "between enums; nodes / interfaces / buses are outside the model: the size limit of the bus of a sent message "
            "(CAN 2.0A, 8 bytes) is an input of the operation OResizeBus, supplied by the harness from the real attachment; "
            "Signal.UpdateName with a fresh name is the identity of the model (name tables are sets of handles)",
        ],
    })
    ctx.assumptions = [
        "every signal / message / enum value has a unique name (name registries are modelled as handle sets)",
        "an enum value is added to at most one enum; a message is either stand-alone or sent by the one node interface of one "
        "CAN 2.0A bus from its creation on (no attaching / detaching of messages, no bus type changes: C04-C06)",
        "the name table of a multiplexer is observed through the names it refuses (a never-attached probe signal inserted into "
        "group -1: refused by the name check first, else by the group id check); the payload size a message works with through a "
        "1-bit probe at bit 8*SizeByte(), which must be refused",
        "integer arguments are arbitrary 64-bit ints (the generators include MaxInt64-k, MinInt64+k, 2^62, 2^31+-1); the "
        "model is over unbounded Z: after 594ad9e / 39797fd no layout code does arithmetic on an unchecked argument; values "
        "that have no refusing path (NewMessage sizeByte, type sizes, SetMinSize, enum indexes feeding sizes) are generated "
        "below 2^60 in magnitude except where stated",
        "Go map iteration over SignalEnum.refs is observable only when two signals of one layout reference the "
        "enum and grow (finding D36): such a step ends the history; its result and snapshot must equal the outcome of the "
        "model for SOME visiting order of the referencing signals (the driver enumerates all permutations), otherwise "
        "it is a correspondence violation",
    ]
    if not ctx.replay:
        okx, nx, sx, xlog = vm_cross_check(ctx, mode)
        ctx.coverage["vm_compute_cross_check"] = {
            "histories": nx, "steps": sx, "ok": okx,
            "what": "sample of this run's histories (all corpus entries, every n-th random / grow-gaps / exhaustive one; more in "
                    "the thorough tier) with the results and snapshots observed on the Go objects after every operation, "
                    "evaluated by vm_compute inside Coq (Acme.C01.Observe.mismatches = []): no extraction, OCaml or driver"}
        if not okx:
            ctx.violation("%s-vm-cross-check" % pid.lower(), "the in-Coq evaluation of %d sampled histories disagrees with the results / "
                          "snapshots observed on the implementation (or did not run): %s" % (nx, xlog[-700:]), {"log": xlog},
                          found_input=False)
    if ctx.tier == "thorough":
        ok, chk = vlib.coqchk(pid)
        ctx.coverage["coqchk"] = "ok" if ok else "FAILED"
        ctx.coverage["coqchk_tail"] = chk[-1500:]
        if not ok:
            ctx.proof_problems = (getattr(ctx, "proof_problems", []) or []) + ["coqchk failed: " + chk[-500:]]


RULES = {
    "c01": "cases = operation histories on real acmelib objects (1-3 messages of 0..8 (sometimes 9..12, -1) bytes, 3-8+ "
           "signals of sizes 1..64 incl. enum signals sharing 1-2 enums and multiplexers, every payload-affecting mutator "
           "with valid / boundary / invalid arguments chosen by looking at the live layout; about a third of the messages are "
           "sent on a CAN 2.0A bus: UpdateSizeByte above 8 bytes is refused by the bus and followed by edits that would need the "
           "refused space; signals are renamed); corpus of earlier findings, every growth of the first of 3-4 signals over all "
           "arrangements of gaps {0,1,2,4} in a message / a group / a nested attached group (grow-gaps), "
           "seeded random histories (every fifth may leave the theorem hypotheses = known-finding zones), exhaustive "
           "histories of length <= 2 over a 127-op alphabet and <= 3 (4 thorough) over a 30-op alphabet on 1-/2-byte messages "
           "with signals of 1,2,3,5 bits and an enum signal. After every op: result and full snapshot compared with the "
           "Coq model, property predicates evaluated on the implementation. Non-trivial = distinct history with at least "
           "one accepted size-changing edit (SetType/SetEnum/AddValue/UpdateIndex) of a signal that has a follower in its layout",
    "c07": "cases = operation histories centred on multiplexers (group counts {1,2,3,4,8,4096}, group sizes 1..56, nesting "
           "<= 3, detached and attached; fixed / single / multi-group / repeated / duplicated-id insertion, remove, "
           "clear-group, clear-all, shift, size changes, renames of multiplexed signals, plus the message-level ops); corpus, "
           "the grow-gaps family (see C01), seeded random histories, "
           "exhaustive histories of length <= 3 (4 thorough) on a 2x4-bit multiplexer with two signals. Result and snapshot "
           "compared with the Coq model after every op; predicates on the implementation. Non-trivial = distinct history "
           "with an accepted insertion into >= 2 groups and a later accepted remove / clear / shift in a multiplexer",
}


def run(ctx):
    run_mode(ctx, "c01")
