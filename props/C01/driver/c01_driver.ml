(* Correspondence driver for C01/C07: reads the case file written by the Go harness, replays every
   history on the extracted Coq model (Acme.C01.Model.step) and compares, step by step, the result
   (accepted / refused + cause / returned shift / panic) and the canonical snapshot string.
   It also evaluates the extracted boolean predicate [wfb] on the *implementation's* snapshot
   lines (message layouts and multiplexer groups), independently of the model state.

   Case file:
     C <id> <kind>
     O <op tokens>
     R <result>                 ok | err:<Cause> | shift:<d> | panic | invalid
     S <snapshot>               or "S ?" when no snapshot could be taken (after a panic)
     ...
     E
     END <cases> <steps>        last line of the stream
   A line "Z d36" before an O line marks a step of finding D36 (two signals of one layout reference an
   enum that grows: the implementation visits them in Go map order). Such a step is compared with the
   SET of outcomes the model produces for every visiting order of the referencing signals; the observed
   result and snapshot must be one of them (the history ends there).
   Output: one "MISMATCH ..." block per disagreeing case (first disagreeing step only),
   "WFB-IMPL-FAIL ..." lines, and a final "CASES n STEPS k MISMATCHES m WFBFAIL w". *)
module BZ = Z
open C01_model

let rec pos_of_z (n : BZ.t) : positive =
  if BZ.equal n BZ.one then XH
  else if BZ.testbit n 0 then XI (pos_of_z (BZ.shift_right n 1))
  else XO (pos_of_z (BZ.shift_right n 1))
let coqz_of_z (n : BZ.t) : z =
  if BZ.sign n = 0 then Z0 else if BZ.sign n > 0 then Zpos (pos_of_z n) else Zneg (pos_of_z (BZ.neg n))
let rec z_of_pos = function
  | XH -> BZ.one
  | XO p -> BZ.shift_left (z_of_pos p) 1
  | XI p -> BZ.succ (BZ.shift_left (z_of_pos p) 1)
let z_of_coqz = function Z0 -> BZ.zero | Zpos p -> z_of_pos p | Zneg p -> BZ.neg (z_of_pos p)
let cz s = coqz_of_z (BZ.of_string s)
let zs z = BZ.to_string (z_of_coqz z)
let rec nat_of_int n = if n <= 0 then O else S (nat_of_int (n - 1))
let rec int_of_nat = function O -> 0 | S n -> 1 + int_of_nat n
let cn s = nat_of_int (int_of_string s)

let cause_s = function
  | Duplicated -> "Duplicated" | NotFound -> "NotFound" | Negative -> "Negative"
  | OutOfBounds -> "OutOfBounds" | IsZero -> "IsZero" | IsNil -> "IsNil"
  | NoSpaceLeft -> "NoSpaceLeft" | Intersect -> "Intersect" | TooSmall -> "TooSmall" | TooBig -> "TooBig"

let result_s = function
  | ROk -> "ok" | RErr c -> "err:" ^ cause_s c | RShift d -> "shift:" ^ zs d
  | RPanic -> "panic" | RInvalid -> "invalid"

let parse_op (line : string) : op =
  match List.filter (fun s -> s <> "") (String.split_on_char ' ' line) with
  | ["newmsg"; n] -> ONewMsg (cz n)
  | ["newmsgbus"; n] -> ONewMsg (cz n)   (* the same message, sent by a node interface of a CAN 2.0A bus *)
  | ["newstd"; n] -> ONewStd (cz n)
  | ["newenum"] -> ONewEnum
  | ["newenumsig"; e] -> ONewEnumSig (cn e)
  | ["newmux"; c; g] -> ONewMux (cz c, cz g)
  | ["append"; m; x] -> OAppend (cn m, cn x)
  | ["insert"; m; x; b] -> OInsert (cn m, cn x, cz b)
  | ["remove"; m; x] -> ORemove (cn m, cn x)
  | ["removeall"; m] -> ORemoveAll (cn m)
  | ["shl"; m; x; a] -> OShiftL (cn m, cn x, cz a)
  | ["shr"; m; x; a] -> OShiftR (cn m, cn x, cz a)
  | ["compact"; m] -> OCompact (cn m)
  | ["resize"; m; n] -> OResize (cn m, cz n)
  | ["byteorder"; m; b] -> OByteOrder (cn m, b = "1")
  | ["settype"; x; n] -> OSetType (cn x, cz n)
  | ["setenum"; x; e] -> OSetEnum (cn x, cn e)
  | ["addvalue"; e; i] -> OAddValue (cn e, cz i)
  | ["removevalue"; e; v] -> ORemoveValue (cn e, cn v)
  | ["removeallvalues"; e] -> ORemoveAllValues (cn e)
  | ["setminsize"; e; n] -> OSetMinSize (cn e, cz n)
  | ["updateindex"; v; i] -> OUpdateIndex (cn v, cz i)
  | ["muxinsert"; u; x; b; g] ->
    let ids = if g = "-" then [] else List.map cz (String.split_on_char ',' g) in
    OMuxInsert (cn u, cn x, cz b, ids)
  | ["muxremove"; u; x] -> OMuxRemove (cn u, cn x)
  | ["muxcleargroup"; u; g] -> OMuxClearGroup (cn u, cz g)
  | ["muxclearall"; u] -> OMuxClearAll (cn u)
  | ["muxshl"; u; x; a] -> OMuxShiftL (cn u, cn x, cz a)
  | ["muxshr"; u; x; a] -> OMuxShiftR (cn u, cn x, cz a)
  | ["resizebus"; m; n; lim] -> OResizeBus (cn m, cz n, cz lim)
  | ["rename"; x] -> ORename (cn x)
  | _ -> failwith ("bad op: " ^ line)

(* rebuild the function-valued fields from arrays so that closure chains do not grow with the
   history (extensionally the same state) *)
let normalise (s : state) : state =
  let ns = int_of_nat s.nsig and nm = int_of_nat s.nmsg and ne = int_of_nat s.nenum and nv = int_of_nat s.nval in
  let tab n f dflt =
    let a = Array.init n (fun i -> f (nat_of_int i)) in
    fun x -> let i = int_of_nat x in if i < n then a.(i) else dflt x in
  let tab2 n f dflt =
    let a = Array.init n (fun i -> Array.init n (fun j -> f (nat_of_int i) (nat_of_int j))) in
    fun u x -> let i = int_of_nat u and j = int_of_nat x in if i < n && j < n then a.(i).(j) else dflt u x in
  let i0 = init in
  { s with
    kind = tab ns s.kind i0.kind; rel = tab ns s.rel i0.rel; pmsg = tab ns s.pmsg i0.pmsg; pmux = tab ns s.pmux i0.pmux;
    usigs = tab ns s.usigs i0.usigs; unames = tab ns s.unames i0.unames;
    ugids = tab2 ns s.ugids i0.ugids; ufixed = tab2 ns s.ufixed i0.ufixed; ugroups = tab ns s.ugroups i0.ugroups;
    gbytes = tab nm s.gbytes i0.gbytes; glsize = tab nm s.glsize i0.glsize; glay = tab nm s.glay i0.glay;
    gsigs = tab nm s.gsigs i0.gsigs; gnames = tab nm s.gnames i0.gnames;
    emax = tab ne s.emax i0.emax; emin = tab ne s.emin i0.emin; evals = tab ne s.evals i0.evals;
    eidx = tab ne s.eidx i0.eidx; erefs = tab ne s.erefs i0.erefs;
    vidx = tab nv s.vidx i0.vidx; vpar = tab nv s.vpar i0.vpar }

let ints l = String.concat "," (List.map string_of_int l)
let sorted_handles l = ints (List.sort_uniq compare (List.map int_of_nat l))
let opt_s = function None -> "-" | Some n -> string_of_int (int_of_nat n)

let snapshot (s : state) : string =
  let b = Buffer.create 512 in
  let ns = int_of_nat s.nsig and nm = int_of_nat s.nmsg and ne = int_of_nat s.nenum in
  let first = ref true in
  let sep () = if !first then first := false else Buffer.add_char b ' ' in
  for m = 0 to nm - 1 do
    let mh = nat_of_int m in
    sep ();
    Buffer.add_string b (Printf.sprintf "M%d:%s:[%s]:K[%s]:N[%s]" m (zs (s.gbytes mh))
                           (ints (List.map int_of_nat (s.glay mh))) (sorted_handles (s.gsigs mh)) (sorted_handles (s.gnames mh)))
  done;
  for x = 0 to ns - 1 do
    let xh = nat_of_int x in
    sep ();
    Buffer.add_string b (Printf.sprintf "X%d:%s:%s:%s:%s:%s" x (zs (sz s xh)) (zs (s.rel xh)) (zs (start_bit s xh))
                           (opt_s (s.pmsg xh)) (opt_s (s.pmux xh)))
  done;
  for u = 0 to ns - 1 do
    let uh = nat_of_int u in
    if is_mux s uh then begin
      sep ();
      let c = mux_count s uh in
      (* the names that are taken from the multiplexer's point of view: its own table and, when it
         is attached, the table of the owning message (MultiplexerSignal.verifySignalName) *)
      let taken = s.unames uh @ (match s.pmsg uh with Some m -> s.gnames m | None -> []) in
      Buffer.add_string b (Printf.sprintf "U%d:%s:%s:%s:T[%s]:{" u (zs c) (zs (mux_gsize s uh)) (zs (selw c)) (sorted_handles taken));
      (* run-length merged groups *)
      let groups = Array.of_list (List.map (fun l -> ints (List.map int_of_nat l)) (s.ugroups uh)) in
      let n = Array.length groups in
      let i = ref 0 and firstrun = ref true in
      while !i < n do
        let j = ref !i in
        while !j + 1 < n && groups.(!j + 1) = groups.(!i) do incr j done;
        if not !firstrun then Buffer.add_char b ';';
        firstrun := false;
        Buffer.add_string b (Printf.sprintf "%d-%d=[%s]" !i !j groups.(!i));
        i := !j + 1
      done;
      Buffer.add_char b '}'
    end
  done;
  for e = 0 to ne - 1 do
    let eh = nat_of_int e in
    sep ();
    Buffer.add_string b (Printf.sprintf "E%d:%s:%s:%s" e (zs (s.emax eh)) (zs (s.emin eh)) (zs (esize s eh)))
  done;
  Buffer.contents b

(* ---- extracted wfb on the implementation's own snapshot ---------------------------------- *)
(* parse "X.." parts into (size, rel) tables, then check every message layout against 8*bytes
   and every group against gsize *)
let wfb_on_impl (snap : string) : string list =
  let parts = List.filter (fun p -> p <> "") (String.split_on_char ' ' snap) in
  let sizes = Hashtbl.create 16 and rels = Hashtbl.create 16 in
  List.iter (fun p ->
      if String.length p > 0 && p.[0] = 'X' then
        match String.split_on_char ':' p with
        | x :: size :: rel :: _ ->
          let h = int_of_string (String.sub x 1 (String.length x - 1)) in
          Hashtbl.replace sizes h (BZ.of_string size); Hashtbl.replace rels h (BZ.of_string rel)
        | _ -> ()) parts;
  let items l =
    List.map (fun h -> ((nat_of_int h, coqz_of_z (Hashtbl.find rels h)), coqz_of_z (Hashtbl.find sizes h))) l in
  let parse_list str = (* "[1,2,3]" *)
    let inner = String.sub str 1 (String.length str - 2) in
    if inner = "" then [] else List.map int_of_string (String.split_on_char ',' inner) in
  let bad = ref [] in
  List.iter (fun p ->
      if String.length p > 0 && p.[0] = 'M' then begin
        match String.split_on_char ':' p with
        | m :: bytes :: lay :: _ ->
          (try
             let size = BZ.mul (BZ.of_string bytes) (BZ.of_int 8) in
             if not (wfb (coqz_of_z size) (items (parse_list lay))) then bad := (m ^ " layout not wf") :: !bad
           with Not_found -> bad := (m ^ " unknown handle in layout") :: !bad)
        | _ -> ()
      end else if String.length p > 0 && p.[0] = 'U' then begin
        match String.split_on_char ':' p with
        | u :: _count :: gsize :: _selw :: _taken :: rest ->
          let runs = String.concat ":" rest in
          let runs = String.sub runs 1 (String.length runs - 2) in
          if runs <> "" then
            List.iter (fun r ->
                match String.split_on_char '=' r with
                | [rng; lst] ->
                  (try
                     if not (wfb (cz gsize) (items (parse_list lst))) then bad := (u ^ " group " ^ rng ^ " not wf") :: !bad
                   with Not_found -> bad := (u ^ " unknown handle in group") :: !bad)
                | _ -> ()) (String.split_on_char ';' runs)
        | _ -> ()
      end) parts;
  List.rev !bad

(* all permutations of a (short) list *)
let rec permutations = function
  | [] -> [[]]
  | l -> List.concat_map (fun x -> List.map (fun p -> x :: p) (permutations (List.filter (fun y -> y <> x) l))) l

(* the enum whose referencing signals an op visits *)
let enum_of_op (s : state) = function
  | OAddValue (e, _) -> Some e
  | OUpdateIndex (v, _) -> s.vpar v
  | _ -> None

(* the outcomes (result, snapshot) of an op over every visiting order of the referencing signals *)
let outcomes (s : state) (o : op) : (string * string) list option =
  match enum_of_op s o with
  | None -> Some (let (s', r) = step s o in [(result_s r, snapshot (normalise s'))])
  | Some e ->
    let refs = s.erefs e in
    if List.length refs > 7 then None
    else
      Some (List.sort_uniq compare
              (List.map (fun perm ->
                   let sp = { s with erefs = (fun e' -> if int_of_nat e' = int_of_nat e then perm else s.erefs e') } in
                   let (s', r) = step sp o in
                   (result_s r, snapshot (normalise s'))) (permutations refs)))

let () =
  let ic = open_in Sys.argv.(1) in
  let verbose = Array.length Sys.argv > 2 && Sys.argv.(2) = "-v" in
  let ncases = ref 0 and nsteps = ref 0 and bad = ref 0 and wfbfail = ref 0 in
  let st = ref init and case_id = ref "" and case_bad = ref false and step_i = ref 0 in
  let cur_op = ref "" and model_r = ref "" and model_s = ref "" and impl_r = ref "" in
  let ops_so_far = Buffer.create 256 in
  let zone = ref false and cands = ref [] and zone_steps = ref 0 and zone_uncompared = ref 0 in
  let end_seen = ref None and olines = ref 0 and clines = ref 0 in
  (try while true do
      let line = input_line ic in
      let n = String.length line in
      if n >= 2 then begin
        let body = if n > 2 then String.sub line 2 (n - 2) else "" in
        if line.[0] = 'O' then incr olines; if line.[0] = 'C' then incr clines;
        match line.[0] with
        | 'C' -> incr ncases; st := init; case_id := body; case_bad := false; step_i := 0; Buffer.clear ops_so_far; zone := false
        | 'Z' -> if not !case_bad then zone := true
        | 'O' when !zone ->
          if not !case_bad then begin
            incr nsteps; incr step_i; incr zone_steps; cur_op := body;
            Buffer.add_string ops_so_far body; Buffer.add_string ops_so_far "; ";
            (match outcomes !st (parse_op body) with
             | Some l -> cands := l
             | None -> incr zone_uncompared; cands := []; case_bad := true);
            if verbose then Printf.printf "  [%s #%d] %s -> model (finding D36, %d outcome(s) over the visiting orders)\n" !case_id !step_i body (List.length !cands)
          end
        | 'R' when !zone ->
          impl_r := body;
          if not !case_bad then begin
            cands := List.filter (fun (r, _) -> r = body) !cands;
            if !cands = [] then begin
              case_bad := true; incr bad;
              if !bad <= 25 then
                Printf.printf "MISMATCH case=%s step=%d op=[%s] RESULT impl=%s is the result of NO visiting order of the referencing signals in the model (outside finding D36)\n  ops: %s\n" !case_id !step_i !cur_op body (Buffer.contents ops_so_far)
            end
          end
        | 'S' when !zone ->
          if body <> "?" then begin
            (match wfb_on_impl body with
             | [] -> ()
             | l -> incr wfbfail;
               if !wfbfail <= 25 then Printf.printf "WFB-IMPL-FAIL case=%s step=%d op=[%s] %s\n" !case_id !step_i !cur_op (String.concat "; " l));
            if not !case_bad && not (List.exists (fun (_, sn) -> sn = body) !cands) then begin
              incr bad;
              if !bad <= 25 then
                Printf.printf "MISMATCH case=%s step=%d op=[%s] SNAPSHOT (result %s) is the outcome of NO visiting order of the referencing signals in the model (outside finding D36)\n  impl =%s\n  model=%s\n  ops: %s\n" !case_id !step_i !cur_op !impl_r body (String.concat "\n     or " (List.map snd !cands)) (Buffer.contents ops_so_far)
            end
          end;
          case_bad := true   (* the history ends with the zone step *)
        | 'O' ->
          if not !case_bad then begin
            incr nsteps; incr step_i; cur_op := body;
            Buffer.add_string ops_so_far body; Buffer.add_string ops_so_far "; ";
            let (s', r) = step !st (parse_op body) in
            st := normalise s';
            model_r := result_s r;
            model_s := snapshot !st;
            if verbose then Printf.printf "  [%s #%d] %s -> model %s\n    %s\n" !case_id !step_i body !model_r !model_s
          end
        | 'R' ->
          impl_r := body;
          if body = "?" then case_bad := true   (* outcome depends on Go map order: the case ends here, uncompared *)
          else if not !case_bad && body <> !model_r then begin
            case_bad := true; incr bad;
            if !bad <= 25 then
              Printf.printf "MISMATCH case=%s step=%d op=[%s] RESULT impl=%s model=%s\n  ops: %s\n" !case_id !step_i !cur_op body !model_r (Buffer.contents ops_so_far)
          end
        | 'S' ->
          if body <> "?" then begin
            (match wfb_on_impl body with
             | [] -> ()
             | l -> incr wfbfail;
               if !wfbfail <= 25 then Printf.printf "WFB-IMPL-FAIL case=%s step=%d op=[%s] %s\n" !case_id !step_i !cur_op (String.concat "; " l));
            if not !case_bad && body <> !model_s then begin
              case_bad := true; incr bad;
              if !bad <= 25 then
                Printf.printf "MISMATCH case=%s step=%d op=[%s] SNAPSHOT (result %s)\n  impl =%s\n  model=%s\n  ops: %s\n" !case_id !step_i !cur_op !impl_r body !model_s (Buffer.contents ops_so_far)
            end
          end
        | _ -> ()
      end;
      if n >= 3 && String.sub line 0 3 = "END" then end_seen := Some line
    done with End_of_file -> ());
  Printf.printf "ZONE-STEPS %d ZONE-UNCOMPARED %d\n" !zone_steps !zone_uncompared;
  Printf.printf "SEEN %d %d\n" !clines !olines;
  (match !end_seen with
   | Some l -> Printf.printf "STREAM %s\n" l
   | None -> Printf.printf "STREAM TRUNCATED (no END line)\n");
  Printf.printf "CASES %d STEPS %d MISMATCHES %d WFBFAIL %d\n" !ncases !nsteps !bad !wfbfail
