package main

// DESIGN 3.3, "cases.v": a sample of the run's histories with the results and snapshots observed
// on the implementation, written as a Coq term; the check evaluates Acme.C01.Observe.mismatches on
// it with vm_compute (no extraction, no OCaml, no driver for that sample).

import (
	"bufio"
	"fmt"
	"os"
	"sort"
	"strconv"
	"strings"
)

type stepRec struct {
	o      op
	res    string
	sn     *snap
	resOK  bool // the result is comparable
	snapOK bool // the snapshot is comparable
}

type coqWriter struct {
	f        *os.File
	w        *bufio.Writer
	n        int
	names    []string
	seen     map[string]int // histories offered, per kind
	taken    map[string]int // histories written, per kind
	thorough bool
}

func newCoqWriter(path string, thorough bool) *coqWriter {
	f, err := os.Create(path)
	if err != nil {
		panic(err)
	}
	cw := &coqWriter{f: f, w: bufio.NewWriterSize(f, 1<<20), seen: map[string]int{}, taken: map[string]int{}, thorough: thorough}
	cw.w.WriteString("From Coq Require Import ZArith List.\nFrom Acme.C01 Require Import Layout State Model Observe.\nImport ListNotations.\n" +
		"Definition bogus : nat := Z.to_nat 9999.\n")
	return cw
}

func cz(v int) string { return "(" + strconv.Itoa(v) + ")%Z" }

func ch(h int) string {
	if h == bogus {
		return "bogus"
	}
	if h < 0 {
		return "bogus"
	}
	return strconv.Itoa(h)
}

func coqOp(o op) string {
	switch o.k {
	case "newmsg", "newmsgbus":
		return "ONewMsg " + cz(o.z)
	case "newstd":
		return "ONewStd " + cz(o.z)
	case "newenum":
		return "ONewEnum"
	case "newenumsig":
		return "ONewEnumSig " + ch(o.a)
	case "newmux":
		return fmt.Sprintf("ONewMux %s %s", cz(o.a), cz(o.z))
	case "append":
		return fmt.Sprintf("OAppend %s %s", ch(o.a), ch(o.b))
	case "insert":
		return fmt.Sprintf("OInsert %s %s %s", ch(o.a), ch(o.b), cz(o.z))
	case "remove":
		return fmt.Sprintf("ORemove %s %s", ch(o.a), ch(o.b))
	case "removeall":
		return "ORemoveAll " + ch(o.a)
	case "shl":
		return fmt.Sprintf("OShiftL %s %s %s", ch(o.a), ch(o.b), cz(o.z))
	case "shr":
		return fmt.Sprintf("OShiftR %s %s %s", ch(o.a), ch(o.b), cz(o.z))
	case "compact":
		return "OCompact " + ch(o.a)
	case "resize":
		return fmt.Sprintf("OResize %s %s", ch(o.a), cz(o.z))
	case "resizebus":
		return fmt.Sprintf("OResizeBus %s %s %s", ch(o.a), cz(o.z), cz(o.b))
	case "byteorder":
		return fmt.Sprintf("OByteOrder %s %v", ch(o.a), o.z == 1)
	case "settype":
		return fmt.Sprintf("OSetType %s %s", ch(o.a), cz(o.z))
	case "setenum":
		return fmt.Sprintf("OSetEnum %s %s", ch(o.a), ch(o.b))
	case "addvalue":
		return fmt.Sprintf("OAddValue %s %s", ch(o.a), cz(o.z))
	case "removevalue":
		return fmt.Sprintf("ORemoveValue %s %s", ch(o.a), ch(o.b))
	case "removeallvalues":
		return "ORemoveAllValues " + ch(o.a)
	case "setminsize":
		return fmt.Sprintf("OSetMinSize %s %s", ch(o.a), cz(o.z))
	case "updateindex":
		return fmt.Sprintf("OUpdateIndex %s %s", ch(o.a), cz(o.z))
	case "muxinsert":
		ids := make([]string, len(o.gids))
		for i, g := range o.gids {
			ids[i] = strconv.Itoa(g)
		}
		l := "[]"
		if !o.fix {
			l = "[" + strings.Join(ids, "; ") + "]%Z"
		}
		return fmt.Sprintf("OMuxInsert %s %s %s %s", ch(o.a), ch(o.b), cz(o.z), l)
	case "muxremove":
		return fmt.Sprintf("OMuxRemove %s %s", ch(o.a), ch(o.b))
	case "muxcleargroup":
		return fmt.Sprintf("OMuxClearGroup %s %s", ch(o.a), cz(o.z))
	case "muxclearall":
		return "OMuxClearAll " + ch(o.a)
	case "muxshl":
		return fmt.Sprintf("OMuxShiftL %s %s %s", ch(o.a), ch(o.b), cz(o.z))
	case "muxshr":
		return fmt.Sprintf("OMuxShiftR %s %s %s", ch(o.a), ch(o.b), cz(o.z))
	case "rename":
		return "ORename " + ch(o.a)
	}
	panic("coqOp: " + o.k)
}

// ok: the result can be written (err:Other(...) cannot)
func coqResult(res string) (string, bool) {
	switch {
	case res == "ok":
		return "ROk", true
	case res == "panic":
		return "RPanic", true
	case res == "invalid":
		return "RInvalid", true
	case strings.HasPrefix(res, "shift:"):
		return "RShift (" + res[len("shift:"):] + ")%Z", true
	case strings.HasPrefix(res, "err:Other"):
		return "", false
	case strings.HasPrefix(res, "err:"):
		return "RErr " + res[len("err:"):], true
	}
	return "", false
}

func zlist(l []int) string {
	p := make([]string, len(l))
	for i, v := range l {
		p[i] = strconv.Itoa(v)
	}
	return "[" + strings.Join(p, "; ") + "]"
}

func zoptS(v int) string {
	if v < 0 {
		return "None"
	}
	return "Some " + strconv.Itoa(v)
}

func sortedCopy(l []int) []int {
	c := append([]int{}, l...)
	sort.Ints(c)
	return c
}

func coqObs(sn *snap) string {
	var b strings.Builder
	b.WriteString("((")
	ms := make([]string, len(sn.msgs))
	for i, m := range sn.msgs {
		ms[i] = fmt.Sprintf("(%d, %s, %s, %s)", m.bytes, zlist(m.lay), zlist(sortedCopy(m.reg)), zlist(sortedCopy(m.names)))
	}
	b.WriteString("[" + strings.Join(ms, "; ") + "], ")
	ss := make([]string, len(sn.sigs))
	for i, s := range sn.sigs {
		ss[i] = fmt.Sprintf("(%d, %d, %d, %s, %s)", s.size, s.rel, s.abs, zoptS(s.pm), zoptS(s.pu))
	}
	b.WriteString("[" + strings.Join(ss, "; ") + "], ")
	var hs []int
	for h := range sn.mux {
		hs = append(hs, h)
	}
	sort.Ints(hs)
	us := make([]string, len(hs))
	for i, h := range hs {
		u := sn.mux[h]
		rs := make([]string, len(u.runs))
		for k, r := range u.runs {
			rs[k] = fmt.Sprintf("(%d, %d, %s)", r.lo, r.hi, zlist(r.hs))
		}
		us[i] = fmt.Sprintf("(%d, (%d, %d, %d), %s, [%s])", h, u.count, u.gsize, u.selw, zlist(u.taken), strings.Join(rs, "; "))
	}
	b.WriteString("[" + strings.Join(us, "; ") + "], ")
	es := make([]string, len(sn.enums))
	for i, e := range sn.enums {
		es[i] = fmt.Sprintf("(%d, %d, %d)", e.max, e.min, e.size)
	}
	b.WriteString("[" + strings.Join(es, "; ") + "]))%Z")
	return b.String()
}

// offer a finished history; it is written when the sampling rule selects it
func (cw *coqWriter) offer(r *runner, kind string, idx int) {
	if cw == nil || len(r.recs) == 0 || len(r.recs) > 70 {
		return
	}
	// per kind: every stride-th history, up to a quota (quick / thorough)
	rule := map[string][3]int{ // stride quick, quota quick, quota thorough (stride thorough = 40 x)
		"corpus": {1, 100, 100}, "replay": {1, 1, 1}, "random": {23, 14, 110}, "random-zone": {17, 4, 40},
		"grow-gaps": {331, 6, 40}, "d36-zone": {37, 4, 12}, "fixed-groups": {41, 6, 20}, "setenum-mux": {13, 5, 12}, "minsize-mux": {17, 5, 12}, "exh-full": {2003, 6, 30}, "exh-reduced": {3001, 6, 30},
	}[kind]
	if rule[0] == 0 {
		return
	}
	stride, quota := rule[0], rule[1]
	if cw.thorough {
		quota = rule[2]
		if kind == "random" || kind == "random-zone" || strings.HasPrefix(kind, "exh") {
			stride *= 40
		} else if kind == "grow-gaps" {
			stride = 53
		}
	}
	cw.seen[kind]++
	if cw.seen[kind]%stride != 0 && stride != 1 || cw.taken[kind] >= quota {
		return
	}
	cw.taken[kind]++
	steps := make([]string, 0, len(r.recs))
	for _, sr := range r.recs {
		res, ok := coqResult(sr.res)
		switch {
		case !sr.resOK:
			steps = append(steps, fmt.Sprintf("(%s, None, None)", coqOp(sr.o)))
		case !ok:
			return // an error outside the sentinel set: not expressible, leave the history out
		case !sr.snapOK || sr.sn == nil:
			steps = append(steps, fmt.Sprintf("(%s, Some (%s), None)", coqOp(sr.o), res))
		default:
			steps = append(steps, fmt.Sprintf("(%s, Some (%s), Some %s)", coqOp(sr.o), res, coqObs(sr.sn)))
		}
	}
	cw.n++
	name := fmt.Sprintf("c%d", cw.n)
	fmt.Fprintf(cw.w, "Definition %s : Z * list ostep := ((%d)%%Z, [\n  %s]).\n", name, idx, strings.Join(steps, ";\n  "))
	cw.names = append(cw.names, name)
}

func (cw *coqWriter) close() {
	if cw == nil {
		return
	}
	fmt.Fprintf(cw.w, "Definition cases : list (Z * list ostep) := [%s].\n", strings.Join(cw.names, "; "))
	cw.w.WriteString("Definition M := Eval vm_compute in (mismatches cases, steps_of cases).\nPrint M.\n")
	cw.w.Flush()
	cw.f.Close()
}
