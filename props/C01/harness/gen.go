package main

// Generators: seeded random histories (boundary-biased arguments chosen by looking at the live
// state) and exhaustive small-scope enumeration. Every choice derives from one SplitMix64 seed.

import (
	"math"

	"github.com/squadracorsepolito/acmelib"
	"verif/vinv"
)

type rng struct{ s uint64 }

func (r *rng) next() uint64 {
	r.s += 0x9E3779B97F4A7C15
	z := r.s
	z = (z ^ (z >> 30)) * 0xBF58476D1CE4E5B9
	z = (z ^ (z >> 27)) * 0x94D049BB133111EB
	return z ^ (z >> 31)
}
func (r *rng) below(n int) int {
	if n <= 0 {
		return 0
	}
	return int(r.next() % uint64(n))
}
func (r *rng) chance(pct int) bool { return r.below(100) < pct }
func (r *rng) pick(l []int) int {
	if len(l) == 0 {
		return bogus
	}
	return l[r.below(len(l))]
}

type gen struct {
	r    *rng
	run  *runner
	mode string // "c01" | "c07"
	// probability (percent) of deliberately leaving the hypotheses of the theorems
	zonePct int
}

var sizeClasses = []int{1, 1, 2, 2, 3, 4, 4, 5, 7, 8, 8, 9, 12, 15, 16, 17, 24, 31, 32, 33, 48, 63, 64}
var groupCounts = []int{1, 2, 2, 3, 4, 4, 8, 8, 2, 3, 4, 4096}
var indexPool = []int{0, 1, 2, 3, 4, 7, 8, 15, 16, 31, 32, 255, 256, 1023, 65535, 65536, -1, -7, 1 << 40,
	1<<31 - 1, 1 << 31, 1<<62 - 1, 1 << 62, math.MaxInt64, math.MinInt64}

// integer arguments at the edge of the int range: no arithmetic on an unchecked argument may wrap
var extremes = []int{math.MaxInt64, math.MaxInt64 - 1, math.MaxInt64 - 3, math.MaxInt64 - 64, math.MinInt64, math.MinInt64 + 1,
	1 << 62, 1<<62 + 1, -(1 << 62), 1<<31 - 1, 1 << 31, 1<<31 + 1, -(1 << 31), 1 << 32, 1<<60 - 1, 1 << 60, 1 << 61}

func (g *gen) extreme() int { return extremes[g.r.below(len(extremes))] }

func (g *gen) sn() *snap { return g.run.cur }

func (g *gen) sigsWhere(f func(h int) bool) []int {
	var l []int
	for h := range g.sn().sigs {
		if f(h) {
			l = append(l, h)
		}
	}
	return l
}

func (g *gen) kind(h int) acmelib.SignalKind { return g.run.w.sigs[h].Kind() }

func (g *gen) freeSigs() []int {
	return g.sigsWhere(func(h int) bool { return !g.sn().attached(h) })
}
func (g *gen) attachedSigs() []int {
	return g.sigsWhere(func(h int) bool { return g.sn().attached(h) })
}
func (g *gen) muxes() []int {
	return g.sigsWhere(func(h int) bool { return g.kind(h) == acmelib.SignalKindMultiplexer })
}

// nesting depth of u (0 = not inside another multiplexer) and height of x (0 = not a multiplexer)
func (g *gen) depth(u int) int {
	d := 0
	for g.sn().sigs[u].pu >= 0 && d < 10 {
		u = g.sn().sigs[u].pu
		d++
	}
	return d
}
func (g *gen) height(x int) int {
	mi := g.sn().mux[x]
	if mi == nil {
		return 0
	}
	h := 0
	for _, r := range mi.runs {
		for _, y := range r.hs {
			if y >= 0 {
				if hy := g.height(y); hy > h {
					h = hy
				}
			}
		}
	}
	return h + 1
}

// an entity-id argument: mostly a plausible one, sometimes foreign or matching nothing
func (g *gen) idArg(plausible []int) int {
	p := g.r.below(100)
	switch {
	case p < 72 && len(plausible) > 0:
		return g.r.pick(plausible)
	case p < 90 && len(g.sn().sigs) > 0:
		return g.r.below(len(g.sn().sigs))
	default:
		return bogus
	}
}

// candidate start bits for placing a signal of n bits in layout hs of the given size
func (g *gen) startBits(hs []int, size, n int) []int {
	sn := g.sn()
	c := []int{0, -1, size - n, size - n + 1, size, g.r.below(size+3) - 1}
	if g.r.chance(12) {
		return []int{g.extreme()}
	}
	for _, y := range hs {
		if y < 0 {
			continue
		}
		c = append(c, sn.end(y), sn.end(y)-1, sn.sigs[y].rel-n, sn.sigs[y].rel-n+1, sn.sigs[y].rel)
	}
	return c
}

func (g *gen) amounts(gap int) []int {
	if g.r.chance(12) {
		return []int{g.extreme()}
	}
	return []int{0, -1, 1, 1, 2, 3, gap, gap + 1, gap - 1, 100, 1 + g.r.below(12)}
}

// ---- setup ----------------------------------------------------------------------------------------

func (g *gen) emit(o op) bool { return g.run.step(o) }

func (g *gen) setup() bool {
	r := g.r
	nm := 1 + r.below(3)
	if g.mode == "c07" {
		nm = 1 + r.below(2)
	}
	for i := 0; i < nm; i++ {
		b := r.below(9)
		switch p := r.below(100); {
		case p < 8:
			b = 9 + r.below(4)
		case p < 10:
			b = -1
		case p < 45:
			b = 8
		}
		k := "newmsg"
		if b >= 0 && b <= busLimit && r.chance(35) {
			k = "newmsgbus" // sent by a node interface of a CAN 2.0A bus
		}
		if !g.emit(op{k: k, z: b}) {
			return false
		}
	}
	ne := 1 + r.below(2)
	for i := 0; i < ne; i++ {
		if !g.emit(op{k: "newenum"}) {
			return false
		}
		if r.chance(40) {
			if !g.emit(op{k: "setminsize", a: i, z: 1 + r.below(6)}) {
				return false
			}
		}
		for k := r.below(3); k > 0; k-- {
			if !g.emit(op{k: "addvalue", a: i, z: r.below(9)}) {
				return false
			}
		}
	}
	ns := 3 + r.below(6)
	for i := 0; i < ns; i++ {
		if !g.newSignal() {
			return false
		}
	}
	if g.mode == "c07" {
		for i := 1 + r.below(3); i > 0; i-- {
			if !g.emit(g.newMuxOp()) {
				return false
			}
		}
	}
	return true
}

func (g *gen) newMuxOp() op {
	r := g.r
	c := groupCounts[r.below(len(groupCounts))]
	gs := 1 + r.below(56)
	switch p := r.below(100); {
	case p < 30:
		gs = 8 + r.below(17)
	case p < 34:
		gs = 56
	}
	switch p := r.below(100); {
	case p < 2:
		c = 0
	case p < 4:
		c = -1
	case p < 6:
		gs = 0
	case p < 7:
		gs = -3
	case p < 10:
		// only sizes no payload can hold: a huge multiplexer that FITS a huge message makes the filter computation
		// (linear in the signal size) exhaust the memory
		// (the accepted boundary MaxInt64-64 is a corpus entry: a multiplexer of that size fits a message of 2^60-1
		// bytes and would be accepted there)
		e := []int{math.MaxInt64, math.MaxInt64 - 63, math.MaxInt64 - 1, math.MinInt64}
		gs = e[r.below(len(e))]
	}
	return op{k: "newmux", a: c, z: gs}
}

func (g *gen) newSignal() bool {
	r := g.r
	p := r.below(100)
	muxPct := 12
	if g.mode == "c07" {
		muxPct = 25
	}
	switch {
	case p < muxPct:
		return g.emit(g.newMuxOp())
	case p < muxPct+25 && len(g.sn().enums) > 0:
		return g.emit(op{k: "newenumsig", a: r.below(len(g.sn().enums))})
	default:
		n := sizeClasses[r.below(len(sizeClasses))]
		if g.mode == "c07" || r.chance(50) {
			n = 1 + r.below(8)
		}
		if r.chance(2) {
			n = -r.below(2)
		}
		return g.emit(op{k: "newstd", z: n})
	}
}

// ---- one random op ----------------------------------------------------------------------------------

type weighted struct {
	w int
	f func() (op, bool)
}

func (g *gen) nextOp() (op, bool) {
	var tbl []weighted
	if g.mode == "c01" {
		tbl = []weighted{
			{14, g.opAppend}, {16, g.opInsert}, {7, g.opRemove}, {1, g.opRemoveAll}, {9, g.opShift}, {4, g.opCompact},
			{6, g.opResize}, {1, g.opByteOrder}, {10, g.opSetType}, {4, g.opSetEnum}, {9, g.opAddValue}, {3, g.opRemoveValue},
			{1, g.opRemoveAllValues}, {3, g.opSetMinSize}, {6, g.opUpdateIndex}, {5, g.opMuxInsert}, {1, g.opMuxRemove},
			{1, g.opMuxShift}, {3, g.opNew}, {2, g.opRename},
		}
	} else {
		tbl = []weighted{
			{5, g.opAppend}, {5, g.opInsert}, {3, g.opRemove}, {1, g.opRemoveAll}, {3, g.opShift}, {1, g.opCompact},
			{2, g.opResize}, {6, g.opSetType}, {4, g.opSetEnum}, {5, g.opAddValue}, {1, g.opRemoveValue}, {1, g.opSetMinSize},
			{4, g.opUpdateIndex}, {30, g.opMuxInsert}, {7, g.opMuxRemove}, {5, g.opMuxClearGroup}, {1, g.opMuxClearAll},
			{9, g.opMuxShift}, {3, g.opNew}, {5, g.opRename},
		}
	}
	total := 0
	for _, t := range tbl {
		total += t.w
	}
	for try := 0; try < 20; try++ {
		p := g.r.below(total)
		for _, t := range tbl {
			if p < t.w {
				if o, ok := t.f(); ok && g.zoneAdmit(o) {
					return o, true
				}
				break
			}
			p -= t.w
		}
	}
	return op{}, false
}

// ops that leave the hypotheses of the theorems (zones, see runner.zoneOf) are admitted rarely
func (g *gen) zoneAdmit(o op) bool {
	z := g.run.zoneOf(o, g.run.planEnumOp(o))
	if z == "" {
		return true
	}
	if g.zonePct == 0 {
		return false
	}
	pct := map[string]int{"reattach": g.zonePct, "d35": 6 * g.zonePct, "d36": 8 * g.zonePct, "d03": 8 * g.zonePct}[z]
	return g.r.chance(pct)
}

func (g *gen) opNew() (op, bool) {
	r := g.r
	switch p := r.below(100); {
	case p < 2 && g.zonePct > 0:
		// finding "ctor": sizeByte*8 wraps
		c := []int{1 << 61, -(1 << 60) - 1, math.MaxInt64, math.MinInt64, 1<<60 + 1, 1 << 60, -(1 << 60), 1<<60 - 1}
		return op{k: "newmsg", z: c[r.below(len(c))]}, true
	case p < 7:
		return op{k: "newmsg", z: r.below(9)}, true
	case p < 10:
		return op{k: "newmsgbus", z: r.below(9)}, true
	case p < 15:
		return op{k: "newenum"}, true
	case p < 35 && len(g.sn().enums) > 0:
		return op{k: "newenumsig", a: r.below(len(g.sn().enums))}, true
	case p < 55:
		return g.newMuxOp(), true
	default:
		return op{k: "newstd", z: sizeClasses[r.below(len(sizeClasses))]}, true
	}
}

func (g *gen) pickMsg() (int, bool) {
	if len(g.sn().msgs) == 0 {
		return 0, false
	}
	return g.r.below(len(g.sn().msgs)), true
}

// a signal to attach: free, unless the zone stream is drawn
func (g *gen) attachArg() (int, bool) {
	if g.r.chance(15) {
		if l := g.attachedSigs(); len(l) > 0 {
			return g.r.pick(l), true
		}
	}
	l := g.freeSigs()
	if len(l) == 0 {
		return 0, false
	}
	return g.r.pick(l), true
}

func (g *gen) opAppend() (op, bool) {
	m, ok := g.pickMsg()
	x, ok2 := g.attachArg()
	if !ok || !ok2 {
		return op{}, false
	}
	if g.r.chance(4) {
		// a signal already in this very message (refused by the name check)
		if l := g.sn().msgs[m].lay; len(l) > 0 {
			x = g.r.pick(l)
		}
	}
	return op{k: "append", a: m, b: x}, true
}

func (g *gen) opInsert() (op, bool) {
	m, ok := g.pickMsg()
	x, ok2 := g.attachArg()
	if !ok || !ok2 {
		return op{}, false
	}
	mi := g.sn().msgs[m]
	c := g.startBits(mi.lay, vinv.PayloadBits(mi.bytes), g.sn().sigs[x].size)
	return op{k: "insert", a: m, b: x, z: c[g.r.below(len(c))]}, true
}

func (g *gen) nestedOf(m int) []int {
	var l []int
	lay := map[int]bool{}
	for _, x := range g.sn().msgs[m].lay {
		lay[x] = true
	}
	for _, x := range g.sn().msgs[m].reg {
		if !lay[x] {
			l = append(l, x)
		}
	}
	return l
}

func (g *gen) opRemove() (op, bool) {
	m, ok := g.pickMsg()
	if !ok {
		return op{}, false
	}
	pl := g.sn().msgs[m].lay
	if g.r.chance(15) {
		pl = append(append([]int{}, pl...), g.nestedOf(m)...)
	}
	return op{k: "remove", a: m, b: g.idArg(pl)}, true
}

func (g *gen) opRemoveAll() (op, bool) {
	m, ok := g.pickMsg()
	return op{k: "removeall", a: m}, ok
}

func (g *gen) opShift() (op, bool) {
	m, ok := g.pickMsg()
	if !ok {
		return op{}, false
	}
	mi := g.sn().msgs[m]
	pl := append(append([]int{}, mi.lay...), g.nestedOf(m)...)
	x := g.idArg(pl)
	left := g.r.chance(50)
	gap := 0
	if i := idxOf(mi.lay, x); i >= 0 {
		sn := g.sn()
		if left {
			lo := 0
			if i > 0 {
				lo = sn.end(mi.lay[i-1])
			}
			gap = sn.sigs[x].rel - lo
		} else {
			hi := vinv.PayloadBits(mi.bytes)
			if i+1 < len(mi.lay) {
				hi = sn.sigs[mi.lay[i+1]].rel
			}
			gap = hi - sn.end(x)
		}
	}
	am := g.amounts(gap)
	k := "shr"
	if left {
		k = "shl"
	}
	return op{k: k, a: m, b: x, z: am[g.r.below(len(am))]}, true
}

func (g *gen) opCompact() (op, bool) {
	m, ok := g.pickMsg()
	return op{k: "compact", a: m}, ok
}

func (g *gen) opResize() (op, bool) {
	m, ok := g.pickMsg()
	if !ok {
		return op{}, false
	}
	mi := g.sn().msgs[m]
	need := (g.sn().lastEnd(mi.lay) + 7) / 8
	c := []int{-1, 0, need, need - 1, need + 1, mi.bytes, mi.bytes + 1, mi.bytes - 1, 8, g.r.below(9), 9 + g.r.below(4)}
	if g.r.chance(10) {
		c = []int{g.extreme()}
	}
	if g.run.w.onBus[m] {
		// the bus admits 8 bytes: sizes above it are refused by the bus, not by the message
		if g.r.chance(45) {
			c = []int{9, 9, 16, 64, 12, busLimit + 1 + g.r.below(8)}
		}
		return op{k: "resizebus", a: m, z: c[g.r.below(len(c))], b: busLimit}, true
	}
	return op{k: "resize", a: m, z: c[g.r.below(len(c))]}, true
}

// after a resize that the bus refused: an edit that would need the space the message did not get
func (g *gen) opAfterRefusedResize(m, asked int) (op, bool) {
	sn := g.sn()
	mi := sn.msgs[m]
	size := vinv.PayloadBits(mi.bytes)
	free := g.freeSigs()
	switch p := g.r.below(100); {
	case p < 35 && len(free) > 0:
		return op{k: "append", a: m, b: g.r.pick(free)}, true
	case p < 70 && len(free) > 0:
		x := g.r.pick(free)
		c := []int{size, size + 1, size + 8, asked*8 - sn.sigs[x].size, size - sn.sigs[x].size + 1}
		return op{k: "insert", a: m, b: x, z: c[g.r.below(len(c))]}, true
	case len(mi.lay) > 0:
		x := mi.lay[len(mi.lay)-1]
		c := []int{1, 5, size - sn.end(x) + 1, 64}
		return op{k: "shr", a: m, b: x, z: c[g.r.below(len(c))]}, true
	}
	return op{}, false
}

// Signal.UpdateName with a fresh name: attached signals first (inside multiplexers even more)
func (g *gen) opRename() (op, bool) {
	if len(g.sn().sigs) == 0 {
		return op{}, false
	}
	inMux := g.sigsWhere(func(h int) bool { return g.sn().sigs[h].pu >= 0 })
	att := g.attachedSigs()
	switch p := g.r.below(100); {
	case p < 55 && len(inMux) > 0:
		return op{k: "rename", a: g.r.pick(inMux)}, true
	case p < 85 && len(att) > 0:
		return op{k: "rename", a: g.r.pick(att)}, true
	case p < 97:
		return op{k: "rename", a: g.r.below(len(g.sn().sigs))}, true
	}
	return op{k: "rename", a: bogus}, true
}

func (g *gen) opByteOrder() (op, bool) {
	m, ok := g.pickMsg()
	return op{k: "byteorder", a: m, z: g.r.below(2)}, ok
}

// free space behind x in (one of) its layouts
func (g *gen) spaceBehindAny(x int) int {
	sn := g.sn()
	c := &stepCtx{pre: sn, w: g.run.w}
	ls := c.containers(sn, x)
	if len(ls) == 0 {
		return 0
	}
	l := ls[g.r.below(len(ls))]
	return sn.spaceBehind(l.hs, l.size, x)
}

func (g *gen) opSetType() (op, bool) {
	l := g.sigsWhere(func(h int) bool { return g.kind(h) == acmelib.SignalKindStandard })
	att := g.sigsWhere(func(h int) bool { return g.kind(h) == acmelib.SignalKindStandard && g.sn().attached(h) })
	if len(l) == 0 {
		return op{}, false
	}
	x := g.r.pick(l)
	if len(att) > 0 && g.r.chance(80) {
		x = g.r.pick(att)
	}
	cur := g.sn().sigs[x].size
	sp := g.spaceBehindAny(x)
	c := []int{1, cur - 1, cur + 1, cur + sp, cur + sp + 1, cur + sp - 1, cur / 2, sizeClasses[g.r.below(len(sizeClasses))], 1 + g.r.below(16)}
	n := c[g.r.below(len(c))]
	if n < 1 || n > 64 {
		n = 1 + g.r.below(64)
	}
	return op{k: "settype", a: x, z: n}, true
}

func (g *gen) opSetEnum() (op, bool) {
	l := g.sigsWhere(func(h int) bool { return g.kind(h) == acmelib.SignalKindEnum })
	if len(l) == 0 || len(g.sn().enums) == 0 {
		return op{}, false
	}
	x := g.r.pick(l)
	// multiplexed enum signals first
	if inMux := g.sigsWhere(func(h int) bool { return g.kind(h) == acmelib.SignalKindEnum && g.sn().sigs[h].pu >= 0 }); len(inMux) > 0 && g.r.chance(60) {
		x = g.r.pick(inMux)
	}
	return op{k: "setenum", a: x, b: g.r.below(len(g.sn().enums))}, true
}

func (g *gen) enumIndexArg(e int) int {
	r := g.r
	sn := g.sn()
	cur := sn.enums[e].size
	c := []int{indexPool[r.below(len(indexPool))], 1<<uint(cur) - 1, 1 << uint(cur), 1<<uint(cur+1) - 1, 1 << uint(cur+1), sn.enums[e].max + 1, sn.enums[e].max, r.below(20)}
	// the index that exactly fills / overflows the space behind an attached referencing signal
	for _, x := range g.run.attachedRefs(e) {
		sp := g.spaceBehindAny(x)
		if cur+sp < 40 {
			c = append(c, 1<<uint(cur+sp)-1, 1<<uint(cur+sp))
		}
	}
	return c[r.below(len(c))]
}

func (g *gen) pickEnum() (int, bool) {
	if len(g.sn().enums) == 0 {
		return 0, false
	}
	return g.r.below(len(g.sn().enums)), true
}

func (g *gen) opAddValue() (op, bool) {
	e, ok := g.pickEnum()
	if !ok {
		return op{}, false
	}
	o := op{k: "addvalue", a: e, z: g.enumIndexArg(e)}
	return o, true
}

func (g *gen) opRemoveValue() (op, bool) {
	e, ok := g.pickEnum()
	if !ok {
		return op{}, false
	}
	var own []int
	for h, v := range g.run.w.vals {
		if v.ParentEnum() == g.run.w.enums[e] {
			own = append(own, h)
		}
	}
	v := bogus
	switch p := g.r.below(100); {
	case p < 75 && len(own) > 0:
		v = g.r.pick(own)
	case p < 90 && len(g.run.w.vals) > 0:
		v = g.r.below(len(g.run.w.vals))
	}
	return op{k: "removevalue", a: e, b: v}, true
}

func (g *gen) opRemoveAllValues() (op, bool) {
	e, ok := g.pickEnum()
	return op{k: "removeallvalues", a: e}, ok
}

func (g *gen) opSetMinSize() (op, bool) {
	e, ok := g.pickEnum()
	if !ok {
		return op{}, false
	}
	cur := g.sn().enums[e].size
	c := []int{-1, 0, 1, 2, 3, 4, 8, cur, cur - 1, cur + 1, 1 + g.r.below(10), math.MinInt64, -(1 << 62)}
	o := op{k: "setminsize", a: e, z: c[g.r.below(len(c))]}
	return o, true
}

func (g *gen) opUpdateIndex() (op, bool) {
	if len(g.run.w.vals) == 0 {
		return op{}, false
	}
	v := g.r.below(len(g.run.w.vals))
	pe := g.run.w.vals[v].ParentEnum()
	idx := indexPool[g.r.below(len(indexPool))]
	if pe != nil {
		idx = g.enumIndexArg(g.run.enumHandle(pe))
		if g.r.chance(10) {
			idx = g.run.w.vals[v].Index()
		}
		if g.r.chance(10) {
			if vs := pe.Values(); len(vs) > 0 {
				idx = vs[g.r.below(len(vs))].Index() // duplicate
			}
		}
	}
	o := op{k: "updateindex", a: v, z: idx}
	return o, true
}

// ---- multiplexers ---------------------------------------------------------------------------------

func (g *gen) pickMux() (int, bool) {
	l := g.muxes()
	if len(l) == 0 {
		return 0, false
	}
	return g.r.pick(l), true
}

func (g *gen) gidArg(count int) int {
	if g.r.chance(6) {
		return g.extreme()
	}
	c := []int{0, 0, 1, count - 1, count - 1, count, -1, g.r.below(count + 1), g.r.below(count + 1)}
	return c[g.r.below(len(c))]
}

func (g *gen) opMuxInsert() (op, bool) {
	u, ok := g.pickMux()
	if !ok {
		return op{}, false
	}
	sn := g.sn()
	mi := sn.mux[u]
	r := g.r
	// the signal: free one; or one already in u (further groups); or (zone) one attached elsewhere
	var x int
	var held []int
	seen := map[int]bool{}
	for _, rn := range mi.runs {
		for _, y := range rn.hs {
			if y >= 0 && !seen[y] {
				seen[y] = true
				held = append(held, y)
			}
		}
	}
	again := false
	switch p := r.below(100); {
	case p < 22 && len(held) > 0:
		x = r.pick(held)
		again = true
	default:
		var okx bool
		x, okx = g.attachArg()
		if !okx {
			return op{}, false
		}
	}
	if x == u && !r.chance(20) {
		return op{}, false
	}
	// nesting limit of the property's quantifier: at most three multiplexers deep
	if g.height(x) > 0 && g.depth(u)+1+g.height(x) > 3 {
		return op{}, false
	}
	n := sn.sigs[x].size
	o := op{k: "muxinsert", a: u, b: x}
	// group ids
	switch p := r.below(100); {
	case p < 25:
		o.fix = true
	case p < 60:
		o.gids = []int{g.gidArg(mi.count)}
	default:
		k := 2 + r.below(3)
		for i := 0; i < k; i++ {
			o.gids = append(o.gids, g.gidArg(mi.count))
		}
		if r.chance(25) && len(o.gids) >= 2 { // duplicates: adjacent and non-adjacent
			if r.chance(50) {
				o.gids = append(o.gids, o.gids[0])
			} else {
				o.gids = append([]int{o.gids[0]}, o.gids...)
			}
		}
	}
	// start bit: boundary candidates of one target group
	tg := 0
	if len(o.gids) > 0 && o.gids[0] >= 0 && o.gids[0] < mi.count {
		tg = o.gids[0]
	}
	c := g.startBits(sn.groupOf(u, tg), mi.gsize, n)
	o.z = c[r.below(len(c))]
	if again && r.chance(70) {
		o.z = sn.sigs[x].rel // the shared position
	}
	return o, true
}

func (g *gen) heldBy(u int) []int {
	var held []int
	seen := map[int]bool{}
	for _, rn := range g.sn().mux[u].runs {
		for _, y := range rn.hs {
			if y >= 0 && !seen[y] {
				seen[y] = true
				held = append(held, y)
			}
		}
	}
	return held
}

func (g *gen) opMuxRemove() (op, bool) {
	u, ok := g.pickMux()
	if !ok {
		return op{}, false
	}
	return op{k: "muxremove", a: u, b: g.idArg(g.heldBy(u))}, true
}

func (g *gen) opMuxClearGroup() (op, bool) {
	u, ok := g.pickMux()
	if !ok {
		return op{}, false
	}
	return op{k: "muxcleargroup", a: u, z: g.gidArg(g.sn().mux[u].count)}, true
}

func (g *gen) opMuxClearAll() (op, bool) {
	u, ok := g.pickMux()
	return op{k: "muxclearall", a: u}, ok
}

func (g *gen) opMuxShift() (op, bool) {
	u, ok := g.pickMux()
	if !ok {
		return op{}, false
	}
	sn := g.sn()
	x := g.idArg(g.heldBy(u))
	left := g.r.chance(50)
	gap := 0
	if x < len(sn.sigs) {
		if gs := sn.groupsHolding(u, x); len(gs) > 0 {
			hs := gs[0].hs
			i := idxOf(hs, x)
			if left {
				lo := 0
				if i > 0 {
					lo = sn.end(hs[i-1])
				}
				gap = sn.sigs[x].rel - lo
			} else {
				hi := sn.mux[u].gsize
				if i+1 < len(hs) {
					hi = sn.sigs[hs[i+1]].rel
				}
				gap = hi - sn.end(x)
			}
		}
	}
	am := g.amounts(gap)
	k := "muxshr"
	if left {
		k = "muxshl"
	}
	return op{k: k, a: u, b: x, z: am[g.r.below(len(am))]}, true
}

// ---- a whole random history -----------------------------------------------------------------------

func randomHistory(seed uint64, mode string, nops, zonePct int) *runner {
	g := &gen{r: &rng{s: seed}, run: newRunner(), mode: mode, zonePct: zonePct}
	if !g.setup() {
		return g.run
	}
	for i := 0; i < nops; i++ {
		o, ok := g.nextOp()
		if !ok {
			break
		}
		if !g.emit(o) {
			break
		}
		if o.k == "newmsg" && (o.z > 1<<40 || o.z < -(1<<40)) {
			// a message whose size is astronomic (finding "ctor" beyond 2^60): one small edit, then the history
			// ends - other edits (a giant multiplexer that fits the wrapped layout) make the filter computation of
			// the library exhaust the memory
			m := len(g.sn().msgs) - 1
			free := g.sigsWhere(func(h int) bool { return !g.sn().attached(h) && g.kind(h) != acmelib.SignalKindMultiplexer })
			if len(free) > 0 {
				x := g.r.pick(free)
				if g.r.chance(50) {
					g.emit(op{k: "insert", a: m, b: x, z: []int{0, 100, 7}[g.r.below(3)]})
				} else {
					g.emit(op{k: "append", a: m, b: x})
				}
			}
			break
		}
		if o.k == "resizebus" && o.z > busLimit && g.r.chance(70) {
			if f, ok := g.opAfterRefusedResize(o.a, o.z); ok && g.zoneAdmit(f) {
				i++
				if !g.emit(f) {
					break
				}
			}
		}
	}
	return g.run
}
