// Harness of the C01 / C07 checks: runs generated operation histories on the real acmelib objects
// (public API only), writes the case file for the model driver and evaluates the property
// predicates on the implementation's own snapshots.
//
//	VERIF_OUT   path of the case file (a ".summary" file is written next to it)
//	VERIF_SEED  PRNG seed (SplitMix64)
//	VERIF_TIER  quick | thorough
//	VERIF_MODE  c01 | c07
//	VERIF_REPLAY_OPS  "op; op; ..." : run exactly this history, verbosely
package main

import (
	"bufio"
	"fmt"
	"os"
	"sort"
	"strconv"
	"strings"
)

type found struct {
	sig    string
	ops    []op
	detail string
	count  int
	probe  string // an implementation-only probe instead of an op history
}

type collector struct {
	out       *bufio.Writer
	cases     int
	steps     int
	nontriv   map[string]bool
	hist      map[string]int
	found     map[string]*found
	samples   []string
	mode      string
	shrinkCap map[string]int
	coq       *coqWriter
	wfCases   int // histories that ended with a wf-* predicate failure
}

func (c *collector) add(r *runner, kind string, id string) {
	c.cases++
	c.steps += len(r.ops)
	c.coq.offer(r, kind, c.cases)
	fmt.Fprintf(c.out, "C %s %s\n", id, kind)
	for _, l := range r.lines {
		c.out.WriteString(l)
		c.out.WriteByte('\n')
	}
	c.out.WriteString("E\n")
	for k, v := range r.hist {
		c.hist[k] += v
	}
	c.hist["cases:"+kind]++
	nt := r.accSizeChangeWithFollower
	if c.mode == "c07" {
		nt = r.accMultiInsert && r.accMuxEdit
	}
	if nt {
		c.nontriv[opsString(r.ops)] = true
	}
	if len(c.samples) < 4 && (c.cases == 3 || c.cases == 60 || c.cases%997 == 0) {
		c.samples = append(c.samples, kind+": "+opsString(r.ops))
	}
	for _, x := range r.fails {
		if strings.HasPrefix(x.class, "wf-") {
			c.wfCases++
			break
		}
	}
	if len(r.fails) > 0 {
		sig := r.signature()
		f := c.found[sig]
		if f == nil {
			f = &found{sig: sig}
			c.found[sig] = f
		}
		f.count++
		if c.shrinkCap[sig] < 3 {
			c.shrinkCap[sig]++
			ops := shrink(r.ops, sig, r.checkView)
			rr := replay(ops, r.checkView)
			if f.ops == nil || len(ops) < len(f.ops) {
				f.ops = ops
				d := []string{}
				for i, x := range rr.fails {
					if i < 4 {
						d = append(d, x.class+": "+x.detail)
					}
				}
				f.detail = strings.Join(d, " | ")
			}
		}
	}
}

func (c *collector) summary(path string) {
	f, err := os.Create(path)
	if err != nil {
		panic(err)
	}
	defer f.Close()
	fmt.Fprintf(f, "cases %d\nsteps %d\nnontrivial %d\nwfcases %d\n", c.cases, c.steps, len(c.nontriv), c.wfCases)
	keys := make([]string, 0, len(c.hist))
	for k := range c.hist {
		keys = append(keys, k)
	}
	sort.Strings(keys)
	for _, k := range keys {
		fmt.Fprintf(f, "hist %s %d\n", k, c.hist[k])
	}
	for _, s := range c.samples {
		fmt.Fprintf(f, "SAMPLE %s\n", s)
	}
	sigs := make([]string, 0, len(c.found))
	for k := range c.found {
		sigs = append(sigs, k)
	}
	sort.Strings(sigs)
	for _, k := range sigs {
		x := c.found[k]
		ops := opsString(x.ops)
		if x.probe != "" {
			ops = x.probe
		}
		fmt.Fprintf(f, "PROPFAIL %s ## %d ## %s ## %s\n", x.sig, x.count, ops, x.detail)
	}
}

// ---- exhaustive small scopes ------------------------------------------------------------------------

func mk(k string, a, b, z int) op { return op{k: k, a: a, b: b, z: z} }

// C01: one 1-byte and one 2-byte message, signals of 1, 2, 3, 5 bits and one enum signal
func scopeC01(reduced bool) (setup, alphabet []op) {
	setup = []op{mk("newmsg", 0, 0, 1), mk("newmsg", 0, 0, 2), mk("newstd", 0, 0, 1), mk("newstd", 0, 0, 2), mk("newstd", 0, 0, 3),
		mk("newstd", 0, 0, 5), {k: "newenum"}, mk("newenumsig", 0, 0, 0)}
	msgs, xs, bs, as, rs, ts, ns, is := []int{0, 1}, []int{0, 1, 2, 3, 4}, []int{0, 1, 3, 6}, []int{1, 4}, []int{0, 1, 2}, []int{0, 1, 2, 3}, []int{1, 2, 3, 5}, []int{1, 2, 4}
	if reduced {
		msgs, xs, bs, as, rs, ts, ns, is = []int{1}, []int{0, 2, 4}, []int{0, 1, 3}, []int{2}, []int{1, 2}, []int{0, 2}, []int{2, 5}, []int{1, 4}
	}
	for _, m := range msgs {
		for _, x := range xs {
			alphabet = append(alphabet, mk("append", m, x, 0), mk("remove", m, x, 0))
			for _, b := range bs {
				alphabet = append(alphabet, mk("insert", m, x, b))
			}
			for _, a := range as {
				alphabet = append(alphabet, mk("shl", m, x, a), mk("shr", m, x, a))
			}
		}
		alphabet = append(alphabet, mk("compact", m, 0, 0))
		for _, n := range rs {
			alphabet = append(alphabet, mk("resize", m, 0, n))
		}
	}
	for _, x := range ts {
		for _, n := range ns {
			alphabet = append(alphabet, mk("settype", x, 0, n))
		}
	}
	for _, i := range is {
		alphabet = append(alphabet, mk("addvalue", 0, 0, i))
	}
	return
}

// C07: one multiplexer of 2 groups x 4 bits, two signals of 1 and 2 bits
func scopeC07(reduced bool) (setup, alphabet []op) {
	setup = []op{mk("newmux", 2, 0, 4), mk("newstd", 0, 0, 1), mk("newstd", 0, 0, 2)}
	bs, ns := []int{0, 1, 2, 3}, []int{1, 2, 3}
	if reduced {
		bs, ns = []int{0, 1, 3}, []int{1, 3}
	}
	for _, x := range []int{1, 2} {
		for _, b := range bs {
			alphabet = append(alphabet, op{k: "muxinsert", a: 0, b: x, z: b, fix: true},
				op{k: "muxinsert", a: 0, b: x, z: b, gids: []int{0}}, op{k: "muxinsert", a: 0, b: x, z: b, gids: []int{1}},
				op{k: "muxinsert", a: 0, b: x, z: b, gids: []int{0, 1}})
		}
		alphabet = append(alphabet, mk("muxremove", 0, x, 0), mk("muxshl", 0, x, 1), mk("muxshr", 0, x, 1))
		for _, n := range ns {
			alphabet = append(alphabet, mk("settype", x, 0, n))
		}
	}
	alphabet = append(alphabet, mk("muxcleargroup", 0, 0, 0), mk("muxcleargroup", 0, 0, 1), mk("muxclearall", 0, 0, 0))
	return
}

// all histories setup ++ w, |w| <= depth, that stay inside the hypotheses (zone ops are pruned)
func exhaustive(c *collector, kind string, setup, alphabet []op, depth int) {
	idx := make([]int, 0, depth)
	n := 0
	var rec func()
	rec = func() {
		if len(idx) > 0 {
			r := newRunner()
			okAll := true
			for _, o := range setup {
				if !r.step(o) {
					okAll = false
					break
				}
			}
			if okAll {
				for k, i := range idx {
					o := alphabet[i]
					if r.zoneOf(o, r.planEnumOp(o)) != "" {
						return // outside the hypotheses: prune this prefix and all its extensions
					}
					if !r.step(o) {
						if k < len(idx)-1 {
							return // stopped early: extensions are the same case
						}
						break
					}
				}
			}
			n++
			c.add(r, kind, fmt.Sprintf("%s-%d", kind, n))
			if len(r.fails) > 0 {
				return
			}
		}
		if len(idx) == depth {
			return
		}
		for i := range alphabet {
			idx = append(idx, i)
			rec()
			idx = idx[:len(idx)-1]
		}
	}
	rec()
}

// growth over every small arrangement of free bits: A (a bits) at 0, then B and C (and D) behind gaps
// g1, g2, (g3) and a trailing gap; A grows by every amount up to the free space + 1. In a message and
// in a group of a multiplexer (detached, or nested in an attached one).
func growGaps(c *collector) {
	gaps := []int{0, 1, 2, 4}
	n := 0
	for container := 0; container < 3; container++ {
		for _, g1 := range gaps {
			for _, g2 := range gaps {
				for _, g3 := range gaps {
					for _, four := range []bool{false, true} {
						if four && container == 2 {
							continue
						}
						a := 3
						pos := []int{0, a + g1, a + g1 + 2 + g2}
						end := pos[2] + 2 + g3
						if four {
							pos = append(pos, end)
							end += 1 + g1
						}
						total := end
						free := total - a - 2 - 2
						if four {
							free--
						}
						for d := 1; d <= free+1; d++ {
							var ops []op
							first := 0
							switch container {
							case 0: // message of exactly `total` bits rounded up to bytes: pad with the trailing space
								ops = append(ops, mk("newmsg", 0, 0, (total+7)/8))
							case 1:
								ops = append(ops, mk("newmux", 2, 0, total))
								first = 1
							case 2:
								ops = append(ops, mk("newmsg", 0, 0, 8), mk("newmux", 2, 0, 40), mk("newmux", 2, 0, total), mk("append", 0, 0, 0),
									op{k: "muxinsert", a: 0, b: 1, z: 0, gids: []int{1}})
								first = 2
							}
							sizes := []int{a, 2, 2, 1}
							for i := range pos {
								ops = append(ops, mk("newstd", 0, 0, sizes[i]))
							}
							for i, p := range pos {
								switch container {
								case 0:
									ops = append(ops, mk("insert", 0, first+i, p))
								case 1:
									ops = append(ops, op{k: "muxinsert", a: 0, b: first + i, z: p, gids: []int{1}})
								case 2:
									ops = append(ops, op{k: "muxinsert", a: 1, b: first + i, z: p, gids: []int{0}})
								}
							}
							ops = append(ops, mk("settype", first, 0, a+d))
							n++
							c.add(replay(ops, true), "grow-gaps", fmt.Sprintf("grow-gaps-%d", n))
						}
					}
				}
			}
		}
	}
}

// finding D36 on purpose: two or three enum signals of one layout (a message, or a group of a multiplexer)
// with every small arrangement of gaps behind them, and the enum grows by 1..3 bits. The observed outcome
// (map order!) must be the model's outcome for SOME visiting order of the referencing signals.
func d36Family(c *collector) {
	gaps := []int{0, 1, 2}
	n := 0
	for container := 0; container < 2; container++ {
		for refs := 2; refs <= 3; refs++ {
			for _, g1 := range gaps {
				for _, g2 := range gaps {
					for _, g3 := range gaps {
						for grow := 1; grow <= 3; grow++ {
							if refs == 3 && (g3 == 2 || grow == 3) {
								continue
							}
							ops := []op{{k: "newenum"}}
							first := 0
							if container == 0 {
								ops = append(ops, mk("newmsg", 0, 0, 2))
							} else {
								ops = append(ops, mk("newmux", 2, 0, 16))
								first = 1
							}
							for i := 0; i < refs; i++ {
								ops = append(ops, mk("newenumsig", 0, 0, 0))
							}
							ops = append(ops, mk("newstd", 0, 0, 2))
							// enum signals of 1 bit at 0, 1+g1, (2+g1+g2); the 2-bit signal behind the last one after g3
							pos := []int{0, 1 + g1}
							if refs == 3 {
								pos = append(pos, 2+g1+g2)
							}
							last := pos[len(pos)-1] + 1 + g3
							if refs == 2 {
								last += g2
							}
							pos = append(pos, last)
							for i, p := range pos {
								if container == 0 {
									ops = append(ops, mk("insert", 0, first+i, p))
								} else {
									ops = append(ops, op{k: "muxinsert", a: 0, b: first + i, z: p, gids: []int{1}})
								}
							}
							ops = append(ops, mk("addvalue", 0, 0, 1<<uint(grow)))
							n++
							c.add(replay(ops, true), "d36-zone", fmt.Sprintf("d36-zone-%d", n))
						}
					}
				}
			}
		}
	}
}

// a FIXED signal (held by every group) with DIFFERENT neighbours per group and unequal free space behind it:
// group 0 has a follower A behind a gap g0, group 1 a follower B behind a gap g1 that either leaves room or
// fills the group; the fixed signal then grows by d (SetType, or AddValue / UpdateIndex for a fixed enum
// signal). The change must be refused as a whole when ONE group has no room, and nothing may move.
func fixedGroups(c *collector) {
	n := 0
	gsize := 16
	for _, attachedTo := range []int{0, 1} { // detached multiplexer / multiplexer in a message
		for _, kind := range []string{"std", "enum-add", "enum-upd"} {
			for _, g0 := range []int{0, 1, 4} {
				for _, g1 := range []int{0, 1, 4} {
					for _, fullB := range []bool{false, true} {
						for _, d := range []int{1, 2, 4, 6} {
							var ops []op
							m := 0
							if attachedTo == 1 {
								ops = append(ops, mk("newmsg", 0, 0, 8))
							}
							ops = append(ops, mk("newmux", 2, 0, gsize)) // signal 0
							fsize := 3
							if kind == "std" {
								ops = append(ops, mk("newstd", 0, 0, fsize)) // signal 1 = F
							} else {
								// enum with max index 7 (3 bits); value 0
								ops = append(ops, op{k: "newenum"}, mk("addvalue", 0, 0, 7), mk("newenumsig", 0, 0, 0))
							}
							bsize := 2
							if fullB {
								bsize = gsize - fsize - g1
							}
							ops = append(ops, mk("newstd", 0, 0, 2), mk("newstd", 0, 0, bsize)) // signals 2 = A, 3 = B
							if attachedTo == 1 {
								ops = append(ops, mk("append", m, 0, 0))
							}
							ops = append(ops, op{k: "muxinsert", a: 0, b: 1, z: 0, fix: true},
								op{k: "muxinsert", a: 0, b: 2, z: fsize + g0, gids: []int{0}},
								op{k: "muxinsert", a: 0, b: 3, z: fsize + g1, gids: []int{1}})
							switch kind {
							case "std":
								ops = append(ops, mk("settype", 1, 0, fsize+d))
							case "enum-add":
								ops = append(ops, mk("addvalue", 0, 0, 1<<uint(fsize+d-1)))
							case "enum-upd":
								ops = append(ops, mk("updateindex", 0, 0, 1<<uint(fsize+d-1)))
							}
							// afterwards: an edit in each group, so that a half-applied change shows
							ops = append(ops, mk("muxshl", 0, 2, 1), mk("muxshr", 0, 3, 1), mk("settype", 2, 0, 1))
							n++
							c.add(replay(ops, true), "fixed-groups", fmt.Sprintf("fixed-groups-%d", n))
						}
					}
				}
			}
		}
	}
}

// SetEnum of a MULTIPLEXED enum signal with a follower, then edits of the PREVIOUS enum (which must not touch
// the signal any more) and of the new one (which must): AddValue with a bigger index, UpdateIndex up and down.
func setEnumInMux(c *collector) {
	n := 0
	for _, attachedTo := range []int{0, 1} {
		for _, gap := range []int{0, 1, 3} {
			for _, oldMax := range []int{1, 7} { // the previous enum: 1 or 3 bits
				for _, newMax := range []int{1, 7} { // the new enum
					for variant := 0; variant < 4; variant++ {
						var ops []op
						if attachedTo == 1 {
							ops = append(ops, mk("newmsg", 0, 0, 8))
						}
						ops = append(ops, mk("newmux", 2, 0, 16), // signal 0
							op{k: "newenum"}, op{k: "newenum"}, mk("addvalue", 0, 0, oldMax), mk("addvalue", 1, 0, newMax),
							mk("newenumsig", 0, 0, 0), // signal 1 = X, references enum 0
							mk("newstd", 0, 0, 2))     // signal 2 = F, the follower
						if attachedTo == 1 {
							ops = append(ops, mk("append", 0, 0, 0))
						}
						xs := 1
						if oldMax == 7 {
							xs = 3
						}
						ops = append(ops, op{k: "muxinsert", a: 0, b: 1, z: 0, gids: []int{0}},
							op{k: "muxinsert", a: 0, b: 2, z: xs + gap, gids: []int{0}},
							mk("setenum", 1, 1, 0))
						switch variant {
						case 0: // the previous enum grows, then the new one
							ops = append(ops, mk("addvalue", 0, 0, 31), mk("addvalue", 1, 0, 15))
						case 1: // the previous enum shrinks (its only value gets a small index), then grows again
							ops = append(ops, mk("updateindex", 0, 0, 0), mk("addvalue", 0, 0, 63), mk("updateindex", 1, 0, 3))
						case 2: // the new enum first, then the previous one
							ops = append(ops, mk("addvalue", 1, 0, 31), mk("updateindex", 0, 0, 255), mk("updateindex", 1, 0, 0))
						case 3: // back and forth
							ops = append(ops, mk("setenum", 1, 0, 0), mk("addvalue", 1, 0, 31), mk("addvalue", 0, 0, 15), mk("setenum", 1, 1, 0), mk("updateindex", 0, 0, 0))
						}
						ops = append(ops, mk("muxshr", 0, 2, 1), mk("settype", 2, 0, 1))
						n++
						c.add(replay(ops, true), "setenum-mux", fmt.Sprintf("setenum-mux-%d", n))
					}
				}
			}
		}
	}
}

// an enum whose MINIMUM size is wider than its values need (SetMinSize while nothing references it), referenced
// by a multiplexed enum signal with a follower: AddValue / UpdateIndex with indexes that still fit the minimum
// size change nothing; the first index beyond it grows the signal by one bit.
func minSizeInMux(c *collector) {
	n := 0
	for _, attachedTo := range []int{0, 1} {
		for _, min := range []int{3, 5} {
			for _, gap := range []int{0, 1, 2} {
				for _, idx := range []int{2, 1<<uint(min-1) - 1, 1 << uint(min-1), 1<<uint(min) - 1, 1 << uint(min)} {
					for _, viaUpdate := range []bool{false, true} {
						var ops []op
						if attachedTo == 1 {
							ops = append(ops, mk("newmsg", 0, 0, 8))
						}
						ops = append(ops, mk("newmux", 2, 0, 16), op{k: "newenum"}, mk("setminsize", 0, 0, min), mk("addvalue", 0, 0, 1),
							mk("newenumsig", 0, 0, 0), mk("newstd", 0, 0, 2))
						if attachedTo == 1 {
							ops = append(ops, mk("append", 0, 0, 0))
						}
						ops = append(ops, op{k: "muxinsert", a: 0, b: 1, z: 0, gids: []int{0, 1}},
							op{k: "muxinsert", a: 0, b: 2, z: min + gap, gids: []int{0}})
						if viaUpdate {
							ops = append(ops, mk("updateindex", 0, 0, idx), mk("updateindex", 0, 0, 1))
						} else {
							ops = append(ops, mk("addvalue", 0, 0, idx), mk("addvalue", 0, 0, 0))
						}
						ops = append(ops, mk("muxshl", 0, 2, 1), mk("settype", 2, 0, 1))
						n++
						c.add(replay(ops, true), "minsize-mux", fmt.Sprintf("minsize-mux-%d", n))
					}
				}
			}
		}
	}
}

// histories kept from earlier findings (always run first)
var corpus = map[string][]string{
	"c01": {
		// D01: enum signal grows under its neighbour
		"newmsg 2; newenum; newenumsig 0; newstd 4; append 0 0; append 0 1; addvalue 0 7",
		// D02: index update with a min size / to a negative index
		"newmsg 2; newenum; setminsize 0 8; newenumsig 0; newstd 4; append 0 0; append 0 1; addvalue 0 1; addvalue 0 20; updateindex 0 3; updateindex 1 2",
		"newmsg 1; newenum; newenumsig 0; append 0 0; addvalue 0 5; updateindex 0 -1",
		// D04
		"newenum; addvalue 0 200; removeallvalues 0; newmsg 1; newenumsig 0; append 0 0",
		// D05: nested id
		"newmsg 8; newmux 2 16; newstd 4; muxinsert 0 1 4 0; append 0 0; shl 0 1 3; shr 0 1 3",
		// D06: nested enum signal and a full message
		"newmsg 4; newmux 2 16; newenum; newenumsig 0; muxinsert 0 1 0 0; append 0 0; newstd 15; append 0 2; addvalue 0 3",
		// witnesses of the open findings (coq/C01/Refuted.v): D03 SetMinSize, D36 two refs in one layout
		"newmsg 1; newenum; newenumsig 0; newstd 4; append 0 0; append 0 1; setminsize 0 4",
		"newmsg 1; newenum; setminsize 0 2; newenumsig 0; newenumsig 0; newstd 3; append 0 0; append 0 1; append 0 2; addvalue 0 4",
		"newmsg 1; newenum; setminsize 0 2; newenumsig 0; newenumsig 0; newstd 3; append 0 0; append 0 1; append 0 2; addvalue 0 1; updateindex 0 4",
		// finding "ctor" (coq/C01/Refuted.v ctor_ops, ctor_refuse_ops): the bit count of a message wraps
		"newmsg -1152921504606846977; newstd 1; insert 0 0 100",
		"newmsg 2305843009213693952; newstd 1; append 0 0",
		"newmsg 1152921504606846975; newstd 1; insert 0 0 9223372036854775799; newstd 2; append 0 1",
		"newmux 2 9223372036854775807; newmux 2 9223372036854775743; newmux 2 9223372036854775742",
		// a message sent on a CAN 2.0A bus: sizes above 8 bytes are refused and change nothing (the payload
		// stays full), smaller ones follow the layout
		"newmsgbus 8; newstd 32; newstd 32; newstd 8; newstd 8; append 0 0; append 0 1; resizebus 0 16 8; append 0 2; insert 0 3 80; shr 0 1 5; resizebus 0 9 8; insert 0 2 64; resizebus 0 4 8; remove 0 1; resizebus 0 4 8; resizebus 0 8 8; insert 0 1 32",
		"newmsgbus 2; newstd 8; append 0 0; resizebus 0 64 8; resizebus 0 8 8; resizebus 0 9 8; resizebus 0 -1 8; resizebus 0 0 8; resizebus 0 1 8; newstd 8; append 0 1",
		// growth with two followers and unevenly spread free bits
		"newmsg 2; newstd 4; newstd 4; newstd 4; insert 0 0 0; insert 0 1 6; insert 0 2 10; settype 0 8",
		"newmsg 2; newstd 4; newstd 4; newstd 4; insert 0 0 0; insert 0 1 4; insert 0 2 12; settype 0 8",
		// the non-vacuity examples of coq/C01/Examples.v: two refs in one message and the enum shrinks
		"newmsg 2; newenum; addvalue 0 7; newenumsig 0; newenumsig 0; newstd 3; append 0 0; append 0 1; append 0 2; updateindex 0 1",
		"newmsg 2; newmsg 1; newenum; newenumsig 0; newenumsig 0; newstd 4; newstd 3; newstd 2; append 0 0; append 0 2; insert 0 3 9; append 1 1; append 1 4; addvalue 0 3; settype 2 5; shl 0 3 1; compact 0; resize 0 2; setminsize 0 1",
		// renames: top-level, multiplexed (attached and detached), then removal and re-insertion
		"newmsg 8; newmux 2 16; newstd 4; newstd 4; append 0 0; muxinsert 0 1 0 0; append 0 2; rename 1; rename 2; rename 0; muxremove 0 1; muxinsert 0 1 4 1; remove 0 0; rename 1; muxclearall 0",
	},
	"c07": {
		// D23
		"newmux 2 8; newstd 2; newstd 2; newstd 6; muxinsert 0 1 0 0,1; muxinsert 0 2 2 0; muxinsert 0 3 2 1; settype 1 4",
		// D24
		"newmux 4 16; newstd 4; newstd 4; newstd 4; newstd 4; muxinsert 0 1 0 0,1,0; muxinsert 0 2 4 2; muxinsert 0 3 8 2; muxinsert 0 2 8 3; muxinsert 0 4 12 -; muxcleargroup 0 3; muxinsert 0 4 0 3",
		// witnesses of the open finding D35 (shared relative positions): shrink under a fixed follower,
		// growth with a follower shared by two groups
		"newmux 2 16; newstd 4; newstd 4; muxinsert 0 1 0 -; muxinsert 0 2 4 -; settype 1 3",
		"newmux 2 8; newstd 2; newstd 2; newstd 2; muxinsert 0 1 0 -; muxinsert 0 2 2 -; muxinsert 0 3 4 1; settype 1 3",
		// the pinned example of Test_MultiplexerSignal_InsertSignal
		"newmsg 8; newmux 4 16; append 0 0; newstd 4; newstd 4; newstd 4; newstd 4; muxinsert 0 1 8 -; muxinsert 0 2 0 0,2; muxinsert 0 3 4 0; muxinsert 0 4 12 0; muxinsert 0 3 4 2; muxinsert 0 3 4 2; muxclearall 0",
		// growth with two followers and unevenly spread free bits, in the groups of a nested attached multiplexer
		"newmsg 8; newmux 2 32; newmux 2 16; append 0 0; muxinsert 0 1 0 0; newstd 4; newstd 4; newstd 4; newstd 4; newstd 4; newstd 4; " +
			"muxinsert 1 2 0 0; muxinsert 1 3 6 0; muxinsert 1 4 10 0; muxinsert 1 5 0 1; muxinsert 1 6 4 1; muxinsert 1 7 12 1; settype 2 8; settype 5 8",
		// the non-vacuity examples of coq/C01/Examples.v: a shared follower that the push does not reach; the nested one
		"newmux 2 16; newstd 2; newstd 2; newstd 2; muxinsert 0 1 0 0; muxinsert 0 2 2 0; muxinsert 0 3 8 -; settype 1 5",
		"newmsg 8; newmux 4 16; newmux 2 8; newstd 4; newstd 4; newstd 3; newstd 2; append 0 0; muxinsert 0 2 0 -; muxinsert 0 1 4 1; muxinsert 1 3 0 0; muxinsert 1 4 4 0; muxinsert 0 5 4 0,2; muxinsert 0 5 4 3; settype 3 3; settype 3 4; muxshl 1 4 1; muxcleargroup 0 2; muxremove 0 2; shr 0 0 5; remove 0 3",
		// renames of multiplexed signals (attached / nested / detached), then removal, clearing, detaching
		"newmsg 8; newmux 2 32; newmux 2 8; newstd 4; newstd 4; newstd 2; append 0 0; muxinsert 0 3 0 -; muxinsert 0 1 4 1; muxinsert 1 5 0 0; muxinsert 0 4 4 0; " +
			"rename 3; rename 5; rename 1; rename 4; muxremove 0 3; muxinsert 0 3 16 0; muxcleargroup 0 0; rename 5; remove 0 0; rename 5; rename 1; muxclearall 0",
		"newmux 2 8; newstd 2; newstd 2; muxinsert 0 1 0 -; muxinsert 0 2 2 1; rename 1; rename 2; muxremove 0 1; rename 1; muxinsert 0 1 4 0",
		// a bus message holding a multiplexer: refused resize, then edits
		"newmsgbus 8; newmux 2 56; append 0 0; newstd 8; resizebus 0 16 8; append 0 1; insert 0 1 64; muxinsert 0 1 0 -; resizebus 0 7 8",
	},
}

func parseOps(s string) []op {
	var ops []op
	for _, t := range strings.Split(s, ";") {
		t = strings.TrimSpace(t)
		if t == "" {
			continue
		}
		o, err := parseOp(t)
		if err != nil {
			panic(err)
		}
		ops = append(ops, o)
	}
	return ops
}

func main() {
	outPath := os.Getenv("VERIF_OUT")
	if outPath == "" {
		outPath = "cases.txt"
	}
	seed, _ := strconv.ParseUint(os.Getenv("VERIF_SEED"), 10, 64)
	tier := os.Getenv("VERIF_TIER")
	mode := os.Getenv("VERIF_MODE")
	if mode == "" {
		mode = "c01"
	}
	f, err := os.Create(outPath)
	if err != nil {
		panic(err)
	}
	out := bufio.NewWriterSize(f, 1<<20)
	c := &collector{out: out, nontriv: map[string]bool{}, hist: map[string]int{}, found: map[string]*found{}, mode: mode, shrinkCap: map[string]int{}}

	if cv := os.Getenv("VERIF_CASES_V"); cv != "" {
		c.coq = newCoqWriter(cv, tier == "thorough")
		defer c.coq.close()
	}

	if rp := os.Getenv("VERIF_REPLAY_OPS"); strings.HasPrefix(rp, "probe ") {
		for _, p := range nameClashProbes() {
			fmt.Printf("PROBE %s ok=%v %s\n", p.id, p.ok, p.detail)
		}
		runProbes(c)
		finish(c, out, f, outPath)
		return
	}
	if rp := os.Getenv("VERIF_REPLAY_OPS"); rp != "" {
		ops := parseOps(rp)
		r := replay(ops, true)
		for _, l := range r.lines {
			fmt.Println(l)
		}
		for _, x := range r.fails {
			fmt.Printf("PREDICATE-FAIL %s: %s\n", x.class, x.detail)
		}
		fmt.Printf("SIGNATURE %s\n", r.signature())
		c.add(r, "replay", "replay-1")
		finish(c, out, f, outPath)
		return
	}

	for i, s := range corpus[mode] {
		c.add(replay(parseOps(s), true), "corpus", fmt.Sprintf("corpus-%d", i))
	}

	growGaps(c)
	d36Family(c)
	fixedGroups(c)
	setEnumInMux(c)
	minSizeInMux(c)
	runProbes(c)

	nRandom, nOps, depth := 400, 30, 3
	if mode == "c07" {
		nRandom = 300
	}
	if tier == "thorough" {
		nRandom, nOps, depth = 20000, 40, 4
		if mode == "c07" {
			nRandom = 10000
		}
	}
	if v := os.Getenv("VERIF_NRANDOM"); v != "" {
		nRandom, _ = strconv.Atoi(v)
	}
	base := seed*0x9E3779B97F4A7C15 + 0x1234567
	if mode == "c07" {
		base ^= 0xC07C07C07
	}
	for i := 0; i < nRandom; i++ {
		s := base + uint64(i)*0xD1B54A32D192ED03
		zone := 0
		kind := "random"
		if i%5 == 4 { // every fifth history may leave the hypotheses (known-finding zones)
			zone = 3
			kind = "random-zone"
		}
		c.add(randomHistory(s, mode, nOps, zone), kind, fmt.Sprintf("%s-%d", kind, i))
	}

	if os.Getenv("VERIF_NOEXHAUSTIVE") == "" {
		if mode == "c01" {
			if tier == "thorough" {
				su, al := scopeC01(false)
				exhaustive(c, "exh-full", su, al, 3)
				su, al = scopeC01(true)
				exhaustive(c, "exh-reduced", su, al, depth)
			} else {
				su, al := scopeC01(false)
				exhaustive(c, "exh-full", su, al, 2)
				su, al = scopeC01(true)
				exhaustive(c, "exh-reduced", su, al, depth)
			}
		} else {
			if tier == "thorough" {
				su, al := scopeC07(false)
				exhaustive(c, "exh-full", su, al, 3)
				su, al = scopeC07(true)
				exhaustive(c, "exh-reduced", su, al, depth)
			} else {
				su, al := scopeC07(true)
				exhaustive(c, "exh-reduced", su, al, depth)
			}
		}
	}
	finish(c, out, f, outPath)
}

// the END line closes the stream: the driver reports a stream without it as truncated
func finish(c *collector, out *bufio.Writer, f *os.File, outPath string) {
	fmt.Fprintf(out, "END %d %d\n", c.cases, c.steps)
	if err := out.Flush(); err != nil {
		panic(err)
	}
	if err := f.Close(); err != nil {
		panic(err)
	}
	c.summary(outPath + ".summary")
}
