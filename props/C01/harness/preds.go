package main

// Property predicates evaluated directly on the implementation's snapshots (no model involved):
//   wf            vinv.CheckMessageLayout / vinv.CheckMultiplexer on the live objects       (T1, groups_wf, mux_size, abs_start_bit)
//   fits          accepted <=> the arrangement asked for fits, from the declarative text    (T2, insert_refused_iff)
//   shift/compact returned distance = distance moved, declarative clamp, gap-free compaction (T3)
//   frame         unnamed signals keep size and order, move only for the allowed reasons    (T4)
//   membership    fixed = every group, grouped = exactly the ids (harness bookkeeping)      (membership_fixed/ids)
//   view          the owning message finds every signal of its layout tree                  (message_view_in_step)
// Each failure is (class, detail); the class becomes part of the finding signature.

import (
	"fmt"
	"math"
	"sort"
	"strings"

	"github.com/squadracorsepolito/acmelib"
	"verif/vinv"
)

type failure struct {
	class  string
	detail string
}

// ---- layout views of a snapshot -------------------------------------------------------------

type lay struct {
	where string // "M0" or "U3:g0-3"
	size  int
	hs    []int
}

func (sn *snap) layouts() []lay {
	var ls []lay
	for m, mi := range sn.msgs {
		ls = append(ls, lay{fmt.Sprintf("M%d", m), vinv.PayloadBits(mi.bytes), mi.lay})
	}
	us := make([]int, 0, len(sn.mux))
	for u := range sn.mux {
		us = append(us, u)
	}
	sort.Ints(us)
	for _, u := range us {
		for _, r := range sn.mux[u].runs {
			ls = append(ls, lay{fmt.Sprintf("U%d:g%d-%d", u, r.lo, r.hi), sn.mux[u].gsize, r.hs})
		}
	}
	return ls
}

func (sn *snap) groupOf(u, g int) []int {
	mi := sn.mux[u]
	if mi == nil {
		return nil
	}
	for _, r := range mi.runs {
		if r.lo <= g && g <= r.hi {
			return r.hs
		}
	}
	return nil
}

func idxOf(l []int, x int) int {
	for i, v := range l {
		if v == x {
			return i
		}
	}
	return -1
}

// groups of mux u that list x
func (sn *snap) groupsHolding(u, x int) []run {
	var rs []run
	if mi := sn.mux[u]; mi != nil {
		for _, r := range mi.runs {
			if idxOf(r.hs, x) >= 0 {
				rs = append(rs, r)
			}
		}
	}
	return rs
}

// number of groups of u holding x
func (sn *snap) groupCountHolding(u, x int) int {
	n := 0
	for _, r := range sn.groupsHolding(u, x) {
		n += r.hi - r.lo + 1
	}
	return n
}

// is x listed in some layout (message or group)?
func (sn *snap) attached(x int) bool {
	for _, mi := range sn.msgs {
		if idxOf(mi.lay, x) >= 0 {
			return true
		}
	}
	for _, mi := range sn.mux {
		for _, r := range mi.runs {
			if idxOf(r.hs, x) >= 0 {
				return true
			}
		}
	}
	return false
}

func (sn *snap) end(x int) int { return sn.sigs[x].rel + sn.sigs[x].size }

func (sn *snap) lastEnd(hs []int) int {
	if len(hs) == 0 {
		return 0
	}
	return sn.end(hs[len(hs)-1])
}

// free space behind x in layout hs of the given size: gaps between the followers + trailing space
func (sn *snap) spaceBehind(hs []int, size, x int) int {
	i := idxOf(hs, x)
	if i < 0 {
		return size - sn.lastEnd(hs)
	}
	free := 0
	prev := sn.end(x)
	for _, y := range hs[i+1:] {
		free += sn.sigs[y].rel - prev
		prev = sn.end(y)
	}
	return free + size - prev
}

// is [b, b+n) free in layout hs (ignoring x itself)?
func (sn *snap) rangeFree(hs []int, x, b, n int) bool {
	for _, y := range hs {
		if y == x || y < 0 {
			continue
		}
		if b < sn.end(y) && sn.sigs[y].rel < b+n {
			return false
		}
	}
	return true
}

// ---- wf (on live objects) -------------------------------------------------------------------

func (w *world) checkWF() []failure {
	var fs []failure
	for i, m := range w.msgs {
		for _, c := range vinv.CheckMessageLayout(m) {
			cls := "wf-message"
			if strings.Contains(c, "mux ") {
				cls = "wf-mux"
			}
			fs = append(fs, failure{cls, fmt.Sprintf("M%d: %s", i, c)})
		}
	}
	for h, s := range w.sigs {
		if s.Kind() == acmelib.SignalKindMultiplexer && s.ParentMultiplexerSignal() == nil && s.ParentMessage() == nil {
			u, _ := s.ToMultiplexer()
			for _, c := range vinv.CheckMultiplexer(u) {
				fs = append(fs, failure{"wf-mux", fmt.Sprintf("U%d: %s", h, c)})
			}
		}
	}
	return fs
}

// ---- the context of one step -------------------------------------------------------------------

type stepCtx struct {
	o        op
	res      string
	pre, pst *snap
	w        *world
	// harness bookkeeping of multiplexer membership: mem[u][x] = sorted group ids, fixed[u][x]
	mem   map[int]map[int][]int
	fixed map[int]map[int]bool
	// enum ops: facts computed from the live enum before the op (runner.planEnumOp)
	dupIndex, sameIndex bool
	enumNewSize         int
}

func accepted(res string) bool { return res == "ok" }

// the layout (as handles) and its size in which a size change of x is carried out by the code:
// the groups of its parent multiplexer, else the layout of its parent message
func (c *stepCtx) containers(sn *snap, x int) []lay {
	if x < 0 || x >= len(sn.sigs) {
		return nil
	}
	var ls []lay
	if u := sn.sigs[x].pu; u >= 0 {
		for _, r := range sn.groupsHolding(u, x) {
			ls = append(ls, lay{fmt.Sprintf("U%d:g%d-%d", u, r.lo, r.hi), sn.mux[u].gsize, r.hs})
		}
		return ls
	}
	for m, mi := range sn.msgs {
		if idxOf(mi.lay, x) >= 0 {
			ls = append(ls, lay{fmt.Sprintf("M%d", m), vinv.PayloadBits(mi.bytes), mi.lay})
		}
	}
	return ls
}

// does a size change of x by amount fit (declaratively) in every layout holding x?
func (c *stepCtx) growFits(sn *snap, x, amount int) bool {
	if amount <= 0 {
		return sn.sigs[x].size+amount >= 1
	}
	for _, l := range c.containers(sn, x) {
		if amount > sn.spaceBehind(l.hs, l.size, x) {
			return false
		}
	}
	return true
}

// ---- T2: accepted <=> fits ---------------------------------------------------------------------

// returns (expected acceptance, applicable)
func (c *stepCtx) expectAccept() (bool, bool) {
	sn, o := c.pre, c.o
	nS, nM, nE := len(sn.sigs), len(sn.msgs), len(sn.enums)
	switch o.k {
	case "append", "insert":
		if o.a >= nM || o.b >= nS {
			return false, false
		}
		mi := sn.msgs[o.a]
		if idxOf(mi.names, o.b) >= 0 {
			return false, true // name already used in the message
		}
		n := sn.sigs[o.b].size
		// no overflow: a negative payload holds nothing, otherwise bits >= 0 and the subtrahends are >= 0
		bits := vinv.PayloadBits(mi.bytes)
		if bits < 0 {
			return false, true
		}
		if o.k == "append" {
			return n <= bits-sn.lastEnd(mi.lay), true
		}
		return o.z >= 0 && n <= bits && o.z <= bits-n && sn.rangeFree(mi.lay, -1, o.z, n), true
	case "resize":
		if o.a >= nM {
			return false, false
		}
		mi := sn.msgs[o.a]
		// the size in bits must be representable in an int; then the last signal must still fit
		return o.z >= 0 && (o.z == mi.bytes || (o.z <= math.MaxInt64/8 && sn.lastEnd(mi.lay) <= o.z*8)), true
	case "resizebus":
		if o.a >= nM {
			return false, false
		}
		mi := sn.msgs[o.a]
		// as above, and the bus of the sender interface admits at most o.b bytes
		return o.z >= 0 && (o.z == mi.bytes || (o.z <= o.b && sn.lastEnd(mi.lay) <= o.z*8)), true
	case "settype":
		if o.a >= nS || c.w.sigs[o.a].Kind() != acmelib.SignalKindStandard || o.z < 1 {
			return false, false
		}
		return c.growFits(sn, o.a, o.z-sn.sigs[o.a].size), true
	case "setenum":
		if o.a >= nS || o.b >= nE || c.w.sigs[o.a].Kind() != acmelib.SignalKindEnum {
			return false, false
		}
		return c.growFits(sn, o.a, sn.enums[o.b].size-sn.sigs[o.a].size), true
	case "muxinsert":
		mi := sn.mux[o.a]
		if mi == nil || o.b >= nS {
			return false, false
		}
		x, n := o.b, sn.sigs[o.b].size
		present := sn.groupCountHolding(o.a, x) > 0
		// the name of x must be free in the owning message (unless x is already in this multiplexer)
		if !present {
			if pm := sn.sigs[o.a].pm; pm >= 0 && idxOf(sn.msgs[pm].names, x) >= 0 {
				return false, true
			}
		}
		if o.z < 0 || o.z > mi.gsize-n {
			return false, true
		}
		if o.fix {
			if present {
				return false, true
			}
			for _, r := range mi.runs {
				if !sn.rangeFree(r.hs, x, o.z, n) {
					return false, true
				}
			}
			return true, true
		}
		for _, g := range o.gids {
			if g < 0 || g >= mi.count {
				return false, true
			}
			hs := sn.groupOf(o.a, g)
			if idxOf(hs, x) >= 0 {
				return false, true // the group already holds x
			}
			if !sn.rangeFree(hs, x, o.z, n) {
				return false, true
			}
		}
		if present && o.z != sn.sigs[x].rel {
			return false, true // one relative position per signal
		}
		return true, true
	}
	return false, false
}

func (c *stepCtx) checkFits() []failure {
	exp, ok := c.expectAccept()
	if !ok || c.res == "panic" || c.res == "invalid" {
		return nil
	}
	if exp != accepted(c.res) {
		return []failure{{"fits", fmt.Sprintf("%s: result %s but the arrangement %s", c.o, c.res, map[bool]string{true: "fits (should be accepted)", false: "does not fit / is not allowed (should be refused)"}[exp])}}
	}
	return nil
}

// enum ops: accepted <=> index unused and every attached referencing signal (alone) can grow
func (c *stepCtx) checkEnumFits(refs []int) []failure {
	sn, o := c.pre, c.o
	if c.res == "panic" || c.res == "invalid" {
		return nil
	}
	var e, idx int
	switch o.k {
	case "addvalue":
		e, idx = o.a, o.z
	case "updateindex":
		if o.a >= len(c.w.vals) {
			return nil
		}
		v := c.w.vals[o.a]
		pe := v.ParentEnum()
		if pe == nil {
			return nil
		}
		e = -1
		for i, x := range c.w.enums {
			if x == pe {
				e = i
			}
		}
		idx = o.z
		if e < 0 {
			return nil
		}
	default:
		return nil
	}
	_ = idx
	// duplicates are judged by the harness from the live enum before the op: see runner (dupIndex)
	if c.dupIndex {
		if accepted(c.res) {
			return []failure{{"fits", fmt.Sprintf("%s accepted although the index is already used", o)}}
		}
		return nil
	}
	if c.sameIndex {
		return nil
	}
	newSize := c.enumNewSize
	amount := newSize - sn.enums[e].size
	fits := true
	if amount > 0 {
		for _, r := range refs {
			if !c.growFits(sn, r, amount) {
				fits = false
			}
		}
	}
	if fits != accepted(c.res) {
		return []failure{{"fits", fmt.Sprintf("%s: result %s but growing enum %d by %d bit(s) %s for its attached signals %v", o, c.res, e, amount,
			map[bool]string{true: "fits", false: "does not fit"}[fits], refs)}}
	}
	return nil
}

// ---- T3: shift and compact -----------------------------------------------------------------------

func (c *stepCtx) checkShift() []failure {
	o, pre, pst := c.o, c.pre, c.pst
	var hs []int
	var size int
	left := o.k == "shl" || o.k == "muxshl"
	x := o.b
	switch o.k {
	case "shl", "shr":
		if o.a >= len(pre.msgs) {
			return nil
		}
		hs, size = pre.msgs[o.a].lay, vinv.PayloadBits(pre.msgs[o.a].bytes)
	case "muxshl", "muxshr":
		if pre.mux[o.a] == nil {
			return nil
		}
		size = pre.mux[o.a].gsize
		// only signals held by exactly one group are shifted
		if x < len(pre.sigs) && pre.groupCountHolding(o.a, x) == 1 && !c.fixed[o.a][x] {
			hs = pre.groupsHolding(o.a, x)[0].hs
		}
	default:
		return nil
	}
	if !strings.HasPrefix(c.res, "shift:") {
		return []failure{{"shift", fmt.Sprintf("%s: result %s", o, c.res)}}
	}
	var d int
	fmt.Sscanf(c.res, "shift:%d", &d)
	var fs []failure
	i := -1
	if x < len(pre.sigs) {
		i = idxOf(hs, x)
	}
	want := 0
	if i >= 0 && o.z > 0 {
		st, n := pre.sigs[x].rel, pre.sigs[x].size
		if left {
			lo := 0
			if i > 0 {
				lo = pre.end(hs[i-1])
			}
			want = o.z
			if want > st-lo {
				want = st - lo
			}
		} else {
			hi := size
			if i+1 < len(hs) {
				hi = pre.sigs[hs[i+1]].rel
			}
			// the shift is the requested amount, bounded by the free space behind the signal
			want = o.z
			if want > hi-n-st {
				want = hi - n - st
			}
		}
		moved := pst.sigs[x].rel - st
		if left {
			moved = -moved
		}
		if moved != d {
			fs = append(fs, failure{"shift", fmt.Sprintf("%s: returned %d but signal moved by %d", o, d, moved)})
		}
	}
	if d != want {
		fs = append(fs, failure{"shift", fmt.Sprintf("%s: returned %d, the free space allows exactly %d", o, d, want)})
	}
	for y := range pre.sigs {
		if y != x && pre.sigs[y].rel != pst.sigs[y].rel {
			fs = append(fs, failure{"shift", fmt.Sprintf("%s: moved the unnamed signal %d from %d to %d", o, y, pre.sigs[y].rel, pst.sigs[y].rel)})
		}
	}
	if i < 0 && x < len(pre.sigs) && pre.sigs[x].rel != pst.sigs[x].rel {
		fs = append(fs, failure{"shift", fmt.Sprintf("%s: moved signal %d which is not in that layout", o, x)})
	}
	return fs
}

func (c *stepCtx) checkCompact() []failure {
	if c.o.k != "compact" || c.o.a >= len(c.pre.msgs) {
		return nil
	}
	pre, pst := c.pre, c.pst
	var fs []failure
	if !sameInts(pre.msgs[c.o.a].lay, pst.msgs[c.o.a].lay) {
		fs = append(fs, failure{"compact", "order of the layout changed"})
	}
	at := 0
	for _, x := range pst.msgs[c.o.a].lay {
		if x < 0 {
			continue
		}
		if pst.sigs[x].rel != at {
			fs = append(fs, failure{"compact", fmt.Sprintf("signal %d at %d, gap-free position is %d", x, pst.sigs[x].rel, at)})
		}
		if pst.sigs[x].size != pre.sigs[x].size {
			fs = append(fs, failure{"compact", fmt.Sprintf("size of signal %d changed", x)})
		}
		at += pst.sigs[x].size
	}
	return fs
}

// ---- T4: frame --------------------------------------------------------------------------------------

// resized: signals whose size the op changes (x of settype/setenum, the refs of an enum op);
// named: signals the op names explicitly.
func (c *stepCtx) checkFrame(named map[int]bool, resized map[int]bool) []failure {
	pre, pst := c.pre, c.pst
	var fs []failure
	n := len(pre.sigs)
	for y := 0; y < n; y++ {
		if named[y] || resized[y] {
			continue
		}
		if pre.sigs[y].size != pst.sigs[y].size {
			fs = append(fs, failure{"frame-size", fmt.Sprintf("%s changed the size of the unnamed signal %d from %d to %d", c.o, y, pre.sigs[y].size, pst.sigs[y].size)})
		}
	}
	// relative order of unnamed signals in every layout that exists before and after
	preL, pstL := map[string][]int{}, map[string][]int{}
	for m, mi := range pre.msgs {
		preL[fmt.Sprintf("M%d", m)] = mi.lay
	}
	for m, mi := range pst.msgs {
		pstL[fmt.Sprintf("M%d", m)] = mi.lay
	}
	for u, mi := range pre.mux {
		if mi.count > 64 {
			continue // groups compared run-wise below through the positions
		}
		for g := 0; g < mi.count; g++ {
			preL[fmt.Sprintf("U%d:g%d", u, g)] = pre.groupOf(u, g)
			if pst.mux[u] != nil {
				pstL[fmt.Sprintf("U%d:g%d", u, g)] = pst.groupOf(u, g)
			}
		}
	}
	for k, a := range preL {
		b, ok := pstL[k]
		if !ok {
			continue
		}
		inB := map[int]bool{}
		for _, y := range b {
			inB[y] = true
		}
		inA := map[int]bool{}
		for _, y := range a {
			inA[y] = true
		}
		var fa, fb []int
		for _, y := range a {
			if !named[y] && inB[y] {
				fa = append(fa, y)
			}
		}
		for _, y := range b {
			if !named[y] && inA[y] {
				fb = append(fb, y)
			}
		}
		if !sameInts(fa, fb) {
			fs = append(fs, failure{"frame-order", fmt.Sprintf("%s changed the relative order of unnamed signals in %s: %v -> %v", c.o, k, fa, fb)})
		}
	}
	// positions: an unnamed signal moves only by compaction of a layout holding it, or when it
	// is behind a resized signal in a layout holding both
	for y := 0; y < n; y++ {
		if named[y] || pre.sigs[y].rel == pst.sigs[y].rel {
			continue
		}
		allowed := false
		for _, l := range pre.layouts() {
			iy := idxOf(l.hs, y)
			if iy < 0 {
				continue
			}
			if c.o.k == "compact" && l.where == fmt.Sprintf("M%d", c.o.a) {
				allowed = true
			}
			for x := range resized {
				if ix := idxOf(l.hs, x); ix >= 0 && ix < iy {
					allowed = true
				}
			}
		}
		if !allowed {
			fs = append(fs, failure{"frame-move", fmt.Sprintf("%s moved the unnamed signal %d from %d to %d", c.o, y, pre.sigs[y].rel, pst.sigs[y].rel)})
		}
	}
	return fs
}

// ---- C07: membership against the harness bookkeeping -------------------------------------------

func (c *stepCtx) checkMembership() []failure {
	var fs []failure
	pst := c.pst
	for u, mi := range pst.mux {
		seen := map[int]bool{}
		for _, r := range mi.runs {
			for _, x := range r.hs {
				seen[x] = true
			}
		}
		for x := range c.fixed[u] {
			seen[x] = true
		}
		for x := range c.mem[u] {
			seen[x] = true
		}
		for x := range seen {
			if x < 0 {
				fs = append(fs, failure{"membership", fmt.Sprintf("U%d lists an unknown signal", u)})
				continue
			}
			var got []int
			total := 0
			for _, r := range mi.runs {
				k := 0
				for _, y := range r.hs {
					if y == x {
						k++
					}
				}
				if k > 1 {
					fs = append(fs, failure{"membership", fmt.Sprintf("signal %d listed %d times in U%d groups %d-%d", x, k, u, r.lo, r.hi)})
				}
				if k > 0 {
					total += r.hi - r.lo + 1
					if mi.count <= 64 {
						for g := r.lo; g <= r.hi; g++ {
							got = append(got, g)
						}
					}
				}
			}
			if c.fixed[u][x] {
				if total != mi.count {
					fs = append(fs, failure{"membership", fmt.Sprintf("signal %d was inserted without group ids into U%d but is held by %d of %d groups", x, u, total, mi.count)})
				}
				continue
			}
			want := c.mem[u][x]
			if total != len(want) || (mi.count <= 64 && !sameInts(got, want)) {
				fs = append(fs, failure{"membership", fmt.Sprintf("signal %d should be held by exactly the groups %v of U%d, is held by %v (%d groups)", x, want, u, got, total)})
			}
		}
	}
	return fs
}

// ---- C07: the owning message's view ----------------------------------------------------------------

// every signal reachable from the layout of message m (through multiplexer groups, at any depth)
// is found by m.GetSignal and reports m as its parent message
func (c *stepCtx) checkMessageView() []failure {
	var fs []failure
	pst := c.pst
	treeOf := map[int]map[int]bool{}
	for m, mi := range pst.msgs {
		reach := map[int]bool{}
		var walk func(x int, depth int)
		walk = func(x int, depth int) {
			if x < 0 || reach[x] || depth > 16 {
				return
			}
			reach[x] = true
			if u := pst.mux[x]; u != nil {
				for _, r := range u.runs {
					for _, y := range r.hs {
						walk(y, depth+1)
					}
				}
			}
		}
		for _, x := range mi.lay {
			walk(x, 0)
		}
		reg := map[int]bool{}
		for _, x := range mi.reg {
			reg[x] = true
		}
		for x := range reach {
			if !reg[x] {
				fs = append(fs, failure{"view-lookup", fmt.Sprintf("signal %d is in the layout tree of M%d but M%d.GetSignal does not find it", x, m, m)})
			}
			if pst.sigs[x].pm != m {
				fs = append(fs, failure{"view-parent", fmt.Sprintf("signal %d is in the layout tree of M%d but its ParentMessage is %s", x, m, optS(pst.sigs[x].pm))})
			}
		}
		for x := range reg {
			if !reach[x] {
				fs = append(fs, failure{"view-stale", fmt.Sprintf("M%d.GetSignal finds signal %d which is not in its layout tree", m, x)})
			}
		}
		// the name table of the message: exactly the current names of the signals of its tree
		named := map[int]bool{}
		for _, x := range mi.names {
			if x < 0 {
				fs = append(fs, failure{"view-names", fmt.Sprintf("M%d.SignalNames lists a name that no signal carries any more", m)})
			}
			named[x] = true
		}
		for x := range reach {
			if !named[x] {
				fs = append(fs, failure{"view-names", fmt.Sprintf("signal %d is in the layout tree of M%d but its name %q is not in M%d.SignalNames", x, m, c.w.sigs[x].Name(), m)})
			}
		}
		for x := range named {
			if x >= 0 && !reach[x] {
				fs = append(fs, failure{"view-names", fmt.Sprintf("M%d.SignalNames lists the name of signal %d which is not in its layout tree", m, x)})
			}
		}
		treeOf[m] = reach
	}
	// the name table of every multiplexer (observed through the names it refuses): the current names
	// of its own signals and, when it is attached, of the signals of the owning message
	for u, mi := range pst.mux {
		want := map[int]bool{}
		for _, r := range mi.runs {
			for _, y := range r.hs {
				if y >= 0 {
					want[y] = true
				}
			}
		}
		if pm := pst.sigs[u].pm; pm >= 0 && pm < len(pst.msgs) {
			for x := range treeOf[pm] {
				want[x] = true
			}
		}
		got := map[int]bool{}
		for _, x := range mi.taken {
			if x < 0 {
				fs = append(fs, failure{"view-muxnames", fmt.Sprintf("multiplexer %d still refuses a name that no signal carries any more (stale entry in its name table)", u)})
				continue
			}
			got[x] = true
			if !want[x] {
				fs = append(fs, failure{"view-muxnames", fmt.Sprintf("multiplexer %d refuses the name of signal %d, which is neither one of its signals nor in its message", u, x)})
			}
		}
		for x := range want {
			if !got[x] {
				fs = append(fs, failure{"view-muxnames", fmt.Sprintf("multiplexer %d would accept a second signal named %q (signal %d is missing in its name table)", u, c.w.sigs[x].Name(), x)})
			}
		}
	}
	return fs
}

// the payload a message works with is the one it reports: a 1-bit probe at bit 8*SizeByte() must
// be refused (the layout size itself is not observable through the API)
func (w *world) checkLayoutSize() []failure {
	var fs []failure
	for i, m := range w.msgs {
		p := w.probe("probe_payload_end")
		if err := m.InsertSignal(p, vinv.PayloadBits(m.SizeByte())); err == nil {
			fs = append(fs, failure{"layout-size", fmt.Sprintf("M%d reports %d byte(s) but accepts a signal at bit %d: its layout is larger than its payload", i, m.SizeByte(), vinv.PayloadBits(m.SizeByte()))})
			_ = m.RemoveSignal(p.EntityID())
		}
	}
	return fs
}
