package main

// Implementation-only probes for the one assumption of the model that the op language cannot leave: distinct
// entities carry distinct names (the model keeps name tables as sets of handles). Here a nested signal is given
// the NAME OF ITS ANCESTOR while the tree is detached; attaching the tree to a message (or to an attached
// multiplexer) must then be refused, because a message names every signal of its layout tree once. Built directly
// on the acmelib API; a failure is reported as the predicate class view-names@nameclash.

import (
	"fmt"

	"github.com/squadracorsepolito/acmelib"
)

type probeResult struct {
	id     string
	ok     bool
	detail string
}

func nameClashProbes() []probeResult {
	var out []probeResult
	t2, _ := acmelib.NewIntegerSignalType("pt2", 2, false)
	add := func(id string, ok bool, format string, a ...any) {
		out = append(out, probeResult{id: id, ok: ok, detail: fmt.Sprintf(format, a...)})
	}
	must := func(err error) {
		if err != nil {
			panic("harness probe setup: " + err.Error())
		}
	}
	// depth d: u0 > u1 > ... > leaf; the leaf (or an inner multiplexer) is renamed to the name of u0
	for depth := 1; depth <= 3; depth++ {
		for _, victim := range []string{"leaf", "inner"} {
			if victim == "inner" && depth < 2 {
				continue
			}
			for _, how := range []string{"append", "insert", "into-attached-mux"} {
				id := fmt.Sprintf("nameclash-d%d-%s-%s", depth, victim, how)
				muxes := make([]*acmelib.MultiplexerSignal, depth)
				for i := range muxes {
					u, err := acmelib.NewMultiplexerSignal(fmt.Sprintf("pu%d", i), 2, 16-4*i)
					must(err)
					muxes[i] = u
					if i > 0 {
						must(muxes[i-1].InsertSignal(u, 0, 0))
					}
				}
				leaf, err := acmelib.NewStandardSignal("pleaf", t2)
				must(err)
				must(muxes[depth-1].InsertSignal(leaf, 0, 1))
				var renamed acmelib.Signal = leaf
				if victim == "inner" {
					renamed = muxes[depth-1]
				}
				if err := renamed.UpdateName(muxes[0].Name()); err != nil {
					// refusing the rename already is fine too: nothing to attach
					add(id, true, "rename refused: %v", err)
					continue
				}
				msg := acmelib.NewMessage("pm", 1, 8)
				var err2 error
				switch how {
				case "append":
					err2 = msg.AppendSignal(muxes[0])
				case "insert":
					err2 = msg.InsertSignal(muxes[0], 3)
				case "into-attached-mux":
					host, err := acmelib.NewMultiplexerSignal("phost", 2, 40)
					must(err)
					must(msg.AppendSignal(host))
					err2 = host.InsertSignal(muxes[0], 0, 1)
				}
				if err2 == nil {
					add(id, false, "a multiplexer named %q that holds (depth %d) a signal with the same name was accepted by %s: the message has %d signals but %d names",
						muxes[0].Name(), depth, how, len(signalsOf(msg)), len(msg.SignalNames()))
				} else {
					add(id, true, "refused: %v", err2)
				}
			}
		}
	}
	// control: distinct names are accepted
	{
		u, err := acmelib.NewMultiplexerSignal("pc0", 2, 16)
		must(err)
		leaf, _ := acmelib.NewStandardSignal("pcleaf", t2)
		must(u.InsertSignal(leaf, 0, 1))
		must(leaf.UpdateName("pcleaf2"))
		msg := acmelib.NewMessage("pcm", 1, 8)
		err = msg.AppendSignal(u)
		add("nameclash-control", err == nil && len(msg.SignalNames()) == 2, "distinct names: AppendSignal -> %v, names %v", err, msg.SignalNames())
	}
	return out
}

// every signal of the message's registry
func signalsOf(m *acmelib.Message) []acmelib.Signal {
	var l []acmelib.Signal
	var walk func(s acmelib.Signal)
	walk = func(s acmelib.Signal) {
		l = append(l, s)
		if s.Kind() == acmelib.SignalKindMultiplexer {
			u, _ := s.ToMultiplexer()
			seen := map[acmelib.EntityID]bool{}
			for _, grp := range u.GetSignalGroups() {
				for _, c := range grp {
					if !seen[c.EntityID()] {
						seen[c.EntityID()] = true
						walk(c)
					}
				}
			}
		}
	}
	for _, s := range m.Signals() {
		walk(s)
	}
	return l
}

func runProbes(c *collector) {
	n := 0
	for _, p := range nameClashProbes() {
		n++
		if p.ok {
			continue
		}
		sig := "view-names@nameclash"
		f := c.found[sig]
		if f == nil {
			f = &found{sig: sig, detail: p.detail}
			f.ops = []op{}
			f.probe = "probe " + p.id
			c.found[sig] = f
		}
		f.count++
	}
	c.hist["probes:nameclash"] += n
}
