package main

// One history on the implementation: execute, snapshot, evaluate the predicates, classify.

import (
	"fmt"
	"sort"
	"strings"

	"github.com/squadracorsepolito/acmelib"
	"verif/vinv"
)

type runner struct {
	w     *world
	cur   *snap
	mem   map[int]map[int][]int
	fixed map[int]map[int]bool
	ops   []op
	lines []string  // O/R/S lines of the case file
	recs  []stepRec // the same, structured (for the in-Coq cross-check)
	// outcome
	fails    []failure
	zone     string // zone of the failing / last zone step
	stopped  bool
	panicMsg string
	// statistics
	accSizeChangeWithFollower bool // C01 non-triviality
	accMultiInsert            bool // C07 non-triviality (part 1)
	accMuxEdit                bool // C07 non-triviality (part 2)
	hist                      map[string]int
	checkView                 bool
	ctor                      bool // a message whose bit count is not representable exists (finding "ctor")
}

func newRunner() *runner {
	r := &runner{w: newWorld(), mem: map[int]map[int][]int{}, fixed: map[int]map[int]bool{}, hist: map[string]int{}, checkView: true}
	r.cur = r.w.snapshot()
	return r
}

func bitlen(v int) int {
	if v <= 0 {
		return 1
	}
	n := 0
	for v > 0 {
		n++
		v >>= 1
	}
	return n
}

func (r *runner) enumHandle(e *acmelib.SignalEnum) int {
	for i, x := range r.w.enums {
		if x == e {
			return i
		}
	}
	return -1
}

// attached signals that reference enum e (from the live objects)
func (r *runner) attachedRefs(e int) []int {
	var refs []int
	for h, s := range r.w.sigs {
		if s.Kind() != acmelib.SignalKindEnum {
			continue
		}
		es, _ := s.ToEnum()
		if es.Enum() == r.w.enums[e] && r.cur.attached(h) {
			refs = append(refs, h)
		}
	}
	return refs
}

func (r *runner) allRefs(e int) []int {
	var refs []int
	for h, s := range r.w.sigs {
		if s.Kind() != acmelib.SignalKindEnum {
			continue
		}
		es, _ := s.ToEnum()
		if es.Enum() == r.w.enums[e] {
			refs = append(refs, h)
		}
	}
	return refs
}

// do two of the given signals share a layout (same message layout, or a common group)?
func (r *runner) shareLayout(xs []int) bool {
	for _, l := range r.cur.layouts() {
		n := 0
		for _, x := range xs {
			if idxOf(l.hs, x) >= 0 {
				n++
			}
		}
		if n >= 2 {
			return true
		}
	}
	return false
}

// D35 classifier (value-based, shared with other checks: vinv.SharedFollowerMoved): x sits in a
// multiplexer and a size change by amount would move a follower held by two or more groups
func (r *runner) sharedFollowerMoved(x, amount int) bool {
	if x < 0 || x >= len(r.w.sigs) {
		return false
	}
	return vinv.SharedFollowerMoved(r.w.sigs[x], amount)
}

// the declarative enum size after an index change
func enumSizeFor(min, maxIdx int) int {
	s := bitlen(maxIdx)
	if min > s {
		return min
	}
	return s
}

type enumPlan struct {
	e         int
	dup, same bool
	newSize   int
	oldSize   int
	applies   bool
}

func (r *runner) planEnumOp(o op) enumPlan {
	p := enumPlan{e: -1}
	switch o.k {
	case "addvalue":
		if o.a >= len(r.w.enums) {
			return p
		}
		p.e = o.a
	case "updateindex":
		if o.a >= len(r.w.vals) {
			return p
		}
		pe := r.w.vals[o.a].ParentEnum()
		if pe == nil {
			return p
		}
		p.e = r.enumHandle(pe)
		if r.w.vals[o.a].Index() == o.z {
			p.same = true
		}
	case "setminsize":
		if o.a >= len(r.w.enums) {
			return p
		}
		p.e = o.a
	default:
		return p
	}
	if p.e < 0 {
		return p
	}
	p.applies = true
	en := r.w.enums[p.e]
	p.oldSize = en.GetSize()
	maxIdx := 0
	for _, v := range en.Values() {
		if o.k == "updateindex" && v == r.w.vals[o.a] {
			continue
		}
		if v.Index() == o.z && o.k != "setminsize" {
			p.dup = true
		}
		if v.Index() > maxIdx {
			maxIdx = v.Index()
		}
	}
	switch o.k {
	case "setminsize":
		p.newSize = enumSizeFor(o.z, maxIdx)
		p.dup = false
	default:
		if o.z > maxIdx {
			maxIdx = o.z
		}
		p.newSize = enumSizeFor(en.MinSize(), maxIdx)
	}
	return p
}

// zone of an op, decided on the state before it (see NOTES.md: hypotheses of the theorems)
func (r *runner) zoneOf(o op, ep enumPlan) string {
	sn := r.cur
	switch o.k {
	case "append", "insert":
		if o.b < len(sn.sigs) && sn.attached(o.b) {
			return "reattach"
		}
	case "muxinsert":
		if o.b < len(sn.sigs) && sn.attached(o.b) {
			if sn.mux[o.a] != nil && sn.groupCountHolding(o.a, o.b) > 0 && sn.sigs[o.b].pu == o.a {
				// further groups of the same multiplexer: legitimate, unless it also sits elsewhere
				return ""
			}
			return "reattach"
		}
	case "settype":
		if o.a < len(sn.sigs) && sn.attached(o.a) && r.sharedFollowerMoved(o.a, o.z-sn.sigs[o.a].size) {
			return "d35"
		}
	case "setenum":
		if o.a < len(sn.sigs) && o.b < len(sn.enums) && sn.attached(o.a) && r.sharedFollowerMoved(o.a, sn.enums[o.b].size-sn.sigs[o.a].size) {
			return "d35"
		}
	case "addvalue", "updateindex", "setminsize":
		if !ep.applies || ep.newSize == ep.oldSize {
			return ""
		}
		refs := r.attachedRefs(ep.e)
		if o.k == "setminsize" && ep.newSize > ep.oldSize && len(refs) > 0 {
			return "d03"
		}
		if o.k == "setminsize" {
			return ""
		}
		if ep.newSize > ep.oldSize && r.shareLayout(refs) {
			return "d36"
		}
		for _, x := range refs {
			if r.sharedFollowerMoved(x, ep.newSize-ep.oldSize) {
				return "d35"
			}
		}
		if ep.newSize < ep.oldSize && r.shareLayout(refs) {
			// shrinking pulls the followers once per referencing signal: deterministic, but the
			// signals between two refs are pulled under the first one only; covered by the model
			return ""
		}
	}
	return ""
}

func (r *runner) bookkeep(o op, res string) {
	if res != "ok" {
		return
	}
	switch o.k {
	case "muxinsert":
		if o.fix {
			if r.fixed[o.a] == nil {
				r.fixed[o.a] = map[int]bool{}
			}
			r.fixed[o.a][o.b] = true
		} else {
			if r.mem[o.a] == nil {
				r.mem[o.a] = map[int][]int{}
			}
			ids := append([]int{}, r.mem[o.a][o.b]...)
			for _, g := range o.gids {
				if idxOf(ids, g) < 0 {
					ids = append(ids, g)
				}
			}
			sort.Ints(ids)
			r.mem[o.a][o.b] = ids
		}
	case "muxremove":
		delete(r.mem[o.a], o.b)
		delete(r.fixed[o.a], o.b)
	case "remove":
		// a multiplexed signal is removed through its multiplexer
		if o.b < len(r.cur.sigs) {
			if u := r.cur.sigs[o.b].pu; u >= 0 {
				delete(r.mem[u], o.b)
				delete(r.fixed[u], o.b)
			}
		}
	case "muxcleargroup":
		for x, ids := range r.mem[o.a] {
			var keep []int
			for _, g := range ids {
				if g != o.z {
					keep = append(keep, g)
				}
			}
			if len(keep) == 0 {
				delete(r.mem[o.a], x)
			} else {
				r.mem[o.a][x] = keep
			}
		}
	case "muxclearall":
		delete(r.mem, o.a)
		delete(r.fixed, o.a)
	}
}

// step executes one op; returns false when the history must end here
func (r *runner) step(o op) bool {
	pre := r.cur
	ep := r.planEnumOp(o)
	zone := r.zoneOf(o, ep)
	var enumRefsAttached, enumRefsAll []int
	if ep.applies {
		enumRefsAttached, enumRefsAll = r.attachedRefs(ep.e), r.allRefs(ep.e)
	}
	if (o.k == "newmsg" || o.k == "newmsgbus") && (o.z > 1<<60-1 || o.z < -(1<<60)) {
		r.ctor = true
	}
	if zone == "" && r.ctor {
		zone = "ctor"
	}
	res := r.w.apply(o)
	r.ops = append(r.ops, o)
	r.bookkeep(o, res)
	r.hist["op:"+o.k]++
	switch {
	case res == "ok":
		r.hist["res:ok"]++
		r.hist["ok:"+o.k]++
	case strings.HasPrefix(res, "err:"):
		r.hist["res:"+res]++
	case strings.HasPrefix(res, "shift:"):
		if res == "shift:0" {
			r.hist["res:shift0"]++
		} else {
			r.hist["res:shifted"]++
		}
	default:
		r.hist["res:"+res]++
	}
	if zone != "" {
		r.hist["zone:"+zone]++
	}
	if zone == "d36" {
		// two signals of one layout grow with the enum: the outcome depends on Go map order; the driver
		// compares it with the outcomes of the model over every visiting order
		r.lines = append(r.lines, "Z d36")
	}
	r.lines = append(r.lines, "O "+o.String(), "R "+res)
	if res == "panic" {
		r.panicMsg = lastPanic
		r.fails = append(r.fails, failure{"panic", fmt.Sprintf("%s panicked: %s", o, lastPanic)})
		r.zone = zone
		r.lines = append(r.lines, "S ?")
		r.recs = append(r.recs, stepRec{o: o, res: res, resOK: zone != "d36"})
		r.stopped = true
		return false
	}
	pst := r.w.snapshot()
	r.cur = pst
	r.recs = append(r.recs, stepRec{o: o, res: res, sn: pst, resOK: zone != "d36", snapOK: zone != "d36"})
	sizeChanged := ep.applies && res == "ok" && pst.enums[ep.e].size != pre.enums[ep.e].size
	r.lines = append(r.lines, "S "+pst.text)

	// ---- predicates -----------------------------------------------------------------------
	c := &stepCtx{o: o, res: res, pre: pre, pst: pst, w: r.w, mem: r.mem, fixed: r.fixed,
		dupIndex: ep.dup, sameIndex: ep.same, enumNewSize: ep.newSize}
	var fs []failure
	fs = append(fs, r.w.checkWF()...)
	fs = append(fs, r.w.checkLayoutSize()...)
	fs = append(fs, c.checkFits()...)
	if ep.applies && o.k != "setminsize" {
		fs = append(fs, c.checkEnumFits(enumRefsAttached)...)
	}
	switch o.k {
	case "shl", "shr", "muxshl", "muxshr":
		fs = append(fs, c.checkShift()...)
	case "compact":
		fs = append(fs, c.checkCompact()...)
	}
	named, resized := map[int]bool{}, map[int]bool{}
	switch o.k {
	case "append", "insert", "remove", "shl", "shr", "muxinsert", "muxremove", "muxshl", "muxshr":
		named[o.b] = true
	case "settype", "setenum":
		named[o.a] = true
		resized[o.a] = true
	case "addvalue", "updateindex", "setminsize", "removevalue", "removeallvalues":
		e := ep.e
		if o.k == "removevalue" || o.k == "removeallvalues" {
			e = o.a
		}
		if e >= 0 && e < len(r.w.enums) {
			for _, x := range r.allRefs(e) {
				resized[x] = true
			}
		}
		for _, x := range enumRefsAll {
			resized[x] = true
		}
	}
	if res == "ok" || strings.HasPrefix(res, "shift:") {
		fs = append(fs, c.checkFrame(named, resized)...)
	} else if pre.text != pst.text {
		// a refused operation changes nothing (C06 owns the full statement; here: the layout projection)
		fs = append(fs, failure{"refused-changed", fmt.Sprintf("%s was refused (%s) but the snapshot changed", o, res)})
	}
	fs = append(fs, c.checkMembership()...)
	if r.checkView {
		fs = append(fs, c.checkMessageView()...)
	}

	// ---- statistics -----------------------------------------------------------------------
	if res == "ok" {
		switch o.k {
		case "settype", "setenum", "addvalue", "updateindex":
			for x := range resized {
				if x < len(pre.sigs) && x < len(pst.sigs) && pre.sigs[x].size != pst.sigs[x].size {
					for _, l := range pre.layouts() {
						if i := idxOf(l.hs, x); i >= 0 && i+1 < len(l.hs) {
							r.accSizeChangeWithFollower = true
						}
					}
				}
			}
		case "muxinsert":
			if (o.fix && pre.mux[o.a] != nil && pre.mux[o.a].count >= 2) || len(o.gids) >= 2 {
				r.accMultiInsert = true
			}
		case "muxremove", "muxcleargroup", "muxclearall":
			r.accMuxEdit = true
		}
	}
	if strings.HasPrefix(res, "shift:") && res != "shift:0" && (o.k == "muxshl" || o.k == "muxshr") {
		r.accMuxEdit = true
	}

	if len(fs) > 0 {
		r.fails = fs
		r.zone = zone
		r.stopped = true
		return false
	}
	// states outside the hypotheses of the theorems: end the history
	if zone == "reattach" && res == "ok" {
		r.zone = zone
		return false
	}
	if zone == "d36" || (zone == "d03" && sizeChanged) {
		r.zone = zone
		return false
	}
	return true
}

// signature of the first failure: "<predicate class>@<zone or op kind>"; histories that leave the
// hypotheses through the defect owned by the C04-C06 stream (re-attachment D20) are classified by
// that zone alone
func (r *runner) signature() string {
	if len(r.fails) == 0 {
		return ""
	}
	switch r.zone {
	case "reattach":
		return r.zone
	case "d36":
		// the referencing signals are visited in Go map order: which predicate fails (overlap,
		// error after a partial update, panic) differs from run to run
		return r.zone
	}
	last := r.ops[len(r.ops)-1]
	ctx := r.zone
	if ctx == "" {
		ctx = last.k
	}
	return r.fails[0].class + "@" + ctx
}

func opsString(ops []op) string {
	p := make([]string, len(ops))
	for i, o := range ops {
		p[i] = o.String()
	}
	return strings.Join(p, "; ")
}

// replay a concrete op list on a fresh world
func replay(ops []op, view bool) *runner {
	r := newRunner()
	r.checkView = view
	for _, o := range ops {
		if !r.step(o) {
			break
		}
	}
	return r
}

func isCreation(o op) bool { return strings.HasPrefix(o.k, "new") }

// shrink a failing history: drop non-creation ops one at a time while the same signature fails,
// then drop trailing creation ops that nothing refers to
func shrink(ops []op, sig string, view bool) []op {
	cur := append([]op{}, ops...)
	changed := true
	for changed {
		changed = false
		for i := len(cur) - 2; i >= 0; i-- {
			if isCreation(cur[i]) {
				continue
			}
			cand := append(append([]op{}, cur[:i]...), cur[i+1:]...)
			rr := replay(cand, view)
			if rr.signature() == sig && len(rr.ops) == len(cand) {
				cur = cand
				changed = true
			}
		}
	}
	return cur
}
