package main

// The implementation side: a pool of real acmelib objects addressed by creation index (handle),
// the execution of one op through the public API inside recover(), and the canonical snapshot
// string that the model driver recomputes (props/C01/driver/c01_driver.ml).

import (
	"errors"
	"fmt"
	"sort"
	"strconv"
	"strings"

	"github.com/squadracorsepolito/acmelib"
)

const bogus = 9999 // a handle that is never allocated: an entity id that matches nothing

type op struct {
	k    string // token of the op (see String)
	a, b int    // handles (receiver, argument)
	z    int    // integer argument
	gids []int  // group ids of muxinsert
	fix  bool   // muxinsert without ids
}

func (o op) String() string {
	switch o.k {
	case "newenum":
		return o.k
	case "newmsg", "newstd", "newmsgbus":
		return fmt.Sprintf("%s %d", o.k, o.z)
	case "newenumsig", "removeall", "compact", "removeallvalues", "muxclearall", "rename":
		return fmt.Sprintf("%s %d", o.k, o.a)
	case "resizebus":
		return fmt.Sprintf("%s %d %d %d", o.k, o.a, o.z, o.b) // message, new size, limit of the bus
	case "newmux":
		return fmt.Sprintf("%s %d %d", o.k, o.a, o.z) // count, gsize
	case "append", "remove", "setenum", "removevalue", "muxremove":
		return fmt.Sprintf("%s %d %d", o.k, o.a, o.b)
	case "insert", "shl", "shr", "muxshl", "muxshr":
		return fmt.Sprintf("%s %d %d %d", o.k, o.a, o.b, o.z)
	case "resize", "byteorder", "settype", "addvalue", "setminsize", "updateindex", "muxcleargroup":
		return fmt.Sprintf("%s %d %d", o.k, o.a, o.z)
	case "muxinsert":
		g := "-"
		if !o.fix {
			parts := make([]string, len(o.gids))
			for i, id := range o.gids {
				parts[i] = strconv.Itoa(id)
			}
			g = strings.Join(parts, ",")
		}
		return fmt.Sprintf("%s %d %d %d %s", o.k, o.a, o.b, o.z, g)
	}
	panic("unknown op " + o.k)
}

func parseOp(line string) (op, error) {
	f := strings.Fields(line)
	if len(f) == 0 {
		return op{}, fmt.Errorf("empty op")
	}
	n := func(i int) int {
		if i >= len(f) {
			return 0
		}
		v, _ := strconv.Atoi(f[i])
		return v
	}
	o := op{k: f[0]}
	switch f[0] {
	case "newenum":
	case "newmsg", "newstd", "newmsgbus":
		o.z = n(1)
	case "newenumsig", "removeall", "compact", "removeallvalues", "muxclearall", "rename":
		o.a = n(1)
	case "resizebus":
		o.a, o.z, o.b = n(1), n(2), n(3)
	case "newmux":
		o.a, o.z = n(1), n(2)
	case "append", "remove", "setenum", "removevalue", "muxremove":
		o.a, o.b = n(1), n(2)
	case "insert", "shl", "shr", "muxshl", "muxshr":
		o.a, o.b, o.z = n(1), n(2), n(3)
	case "resize", "byteorder", "settype", "addvalue", "setminsize", "updateindex", "muxcleargroup":
		o.a, o.z = n(1), n(2)
	case "muxinsert":
		o.a, o.b, o.z = n(1), n(2), n(3)
		if len(f) < 5 || f[4] == "-" {
			o.fix = true
		} else {
			for _, p := range strings.Split(f[4], ",") {
				v, _ := strconv.Atoi(p)
				o.gids = append(o.gids, v)
			}
		}
	default:
		return o, fmt.Errorf("unknown op %q", line)
	}
	return o, nil
}

type world struct {
	msgs   []*acmelib.Message
	sigs   []acmelib.Signal
	enums  []*acmelib.SignalEnum
	vals   []*acmelib.SignalEnumValue
	types  map[int]*acmelib.SignalType
	sigIdx map[acmelib.EntityID]int
	sigNm  map[string]int
	msgIdx map[acmelib.EntityID]int
	valIdx map[acmelib.EntityID]int
	enumOf map[int]int // enum signal handle -> enum handle (harness bookkeeping only)
	uniq   int
	// a CAN 2.0A bus (messages of at most 8 bytes) with one node interface: the sender of the
	// messages created by "newmsgbus"
	bus     *acmelib.Bus
	nodeInt *acmelib.NodeInterface
	onBus   map[int]bool
	// names that signals carried before a rename, and never-attached probe signals by name
	retired []string
	probes  map[string]acmelib.Signal
}

const busLimit = 8

func newWorld() *world {
	return &world{types: map[int]*acmelib.SignalType{}, sigIdx: map[acmelib.EntityID]int{}, sigNm: map[string]int{},
		msgIdx: map[acmelib.EntityID]int{}, valIdx: map[acmelib.EntityID]int{}, enumOf: map[int]int{},
		onBus: map[int]bool{}, probes: map[string]acmelib.Signal{}}
}

// the sender interface of the bus messages (created on first use)
func (w *world) senderInterface() *acmelib.NodeInterface {
	if w.nodeInt != nil {
		return w.nodeInt
	}
	w.bus = acmelib.NewBus("bus")
	w.bus.SetType(acmelib.BusTypeCAN2A)
	node := acmelib.NewNode("node", 1, 1)
	ni, err := node.GetInterface(0)
	if err != nil {
		panic("harness: " + err.Error())
	}
	if err := w.bus.AddNodeInterface(ni); err != nil {
		panic("harness: " + err.Error())
	}
	w.nodeInt = ni
	return ni
}

// a never-attached 1-bit signal carrying the given name
func (w *world) probe(name string) acmelib.Signal {
	if p, ok := w.probes[name]; ok {
		return p
	}
	t, err := w.typeOf(1)
	if err != nil {
		panic("harness: " + err.Error())
	}
	p, err := acmelib.NewStandardSignal(name, t)
	if err != nil {
		panic("harness: " + err.Error())
	}
	w.probes[name] = p
	return p
}

// nameTaken: would the multiplexer refuse a new signal of that name? Observed without changing
// anything: the insertion of a probe into group -1 is refused either by the name check (first) or
// by the group id check.
func (w *world) nameTaken(u *acmelib.MultiplexerSignal, name string) bool {
	err := u.InsertSignal(w.probe(name), 0, -1)
	if err == nil {
		panic("harness: a probe signal was inserted into group -1")
	}
	var ne *acmelib.NameError
	return errors.As(err, &ne)
}

func (w *world) typeOf(size int) (*acmelib.SignalType, error) {
	if t, ok := w.types[size]; ok {
		return t, nil
	}
	t, err := acmelib.NewIntegerSignalType(fmt.Sprintf("t%d", size), size, false)
	if err != nil {
		return nil, err
	}
	w.types[size] = t
	return t, nil
}

func (w *world) addSig(s acmelib.Signal) {
	w.sigIdx[s.EntityID()] = len(w.sigs)
	w.sigNm[s.Name()] = len(w.sigs)
	w.sigs = append(w.sigs, s)
}

func (w *world) sigID(h int) acmelib.EntityID {
	if h >= 0 && h < len(w.sigs) {
		return w.sigs[h].EntityID()
	}
	return acmelib.EntityID("no-such-entity")
}

func (w *world) mux(h int) *acmelib.MultiplexerSignal {
	if h < 0 || h >= len(w.sigs) || w.sigs[h].Kind() != acmelib.SignalKindMultiplexer {
		return nil
	}
	m, _ := w.sigs[h].ToMultiplexer()
	return m
}

var sentinels = []struct {
	e error
	n string
}{
	{acmelib.ErrIsDuplicated, "Duplicated"}, {acmelib.ErrNotFound, "NotFound"}, {acmelib.ErrIsNegative, "Negative"},
	{acmelib.ErrOutOfBounds, "OutOfBounds"}, {acmelib.ErrIsZero, "IsZero"}, {acmelib.ErrIsNil, "IsNil"},
	{acmelib.ErrNoSpaceLeft, "NoSpaceLeft"}, {acmelib.ErrIntersect, "Intersect"}, {acmelib.ErrTooSmall, "TooSmall"},
	{acmelib.ErrTooBig, "TooBig"},
}

func errResult(err error) string {
	if err == nil {
		return "ok"
	}
	for _, s := range sentinels {
		if errors.Is(err, s.e) {
			return "err:" + s.n
		}
	}
	return "err:Other(" + err.Error() + ")"
}

// apply runs one op on the implementation. The result strings are those of the model driver.
func (w *world) apply(o op) (res string) {
	defer func() {
		if r := recover(); r != nil {
			res = "panic"
			lastPanic = fmt.Sprint(r)
		}
	}()
	okMsg := func(h int) bool { return h >= 0 && h < len(w.msgs) }
	okSig := func(h int) bool { return h >= 0 && h < len(w.sigs) }
	okEnum := func(h int) bool { return h >= 0 && h < len(w.enums) }
	switch o.k {
	case "newmsg", "newmsgbus":
		w.uniq++
		m := acmelib.NewMessage(fmt.Sprintf("m%d", len(w.msgs)), acmelib.MessageID(len(w.msgs)+1), o.z)
		if o.k == "newmsgbus" {
			// a size the bus refuses (> 8 bytes): the message stays without sender
			if err := w.senderInterface().AddSentMessage(m); err == nil {
				w.onBus[len(w.msgs)] = true
			}
		}
		w.msgIdx[m.EntityID()] = len(w.msgs)
		w.msgs = append(w.msgs, m)
		return "ok"
	case "newstd":
		t, err := w.typeOf(o.z)
		if err != nil {
			return errResult(err)
		}
		s, err := acmelib.NewStandardSignal(fmt.Sprintf("s%d", len(w.sigs)), t)
		if err != nil {
			return errResult(err)
		}
		w.addSig(s)
		return "ok"
	case "newenum":
		w.enums = append(w.enums, acmelib.NewSignalEnum(fmt.Sprintf("e%d", len(w.enums))))
		return "ok"
	case "newenumsig":
		if !okEnum(o.a) {
			return "invalid"
		}
		s, err := acmelib.NewEnumSignal(fmt.Sprintf("s%d", len(w.sigs)), w.enums[o.a])
		if err != nil {
			return errResult(err)
		}
		w.enumOf[len(w.sigs)] = o.a
		w.addSig(s)
		return "ok"
	case "newmux":
		s, err := acmelib.NewMultiplexerSignal(fmt.Sprintf("s%d", len(w.sigs)), o.a, o.z)
		if err != nil {
			return errResult(err)
		}
		w.addSig(s)
		return "ok"
	case "append":
		if !okMsg(o.a) || !okSig(o.b) {
			return "invalid"
		}
		return errResult(w.msgs[o.a].AppendSignal(w.sigs[o.b]))
	case "insert":
		if !okMsg(o.a) || !okSig(o.b) {
			return "invalid"
		}
		return errResult(w.msgs[o.a].InsertSignal(w.sigs[o.b], o.z))
	case "remove":
		if !okMsg(o.a) {
			return "invalid"
		}
		return errResult(w.msgs[o.a].RemoveSignal(w.sigID(o.b)))
	case "removeall":
		if !okMsg(o.a) {
			return "invalid"
		}
		w.msgs[o.a].RemoveAllSignals()
		return "ok"
	case "shl":
		if !okMsg(o.a) {
			return "invalid"
		}
		return fmt.Sprintf("shift:%d", w.msgs[o.a].ShiftSignalLeft(w.sigID(o.b), o.z))
	case "shr":
		if !okMsg(o.a) {
			return "invalid"
		}
		return fmt.Sprintf("shift:%d", w.msgs[o.a].ShiftSignalRight(w.sigID(o.b), o.z))
	case "compact":
		if !okMsg(o.a) {
			return "invalid"
		}
		w.msgs[o.a].CompactSignals()
		return "ok"
	case "resize":
		if !okMsg(o.a) {
			return "invalid"
		}
		return errResult(w.msgs[o.a].UpdateSizeByte(o.z))
	case "resizebus":
		if !okMsg(o.a) {
			return "invalid"
		}
		if !w.onBus[o.a] || o.b != busLimit {
			panic("harness: resizebus on a message that is not sent on the bus")
		}
		return errResult(w.msgs[o.a].UpdateSizeByte(o.z))
	case "rename":
		if !okSig(o.a) {
			return "invalid"
		}
		old := w.sigs[o.a].Name()
		w.uniq++
		nn := fmt.Sprintf("s%dn%d", o.a, w.uniq)
		err := w.sigs[o.a].UpdateName(nn)
		if err == nil {
			delete(w.sigNm, old)
			w.sigNm[nn] = o.a
			w.retired = append(w.retired, old)
		}
		return errResult(err)
	case "byteorder":
		if !okMsg(o.a) {
			return "invalid"
		}
		bo := acmelib.MessageByteOrderLittleEndian
		if o.z == 1 {
			bo = acmelib.MessageByteOrderBigEndian
		}
		w.msgs[o.a].SetByteOrder(bo)
		return "ok"
	case "settype":
		if !okSig(o.a) || w.sigs[o.a].Kind() != acmelib.SignalKindStandard {
			return "invalid"
		}
		t, err := w.typeOf(o.z)
		if err != nil {
			return "invalid" // no type of that size exists
		}
		ss, _ := w.sigs[o.a].ToStandard()
		return errResult(ss.SetType(t))
	case "setenum":
		if !okSig(o.a) || !okEnum(o.b) || w.sigs[o.a].Kind() != acmelib.SignalKindEnum {
			return "invalid"
		}
		es, _ := w.sigs[o.a].ToEnum()
		r := errResult(es.SetEnum(w.enums[o.b]))
		if r == "ok" {
			w.enumOf[o.a] = o.b
		}
		return r
	case "addvalue":
		if !okEnum(o.a) {
			return "invalid"
		}
		v := acmelib.NewSignalEnumValue(fmt.Sprintf("v%d", len(w.vals)), o.z)
		w.valIdx[v.EntityID()] = len(w.vals)
		w.vals = append(w.vals, v)
		return errResult(w.enums[o.a].AddValue(v))
	case "removevalue":
		if !okEnum(o.a) {
			return "invalid"
		}
		id := acmelib.EntityID("no-such-entity")
		if o.b >= 0 && o.b < len(w.vals) {
			id = w.vals[o.b].EntityID()
		}
		return errResult(w.enums[o.a].RemoveValue(id))
	case "removeallvalues":
		if !okEnum(o.a) {
			return "invalid"
		}
		w.enums[o.a].RemoveAllValues()
		return "ok"
	case "setminsize":
		if !okEnum(o.a) {
			return "invalid"
		}
		w.enums[o.a].SetMinSize(o.z)
		return "ok"
	case "updateindex":
		if o.a < 0 || o.a >= len(w.vals) {
			return "invalid"
		}
		return errResult(w.vals[o.a].UpdateIndex(o.z))
	case "muxinsert":
		u := w.mux(o.a)
		if u == nil || !okSig(o.b) {
			return "invalid"
		}
		if o.fix {
			return errResult(u.InsertSignal(w.sigs[o.b], o.z))
		}
		ids := append([]int{}, o.gids...)
		return errResult(u.InsertSignal(w.sigs[o.b], o.z, ids...))
	case "muxremove":
		u := w.mux(o.a)
		if u == nil {
			return "invalid"
		}
		return errResult(u.RemoveSignal(w.sigID(o.b)))
	case "muxcleargroup":
		u := w.mux(o.a)
		if u == nil {
			return "invalid"
		}
		return errResult(u.ClearSignalGroup(o.z))
	case "muxclearall":
		u := w.mux(o.a)
		if u == nil {
			return "invalid"
		}
		u.ClearAllSignalGroups()
		return "ok"
	case "muxshl":
		u := w.mux(o.a)
		if u == nil {
			return "invalid"
		}
		return fmt.Sprintf("shift:%d", u.ShiftSignalLeft(w.sigID(o.b), o.z))
	case "muxshr":
		u := w.mux(o.a)
		if u == nil {
			return "invalid"
		}
		return fmt.Sprintf("shift:%d", u.ShiftSignalRight(w.sigID(o.b), o.z))
	}
	panic("harness: unknown op " + o.k)
}

var lastPanic string

// ---------------------------------------------------------------------------------------------
// snapshots
// ---------------------------------------------------------------------------------------------

type sigInfo struct {
	size, rel, abs int
	pm, pu         int // parent message / multiplexer handle, -1 = none
}

type run struct {
	lo, hi int
	hs     []int // handles, in layout order (-1 = unknown object)
}

type muxInfo struct {
	count, gsize, selw int
	runs               []run
	taken              []int // handles whose name the multiplexer refuses for a new signal (-1: a retired name)
}

type msgInfo struct {
	bytes int
	lay   []int
	reg   []int // handles found by GetSignal
	names []int // handles whose name is registered (SignalNames)
}

type enumInfo struct{ max, min, size int }

type snap struct {
	msgs  []msgInfo
	sigs  []sigInfo
	mux   map[int]*muxInfo
	enums []enumInfo
	text  string
}

func (w *world) handleOf(s acmelib.Signal) int {
	if s == nil {
		return -1
	}
	if h, ok := w.sigIdx[s.EntityID()]; ok {
		return h
	}
	return -1
}

func ints(l []int) string {
	p := make([]string, len(l))
	for i, v := range l {
		if v < 0 {
			p[i] = "?"
		} else {
			p[i] = strconv.Itoa(v)
		}
	}
	return strings.Join(p, ",")
}

func optS(v int) string {
	if v < 0 {
		return "-"
	}
	return strconv.Itoa(v)
}

func sameInts(a, b []int) bool {
	if len(a) != len(b) {
		return false
	}
	for i := range a {
		if a[i] != b[i] {
			return false
		}
	}
	return true
}

func (w *world) snapshot() *snap {
	sn := &snap{mux: map[int]*muxInfo{}}
	var b strings.Builder
	first := true
	sep := func() {
		if !first {
			b.WriteByte(' ')
		}
		first = false
	}
	for mi, m := range w.msgs {
		info := msgInfo{bytes: m.SizeByte()}
		for _, s := range m.Signals() {
			info.lay = append(info.lay, w.handleOf(s))
		}
		for h, s := range w.sigs {
			if _, err := m.GetSignal(s.EntityID()); err == nil {
				info.reg = append(info.reg, h)
			}
		}
		for _, nm := range m.SignalNames() {
			if h, ok := w.sigNm[nm]; ok {
				info.names = append(info.names, h)
			} else {
				info.names = append(info.names, -1)
			}
		}
		sort.Ints(info.names)
		sn.msgs = append(sn.msgs, info)
		sep()
		fmt.Fprintf(&b, "M%d:%d:[%s]:K[%s]:N[%s]", mi, info.bytes, ints(info.lay), ints(info.reg), ints(info.names))
	}
	for h, s := range w.sigs {
		si := sigInfo{size: s.GetSize(), rel: s.GetRelativeStartPos(), abs: s.GetStartBit(), pm: -1, pu: -1}
		if pm := s.ParentMessage(); pm != nil {
			if i, ok := w.msgIdx[pm.EntityID()]; ok {
				si.pm = i
			}
		}
		if pu := s.ParentMultiplexerSignal(); pu != nil {
			if i, ok := w.sigIdx[pu.EntityID()]; ok {
				si.pu = i
			}
		}
		sn.sigs = append(sn.sigs, si)
		sep()
		fmt.Fprintf(&b, "X%d:%d:%d:%d:%s:%s", h, si.size, si.rel, si.abs, optS(si.pm), optS(si.pu))
	}
	for h := range w.sigs {
		u := w.mux(h)
		if u == nil {
			continue
		}
		mi := &muxInfo{count: u.GroupCount(), gsize: u.GroupSize(), selw: u.GetGroupCountSize()}
		groups := u.GetSignalGroups()
		for g, grp := range groups {
			hs := make([]int, len(grp))
			for i, s := range grp {
				hs[i] = w.handleOf(s)
			}
			if n := len(mi.runs); n > 0 && sameInts(mi.runs[n-1].hs, hs) {
				mi.runs[n-1].hi = g
			} else {
				mi.runs = append(mi.runs, run{lo: g, hi: g, hs: hs})
			}
		}
		for x, s := range w.sigs {
			if w.nameTaken(u, s.Name()) {
				mi.taken = append(mi.taken, x)
			}
		}
		for _, nm := range w.retired {
			if w.nameTaken(u, nm) {
				mi.taken = append(mi.taken, -1)
			}
		}
		sort.Ints(mi.taken)
		sn.mux[h] = mi
		sep()
		fmt.Fprintf(&b, "U%d:%d:%d:%d:T[%s]:{", h, mi.count, mi.gsize, mi.selw, ints(mi.taken))
		for i, r := range mi.runs {
			if i > 0 {
				b.WriteByte(';')
			}
			fmt.Fprintf(&b, "%d-%d=[%s]", r.lo, r.hi, ints(r.hs))
		}
		b.WriteByte('}')
	}
	for ei, e := range w.enums {
		info := enumInfo{max: e.MaxIndex(), min: e.MinSize(), size: e.GetSize()}
		sn.enums = append(sn.enums, info)
		sep()
		fmt.Fprintf(&b, "E%d:%d:%d:%d", ei, info.max, info.min, info.size)
	}
	sn.text = b.String()
	return sn
}
