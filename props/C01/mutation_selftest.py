#!/usr/bin/env python3
"""Mutation self-test for C01 / C07 (development aid, not a registered command).
Applies small semantic mutants to a scratch worktree of /repo, records whether the repo's own
test suite still passes, and whether `./check C01|C07 --tier quick` flags the mutant.
Usage: python3 props/C01/mutation_selftest.py [/tmp/wt/C01]"""
import os
import subprocess
import sys

WT = sys.argv[1] if len(sys.argv) > 1 else "/tmp/wt/C01"
VERIF = os.path.dirname(os.path.dirname(os.path.dirname(os.path.abspath(__file__))))

# (property, name, file, old, new)
MUTANTS = [
    ("C01", "insert-overlap-lt", "signal_layout.go", "\t\tif endBit <= tmpStartBit {\n\t\t\tbreak", "\t\tif endBit < tmpStartBit {\n\t\t\tbreak"),
    ("C01", "insert-end-bound-ge", "signal_layout.go", "\tif startBit > sl.size-sigSize {", "\tif startBit >= sl.size-sigSize {"),
    ("C01", "insert-continue-gt", "signal_layout.go", "\t\tif startBit >= tmpEndBit {\n\t\t\tcontinue", "\t\tif startBit > tmpEndBit {\n\t\t\tcontinue"),
    ("C01", "compact-skips-last", "signal_layout.go", "\tlastStartBit := 0\n\tfor _, sig := range sl.signals {", "\tlastStartBit := 0\n\tfor _, sig := range sl.signals[:max(len(sl.signals)-1, 0)] {"),
    ("C01", "shift-right-clamp-off-by-one", "signal_layout.go", "\t\t\tmaxShift := sl.size - tmpEndBit\n", "\t\t\tmaxShift := sl.size - tmpEndBit - 1\n"),
    ("C01", "grow-skips-last-follower", "signal_layout.go", "\tfor i := nextSigIdx; i < len(sl.signals); i++ {", "\tfor i := nextSigIdx; i < len(sl.signals)-1; i++ {"),
    ("C01", "grow-verify-ge", "signal_layout.go", "\tif amount > availableSpace {", "\tif amount >= availableSpace {"),
    ("C01", "append-verify-ge", "signal_layout.go", "\tif sigSize > trailingSpace {", "\tif sigSize >= trailingSpace {"),
    ("C01", "addvalue-no-push", "signal_enum.go", "\t\tif err := se.modifySize(se.sizeFromMaxIndex(index) - se.GetSize()); err != nil {", "\t\tif err := se.modifySize(0); err != nil {"),
    ("C01", "resize-verify-ge", "signal_layout.go", "\tif lastSig.GetRelativeStartPos()+lastSig.GetSize() > newSize {", "\tif lastSig.GetRelativeStartPos()+lastSig.GetSize() >= newSize {"),
    ("C01", "shrink-pulls-one-less", "signal_layout.go", "\t\t\ttmpSig.setRelativeStartPos(tmpSig.GetRelativeStartPos() - amount)", "\t\t\ttmpSig.setRelativeStartPos(tmpSig.GetRelativeStartPos() - amount + 1)"),
    ("C01", "bus-check-after-layout-resize", "message.go", "\tif m.hasSenderNodeInt() {\n\t\tif err := m.senderNodeInt.verifyMessageSize(newSizeByte); err != nil {\n\t\t\treturn err\n\t\t}\n\t}\n\n\tif err := m.signalLayout.resize(newSizeByte * 8); err != nil {\n\t\treturn m.errorf(err)\n\t}\n", "\tif err := m.signalLayout.resize(newSizeByte * 8); err != nil {\n\t\treturn m.errorf(err)\n\t}\n\n\tif m.hasSenderNodeInt() {\n\t\tif err := m.senderNodeInt.verifyMessageSize(newSizeByte); err != nil {\n\t\t\treturn err\n\t\t}\n\t}\n"),
    ("C01", "d36-second-ref-grows-twice", "signal_enum.go", "\tfor _, tmpSig := range se.refs.entries() {\n\t\tif err := tmpSig.modifySize(amount); err != nil {", "\tseenMsg := map[*Message]int{}\n\tfor _, tmpSig := range se.refs.entries() {\n\t\tk := 1\n\t\tif pm := tmpSig.ParentMessage(); pm != nil {\n\t\t\tseenMsg[pm]++\n\t\t\tk = seenMsg[pm]\n\t\t}\n\t\tif err := tmpSig.modifySize(amount * k); err != nil {"),
    ("C07", "rename-skips-mux-table", "signal.go", "\tif canUpdMuxSig {\n\t\ts.parentMuxSig.signalNames.remove(oldName)", "\tif canUpdMuxSig && !s.hasParentMsg() {\n\t\ts.parentMuxSig.signalNames.remove(oldName)"),
    ("C07", "rename-skips-message-table-for-multiplexed", "signal.go", "\tif s.hasParentMsg() {\n\t\tif err := s.parentMsg.verifySignalName(newName); err != nil {\n\t\t\treturn s.errorf(&UpdateNameError{Err: err})\n\t\t}\n\n\t\ts.parentMsg.signalNames.remove(oldName)", "\tif s.hasParentMsg() {\n\t\tif err := s.parentMsg.verifySignalName(newName); err != nil {\n\t\t\treturn s.errorf(&UpdateNameError{Err: err})\n\t\t}\n\t}\n\tif s.hasParentMsg() && !canUpdMuxSig {\n\t\ts.parentMsg.signalNames.remove(oldName)"),
    ("C07", "group-id-bound-gt", "mux_signal.go", "\tif groupID >= ms.groupCount {", "\tif groupID > ms.groupCount {"),
    ("C07", "fixed-insert-misses-last-group", "mux_signal.go", "\t\tfor i := 0; i < ms.groupCount; i++ {\n\t\t\tms.groups[i].insert(signal, startBit)", "\t\tfor i := 0; i < ms.groupCount-1; i++ {\n\t\t\tms.groups[i].insert(signal, startBit)"),
    ("C07", "clear-group-drops-two-group-signal", "mux_signal.go", "\t\tif len(groupIDs) == 1 {\n\t\t\tms.removeSignal(sig)", "\t\tif len(groupIDs) <= 2 {\n\t\t\tms.removeSignal(sig)"),
    ("C07", "shift-allows-two-groups", "mux_signal.go", "\tif err != nil || len(groupIDs) > 1 {\n\t\treturn 0\n\t}\n\n\treturn ms.groups[groupIDs[0]].shiftLeft", "\tif err != nil || len(groupIDs) > 2 {\n\t\treturn 0\n\t}\n\n\treturn ms.groups[groupIDs[0]].shiftLeft"),
    ("C07", "selector-width-of-count", "mux_signal.go", "\treturn calcSizeFromValue(ms.groupCount - 1)", "\treturn calcSizeFromValue(ms.groupCount)"),
    ("C07", "insert-ignores-start-bit-of-present-signal", "mux_signal.go", "\t\t\tif isPresent && startBit != signal.GetRelativeStartPos() {", "\t\t\tif false && startBit != signal.GetRelativeStartPos() {"),
    ("C07", "remove-skips-first-group", "mux_signal.go", "\tfor _, groupID := range groupIDs {\n\t\tms.groups[groupID].remove(signalEntityID)", "\tfor _, groupID := range groupIDs[1:] {\n\t\tms.groups[groupID].remove(signalEntityID)"),
    ("C07", "start-bit-misses-selector", "signal.go", "\t\treturn s.parentMuxSig.GetStartBit() + s.parentMuxSig.GetGroupCountSize() + s.relStartPos", "\t\treturn s.parentMuxSig.GetStartBit() + s.relStartPos"),
]


def sh(cmd, cwd=None, env=None, timeout=900):
    p = subprocess.run(cmd, cwd=cwd, env=env, shell=True, stdout=subprocess.PIPE, stderr=subprocess.STDOUT, timeout=timeout)
    return p.returncode, p.stdout.decode("utf-8", "replace")


def main():
    env = dict(os.environ, GOFLAGS="-mod=mod", GOPROXY="off")
    env.pop("GOTOOLCHAIN", None)
    env.pop("GOSUMDB", None)
    sh("git checkout -q -- . && git status --short", cwd=WT)
    rows = []
    for pid, name, fn, old, new in MUTANTS:
        path = os.path.join(WT, fn)
        src = open(path).read()
        if src.count(old) != 1:
            rows.append((pid, name, "NOT-APPLIED (pattern count %d)" % src.count(old), ""))
            continue
        open(path, "w").write(src.replace(old, new))
        rc, out = sh("go build ./... && go test -count=1 ./... 2>&1 | tail -3", cwd=WT, env=env)
        suite = "suite-pass" if (rc == 0 and "FAIL" not in out) else "suite-FAIL"
        e2 = dict(env, VERIF_REPO=WT)
        rc2, out2 = sh("./check %s --tier quick" % pid, cwd=VERIF, env=e2)
        viol = [l for l in out2.splitlines() if l.startswith("VIOLATION")]
        caught = "CAUGHT (%d)" % len(viol) if rc2 != 0 and viol else "missed"
        first = ""
        for l in out2.splitlines():
            if l.startswith("  ("):
                first = l.strip()[:140]
                break
        rows.append((pid, name, suite, caught + " " + first))
        open(path, "w").write(src)
        print(rows[-1], flush=True)
    sh("git checkout -q -- .", cwd=WT)
    print()
    for r in rows:
        print("%-4s %-45s %-12s %s" % r)


ONLY = os.environ.get('MUT_ONLY')
if ONLY:
    MUTANTS = [m for m in MUTANTS if any(o in m[1] for o in ONLY.split(','))]
main()
