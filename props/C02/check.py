"""C02 — decoding extracts exactly the payload bits; per-byte masks.  Proof: coq/Properties/C02.v over
the model coq/C02/Model.v (generateFilters/computeFilters branch by branch, Decode with the uint64
wrap).  Tie: a Go harness builds layouts through the public API (all 2*2080 single placements; random
multi-signal layouts through edit histories incl. SetType/SetEnum/SetByteOrder/enum edits after
placement), records the view the getters report, Filters() and Decode() on generated payloads; the
extracted model recomputes filters and raw values from the view; the property's own predicates (raw
value = the payload bits, masks cover / never overlap, one result per standard/enum signal in order)
are evaluated by the harness on the implementation's results with big-integer arithmetic."""
import json
import os
import re
import vlib

PID = "C02"


def build_harness(ctx):
    hd = vlib.go_harness_dir(ctx.prop_dir, ctx.scratch)
    exe = os.path.join(ctx.scratch, "c02_harness")
    rc, log = vlib.sh(["go", "build", "-o", exe, "."], cwd=hd, env=vlib.goenv(), timeout=900)
    return (exe if rc == 0 else None), log


def parse_summary(path):
    d = {"hist": {}, "propfail": {}, "samples": []}
    if not os.path.exists(path):
        return d
    for line in open(path):
        line = line.rstrip("\n")
        p = line.split(" ", 2)
        if p[0] == "hist":
            d["hist"][p[1]] = int(p[2])
        elif p[0] == "PROPFAIL":
            d["propfail"][p[1]] = p[2]
        elif p[0] == "sample":
            d["samples"].append(line[7:])
        else:
            d[p[0]] = int(p[1])
    return d


def run_model(exe, cases, scratch, parts=6):
    import subprocess
    lines = open(cases).read().split("\n")
    if lines and lines[-1] == "":
        lines.pop()
    n = max(1, min(parts, vlib.NCPU, len(lines)))
    step = (len(lines) + n - 1) // n
    procs = []
    for i in range(n):
        p = os.path.join(scratch, "part%d.txt" % i)
        with open(p, "w") as f:
            f.write("\n".join(lines[i * step:(i + 1) * step]) + "\n")
        procs.append(subprocess.Popen([exe, p], stdout=subprocess.PIPE, stderr=subprocess.STDOUT))
    total, decs, mism, out, ok, ends = 0, 0, 0, [], True, []
    for pr in procs:
        try:
            o = pr.communicate(timeout=3000)[0].decode("utf-8", "replace")
        except subprocess.TimeoutExpired:
            pr.kill()
            o = "[model driver timeout]"
        m = re.search(r"CASES (\d+) DECODES (\d+) MISMATCHES (\d+)", o)
        ends.extend(int(x) for x in re.findall(r"CASES-END (\d+)", o))
        if not m or pr.returncode != 0:
            ok = False
            out.append(o[-800:])
            continue
        total += int(m.group(1))
        decs += int(m.group(2))
        mism += int(m.group(3))
        if int(m.group(3)):
            out.append(o[:2500])
    # the END marker (written last by the harness, with its own count) must have been reached exactly once
    if len(ends) != 1 or ends[0] != total:
        ok = False
        out.append("END marker of the case file: %r, cases compared: %d" % (ends, total))
    return ok, total, decs, mism, "\n".join(out)


def coq_z(t):
    t = str(t)
    return "(%s)" % t if t.startswith("-") else t


def coq_layout_case(line, max_payloads=40):
    """One harness line as a term of Acme.C02.CrossCheck.xcase (None = skip)."""
    line = line.split(" # ")[0]
    inp, obs = line.split(" ; ", 1)
    if obs.startswith("panic"):
        return None
    t = inp.split()
    i = 1
    n = int(t[i]); i += 1
    sigs = []
    for _ in range(n):
        sid, st, sz, be, k = t[i:i + 5]; i += 5
        sigs.append("mkSig %s %s %s %s %s" % (coq_z(sid), coq_z(st), coq_z(sz), "true" if be == "1" else "false",
                                              {"0": "KStandard", "1": "KEnum", "2": "KMux"}[k]))
    assert t[i] == "P"; i += 1
    npay = int(t[i]); i += 1
    pays = [t[i + j][1:] for j in range(npay)]
    o = obs.split()
    j = 1
    nf = int(o[j]); j += 1
    fs = []
    for _ in range(nf):
        fs.append("mkF %s %s %s %s %s" % tuple(coq_z(x) for x in o[j:j + 5])); j += 5
    assert o[j] == "D"; j += 1
    runs = []
    for pay in pays:
        cnt = int(o[j]); j += 1
        row = []
        for _ in range(cnt):
            row.append("(%s, %s)" % (coq_z(o[j]), coq_z(o[j + 1]))); j += 2
        data = "; ".join(str(int(pay[2 * q:2 * q + 2], 16)) for q in range(len(pay) // 2))
        if len(runs) < max_payloads:
            runs.append("([%s], [%s])" % (data, "; ".join(row)))
    return "mkX [%s] [%s] [%s]" % ("; ".join(sigs), "; ".join(fs), "; ".join(runs))


def vm_cross_check(ctx, drv, cases_path, n_layouts=240, n_hist=150):
    """DESIGN 3.3: sampled layouts (observed Filters()/Decode()) and sampled operation histories (state
    observed after every operation) evaluated inside Coq with vm_compute."""
    lines = [l.rstrip("\n") for l in open(cases_path) if not l.startswith("END ")]
    stepn = max(1, len(lines) // n_layouts)
    terms = [c for c in (coq_layout_case(l) for l in lines[::stepn][:n_layouts]) if c]
    rc, tout = vlib.sh([drv, "--trace-coq", str(n_hist), "4100", cases_path + ".trace"], timeout=1500)
    hists = [l[len("COQ-HISTORY "):] for l in tout.split("\n") if l.startswith("COQ-HISTORY ")]
    src = os.path.join(ctx.scratch, "C02Cross.v")
    with open(src, "w") as f:
        f.write("From Coq Require Import ZArith List.\nFrom Acme.C02 Require Import Model History CrossCheck.\n"
                "Import ListNotations.\nLocal Open Scope Z_scope.\n"
                "Definition cases : list xcase := [\n  " + ";\n  ".join(terms) + "].\n"
                "Definition M := Eval vm_compute in length (mismatches cases).\nPrint M.\n"
                "Definition hists : list (Z * list (list op * hobs)) := [\n  " + ";\n  ".join(hists) + "].\n"
                "Definition HM := Eval vm_compute in hmismatches hists.\nPrint HM.\n")
    rc, out = vlib.sh(["coqc", "-R", vlib.COQ, "Acme", "C02Cross.v"], cwd=ctx.scratch, timeout=1500)
    ok = rc == 0 and re.search(r"M\s*=\s*0%nat", out) is not None and re.search(r"HM\s*=\s*\[\s*\]", out) is not None
    return len(terms), len(hists), ok, out[-1500:]


def run(ctx):
    ctx.level = "proof"
    # floor on Decode calls actually judged (about half of a normal run); a run below it shows nothing
    ctx.min_evaluations = 2000000 if ctx.tier == "thorough" else 150000
    status = vlib.proof_status(PID, extra_targets=["C02/Extract.v", "C02/CrossCheck.v"])
    ctx.proof_gate(status)
    drv = vlib.build_ocaml_driver("c02_driver", os.path.join(vlib.COQ, "extracted"),
                                  os.path.join(ctx.prop_dir, "driver", "c02_driver.ml"),
                                  extra_pkgs=("zarith", "str"), only=["c02_model"])
    exe, blog = build_harness(ctx)
    if exe is None:
        ctx.violation("harness-build-failed", "C02 harness no longer builds against the repository: " + blog[-800:],
                      {"log": blog[-3000:]}, found_input=False)
        ctx.coverage.update({"evaluations": 0})
        return
    out = os.path.join(ctx.scratch, "cases.txt")
    env = vlib.goenv()
    env.update({"VERIF_OUT": out, "VERIF_SEED": str(ctx.seed), "VERIF_TIER": ctx.tier})
    if ctx.replay:
        r = json.load(open(ctx.replay))
        env["VERIF_REPLAY_HISTORY"] = (r.get("replay") or {}).get("history", "")
    rc, log = vlib.sh([exe], env=env, timeout=2700)
    if rc != 0 or not os.path.exists(out + ".summary"):
        m = re.search(r"panic: .*", log)
        ctx.violation("impl-run-failed", "harness run failed (%s): %s" % (m.group(0) if m else "rc=%d" % rc, log[-600:]),
                      {"log": log[-3000:]}, found_input=bool(m))
        ctx.coverage.update({"evaluations": 0})
        return
    summ = parse_summary(out + ".summary")
    ok, total, decs, mism, mlog = run_model(drv, out, ctx.scratch)
    for sig, d in sorted(summ["propfail"].items()):
        hist, detail = d.split(" ## ", 1)
        ctx.violation(sig, "C02 fails on the implementation: %s  [history: %s]" % (detail, hist),
                      {"history": hist, "detail": detail,
                       "ops": "M n: NewMessage of n bytes; NS k size: standard signal k (integer type, signed iff k+size odd); NE k e: enum signal; "
                              "NX k count gsize: multiplexer; EN e min / EA e idx / ER e j / EM e min / EU e j idx / EC e: enum new / "
                              "AddValue / RemoveValue / SetMinSize / UpdateIndex / RemoveAllValues; AP k / IN k start / RM k: "
                              "AppendSignal / InsertSignal / RemoveSignal; BO b: SetByteOrder (1 = big endian); ST k size: SetType; "
                              "SE k e: SetEnum; SL/SR k a: shift; CP: compact; SZ n: UpdateSizeByte",
                       "how": "./check C02 --replay <this file>"})
    # per-operation trace replayed on the state machine of coq/C02/History.v
    trc, tlog = vlib.sh([drv, "--trace", out + ".trace"], timeout=2400)
    tm = re.search(r"TRACE HISTORIES (\d+) STEPS (\d+) MISMATCHES (\d+)", tlog)
    t_hist, t_steps, t_mism = (int(tm.group(1)), int(tm.group(2)), int(tm.group(3))) if tm else (0, 0, -1)
    new_fail = [s for s in summ["propfail"] if not any(k["signature"] == s for k in ctx.known_open)]
    tend = re.search(r"TRACE-END (\d+)", tlog)
    trace_complete = tend is not None and int(tend.group(1)) == t_hist == summ.get("traced_histories", -1)
    if (trc != 0 or t_mism != 0 or not trace_complete or t_steps == 0) and not new_fail:
        ctx.violation("c02-history-correspondence",
                      "the state machine of coq/C02/History.v (byte order of message and signals, geometry, layout order, Filters() after "
                      "every operation) disagrees with the implementation on %s of %s steps; filters_fresh / byte_order_propagates no "
                      "longer speak about this code (trace complete: %s, histories replayed %s, harness traced %s): %s"
                      % (t_mism, t_steps, trace_complete, t_hist, summ.get("traced_histories"), tlog[:900]),
                      {"correspondence": "props/C02 per-operation trace", "driver_output": tlog[:3000]}, found_input=False)
    if (not ok or mism != 0 or total != summ.get("cases", -1)) and not new_fail:
        ctx.violation("c02-correspondence",
                      "model and implementation disagree on %s of %s layout(s) although no new property predicate failed; the "
                      "theorems of Properties/C02.v no longer speak about this code: %s" % (mism, total, mlog[:900]),
                      {"correspondence": "props/C02 Filters()/Decode() comparison", "driver_output": mlog[:3000]},
                      found_input=False)
    if ctx.replay:
        print(open(out).read()[:3000])
        print(open(out + ".summary").read()[:3000])
        print(mlog)
        print(tlog)
    ctx.coverage.update({
        "evaluations": summ.get("decodes", 0),
        "layouts": summ.get("cases", 0),
        "distinct_nontrivial": summ.get("nontrivial", 0),
        "rule": "layouts: (a) every single-signal placement (start 0..63, size 1..64-start, both byte orders; SetByteOrder "
                "before or after InsertSignal alternately; signed/unsigned types) on an 8-byte message x {64 one-hot payloads, "
                "all-ones, 8 (thorough 32) seeded random payloads}; (b) 4000 (thorough 1000000) seeded random histories on messages "
                "of 1..16 bytes, generated while executed so that edit arguments sit at the boundaries of the current layout: up "
                "to 12 standard / enum / multiplexer signals appended or inserted, then up to 8 edits out of SetType (exact fit "
                "+-1, gap in front), SetEnum, enum AddValue (just above the maximum) / RemoveValue / SetMinSize / UpdateIndex / "
                "RemoveAllValues, SetByteOrder, shifts, compact, remove, UpdateSizeByte (byte of the last signal's end +-1) x "
                "{all-ones, 3 one-hot, 6 random, 1 over-long payload}.  Per layout the view reported by the getters, Filters() "
                "and every Decode() are compared with the model; evaluations = Decode calls.  Predicates on the implementation: "
                "byte order propagated, signals and masks inside the payload, Decode does not panic, order, RawValue = payload "
                "bits (big.Int), masks cover, masks disjoint.  Failures caused by a layout that stopped being well-formed are "
                "classified by the first edit that broke it.  Every operation of every history is also replayed on the state "
                "machine of coq/C02/History.v (byte order of message and signals, geometry, order, Filters() after each op; "
                "history_model_steps).  non-trivial = distinct layout view with more than one signal or "
                "a signal crossing a byte boundary",
        "samples": summ["samples"][:8],
        "distribution": summ["hist"],
        "model_mismatches": mism,
        "history_model_histories": t_hist,
        "history_model_steps": t_steps,
        "history_model_mismatches": t_mism,
        "model_layouts": total,
        "model_decodes": decs,
        "property_predicate_failures": sorted(summ["propfail"]),
        "exhaustive": False,
        "trusted_base": [
            "Coq 8.16.1 kernel (coqc; coqchk in the thorough tier); vm_compute used for finite case splits (offsets 0..7, mask shapes)",
            "axioms (Print Assumptions): " + (", ".join(status["axioms"]) if status["axioms"] else "none"),
            "extraction (ExtrOcamlBasic only, no Extract Constant/Inductive of our own) + OCaml 4.13.1 + props/C02/driver/c02_driver.ml (zarith, str)",
            "Go harness props/C02/harness (history interpreter, shrinker, big.Int evaluation of raw_le/raw_be, mask predicates); public API only, no overlay",
            "model coq/C02/Model.v is a hand-written restatement of computeFilters/generateFilters and Decode; tied by the comparison of every filter tuple and raw value above",
        ],
    })
    ctx.assumptions = [
        "the theorems take layout well-formedness (sorted, pairwise disjoint, inside the payload, sizes 1..64: C01's conclusion) as premise; the run judges every layout and classifies failures caused by a broken layout by the edit that broke it",
        "Decode on a payload shorter than the message panics (index out of range): outside the property's quantifier, not exercised",
    ]
    if ctx.tier == "thorough":
        nx, nh, okx, xlog = vm_cross_check(ctx, drv, out)
        ctx.coverage["vm_compute_cross_check"] = {"layouts": nx, "histories": nh, "ok": okx,
                                                  "what": "sampled layouts (observed Filters()/Decode()) and sampled operation histories (state "
                                                          "observed after every operation) evaluated by vm_compute inside Coq "
                                                          "(Acme.C02.CrossCheck: mismatches = 0, hmismatches = [])"}
        if not okx:
            ctx.violation("c02-vm-cross-check", "the in-Coq evaluation of %d sampled layouts / %d histories disagrees with what was observed "
                          "on the implementation (or did not run): %s" % (nx, nh, xlog[-700:]), {"log": xlog}, found_input=False)
        okc, chk = vlib.coqchk(PID)
        ctx.coverage["coqchk"] = "ok" if okc else "FAILED"
        ctx.coverage["coqchk_tail"] = chk[-1500:]
        if not okc:
            ctx.proof_problems = (getattr(ctx, "proof_problems", []) or []) + ["coqchk failed: " + chk[-500:]]
