(* Correspondence driver for C02: reads the case file written by the Go harness (format in
   props/C02/harness/main.go: view of the layout, payloads ; observed filters and decodings,
   optional history after #), recomputes Filters and every Decode with the extracted Coq model
   and prints one MISMATCH line per disagreeing case, first 40. *)
module BZ = Z   (* zarith; the extracted model defines its own module Z *)
open C02_model

let rec pos_of_z (n : BZ.t) : positive =
  if BZ.equal n BZ.one then XH
  else if BZ.testbit n 0 then XI (pos_of_z (BZ.shift_right n 1))
  else XO (pos_of_z (BZ.shift_right n 1))

let coqz_of_z (n : BZ.t) : z =
  if BZ.sign n = 0 then Z0 else if BZ.sign n > 0 then Zpos (pos_of_z n) else Zneg (pos_of_z (BZ.neg n))

let rec z_of_pos = function
  | XH -> BZ.one
  | XO p -> BZ.shift_left (z_of_pos p) 1
  | XI p -> BZ.succ (BZ.shift_left (z_of_pos p) 1)

let z_of_coqz = function Z0 -> BZ.zero | Zpos p -> z_of_pos p | Zneg p -> BZ.neg (z_of_pos p)
let cz s = coqz_of_z (BZ.of_string s)
let czi i = coqz_of_z (BZ.of_int i)
let zs z = BZ.to_string (z_of_coqz z)

(* payload token: 'x' followed by the hex digits (possibly none) *)
let bytes_of_hex h =
  let n = (String.length h - 1) / 2 in
  List.init n (fun i -> czi (int_of_string ("0x" ^ String.sub h (1 + 2 * i) 2)))

(* ---------------------------------------------------------------- trace mode
   c02_driver --trace file: replays the per-operation trace of the harness on the state machine of
   coq/C02/History.v.  Each Go operation is translated into the model operation it is an instance
   of (placements, removal, SetByteOrder, resize by name; every change of start / size of a placed
   signal as OSetGeom, read off the observed view), then the whole predicted state is compared:
   byte order of the message and of every signal, bits, geometry, layout order, Filters(). *)
let kind_of_int = function "1" -> KEnum | "2" -> KMux | _ -> KStandard
let int_of_kind = function KStandard -> 0 | KEnum -> 1 | KMux -> 2

let show_state be bits sigs fs =
  let b = Buffer.create 512 in
  Buffer.add_string b (Printf.sprintf "B %d %s %d" (if be then 1 else 0) bits (List.length sigs));
  List.iter (fun g -> Buffer.add_string b (Printf.sprintf " %s %s %s %d %d" (zs g.s_id) (zs g.s_start) (zs g.s_size)
                                             (if g.s_be then 1 else 0) (int_of_kind g.s_kind))) sigs;
  Buffer.add_string b (Printf.sprintf " F %d" (List.length fs));
  List.iter (fun f -> Buffer.add_string b (Printf.sprintf " %s %s %s %s %s"
                                             (zs f.f_sig) (zs f.f_byte) (zs f.f_mask) (zs f.f_len) (zs f.f_off))) fs;
  Buffer.contents b

(* Coq text of model values, for the vm_compute cross-check of the thorough tier *)
let coq_z z = let t = zs z in if String.length t > 0 && t.[0] = '-' then "(" ^ t ^ ")" else t
let coq_bool b = if b then "true" else "false"
let coq_kind = function KStandard -> "KStandard" | KEnum -> "KEnum" | KMux -> "KMux"
let coq_sig g = Printf.sprintf "mkSig %s %s %s %s %s" (coq_z g.s_id) (coq_z g.s_start) (coq_z g.s_size) (coq_bool g.s_be) (coq_kind g.s_kind)
let coq_filter f = Printf.sprintf "mkF %s %s %s %s %s" (coq_z f.f_sig) (coq_z f.f_byte) (coq_z f.f_mask) (coq_z f.f_len) (coq_z f.f_off)
let coq_list f l = "[" ^ String.concat "; " (List.map f l) ^ "]"
let coq_op = function
  | OAppend (id, size, k, ob) -> Printf.sprintf "OAppend %s %s %s %s" (coq_z id) (coq_z size) (coq_kind k) (coq_bool ob)
  | OInsert (id, st, size, k, ob) -> Printf.sprintf "OInsert %s %s %s %s %s" (coq_z id) (coq_z st) (coq_z size) (coq_kind k) (coq_bool ob)
  | ORemove id -> Printf.sprintf "ORemove %s" (coq_z id)
  | ORemoveAll -> "ORemoveAll"
  | OSetByteOrder b -> Printf.sprintf "OSetByteOrder %s" (coq_bool b)
  | OSetGeom (id, st, size) -> Printf.sprintf "OSetGeom %s %s %s" (coq_z id) (coq_z st) (coq_z size)
  | OResize bits -> Printf.sprintf "OResize %s" (coq_z bits)

let trace_main ?(emit = 0) ?(skip = 0) file =
  let ic = open_in file in
  let steps = ref 0 and bad = ref 0 and hists = ref 0 in
  let emitted = ref 0 and cur_bits = ref "" and cur_steps = ref [] in
  let flush_hist () =
    if !cur_bits <> "" && !emitted < emit && !cur_steps <> [] && !hists > skip then begin
      incr emitted;
      Printf.printf "COQ-HISTORY (%s, [%s])\n" !cur_bits (String.concat "; " (List.rev !cur_steps))
    end;
    cur_steps := [] in
  let applied = ref [] in
  let apply st o = applied := o :: !applied; st := step !st o in
  let st = ref (new_message Z0) in
  (try while true do
      let line = input_line ic in
      match String.split_on_char ' ' line with
      | ["END"; k] -> Printf.printf "TRACE-END %s\n" k
      | ["H"; bits] -> flush_hist (); cur_bits := bits; incr hists; st := new_message (cz bits)
      | "S" :: _ ->
        incr steps;
        let opx, pre, obs = match Str.split (Str.regexp_string " ; ") line with
          | [a; b; c] -> a, b, c | _ -> failwith ("bad trace line " ^ line) in
        let op = List.tl (String.split_on_char ' ' opx) in
        let tok = ref (String.split_on_char ' ' obs) in
        let next () = match !tok with x :: tl -> tok := tl; x | [] -> failwith "short trace line" in
        ignore (next ());
        let obe = next () = "1" in
        let obits = next () in
        let n = int_of_string (next ()) in
        let osigs = List.init n (fun _ ->
            let id = next () in let sta = next () in let sz = next () in let be = next () in let k = next () in
            { s_id = cz id; s_start = cz sta; s_size = cz sz; s_be = (be = "1"); s_kind = kind_of_int k }) in
        let find_obs id = List.find_opt (fun g -> g.s_id = id) osigs in
        let in_model id = List.exists (fun g -> g.s_id = id) (m_sigs !st) in
        let pre_be = (pre = "1") in
        applied := [];
        (match op with
         | ["BO"; b] -> apply st (OSetByteOrder (b = "1"))
         | ["AP"; k] ->
           (match find_obs (cz k) with
            | Some g when not (in_model (cz k)) -> apply st (OAppend (g.s_id, g.s_size, g.s_kind, pre_be))
            | _ -> ())
         | ["IN"; k; _] ->
           (match find_obs (cz k) with
            | Some g when not (in_model (cz k)) -> apply st (OInsert (g.s_id, g.s_start, g.s_size, g.s_kind, pre_be))
            | _ -> ())
         | ["RM"; k] -> if in_model (cz k) && find_obs (cz k) = None then apply st (ORemove (cz k))
         | "SZ" :: _ -> if zs (m_bits !st) <> obits then apply st (OResize (cz obits))
         | _ -> ());
        (* Placements, removal, SetByteOrder and resize are fully determined by the model (append
           position = end of the last signal, insert position and order, removal, no movement): the
           predicted state is compared as it is.  Only the abstracted edits (SetType, SetEnum, enum
           edits, shifts, compact) take their resulting geometry from the observation, as OSetGeom. *)
        let abstracted = match op with
          | ("AP" | "IN" | "RM" | "BO" | "SZ" | "RO") :: _ -> false   (* RO: read-only calls, no model operation *)
          | _ -> true in
        if abstracted then List.iter (fun g ->
            match List.find_opt (fun x -> x.s_id = g.s_id) (m_sigs !st) with
            | Some x when x.s_start <> g.s_start || x.s_size <> g.s_size ->
              apply st (OSetGeom (g.s_id, g.s_start, g.s_size))
            | _ -> ()) osigs;
        if !emitted < emit && !hists > skip then begin
          let ofs = ref [] in
          if next () <> "F" then failwith "expected F";
          let nf = int_of_string (next ()) in
          for _ = 1 to nf do
            let a = next () in let b = next () in let c = next () in let d = next () in let e = next () in
            ofs := { f_sig = cz a; f_byte = cz b; f_mask = cz c; f_len = cz d; f_off = cz e } :: !ofs
          done;
          cur_steps := Printf.sprintf "(%s, mkH %s %s %s %s)" (coq_list coq_op (List.rev !applied)) (coq_bool obe) obits
              (coq_list coq_sig osigs) (coq_list coq_filter (List.rev !ofs)) :: !cur_steps
        end;
        let m = show_state (m_be !st) (zs (m_bits !st)) (m_sigs !st) (filters !st) in
        if m <> obs then begin
          incr bad;
          if !bad <= 30 then Printf.printf "TRACE-MISMATCH step %d op=%s pre=%s\n  impl =%s\n  model=%s\n" !steps opx pre obs m;
          (* resynchronise on the observed state so that one disagreement is counted once *)
          st := { m_be = obe; m_bits = cz obits; m_sigs = osigs; m_cache = m_cache !st }
        end
      | _ -> ()
    done with End_of_file -> ());
  flush_hist ();
  Printf.printf "TRACE HISTORIES %d STEPS %d MISMATCHES %d\n" !hists !steps !bad

let () =
  if Array.length Sys.argv > 2 && Sys.argv.(1) = "--trace" then (trace_main Sys.argv.(2); exit 0);
  if Array.length Sys.argv > 4 && Sys.argv.(1) = "--trace-coq" then
    (trace_main ~emit:(int_of_string Sys.argv.(2)) ~skip:(int_of_string Sys.argv.(3)) Sys.argv.(4); exit 0);
  let ic = open_in Sys.argv.(1) in
  let n = ref 0 and bad = ref 0 and decs = ref 0 in
  (try while true do
      let line = input_line ic in
      if String.length line >= 4 && String.sub line 0 4 = "END " then begin
        Printf.printf "CASES-END %s\n" (String.sub line 4 (String.length line - 4)); raise End_of_file end;
      incr n;
      let line, hist = match Str.bounded_split_delim (Str.regexp_string " # ") line 2 with
        | [a; b] -> a, b | _ -> line, "" in
      let inp, obs = match Str.bounded_split_delim (Str.regexp_string " ; ") line 2 with
        | [a; b] -> a, b | _ -> failwith ("no separator: " ^ line) in
      let tok = ref (List.filter (fun s -> s <> "") (String.split_on_char ' ' inp)) in
      let next () = match !tok with x :: tl -> tok := tl; x | [] -> failwith "short line" in
      if next () <> "C" then failwith "expected C";
      let ns = int_of_string (next ()) in
      let sigs = List.init ns (fun _ ->
          let id = next () in let st = next () in let sz = next () in let be = next () in let k = next () in
          { s_id = cz id; s_start = cz st; s_size = cz sz; s_be = (be = "1");
            s_kind = (match k with "1" -> KEnum | "2" -> KMux | _ -> KStandard) }) in
      if next () <> "P" then failwith "expected P";
      let np = int_of_string (next ()) in
      let pays = List.init np (fun _ -> bytes_of_hex (next ())) in
      (* model observation, same textual form as the harness *)
      let b = Buffer.create 4096 in
      let fs = gen_filters sigs in
      Buffer.add_string b (Printf.sprintf "F %d" (List.length fs));
      List.iter (fun f -> Buffer.add_string b (Printf.sprintf " %s %s %s %s %s"
                                                 (zs f.f_sig) (zs f.f_byte) (zs f.f_mask) (zs f.f_len) (zs f.f_off))) fs;
      Buffer.add_string b " D";
      List.iter (fun p ->
          incr decs;
          let r = decode sigs p in
          Buffer.add_string b (Printf.sprintf " %d" (List.length r));
          List.iter (fun (id, raw) -> Buffer.add_string b (Printf.sprintf " %s %s" (zs id) (zs raw))) r) pays;
      let m = Buffer.contents b in
      if obs <> "panic" && m <> obs then begin
        incr bad;
        if !bad <= 40 then begin
          let cut s = if String.length s > 600 then String.sub s 0 600 ^ "..." else s in
          Printf.printf "MISMATCH %d view=%s hist=%s\n  impl =%s\n  model=%s\n" !n
            (cut (List.hd (Str.split (Str.regexp_string " P ") inp))) hist (cut obs) (cut m)
        end
      end
    done with End_of_file -> ());
  Printf.printf "CASES %d DECODES %d MISMATCHES %d\n" !n !decs !bad
