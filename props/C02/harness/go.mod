module verif/c02

go 1.24.0

require github.com/squadracorsepolito/acmelib v0.0.0

replace github.com/squadracorsepolito/acmelib => /repo
