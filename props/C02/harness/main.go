// C02 harness: builds message layouts through the public API of acmelib (single placements
// exhaustively, multi-signal layouts through edit histories incl. post-placement type / enum /
// byte-order edits), records the current view of the layout (start, size, byte order, kind of
// every signal as the getters report them), SignalLayout.Filters() and SignalLayout.Decode()
// on generated payloads for the extracted Coq model, and evaluates the property's own predicates
// (raw value = the payload bits the signal occupies, masks cover / do not overlap, one result per
// standard/enum signal in order) directly on the implementation's results.
//
// line:  C n (id start size be kind)* P k xHEX* ; F m (sig byte mask len off)* D (cnt (id raw)*)* # history
package main

import (
	"bufio"
	"encoding/hex"
	"fmt"
	"io"
	"math/big"
	"math/bits"
	"os"
	"sort"
	"strconv"
	"strings"

	acmelib "github.com/squadracorsepolito/acmelib"
)

type rng struct{ s uint64 }

func (r *rng) next() uint64 {
	r.s += 0x9E3779B97F4A7C15
	z := r.s
	z = (z ^ (z >> 30)) * 0xBF58476D1CE4E5B9
	z = (z ^ (z >> 27)) * 0x94D049BB133111EB
	return z ^ (z >> 31)
}
func (r *rng) below(n int) int { return int(r.next() % uint64(n)) }

// ---------------------------------------------------------------------------- observation

type sigView struct {
	id, start, size int
	be              bool
	kind            int // 0 standard, 1 enum, 2 multiplexer
}

type filt struct{ sig, byteIdx, mask, length, off int }

type obs struct {
	roBroken        string
	orderReattached bool
	editPanic       string // "<op kind>[-shared-enum]" when an edit operation panicked
	editPanicMsg    string
	nilEntries      int    // nil pointers found in the slices returned by Decode
	orderBrokenBy   string // first op after which a signal's byte order differed from the message's
	brokenBy        string // first edit after which the layout was no longer well-formed ("" = never)
	msgBE           bool   // Message.ByteOrder() == big endian
	view            []sigView
	filters         []filt
	decodes         [][][2]uint64 // per payload: (id, raw)
	panicked        string
}

type world struct {
	net      *acmelib.Network // the message is sent by an interface of a node on a bus of this network
	bus      *acmelib.Bus     // (messages of at most 8 bytes), so that the exporters / saver reach it
	roBroken string           // a read-only library call changed the layout / Filters() / Decode()
	msg2     *acmelib.Message // a second message, only for the re-attachment scenario (D20)
	msg      *acmelib.Message
	sigs     []acmelib.Signal // by harness number
	ids      map[acmelib.EntityID]int
	enums    []*acmelib.SignalEnum
	enumVal  [][]*acmelib.SignalEnumValue
	nval     int
	// first edit operation after which the view of the layout stopped being well-formed
	// (sorted, pairwise disjoint, inside the payload), with "-shared-enum" appended when it is an
	// enum edit and at least two placed signals refer to that enum
	brokenBy string
	// first operation after which some signal of the layout did not carry the byte order of the
	// message (checked after every operation, not only at the end)
	orderBrokenBy   string
	orderReattached bool // ... and that signal's ParentMessage is another message (D20 re-attachment)
	// an edit operation panicked: kind of the op (+ "-shared-enum"), panic text; the history stops there
	editPanic    string
	editPanicMsg string
	// the history stops at the first edit that breaks the layout or panics: what is judged is the
	// state right after that edit, nothing later can be blamed on it or hide behind it
	stopped bool
	trace   *bufio.Writer // per-op trace for the state-machine model (nil = off)
}

// traceOut: when set, the next world created records a trace (primary run of a case only)
var traceOut *bufio.Writer

func kindOf(s acmelib.Signal) int {
	switch s.Kind() {
	case acmelib.SignalKindEnum:
		return 1
	case acmelib.SignalKindMultiplexer:
		return 2
	}
	return 0
}

func observe(w *world, payloads [][]byte) (o obs) {
	defer func() {
		if r := recover(); r != nil {
			o.panicked = fmt.Sprint(r)
		}
	}()
	sl := w.msg.SignalLayout()
	o.brokenBy = w.brokenBy
	o.orderBrokenBy = w.orderBrokenBy
	o.orderReattached = w.orderReattached
	o.roBroken = w.roBroken
	o.editPanic, o.editPanicMsg = w.editPanic, w.editPanicMsg
	o.msgBE = w.msg.ByteOrder() == acmelib.MessageByteOrderBigEndian
	for _, s := range w.msg.Signals() { // layout order
		o.view = append(o.view, sigView{w.ids[s.EntityID()], s.GetRelativeStartPos(), s.GetSize(),
			s.Endianness() == acmelib.MessageByteOrderBigEndian, kindOf(s)})
	}
	for _, f := range sl.Filters() {
		o.filters = append(o.filters, filt{w.ids[f.Signal().EntityID()], f.ByteIndex(), int(f.Mask()), f.Length(), f.LeftOffset()})
	}
	for _, p := range payloads {
		row := [][2]uint64{}
		for _, d := range sl.Decode(p) {
			if d == nil { // "one result per standard or enum signal": a nil entry is not a result
				o.nilEntries++
				continue
			}
			row = append(row, [2]uint64{uint64(w.ids[d.Signal.EntityID()]), d.RawValue})
		}
		o.decodes = append(o.decodes, row)
	}
	return o
}

func caseLine(o obs, payloads [][]byte, hist string) string {
	var sb strings.Builder
	fmt.Fprintf(&sb, "C %d", len(o.view))
	for _, v := range o.view {
		be := 0
		if v.be {
			be = 1
		}
		fmt.Fprintf(&sb, " %d %d %d %d %d", v.id, v.start, v.size, be, v.kind)
	}
	fmt.Fprintf(&sb, " P %d", len(payloads))
	for _, p := range payloads {
		sb.WriteString(" x" + hex.EncodeToString(p)) // "x" keeps an empty payload a token
	}
	sb.WriteString(" ; ")
	if o.panicked != "" {
		sb.WriteString("panic")
	} else {
		fmt.Fprintf(&sb, "F %d", len(o.filters))
		for _, f := range o.filters {
			fmt.Fprintf(&sb, " %d %d %d %d %d", f.sig, f.byteIdx, f.mask, f.length, f.off)
		}
		sb.WriteString(" D")
		for _, row := range o.decodes {
			fmt.Fprintf(&sb, " %d", len(row))
			for _, d := range row {
				fmt.Fprintf(&sb, " %d %d", d[0], d[1])
			}
		}
	}
	if hist != "" {
		sb.WriteString(" # " + hist)
	}
	return sb.String()
}

// ---------------------------------------------------------------------------- property predicates

func leNumber(data []byte) *big.Int {
	rev := make([]byte, len(data))
	for i, b := range data {
		rev[len(data)-1-i] = b
	}
	return new(big.Int).SetBytes(rev)
}

func rawSpec(v sigView, data []byte) uint64 {
	var x *big.Int
	if v.be {
		x = new(big.Int).SetBytes(data) // BE number
		x.Rsh(x, uint(8*len(data)-v.start-v.size))
	} else {
		x = leNumber(data)
		x.Rsh(x, uint(v.start))
	}
	m := new(big.Int).Lsh(big.NewInt(1), uint(v.size))
	x.Mod(x, m)
	return x.Uint64()
}

func isD08(v sigView) bool {
	return v.be && v.start/8 == (v.start+v.size-1)/8 && 2*(v.start%8)+v.size != 8
}

type failure struct {
	class  string // failure kind, without the history suffix
	detail string
}

// wellFormed: sorted, disjoint, sizes 1..64, inside the payload (what C01 guarantees); the
// predicates about bits are only evaluated on such views.
func wellFormed(view []sigView, nbits int) bool {
	prevEnd := 0
	for _, v := range view {
		// the 64-bit bound concerns decoded signals; a multiplexer (never decoded) may be wider
		if v.start < prevEnd || v.size < 1 || (v.size > 64 && v.kind != 2) || v.start+v.size > nbits {
			return false
		}
		prevEnd = v.start + v.size
	}
	return true
}

// layoutClass: failures that are consequences of a layout that stopped being well-formed are
// classified by the edit that broke it (the cause), not by the symptom
func layoutClass(o obs, symptom string) string {
	if o.brokenBy != "" {
		return "c02-layout-broken-by-" + o.brokenBy
	}
	return symptom
}

// lsbAnchoredOverlap: the overlap of x's filter fx with fy is the recorded finding D08 exactly when
// x has the D08 shape, fx is the LSB-anchored mask the code is known to produce for it
// (decode_be_one_byte_spec) and the Motorola mask for the same signal would not touch fy
func lsbAnchoredOverlap(x sigView, fx, fy filt) bool {
	if !isD08(x) || x.size > 8 {
		return false
	}
	t := x.start % 8
	lsb := ((1 << uint(x.size)) - 1) << uint(t)
	motorola := ((1 << uint(x.size)) - 1) << uint(8-t-x.size)
	return fx.mask == lsb&0xff && fx.off == t && fx.length == x.size && motorola&fy.mask == 0
}

func sigInside(v sigView, nbits int) bool {
	return v.start >= 0 && v.size >= 1 && (v.size <= 64 || v.kind == 2) && v.start+v.size <= nbits
}

func checkProps(o obs, payloads [][]byte, nbits int) []failure {
	fails := []failure{}
	if o.editPanic != "" {
		// an edit operation of the public API panicked: nothing after it can be judged, and it is a
		// failure by itself (classified by the operation; known only in the recorded shapes)
		return []failure{{"c02-edit-op-panic-" + o.editPanic, o.editPanicMsg}}
	}
	if strings.HasPrefix(o.panicked, "history: ") {
		return []failure{{"c02-harness-panic", o.panicked}}
	}
	// the byte order of the message is the byte order of every signal in its layout (the spec
	// below reads the payload in the message's byte order)
	if o.roBroken != "" {
		return []failure{{"c02-read-only-call-changed-layout", o.roBroken}}
	}
	if o.orderBrokenBy != "" && o.orderReattached {
		return []failure{{"c02-byte-order-flipped-by-reattachment", "a signal of the layout was accepted by a second message and took its byte order: " + o.orderBrokenBy}}
	}
	if o.orderBrokenBy != "" {
		return []failure{{"c02-byte-order-not-propagated", "a signal of the layout does not carry the byte order of the message after " + o.orderBrokenBy}}
	}
	for _, v := range o.view {
		if v.be != o.msgBE {
			return []failure{{"c02-byte-order-not-propagated", fmt.Sprintf("message big-endian=%v but signal %d (start %d size %d) reports big-endian=%v",
				o.msgBE, v.id, v.start, v.size, v.be)}}
		}
	}
	byID := map[int]sigView{}
	wantOrder := []int{}
	allInside := true
	for _, v := range o.view {
		byID[v.id] = v
		if v.kind != 2 {
			wantOrder = append(wantOrder, v.id)
		}
		// every signal (hence every mask) lies inside the payload of the message
		if !sigInside(v, nbits) {
			allInside = false
			fails = append(fails, failure{layoutClass(o, "c02-signal-outside-payload"), fmt.Sprintf("signal %d start %d size %d does not fit the %d payload bits of the message", v.id, v.start, v.size, nbits)})
		}
	}
	if o.panicked != "" {
		// Decode on a payload at least as long as the message must not panic
		cl := "c02-decode-panic"
		if !allInside {
			cl = layoutClass(o, "c02-decode-panic-signal-outside-payload")
		}
		return append(fails, failure{cl, "Decode panicked: " + o.panicked})
	}
	for _, f := range o.filters {
		if f.byteIdx < 0 || 8*f.byteIdx >= nbits {
			fails = append(fails, failure{layoutClass(o, "c02-mask-outside-payload"), fmt.Sprintf("filter of signal %d on byte %d of a %d-byte message", f.sig, f.byteIdx, nbits/8)})
			break
		}
	}
	if o.nilEntries > 0 {
		fails = append(fails, failure{"c02-decode-nil-entry", fmt.Sprintf("Decode returned %d nil entr(y/ies) (one per multiplexer signal of the layout) among its results", o.nilEntries)})
	}
	// one result per standard / enum signal, in layout order, with exactly the payload bits
	for pi, row := range o.decodes {
		if len(row) != len(wantOrder) {
			fails = append(fails, failure{"c02-order", fmt.Sprintf("%d results for %d standard/enum signals", len(row), len(wantOrder))})
			break
		}
		for i, d := range row {
			if int(d[0]) != wantOrder[i] {
				fails = append(fails, failure{"c02-order", fmt.Sprintf("result %d is signal %d, layout order has %d", i, d[0], wantOrder[i])})
				break
			}
			v := byID[int(d[0])]
			if !sigInside(v, nbits) {
				continue
			}
			if exp := rawSpec(v, payloads[pi]); exp != d[1] {
				cl := "c02-raw-le"
				if v.be {
					cl = "c02-raw-be"
					// the known finding is exactly "read with the LSB-anchored offset" (theorem
					// decode_be_one_byte_spec): any other value for that shape is a different failure
					lsb := v
					lsb.be = false
					if isD08(v) && d[1] == rawSpec(lsb, payloads[pi]) {
						cl = "c02-be-one-byte-lsb-anchored"
					}
				}
				fails = append(fails, failure{cl, fmt.Sprintf("signal %d start %d size %d be=%v payload %x: RawValue %d, the payload bits are %d",
					v.id, v.start, v.size, v.be, payloads[pi], d[1], exp)})
			}
		}
	}
	// masks: cover each signal's size, never share a payload bit between two signals
	pop := map[int]int{}
	for _, f := range o.filters {
		pop[f.sig] += bits.OnesCount8(uint8(f.mask))
	}
	for _, v := range o.view {
		if pop[v.id] != v.size {
			fails = append(fails, failure{"c02-mask-cover", fmt.Sprintf("signal %d size %d: masks cover %d bits", v.id, v.size, pop[v.id])})
		}
	}
	for i, f := range o.filters {
		for _, g := range o.filters[i+1:] {
			if f.sig != g.sig && f.byteIdx == g.byteIdx && f.mask&g.mask != 0 {
				cl := "c02-mask-overlap"
				a, b := byID[f.sig], byID[g.sig]
				if a.start < b.start+b.size && b.start < a.start+a.size {
					cl = layoutClass(o, "c02-mask-overlap-signals-overlap") // the signals themselves overlap
				} else if lsbAnchoredOverlap(a, f, g) || lsbAnchoredOverlap(b, g, f) {
					cl = "c02-be-one-byte-lsb-anchored"
				}
				fails = append(fails, failure{cl, fmt.Sprintf("signals %d (start %d size %d) and %d (start %d size %d) share bits %08b of byte %d",
					f.sig, byID[f.sig].start, byID[f.sig].size, g.sig, byID[g.sig].start, byID[g.sig].size, f.mask&g.mask, f.byteIdx)})
			}
		}
	}
	return fails
}

// ---------------------------------------------------------------------------- histories

// ops (tokens separated by ','):
//
//	M n            new message of n bytes (always first)
//	NS k size      standard signal k with an integer type of `size` bits (signed iff k+size is odd)
//	NE k e         enum signal k on enum e          NX k count gsize   multiplexer signal k
//	EN e min       new enum e                        EA e idx  ER e j  EM e min  EU e j idx  EC e
//	AP k           AppendSignal    IN k start  InsertSignal    RM k  RemoveSignal
//	BO b           SetByteOrder    ST k size   SetType (new type)   SE k e  SetEnum
//	SL k a / SR k a  shift         CP compact  SZ n  UpdateSizeByte
//
// snapshot of everything the property observes about the layout: the view, Filters(), one Decode
func layoutSnapshot(w *world) string {
	var sb strings.Builder
	for _, v := range currentView(w) {
		fmt.Fprintf(&sb, "%d:%d:%d:%v:%d ", v.id, v.start, v.size, v.be, v.kind)
	}
	sb.WriteString("| ")
	for _, x := range w.msg.SignalLayout().Filters() {
		fmt.Fprintf(&sb, "%d:%d:%d:%d:%d ", w.ids[x.Signal().EntityID()], x.ByteIndex(), int(x.Mask()), x.Length(), x.LeftOffset())
	}
	sb.WriteString("| ")
	data := make([]byte, w.msg.SizeByte())
	for i := range data {
		data[i] = byte(0xA5 ^ (37 * i))
	}
	func() {
		defer func() {
			if r := recover(); r != nil {
				fmt.Fprintf(&sb, "panic:%v", r)
			}
		}()
		for _, d := range w.msg.SignalLayout().Decode(data) {
			if d != nil {
				fmt.Fprintf(&sb, "%d=%d ", w.ids[d.Signal.EntityID()], d.RawValue)
			}
		}
	}()
	return sb.String()
}

// readOnlyCalls: library calls that only read the model (printing, getters, DBC / Markdown export,
// saving) must leave the layout, Filters() and Decode() exactly as they were
func readOnlyCalls(w *world) {
	if w.msg == nil || w.roBroken != "" {
		return
	}
	before := layoutSnapshot(w)
	calls := []struct {
		name string
		f    func()
	}{
		{"Message.String", func() { _ = w.msg.String() }},
		{"SignalLayout.String", func() { _ = w.msg.SignalLayout().String() }},
		{"Message.Signals+SignalNames", func() { _ = w.msg.Signals(); _ = w.msg.SignalNames() }},
		{"SignalLayout.Filters", func() { _ = w.msg.SignalLayout().Filters() }},
	}
	if w.bus != nil {
		calls = append(calls,
			struct {
				name string
				f    func()
			}{"ExportBus", func() { acmelib.ExportBus(io.Discard, w.bus) }},
			struct {
				name string
				f    func()
			}{"ExportToMarkdown", func() { _ = acmelib.ExportToMarkdown(w.net, io.Discard) }},
			struct {
				name string
				f    func()
			}{"SaveNetwork", func() {
				_ = acmelib.SaveNetwork(w.net, acmelib.SaveEncodingWire|acmelib.SaveEncodingJSON|acmelib.SaveEncodingText, io.Discard, io.Discard, io.Discard)
			}})
	}
	for _, c := range calls {
		func() {
			defer func() { _ = recover() }() // a panic of an exporter is C16/C15's business, the layout is ours
			c.f()
		}()
		if after := layoutSnapshot(w); after != before {
			w.roBroken = fmt.Sprintf("%s changed the layout: before [%s] after [%s]", c.name, before, after)
			w.stopped = true
			return
		}
	}
}

func newWorld() *world { return &world{ids: map[acmelib.EntityID]int{}, trace: traceOut} }

func currentView(w *world) []sigView {
	v := []sigView{}
	for _, s := range w.msg.Signals() {
		v = append(v, sigView{w.ids[s.EntityID()], s.GetRelativeStartPos(), s.GetSize(),
			s.Endianness() == acmelib.MessageByteOrderBigEndian, kindOf(s)})
	}
	return v
}

// placedRefs counts the signals placed in the message that refer to enum e
func placedRefs(w *world, e int) int {
	n := 0
	if e < 0 || e >= len(w.enums) {
		return 0
	}
	for _, s := range w.msg.Signals() {
		if es, err := s.ToEnum(); err == nil && es.Enum() == w.enums[e] {
			n++
		}
	}
	return n
}

func runHistory(ops []string) *world {
	w := newWorld()
	for _, op := range ops {
		applyOp(w, op)
	}
	return w
}

// applyOp executes one operation and records the first one that breaks the layout
func applyOp(w *world, op string) {
	f := strings.Fields(op)
	if len(f) == 0 || w.stopped {
		return
	}
	// pre-state facts the verdict on this one edit is decided from
	var preView []sigView
	preWf := false
	enumIdx, enumPre := -1, 0
	refs := map[int]bool{}
	if w.msg != nil {
		preView = currentView(w)
		preWf = wellFormed(preView, 8*w.msg.SizeByte())
		if len(f) > 1 && strings.HasPrefix(f[0], "E") && f[0] != "EN" {
			if e, err := strconv.Atoi(f[1]); err == nil && e >= 0 && e < len(w.enums) {
				enumIdx, enumPre = e, w.enums[e].GetSize()
				for _, sg := range w.msg.Signals() {
					if es, err := sg.ToEnum(); err == nil && es.Enum() == w.enums[e] {
						refs[w.ids[sg.EntityID()]] = true
					}
				}
			}
		}
	}
	shared := ""
	if len(refs) >= 2 {
		shared = "-shared-enum"
	}
	pre := "-"
	if w.trace != nil && (f[0] == "AP" || f[0] == "IN") && len(f) > 1 {
		if k, err := strconv.Atoi(f[1]); err == nil && k >= 0 && k < len(w.sigs) && w.sigs[k] != nil {
			pre = "0"
			if w.sigs[k].Endianness() == acmelib.MessageByteOrderBigEndian {
				pre = "1"
			}
		}
	}
	func() {
		defer func() {
			if r := recover(); r != nil {
				w.editPanic, w.editPanicMsg, w.stopped = f[0]+shared, fmt.Sprintf("%s panicked: %v", strings.Join(f, " "), r), true
			}
		}()
		doOp(w, f)
	}()
	if w.stopped {
		return
	}
	if w.msg != nil && preWf {
		post := currentView(w)
		if !wellFormed(post, 8*w.msg.SizeByte()) {
			// this edit broke a well-formed layout: is it, by its values, an instance of a recorded finding?
			known := false
			if enumIdx >= 0 && len(post) == len(preView) {
				enumPost := w.enums[enumIdx].GetSize()
				delta := enumPost - enumPre
				same, maxPush := true, 0
				for i, v := range post {
					p := preView[i]
					if v.id != p.id {
						same = false
						break
					}
					if refs[v.id] {
						if v.size != enumPost {
							same = false
						}
					} else if v.size != p.size {
						same = false
					}
					if v.start < p.start {
						same = false
					}
					if v.start-p.start > maxPush {
						maxPush = v.start - p.start
					}
				}
				switch f[0] {
				case "EM":
					// D03: SetMinSize grows the referring signals in place, nothing is verified or moved
					known = same && delta > 0 && len(refs) >= 1 && maxPush == 0
				case "EA", "EU":
					// D36: >= 2 placed signals on the enum, each grows by the enum's growth, followers
					// are pushed right by at most that growth per referring signal, nothing else changes
					known = same && delta > 0 && len(refs) >= 2 && maxPush <= len(refs)*delta
				}
			}
			if known {
				w.brokenBy = f[0] + shared
			} else {
				w.brokenBy = "unexpected-" + f[0] + shared
			}
			w.stopped = true
		}
	}
	if w.msg != nil && w.orderBrokenBy == "" {
		mbe := w.msg.ByteOrder() == acmelib.MessageByteOrderBigEndian
		for _, v := range currentView(w) {
			if v.be != mbe {
				w.orderBrokenBy = fmt.Sprintf("%s (message big-endian=%v, signal %d big-endian=%v)", strings.Join(f, " "), mbe, v.id, v.be)
				// known shape, by value: the signal has been accepted by another message (D20), its
				// ParentMessage is no longer the message whose layout still holds it
				if sg := w.sigs[v.id]; sg != nil && sg.ParentMessage() != w.msg {
					w.orderReattached = true
				}
				w.stopped = true
				break
			}
		}
	}
	if w.trace != nil && w.msg != nil {
		traceStep(w, f, pre)
	}
}

// traceStep: one line per operation that can touch the message, with everything the state-machine
// model (coq/C02/History.v) predicts: byte order of the message and of every signal, geometry,
// layout order, Filters().
//
//	H bits                                  (after M)
//	S op args ; pre ; B msgBE bits n (id start size be kind)* F m (sig byte mask len off)*
func traceStep(w *world, f []string, pre string) {
	switch f[0] {
	case "NS", "NE", "NX", "EN", "M2", "BO2", "AP2":
		return // creation of detached entities; operations on the second message (outside the one-message model)
	case "M":
		fmt.Fprintf(w.trace, "H %d\n", 8*w.msg.SizeByte())
		return
	}
	var sb strings.Builder
	fmt.Fprintf(&sb, "S %s ; %s ; B %d %d", strings.Join(f, " "), pre, b2i(w.msg.ByteOrder() == acmelib.MessageByteOrderBigEndian), 8*w.msg.SizeByte())
	view := currentView(w)
	fmt.Fprintf(&sb, " %d", len(view))
	for _, v := range view {
		fmt.Fprintf(&sb, " %d %d %d %d %d", v.id, v.start, v.size, b2i(v.be), v.kind)
	}
	fl := w.msg.SignalLayout().Filters()
	fmt.Fprintf(&sb, " F %d", len(fl))
	for _, x := range fl {
		fmt.Fprintf(&sb, " %d %d %d %d %d", w.ids[x.Signal().EntityID()], x.ByteIndex(), int(x.Mask()), x.Length(), x.LeftOffset())
	}
	fmt.Fprintln(w.trace, sb.String())
}

func b2i(b bool) int {
	if b {
		return 1
	}
	return 0
}

func doOp(w *world, f []string) {
	at := func(f []string, i int) int { v, _ := strconv.Atoi(f[i]); return v }
	getSig := func(k int) acmelib.Signal {
		if k < 0 || k >= len(w.sigs) {
			return nil
		}
		return w.sigs[k]
	}
	setSig := func(k int, s acmelib.Signal) {
		for len(w.sigs) <= k {
			w.sigs = append(w.sigs, nil)
		}
		w.sigs[k] = s
		w.ids[s.EntityID()] = k
	}
	{
		switch f[0] {
		case "M":
			w.msg = acmelib.NewMessage("m", 1, at(f, 1))
			if at(f, 1) <= 8 {
				w.net = acmelib.NewNetwork("net")
				w.bus = acmelib.NewBus("bus")
				node := acmelib.NewNode("node", 1, 1)
				if w.net.AddBus(w.bus) == nil && w.bus.AddNodeInterface(node.Interfaces()[0]) == nil &&
					node.Interfaces()[0].AddSentMessage(w.msg) == nil {
				} else {
					w.net, w.bus = nil, nil
				}
			}
		case "RO":
			readOnlyCalls(w)
		case "NS":
			// signedness does not matter for the layout; RawValue must be the payload bits either way
			t, err := acmelib.NewIntegerSignalType(fmt.Sprintf("t%d", at(f, 2)), at(f, 2), (at(f, 1)+at(f, 2))%2 == 1)
			if err != nil {
				return
			}
			if (at(f, 1)+at(f, 2))%3 == 0 {
				t = t.Clone() // a cloned type must lay out and decode like the original
			}
			s, _ := acmelib.NewStandardSignal(fmt.Sprintf("s%d", at(f, 1)), t)
			setSig(at(f, 1), s)
		case "NE":
			if at(f, 2) >= len(w.enums) {
				return
			}
			s, _ := acmelib.NewEnumSignal(fmt.Sprintf("s%d", at(f, 1)), w.enums[at(f, 2)])
			setSig(at(f, 1), s)
		case "NX":
			s, err := acmelib.NewMultiplexerSignal(fmt.Sprintf("s%d", at(f, 1)), at(f, 2), at(f, 3))
			if err != nil {
				return
			}
			setSig(at(f, 1), s)
		case "EN":
			e := acmelib.NewSignalEnum(fmt.Sprintf("e%d", at(f, 1)))
			e.SetMinSize(at(f, 2))
			w.enums = append(w.enums, e)
			w.enumVal = append(w.enumVal, nil)
		case "EA", "ER", "EM", "EU", "EC":
			e := at(f, 1)
			if e >= len(w.enums) {
				return
			}
			switch f[0] {
			case "EA":
				w.nval++
				v := acmelib.NewSignalEnumValue(fmt.Sprintf("v%d", w.nval), at(f, 2))
				if w.enums[e].AddValue(v) == nil {
					w.enumVal[e] = append(w.enumVal[e], v)
				}
			case "ER":
				if j := at(f, 2); j < len(w.enumVal[e]) {
					if w.enums[e].RemoveValue(w.enumVal[e][j].EntityID()) == nil {
						w.enumVal[e] = append(w.enumVal[e][:j:j], w.enumVal[e][j+1:]...)
					}
				}
			case "EM":
				w.enums[e].SetMinSize(at(f, 2))
			case "EU":
				if j := at(f, 2); j < len(w.enumVal[e]) {
					_ = w.enumVal[e][j].UpdateIndex(at(f, 3))
				}
			case "EC":
				w.enums[e].RemoveAllValues()
				w.enumVal[e] = nil
			}
		case "AP":
			if s := getSig(at(f, 1)); s != nil && s.ParentMessage() == nil {
				_ = w.msg.AppendSignal(s)
			}
		case "IN":
			if s := getSig(at(f, 1)); s != nil && s.ParentMessage() == nil {
				_ = w.msg.InsertSignal(s, at(f, 2))
			}
		case "RM":
			if s := getSig(at(f, 1)); s != nil {
				_ = w.msg.RemoveSignal(s.EntityID())
			}
		case "BO":
			if at(f, 1) == 1 {
				w.msg.SetByteOrder(acmelib.MessageByteOrderBigEndian)
			} else {
				w.msg.SetByteOrder(acmelib.MessageByteOrderLittleEndian)
			}
		case "ST":
			if s := getSig(at(f, 1)); s != nil {
				if ss, err := s.ToStandard(); err == nil {
					if t, err := acmelib.NewIntegerSignalType(fmt.Sprintf("t%d", at(f, 2)), at(f, 2), false); err == nil {
						if at(f, 2)%2 == 0 {
							t = t.Clone()
						}
						_ = ss.SetType(t)
					}
				}
			}
		case "SE":
			if s := getSig(at(f, 1)); s != nil && at(f, 2) < len(w.enums) {
				if es, err := s.ToEnum(); err == nil {
					_ = es.SetEnum(w.enums[at(f, 2)])
				}
			}
		case "SL":
			if s := getSig(at(f, 1)); s != nil {
				w.msg.ShiftSignalLeft(s.EntityID(), at(f, 2))
			}
		case "SR":
			if s := getSig(at(f, 1)); s != nil {
				w.msg.ShiftSignalRight(s.EntityID(), at(f, 2))
			}
		case "CP":
			w.msg.CompactSignals()
		case "SZ":
			_ = w.msg.UpdateSizeByte(at(f, 1))
		case "M2":
			w.msg2 = acmelib.NewMessage("m2", 2, at(f, 1))
		case "BO2":
			if w.msg2 != nil {
				if at(f, 1) == 1 {
					w.msg2.SetByteOrder(acmelib.MessageByteOrderBigEndian)
				} else {
					w.msg2.SetByteOrder(acmelib.MessageByteOrderLittleEndian)
				}
			}
		case "AP2":
			// AppendSignal into the SECOND message, whether or not the signal is placed in the first
			if s := getSig(at(f, 1)); s != nil && w.msg2 != nil {
				_ = w.msg2.AppendSignal(s)
			}
		}
	}
}

func safeRun(ops []string, payloadsFor func(nbytes int) [][]byte) (o obs, payloads [][]byte, nbits int) {
	defer func() {
		if r := recover(); r != nil {
			o.panicked = "history: " + fmt.Sprint(r)
		}
	}()
	w := runHistory(ops)
	nbits = 8 * w.msg.SizeByte()
	payloads = payloadsFor(w.msg.SizeByte())
	o = observe(w, payloads)
	return
}

func hasClass(fs []failure, class string) bool {
	for _, f := range fs {
		if f.class == class {
			return true
		}
	}
	return false
}

// shrink: drop single ops (never the leading M) while the same failure class persists
func shrink(ops []string, class string, payloadsFor func(int) [][]byte) []string {
	cur := append([]string{}, ops...)
	for changed := true; changed; {
		changed = false
		for i := len(cur) - 1; i >= 1; i-- {
			cand := append(append([]string{}, cur[:i]...), cur[i+1:]...)
			o, p, nb := safeRun(cand, payloadsFor)
			if hasClass(checkProps(o, p, nb), class) {
				cur = cand
				changed = true
			}
		}
	}
	return cur
}

func lastEdit(ops []string) string {
	for i := len(ops) - 1; i >= 0; i-- {
		f := strings.Fields(ops[i])
		switch f[0] {
		case "ST", "SE", "EA", "ER", "EM", "EU", "EC", "BO", "AP", "IN", "RM", "SL", "SR", "CP", "SZ":
			return f[0]
		}
	}
	return "none"
}

// ---------------------------------------------------------------------------- recorder

type failRec struct {
	size   int
	line   string
	detail string
	hist   string
}

type recorder struct {
	w          *bufio.Writer
	cases      int
	decodes    int
	hist       map[string]int
	fails      map[string]failRec
	nontrivial map[string]struct{}
	samples    []string
	skippedWf  int
	tw         *bufio.Writer // trace file
	traced     int
	traceMax   int
}

// primaryRun runs a case once with the per-op trace switched on (shrinking re-runs are untraced)
func (rc *recorder) primaryRun(ops []string, pf func(int) [][]byte) (obs, [][]byte, int) {
	if rc.traced < rc.traceMax {
		traceOut = rc.tw
		rc.traced++
	}
	o, p, nb := safeRun(ops, pf)
	traceOut = nil
	return o, p, nb
}

func (rc *recorder) record(cat string, o obs, payloads [][]byte, nbits int, ops []string, payloadsFor func(int) [][]byte) {
	h := strings.Join(ops, ",")
	line := caseLine(o, payloads, h)
	fmt.Fprintln(rc.w, line)
	rc.cases++
	rc.decodes += len(payloads)
	rc.hist[cat]++
	if o.editPanic != "" {
		rc.hist["stopped-at-panicking-edit"]++
	} else if o.brokenBy != "" {
		rc.skippedWf++
		rc.hist["stopped-at-layout-breaking-edit"]++
	}
	// non-trivial: a signal crossing a byte boundary, or more than one signal
	nt := len(o.view) > 1
	for _, v := range o.view {
		if v.start/8 != (v.start+v.size-1)/8 {
			nt = true
		}
	}
	if nt {
		key := line
		if i := strings.Index(line, " P "); i > 0 {
			key = line[:i]
		}
		rc.nontrivial[key] = struct{}{}
	}
	if rc.hist[cat] == 11 || rc.hist[cat] == 1500 {
		s := line
		if len(s) > 700 {
			s = s[:700] + "..."
		}
		rc.samples = append(rc.samples, s)
	}
	fs := checkProps(o, payloads, nbits)
	seen := map[string]bool{}
	for _, f := range fs {
		if seen[f.class] {
			continue
		}
		seen[f.class] = true
		sig := f.class
		sops := ops
		detail := f.detail
		if strings.HasPrefix(f.class, "c02-edit-op-panic-") || f.class == "c02-harness-panic" || f.class == "c02-byte-order-flipped-by-reattachment" || f.class == "c02-read-only-call-changed-layout" {
			sops = shrink(ops, f.class, payloadsFor)
			so, sp, snb := safeRun(sops, payloadsFor)
			for _, g := range checkProps(so, sp, snb) {
				if g.class == f.class {
					detail = g.detail
				}
			}
		} else if strings.HasPrefix(f.class, "c02-layout-broken-by-") {
			sops = shrink(ops, f.class, payloadsFor)
			so, sp, snb := safeRun(sops, payloadsFor)
			for _, g := range checkProps(so, sp, snb) {
				if g.class == f.class {
					detail = g.detail
					break
				}
			}
			detail = "the layout stops being well-formed at the first " + strings.TrimPrefix(f.class, "c02-layout-broken-by-") + " edit of the history; consequence: " + detail
		} else if ops != nil && f.class != "c02-be-one-byte-lsb-anchored" {
			sops = shrink(ops, f.class, payloadsFor)
			so, sp, snb := safeRun(sops, payloadsFor)
			for _, g := range checkProps(so, sp, snb) {
				if g.class == f.class {
					detail = g.detail
					break
				}
			}
			sig = f.class + "-after-" + lastEdit(sops)
		}
		if old, ok := rc.fails[sig]; ok && old.size <= len(sops)*1000+len(o.view) {
			continue
		}
		rc.fails[sig] = failRec{len(sops)*1000 + len(o.view), line, detail, strings.Join(sops, ",")}
	}
}

// ---------------------------------------------------------------------------- generators

func oneHot(n, bit int) []byte {
	p := make([]byte, n)
	p[bit/8] = 1 << uint(bit%8)
	return p
}

func randBytes(r *rng, n int) []byte {
	p := make([]byte, n)
	for i := range p {
		p[i] = byte(r.next())
	}
	return p
}

func genExhaustive(rc *recorder, r *rng, nrand int) {
	for be := 0; be <= 1; be++ {
		for start := 0; start < 64; start++ {
			for size := 1; size <= 64-start; size++ {
				ops := []string{"M 8", fmt.Sprintf("NS 0 %d", size)}
				// byte order set before or after the placement (both orders of the two calls)
				if (start+size)%2 == 0 {
					ops = append(ops, fmt.Sprintf("BO %d", be), fmt.Sprintf("IN 0 %d", start))
				} else {
					ops = append(ops, fmt.Sprintf("IN 0 %d", start), fmt.Sprintf("BO %d", be))
				}
				ops = append(ops, "RO")
				pf := func(n int) [][]byte {
					ps := [][]byte{}
					for b := 0; b < 8*n; b++ {
						ps = append(ps, oneHot(n, b))
					}
					ones := make([]byte, n)
					for i := range ones {
						ones[i] = 0xff
					}
					ps = append(ps, ones)
					rr := &rng{uint64(be)<<40 | uint64(start)<<20 | uint64(size) | r.s<<44}
					for i := 0; i < nrand; i++ {
						ps = append(ps, randBytes(rr, n))
					}
					return ps
				}
				o, p, nb := rc.primaryRun(ops, pf)
				rc.record("single-placement", o, p, nb, ops, pf)
			}
		}
	}
}

// genHistory generates a history while executing it, so that the arguments of the edits can be
// chosen at the boundaries of the current layout (exact fit, one bit more, the byte in which the
// last signal ends, ...).  The returned op list replays deterministically (up to Go map order
// inside acmelib).
func genHistory(r *rng) (ops []string) {
	w := newWorld()
	dead := false
	do := func(op string) {
		if dead {
			return // the history ends at the edit that broke the layout or panicked
		}
		ops = append(ops, op)
		defer func() {
			if recover() != nil {
				dead = true
			}
		}()
		applyOp(w, op)
		if w.stopped {
			dead = true
		}
	}
	nbytes := 1 + r.below(8)
	if r.below(6) == 0 {
		nbytes = 9 + r.below(8)
	}
	do(fmt.Sprintf("M %d", nbytes))
	nenum := 1 + r.below(2)
	for e := 0; e < nenum; e++ {
		do(fmt.Sprintf("EN %d %d", e, 1+r.below(6)))
		for j := r.below(4); j > 0; j-- {
			do(fmt.Sprintf("EA %d %d", e, r.below(40)))
		}
	}
	if r.below(2) == 0 {
		do(fmt.Sprintf("BO %d", r.below(2)))
	}
	nsig := 1 + r.below(12)
	bitsLeft := 8 * nbytes
	for k := 0; k < nsig; k++ {
		switch c := r.below(10); {
		case c < 6:
			sz := 1 + r.below(12)
			if r.below(4) == 0 {
				sz = 1 + r.below(64)
			}
			if sz > bitsLeft && bitsLeft > 0 {
				sz = 1 + r.below(bitsLeft)
			}
			do(fmt.Sprintf("NS %d %d", k, sz))
			bitsLeft -= sz
		case c < 9:
			do(fmt.Sprintf("NE %d %d", k, r.below(nenum)))
			bitsLeft -= 4
		default:
			if nbytes >= 9 && r.below(2) == 0 {
				// a multiplexer wider than 64 bits (group size 60..100 + selector)
				gs := 60 + r.below(41)
				do(fmt.Sprintf("NX %d %d %d", k, 1+r.below(40), gs))
				bitsLeft -= gs + 4
			} else {
				do(fmt.Sprintf("NX %d %d %d", k, 1+r.below(5), 1+r.below(10)))
				bitsLeft -= 8
			}
		}
		if r.below(3) == 0 {
			do(fmt.Sprintf("IN %d %d", k, r.below(8*nbytes)))
		} else {
			do(fmt.Sprintf("AP %d", k))
		}
		if r.below(8) == 0 {
			do(fmt.Sprintf("IN %d %d", k, r.below(8*nbytes))) // retry elsewhere if the first placement was refused
		}
	}
	// state-dependent helpers
	view := func() []sigView {
		if dead || w.msg == nil {
			return nil
		}
		return currentView(w)
	}
	lastEnd := func() int {
		e := 0
		for _, v := range view() {
			if v.start+v.size > e {
				e = v.start + v.size
			}
		}
		return e
	}
	// room(k): gap in front of signal k, free bits behind it (gaps + trailing space), its size
	room := func(k int) (before, behind, size int, ok bool) {
		vs := view()
		prevEnd := 0
		for i, v := range vs {
			if v.id == k {
				before = v.start - prevEnd
				used := 0
				for _, u := range vs[i+1:] {
					used += u.size
				}
				behind = 8*w.msg.SizeByte() - (v.start + v.size) - used
				return before, behind, v.size, true
			}
			prevEnd = v.start + v.size
		}
		return 0, 0, 0, false
	}
	pick := func(c []int) int { return c[r.below(len(c))] }
	do("RO")
	// post-placement edits, read-only calls interleaved
	for j := r.below(9); j > 0; j-- {
		if r.below(3) == 0 {
			do("RO")
		}
		k := r.below(nsig)
		switch r.below(18) {
		case 0, 1, 2:
			// SetType: around the exact fit of the free bits behind, and of behind + the gap in front
			nsz := 1 + r.below(20)
			if before, behind, size, ok := room(k); ok && r.below(3) > 0 {
				nsz = pick([]int{size + behind, size + behind + 1, size + behind - 1, size + before + behind, size + before, size + 1, size - 1})
			}
			if nsz < 1 {
				nsz = 1
			}
			if nsz > 64 {
				nsz = 64
			}
			do(fmt.Sprintf("ST %d %d", k, nsz))
		case 3:
			do(fmt.Sprintf("SE %d %d", k, r.below(nenum)))
		case 4, 5, 6:
			// AddValue: just above the current maximum (often inside the minimum size), a power of two, random
			e := r.below(nenum)
			idx := r.below(300)
			if !dead && e < len(w.enums) && r.below(2) == 0 {
				mx := w.enums[e].MaxIndex()
				idx = pick([]int{mx + 1, mx + 2, 2*mx + 1, 1<<uint(w.enums[e].GetSize()) - 1, 1 << uint(w.enums[e].GetSize())})
			}
			do(fmt.Sprintf("EA %d %d", e, idx))
		case 7:
			do(fmt.Sprintf("ER %d %d", r.below(nenum), r.below(3)))
		case 8:
			do(fmt.Sprintf("EM %d %d", r.below(nenum), 1+r.below(9)))
		case 9:
			do(fmt.Sprintf("EU %d %d %d", r.below(nenum), r.below(3), r.below(200)))
		case 10:
			do(fmt.Sprintf("BO %d", r.below(2)))
		case 11:
			do(fmt.Sprintf("SL %d %d", k, 1+r.below(9)))
		case 12:
			do(fmt.Sprintf("SR %d %d", k, 1+r.below(9)))
		case 13:
			if r.below(2) == 0 {
				do("CP")
			} else {
				do(fmt.Sprintf("RM %d", k))
			}
		case 14, 15:
			// UpdateSizeByte: the byte in which the last signal ends, one less, one more
			e := lastEnd()
			do(fmt.Sprintf("SZ %d", pick([]int{(e + 7) / 8, (e+7)/8 - 1, e / 8, (e+7)/8 + 1, 1 + r.below(8)})))
		case 16:
			// place again a signal that was removed or never accepted (it keeps the byte order it had)
			if r.below(2) == 0 {
				do(fmt.Sprintf("AP %d", k))
			} else {
				do(fmt.Sprintf("IN %d %d", k, r.below(8*nbytes)))
			}
		default:
			do(fmt.Sprintf("EC %d", r.below(nenum)))
		}
	}
	if r.below(3) == 0 {
		do(fmt.Sprintf("BO %d", r.below(2)))
	}
	if r.below(2) == 0 {
		do("RO")
	}
	if r.below(25) == 0 && !dead {
		// D20: a signal placed here is also appended to a second message of the other byte order
		do(fmt.Sprintf("M2 %d", 8))
		do(fmt.Sprintf("BO2 %d", 1-b2i(w.msg.ByteOrder() == acmelib.MessageByteOrderBigEndian)))
		do(fmt.Sprintf("AP2 %d", r.below(nsig)))
	}
	if r.below(5) == 0 && !dead {
		// a signal leaves the message, the message changes its byte order, the signal comes back:
		// it must take the new byte order whichever it had
		k := r.below(nsig)
		flip := 1 - b2i(w.msg.ByteOrder() == acmelib.MessageByteOrderBigEndian)
		do(fmt.Sprintf("RM %d", k))
		do(fmt.Sprintf("BO %d", flip))
		if r.below(2) == 0 {
			do(fmt.Sprintf("AP %d", k))
		} else {
			do(fmt.Sprintf("IN %d %d", k, r.below(8*nbytes)))
		}
	}
	return ops
}

func genHistories(rc *recorder, r *rng, n int) {
	for c := 0; c < n; c++ {
		ops := genHistory(r)
		seed := r.next()
		pf := func(nb int) [][]byte {
			rr := &rng{seed}
			ps := [][]byte{}
			ones := make([]byte, nb)
			for i := range ones {
				ones[i] = 0xff
			}
			ps = append(ps, ones)
			for i := 0; i < 3 && nb > 0; i++ {
				ps = append(ps, oneHot(nb, rr.below(8*nb)))
			}
			for i := 0; i < 6; i++ {
				ps = append(ps, randBytes(rr, nb))
			}
			ps = append(ps, randBytes(rr, nb+1+rr.below(3))) // longer than the message
			return ps
		}
		o, p, nb := rc.primaryRun(ops, pf)
		rc.record("history", o, p, nb, ops, pf)
	}
}

func main() {
	out := os.Getenv("VERIF_OUT")
	seed, _ := strconv.ParseUint(os.Getenv("VERIF_SEED"), 10, 64)
	thorough := os.Getenv("VERIF_TIER") == "thorough"
	fh, err := os.Create(out)
	if err != nil {
		panic(err)
	}
	th, err := os.Create(out + ".trace")
	if err != nil {
		panic(err)
	}
	rc := &recorder{w: bufio.NewWriterSize(fh, 1<<20), hist: map[string]int{}, fails: map[string]failRec{}, nontrivial: map[string]struct{}{},
		tw: bufio.NewWriterSize(th, 1<<20), traceMax: map[bool]int{false: 1 << 30, true: 80000}[thorough]}
	r := &rng{seed}
	if rp := os.Getenv("VERIF_REPLAY_HISTORY"); rp != "" {
		ops := strings.Split(rp, ",")
		pf := func(nb int) [][]byte {
			rr := &rng{seed}
			ps := [][]byte{}
			for b := 0; b < 8*nb; b++ {
				ps = append(ps, oneHot(nb, b))
			}
			for i := 0; i < 4; i++ {
				ps = append(ps, randBytes(rr, nb))
			}
			return ps
		}
		o, p, nb := safeRun(ops, pf)
		rc.record("replay", o, p, nb, ops, pf)
	} else {
		genExhaustive(rc, r, map[bool]int{false: 8, true: 32}[thorough])
		genHistories(rc, r, map[bool]int{false: 4000, true: 1000000}[thorough])
	}
	// END markers: a truncated or half-written file must not read as a short clean run
	fmt.Fprintf(rc.w, "END %d\n", rc.cases)
	fmt.Fprintf(rc.tw, "END %d\n", rc.traced)
	for _, e := range []error{rc.w.Flush(), fh.Close(), rc.tw.Flush(), th.Close()} {
		if e != nil {
			panic(e)
		}
	}
	sf, err := os.Create(out + ".summary")
	if err != nil {
		panic(err)
	}
	defer sf.Close()
	fmt.Fprintf(sf, "cases %d\ndecodes %d\nnontrivial %d\nskipped_not_wf %d\ntraced_histories %d\n", rc.cases, rc.decodes, len(rc.nontrivial), rc.skippedWf, rc.traced)
	for k, v := range rc.hist {
		fmt.Fprintf(sf, "hist %s %d\n", k, v)
	}
	for _, s := range rc.samples {
		fmt.Fprintf(sf, "sample %s\n", s)
	}
	sigs := []string{}
	for s := range rc.fails {
		sigs = append(sigs, s)
	}
	sort.Strings(sigs)
	for _, s := range sigs {
		fmt.Fprintf(sf, "PROPFAIL %s %s ## %s\n", s, rc.fails[s].hist, rc.fails[s].detail)
	}
}
