// C02 harness: builds message layouts through the public API of acmelib (single placements
// exhaustively, multi-signal layouts through edit histories incl. post-placement type / enum /
// byte-order edits), records the current view of the layout (start, size, byte order, kind of
// every signal as the getters report them), SignalLayout.Filters() and SignalLayout.Decode()
// on generated payloads for the extracted Coq model, and evaluates the property's own predicates
// (raw value = the payload bits the signal occupies, masks cover / do not overlap, one result per
// standard/enum signal in order) directly on the implementation's results.
//
// line:  C n (id start size be kind)* P k hex* ; F m (sig byte mask len off)* D (cnt (id raw)*)* # history
package main

import (
	"bufio"
	"encoding/hex"
	"fmt"
	"math/big"
	"math/bits"
	"os"
	"sort"
	"strconv"
	"strings"

	acmelib "github.com/squadracorsepolito/acmelib"
)

type rng struct{ s uint64 }

func (r *rng) next() uint64 {
	r.s += 0x9E3779B97F4A7C15
	z := r.s
	z = (z ^ (z >> 30)) * 0xBF58476D1CE4E5B9
	z = (z ^ (z >> 27)) * 0x94D049BB133111EB
	return z ^ (z >> 31)
}
func (r *rng) below(n int) int { return int(r.next() % uint64(n)) }

// ---------------------------------------------------------------------------- observation

type sigView struct {
	id, start, size int
	be              bool
	kind            int // 0 standard, 1 enum, 2 multiplexer
}

type filt struct{ sig, byteIdx, mask, length, off int }

type obs struct {
	msgBE   bool // Message.ByteOrder() == big endian
	view    []sigView
	filters []filt
	decodes [][][2]uint64 // per payload: (id, raw)
	panicked string
}

type world struct {
	msg     *acmelib.Message
	sigs    []acmelib.Signal // by harness number
	ids     map[acmelib.EntityID]int
	enums   []*acmelib.SignalEnum
	enumVal [][]*acmelib.SignalEnumValue
	nval    int
}

func kindOf(s acmelib.Signal) int {
	switch s.Kind() {
	case acmelib.SignalKindEnum:
		return 1
	case acmelib.SignalKindMultiplexer:
		return 2
	}
	return 0
}

func observe(w *world, payloads [][]byte) (o obs) {
	defer func() {
		if r := recover(); r != nil {
			o.panicked = fmt.Sprint(r)
		}
	}()
	sl := w.msg.SignalLayout()
	o.msgBE = w.msg.ByteOrder() == acmelib.MessageByteOrderBigEndian
	for _, s := range w.msg.Signals() { // layout order
		o.view = append(o.view, sigView{w.ids[s.EntityID()], s.GetRelativeStartPos(), s.GetSize(),
			s.Endianness() == acmelib.MessageByteOrderBigEndian, kindOf(s)})
	}
	for _, f := range sl.Filters() {
		o.filters = append(o.filters, filt{w.ids[f.Signal().EntityID()], f.ByteIndex(), int(f.Mask()), f.Length(), f.LeftOffset()})
	}
	for _, p := range payloads {
		row := [][2]uint64{}
		for _, d := range sl.Decode(p) {
			if d == nil { // multiplexer: no decoding (noted, not claimed)
				continue
			}
			row = append(row, [2]uint64{uint64(w.ids[d.Signal.EntityID()]), d.RawValue})
		}
		o.decodes = append(o.decodes, row)
	}
	return o
}

func caseLine(o obs, payloads [][]byte, hist string) string {
	var sb strings.Builder
	fmt.Fprintf(&sb, "C %d", len(o.view))
	for _, v := range o.view {
		be := 0
		if v.be {
			be = 1
		}
		fmt.Fprintf(&sb, " %d %d %d %d %d", v.id, v.start, v.size, be, v.kind)
	}
	fmt.Fprintf(&sb, " P %d", len(payloads))
	for _, p := range payloads {
		sb.WriteString(" " + hex.EncodeToString(p))
	}
	sb.WriteString(" ; ")
	if o.panicked != "" {
		sb.WriteString("panic")
	} else {
		fmt.Fprintf(&sb, "F %d", len(o.filters))
		for _, f := range o.filters {
			fmt.Fprintf(&sb, " %d %d %d %d %d", f.sig, f.byteIdx, f.mask, f.length, f.off)
		}
		sb.WriteString(" D")
		for _, row := range o.decodes {
			fmt.Fprintf(&sb, " %d", len(row))
			for _, d := range row {
				fmt.Fprintf(&sb, " %d %d", d[0], d[1])
			}
		}
	}
	if hist != "" {
		sb.WriteString(" # " + hist)
	}
	return sb.String()
}

// ---------------------------------------------------------------------------- property predicates

func leNumber(data []byte) *big.Int {
	rev := make([]byte, len(data))
	for i, b := range data {
		rev[len(data)-1-i] = b
	}
	return new(big.Int).SetBytes(rev)
}

func rawSpec(v sigView, data []byte) uint64 {
	var x *big.Int
	if v.be {
		x = new(big.Int).SetBytes(data) // BE number
		x.Rsh(x, uint(8*len(data)-v.start-v.size))
	} else {
		x = leNumber(data)
		x.Rsh(x, uint(v.start))
	}
	m := new(big.Int).Lsh(big.NewInt(1), uint(v.size))
	x.Mod(x, m)
	return x.Uint64()
}

func isD08(v sigView) bool {
	return v.be && v.start/8 == (v.start+v.size-1)/8 && 2*(v.start%8)+v.size != 8
}

type failure struct {
	class  string // failure kind, without the history suffix
	detail string
}

// wellFormed: sorted, disjoint, sizes 1..64, inside the payload (what C01 guarantees); the
// predicates about bits are only evaluated on such views.
func wellFormed(view []sigView, nbits int) bool {
	prevEnd := 0
	for _, v := range view {
		if v.start < prevEnd || v.size < 1 || v.size > 64 || v.start+v.size > nbits {
			return false
		}
		prevEnd = v.start + v.size
	}
	return true
}

func checkProps(o obs, payloads [][]byte, nbits int) []failure {
	fails := []failure{}
	if strings.HasPrefix(o.panicked, "history: ") {
		return nil // an edit operation itself panicked: C01 / C06 territory, no layout to judge
	}
	wf := wellFormed(o.view, nbits)
	if !wf {
		return nil // not C02's premise (C01 finding); model comparison still runs
	}
	if o.panicked != "" {
		return []failure{{"c02-panic", o.panicked}}
	}
	// the byte order of the message is the byte order of every signal in its layout (the spec
	// below reads the payload in the message's byte order)
	for _, v := range o.view {
		if v.be != o.msgBE {
			return []failure{{"c02-byte-order-not-propagated", fmt.Sprintf("message big-endian=%v but signal %d (start %d size %d) reports big-endian=%v",
				o.msgBE, v.id, v.start, v.size, v.be)}}
		}
	}
	byID := map[int]sigView{}
	wantOrder := []int{}
	for _, v := range o.view {
		byID[v.id] = v
		if v.kind != 2 {
			wantOrder = append(wantOrder, v.id)
		}
	}
	// one result per standard / enum signal, in layout order, with exactly the payload bits
	for pi, row := range o.decodes {
		if len(row) != len(wantOrder) {
			fails = append(fails, failure{"c02-order", fmt.Sprintf("%d results for %d standard/enum signals", len(row), len(wantOrder))})
			break
		}
		for i, d := range row {
			if int(d[0]) != wantOrder[i] {
				fails = append(fails, failure{"c02-order", fmt.Sprintf("result %d is signal %d, layout order has %d", i, d[0], wantOrder[i])})
				break
			}
			v := byID[int(d[0])]
			if exp := rawSpec(v, payloads[pi]); exp != d[1] {
				cl := "c02-raw-le"
				if v.be {
					cl = "c02-raw-be"
					if isD08(v) {
						cl = "c02-be-one-byte-lsb-anchored"
					}
				}
				fails = append(fails, failure{cl, fmt.Sprintf("signal %d start %d size %d be=%v payload %x: RawValue %d, the payload bits are %d",
					v.id, v.start, v.size, v.be, payloads[pi], d[1], exp)})
			}
		}
	}
	// masks: cover each signal's size, never share a payload bit between two signals
	pop := map[int]int{}
	for _, f := range o.filters {
		pop[f.sig] += bits.OnesCount8(uint8(f.mask))
	}
	for _, v := range o.view {
		if pop[v.id] != v.size {
			fails = append(fails, failure{"c02-mask-cover", fmt.Sprintf("signal %d size %d: masks cover %d bits", v.id, v.size, pop[v.id])})
		}
	}
	for i, f := range o.filters {
		for _, g := range o.filters[i+1:] {
			if f.sig != g.sig && f.byteIdx == g.byteIdx && f.mask&g.mask != 0 {
				cl := "c02-mask-overlap"
				if isD08(byID[f.sig]) || isD08(byID[g.sig]) {
					cl = "c02-be-one-byte-lsb-anchored"
				}
				fails = append(fails, failure{cl, fmt.Sprintf("signals %d and %d share bits %08b of byte %d", f.sig, g.sig, f.mask&g.mask, f.byteIdx)})
			}
		}
	}
	return fails
}

// ---------------------------------------------------------------------------- histories

// ops (tokens separated by ','):
//  M n            new message of n bytes (always first)
//  NS k size      standard signal k with an integer type of `size` bits (signed iff k+size is odd)
//  NE k e         enum signal k on enum e          NX k count gsize   multiplexer signal k
//  EN e min       new enum e                        EA e idx  ER e j  EM e min  EU e j idx  EC e
//  AP k           AppendSignal    IN k start  InsertSignal    RM k  RemoveSignal
//  BO b           SetByteOrder    ST k size   SetType (new type)   SE k e  SetEnum
//  SL k a / SR k a  shift         CP compact  SZ n  UpdateSizeByte
func runHistory(ops []string) *world {
	w := &world{ids: map[acmelib.EntityID]int{}}
	at := func(f []string, i int) int { v, _ := strconv.Atoi(f[i]); return v }
	getSig := func(k int) acmelib.Signal {
		if k < 0 || k >= len(w.sigs) {
			return nil
		}
		return w.sigs[k]
	}
	setSig := func(k int, s acmelib.Signal) {
		for len(w.sigs) <= k {
			w.sigs = append(w.sigs, nil)
		}
		w.sigs[k] = s
		w.ids[s.EntityID()] = k
	}
	for _, op := range ops {
		f := strings.Fields(op)
		if len(f) == 0 {
			continue
		}
		switch f[0] {
		case "M":
			w.msg = acmelib.NewMessage("m", 1, at(f, 1))
		case "NS":
			// signedness does not matter for the layout; RawValue must be the payload bits either way
			t, err := acmelib.NewIntegerSignalType(fmt.Sprintf("t%d", at(f, 2)), at(f, 2), (at(f, 1)+at(f, 2))%2 == 1)
			if err != nil {
				continue
			}
			s, _ := acmelib.NewStandardSignal(fmt.Sprintf("s%d", at(f, 1)), t)
			setSig(at(f, 1), s)
		case "NE":
			if at(f, 2) >= len(w.enums) {
				continue
			}
			s, _ := acmelib.NewEnumSignal(fmt.Sprintf("s%d", at(f, 1)), w.enums[at(f, 2)])
			setSig(at(f, 1), s)
		case "NX":
			s, err := acmelib.NewMultiplexerSignal(fmt.Sprintf("s%d", at(f, 1)), at(f, 2), at(f, 3))
			if err != nil {
				continue
			}
			setSig(at(f, 1), s)
		case "EN":
			e := acmelib.NewSignalEnum(fmt.Sprintf("e%d", at(f, 1)))
			e.SetMinSize(at(f, 2))
			w.enums = append(w.enums, e)
			w.enumVal = append(w.enumVal, nil)
		case "EA", "ER", "EM", "EU", "EC":
			e := at(f, 1)
			if e >= len(w.enums) {
				continue
			}
			switch f[0] {
			case "EA":
				w.nval++
				v := acmelib.NewSignalEnumValue(fmt.Sprintf("v%d", w.nval), at(f, 2))
				if w.enums[e].AddValue(v) == nil {
					w.enumVal[e] = append(w.enumVal[e], v)
				}
			case "ER":
				if j := at(f, 2); j < len(w.enumVal[e]) {
					if w.enums[e].RemoveValue(w.enumVal[e][j].EntityID()) == nil {
						w.enumVal[e] = append(w.enumVal[e][:j:j], w.enumVal[e][j+1:]...)
					}
				}
			case "EM":
				w.enums[e].SetMinSize(at(f, 2))
			case "EU":
				if j := at(f, 2); j < len(w.enumVal[e]) {
					_ = w.enumVal[e][j].UpdateIndex(at(f, 3))
				}
			case "EC":
				w.enums[e].RemoveAllValues()
				w.enumVal[e] = nil
			}
		case "AP":
			if s := getSig(at(f, 1)); s != nil && s.ParentMessage() == nil {
				_ = w.msg.AppendSignal(s)
			}
		case "IN":
			if s := getSig(at(f, 1)); s != nil && s.ParentMessage() == nil {
				_ = w.msg.InsertSignal(s, at(f, 2))
			}
		case "RM":
			if s := getSig(at(f, 1)); s != nil {
				_ = w.msg.RemoveSignal(s.EntityID())
			}
		case "BO":
			if at(f, 1) == 1 {
				w.msg.SetByteOrder(acmelib.MessageByteOrderBigEndian)
			} else {
				w.msg.SetByteOrder(acmelib.MessageByteOrderLittleEndian)
			}
		case "ST":
			if s := getSig(at(f, 1)); s != nil {
				if ss, err := s.ToStandard(); err == nil {
					if t, err := acmelib.NewIntegerSignalType(fmt.Sprintf("t%d", at(f, 2)), at(f, 2), false); err == nil {
						_ = ss.SetType(t)
					}
				}
			}
		case "SE":
			if s := getSig(at(f, 1)); s != nil && at(f, 2) < len(w.enums) {
				if es, err := s.ToEnum(); err == nil {
					_ = es.SetEnum(w.enums[at(f, 2)])
				}
			}
		case "SL":
			if s := getSig(at(f, 1)); s != nil {
				w.msg.ShiftSignalLeft(s.EntityID(), at(f, 2))
			}
		case "SR":
			if s := getSig(at(f, 1)); s != nil {
				w.msg.ShiftSignalRight(s.EntityID(), at(f, 2))
			}
		case "CP":
			w.msg.CompactSignals()
		case "SZ":
			_ = w.msg.UpdateSizeByte(at(f, 1))
		}
	}
	return w
}

func safeRun(ops []string, payloadsFor func(nbytes int) [][]byte) (o obs, payloads [][]byte, nbits int) {
	defer func() {
		if r := recover(); r != nil {
			o.panicked = "history: " + fmt.Sprint(r)
		}
	}()
	w := runHistory(ops)
	nbits = 8 * w.msg.SizeByte()
	payloads = payloadsFor(w.msg.SizeByte())
	o = observe(w, payloads)
	return
}

func hasClass(fs []failure, class string) bool {
	for _, f := range fs {
		if f.class == class {
			return true
		}
	}
	return false
}

// shrink: drop single ops (never the leading M) while the same failure class persists
func shrink(ops []string, class string, payloadsFor func(int) [][]byte) []string {
	cur := append([]string{}, ops...)
	for changed := true; changed; {
		changed = false
		for i := len(cur) - 1; i >= 1; i-- {
			cand := append(append([]string{}, cur[:i]...), cur[i+1:]...)
			o, p, nb := safeRun(cand, payloadsFor)
			if hasClass(checkProps(o, p, nb), class) {
				cur = cand
				changed = true
			}
		}
	}
	return cur
}

func lastEdit(ops []string) string {
	for i := len(ops) - 1; i >= 0; i-- {
		f := strings.Fields(ops[i])
		switch f[0] {
		case "ST", "SE", "EA", "ER", "EM", "EU", "EC", "BO", "AP", "IN", "RM", "SL", "SR", "CP", "SZ":
			return f[0]
		}
	}
	return "none"
}

// ---------------------------------------------------------------------------- recorder

type failRec struct {
	size   int
	line   string
	detail string
	hist   string
}

type recorder struct {
	w          *bufio.Writer
	cases      int
	decodes    int
	hist       map[string]int
	fails      map[string]failRec
	nontrivial map[string]struct{}
	samples    []string
	skippedWf  int
}

func (rc *recorder) record(cat string, o obs, payloads [][]byte, nbits int, ops []string, payloadsFor func(int) [][]byte) {
	h := strings.Join(ops, ",")
	line := caseLine(o, payloads, h)
	fmt.Fprintln(rc.w, line)
	rc.cases++
	rc.decodes += len(payloads)
	rc.hist[cat]++
	if strings.HasPrefix(o.panicked, "history: ") {
		rc.hist["edit-op-panicked(C01/C06)"]++
	} else if !wellFormed(o.view, nbits) {
		rc.skippedWf++
		rc.hist["not-well-formed(C01)"]++
	}
	// non-trivial: a signal crossing a byte boundary, or more than one signal
	nt := len(o.view) > 1
	for _, v := range o.view {
		if v.start/8 != (v.start+v.size-1)/8 {
			nt = true
		}
	}
	if nt {
		key := line
		if i := strings.Index(line, " P "); i > 0 {
			key = line[:i]
		}
		rc.nontrivial[key] = struct{}{}
	}
	if rc.hist[cat] == 11 || rc.hist[cat] == 1500 {
		s := line
		if len(s) > 700 {
			s = s[:700] + "..."
		}
		rc.samples = append(rc.samples, s)
	}
	fs := checkProps(o, payloads, nbits)
	seen := map[string]bool{}
	for _, f := range fs {
		if seen[f.class] {
			continue
		}
		seen[f.class] = true
		sig := f.class
		sops := ops
		detail := f.detail
		if ops != nil && f.class != "c02-be-one-byte-lsb-anchored" {
			sops = shrink(ops, f.class, payloadsFor)
			so, sp, snb := safeRun(sops, payloadsFor)
			for _, g := range checkProps(so, sp, snb) {
				if g.class == f.class {
					detail = g.detail
					break
				}
			}
			sig = f.class + "-after-" + lastEdit(sops)
		}
		if old, ok := rc.fails[sig]; ok && old.size <= len(sops)*1000+len(o.view) {
			continue
		}
		rc.fails[sig] = failRec{len(sops)*1000 + len(o.view), line, detail, strings.Join(sops, ",")}
	}
}

// ---------------------------------------------------------------------------- generators

func oneHot(n, bit int) []byte {
	p := make([]byte, n)
	p[bit/8] = 1 << uint(bit%8)
	return p
}

func randBytes(r *rng, n int) []byte {
	p := make([]byte, n)
	for i := range p {
		p[i] = byte(r.next())
	}
	return p
}

func genExhaustive(rc *recorder, r *rng, nrand int) {
	for be := 0; be <= 1; be++ {
		for start := 0; start < 64; start++ {
			for size := 1; size <= 64-start; size++ {
				ops := []string{"M 8", fmt.Sprintf("NS 0 %d", size)}
				// byte order set before or after the placement (both orders of the two calls)
				if (start+size)%2 == 0 {
					ops = append(ops, fmt.Sprintf("BO %d", be), fmt.Sprintf("IN 0 %d", start))
				} else {
					ops = append(ops, fmt.Sprintf("IN 0 %d", start), fmt.Sprintf("BO %d", be))
				}
				pf := func(n int) [][]byte {
					ps := [][]byte{}
					for b := 0; b < 8*n; b++ {
						ps = append(ps, oneHot(n, b))
					}
					ones := make([]byte, n)
					for i := range ones {
						ones[i] = 0xff
					}
					ps = append(ps, ones)
					rr := &rng{uint64(be)<<40 | uint64(start)<<20 | uint64(size) | r.s<<44}
					for i := 0; i < nrand; i++ {
						ps = append(ps, randBytes(rr, n))
					}
					return ps
				}
				o, p, nb := safeRun(ops, pf)
				rc.record("single-placement", o, p, nb, ops, pf)
			}
		}
	}
}

func genHistory(r *rng) []string {
	nbytes := 1 + r.below(8)
	if r.below(6) == 0 {
		nbytes = 9 + r.below(8)
	}
	ops := []string{fmt.Sprintf("M %d", nbytes)}
	nenum := 1 + r.below(2)
	for e := 0; e < nenum; e++ {
		ops = append(ops, fmt.Sprintf("EN %d %d", e, 1+r.below(6)))
		for j := r.below(4); j > 0; j-- {
			ops = append(ops, fmt.Sprintf("EA %d %d", e, r.below(40)))
		}
	}
	if r.below(2) == 0 {
		ops = append(ops, fmt.Sprintf("BO %d", r.below(2)))
	}
	nsig := 1 + r.below(12)
	bitsLeft := 8 * nbytes
	for k := 0; k < nsig; k++ {
		switch c := r.below(10); {
		case c < 6:
			sz := 1 + r.below(12)
			if r.below(4) == 0 {
				sz = 1 + r.below(64)
			}
			if sz > bitsLeft && bitsLeft > 0 {
				sz = 1 + r.below(bitsLeft)
			}
			ops = append(ops, fmt.Sprintf("NS %d %d", k, sz))
			bitsLeft -= sz
		case c < 9:
			ops = append(ops, fmt.Sprintf("NE %d %d", k, r.below(nenum)))
			bitsLeft -= 4
		default:
			ops = append(ops, fmt.Sprintf("NX %d %d %d", k, 1+r.below(5), 1+r.below(10)))
			bitsLeft -= 8
		}
		if r.below(3) == 0 {
			ops = append(ops, fmt.Sprintf("IN %d %d", k, r.below(8*nbytes)))
		} else {
			ops = append(ops, fmt.Sprintf("AP %d", k))
		}
		if r.below(8) == 0 {
			ops = append(ops, fmt.Sprintf("IN %d %d", k, r.below(8*nbytes))) // retry elsewhere if the first placement was refused
		}
	}
	// post-placement edits
	for j := r.below(8); j > 0; j-- {
		k := r.below(nsig)
		switch r.below(14) {
		case 0, 1, 2:
			ops = append(ops, fmt.Sprintf("ST %d %d", k, 1+r.below(20)))
		case 3:
			ops = append(ops, fmt.Sprintf("SE %d %d", k, r.below(nenum)))
		case 4, 5:
			ops = append(ops, fmt.Sprintf("EA %d %d", r.below(nenum), r.below(300)))
		case 6:
			ops = append(ops, fmt.Sprintf("ER %d %d", r.below(nenum), r.below(3)))
		case 7:
			ops = append(ops, fmt.Sprintf("EM %d %d", r.below(nenum), 1+r.below(9)))
		case 8:
			ops = append(ops, fmt.Sprintf("EU %d %d %d", r.below(nenum), r.below(3), r.below(200)))
		case 9:
			ops = append(ops, fmt.Sprintf("BO %d", r.below(2)))
		case 10:
			ops = append(ops, fmt.Sprintf("SL %d %d", k, 1+r.below(9)))
		case 11:
			ops = append(ops, fmt.Sprintf("SR %d %d", k, 1+r.below(9)))
		case 12:
			if r.below(2) == 0 {
				ops = append(ops, "CP")
			} else {
				ops = append(ops, fmt.Sprintf("RM %d", k))
			}
		default:
			ops = append(ops, fmt.Sprintf("EC %d", r.below(nenum)))
		}
	}
	if r.below(3) == 0 {
		ops = append(ops, fmt.Sprintf("BO %d", r.below(2)))
	}
	return ops
}

func genHistories(rc *recorder, r *rng, n int) {
	for c := 0; c < n; c++ {
		ops := genHistory(r)
		seed := r.next()
		pf := func(nb int) [][]byte {
			rr := &rng{seed}
			ps := [][]byte{}
			ones := make([]byte, nb)
			for i := range ones {
				ones[i] = 0xff
			}
			ps = append(ps, ones)
			for i := 0; i < 3 && nb > 0; i++ {
				ps = append(ps, oneHot(nb, rr.below(8*nb)))
			}
			for i := 0; i < 6; i++ {
				ps = append(ps, randBytes(rr, nb))
			}
			ps = append(ps, randBytes(rr, nb+1+rr.below(3))) // longer than the message
			return ps
		}
		o, p, nb := safeRun(ops, pf)
		rc.record("history", o, p, nb, ops, pf)
	}
}

func main() {
	out := os.Getenv("VERIF_OUT")
	seed, _ := strconv.ParseUint(os.Getenv("VERIF_SEED"), 10, 64)
	thorough := os.Getenv("VERIF_TIER") == "thorough"
	fh, err := os.Create(out)
	if err != nil {
		panic(err)
	}
	rc := &recorder{w: bufio.NewWriterSize(fh, 1<<20), hist: map[string]int{}, fails: map[string]failRec{}, nontrivial: map[string]struct{}{}}
	r := &rng{seed}
	if rp := os.Getenv("VERIF_REPLAY_HISTORY"); rp != "" {
		ops := strings.Split(rp, ",")
		pf := func(nb int) [][]byte {
			rr := &rng{seed}
			ps := [][]byte{}
			for b := 0; b < 8*nb; b++ {
				ps = append(ps, oneHot(nb, b))
			}
			for i := 0; i < 4; i++ {
				ps = append(ps, randBytes(rr, nb))
			}
			return ps
		}
		o, p, nb := safeRun(ops, pf)
		rc.record("replay", o, p, nb, ops, pf)
	} else {
		genExhaustive(rc, r, map[bool]int{false: 8, true: 32}[thorough])
		genHistories(rc, r, map[bool]int{false: 4000, true: 120000}[thorough])
	}
	rc.w.Flush()
	fh.Close()
	sf, err := os.Create(out + ".summary")
	if err != nil {
		panic(err)
	}
	defer sf.Close()
	fmt.Fprintf(sf, "cases %d\ndecodes %d\nnontrivial %d\nskipped_not_wf %d\n", rc.cases, rc.decodes, len(rc.nontrivial), rc.skippedWf)
	for k, v := range rc.hist {
		fmt.Fprintf(sf, "hist %s %d\n", k, v)
	}
	for _, s := range rc.samples {
		fmt.Fprintf(sf, "sample %s\n", s)
	}
	sigs := []string{}
	for s := range rc.fails {
		sigs = append(sigs, s)
	}
	sort.Strings(sigs)
	for _, s := range sigs {
		fmt.Fprintf(sf, "PROPFAIL %s %s ## %s\n", s, rc.fails[s].hist, rc.fails[s].detail)
	}
}
