import os, sys
import vlib
def setup():
    here = os.path.dirname(os.path.abspath(__file__))
    vlib.build_ocaml_driver("c02_driver", os.path.join(vlib.COQ, "extracted"),
                            os.path.join(here, "driver", "c02_driver.ml"),
                            extra_pkgs=("zarith", "str"), only=["c02_model"])
