"""C03 — physical values, type ranges, size arithmetic.  Proof: coq/Properties/C03.v over the model
coq/C03/Model.v (Flocq binary64, explicit 64-bit wrap).  Tie: a Go harness (public API + the two
size helpers exported by an add-only overlay file) decodes real messages / builds real types, enums
and multiplexers over generated inputs; the extracted model recomputes every observation
(props/C03/driver, bit-exact for floats); the property's own rule (exact big-integer / rational
arithmetic) is evaluated by the harness on the implementation's results."""
import json
import os
import re
import vlib

PID = "C03"


def build_harness(ctx):
    hd = vlib.go_harness_dir(ctx.prop_dir, ctx.scratch)
    ov = vlib.overlay_json(ctx.scratch, {
        "verif_c03_export.go": os.path.join(ctx.prop_dir, "overlay", "verif_c03_export.go")})
    exe = os.path.join(ctx.scratch, "c03_harness")
    rc, log = vlib.sh(["go", "build", "-tags", "verif", "-overlay", ov, "-o", exe, "."], cwd=hd,
                      env=vlib.goenv(), timeout=900)
    return (exe if rc == 0 else None), log


def parse_summary(path):
    d = {"hist": {}, "propfail": {}, "samples": []}
    if not os.path.exists(path):
        return d
    for line in open(path):
        line = line.rstrip("\n")
        p = line.split(" ", 2)
        if p[0] == "hist":
            d["hist"][p[1]] = int(p[2])
        elif p[0] == "PROPFAIL":
            d["propfail"][p[1]] = p[2]
        elif p[0] == "sample":
            d["samples"].append(line[7:])
        else:
            d[p[0]] = int(p[1])
    return d


def run_model(exe, cases, scratch, parts=6):
    """Split the case file and run the extracted model on the parts in parallel."""
    import subprocess
    lines = open(cases).read().split("\n")
    if lines and lines[-1] == "":
        lines.pop()
    n = max(1, min(parts, vlib.NCPU, len(lines)))
    step = (len(lines) + n - 1) // n
    procs = []
    for i in range(n):
        p = os.path.join(scratch, "part%d.txt" % i)
        with open(p, "w") as f:
            f.write("\n".join(lines[i * step:(i + 1) * step]) + "\n")
        procs.append(subprocess.Popen([exe, p], stdout=subprocess.PIPE, stderr=subprocess.STDOUT))
    total, mism, out, kinds, ends = 0, 0, [], {}, []
    ok = True
    for pr in procs:
        try:
            o = pr.communicate(timeout=3000)[0].decode("utf-8", "replace")
        except subprocess.TimeoutExpired:
            pr.kill()
            o = "[model driver timeout]"
        m = re.search(r"CASES (\d+) MISMATCHES (\d+)", o)
        ends.extend(int(x) for x in re.findall(r"CASES-END (\d+)", o))
        if not m or pr.returncode != 0:
            ok = False
            out.append(o[-800:])
            continue
        total += int(m.group(1))
        mism += int(m.group(2))
        for k, v in re.findall(r"MISMATCH-KIND (\w+) (\d+)", o):
            kinds[k] = kinds.get(k, 0) + int(v)
        if int(m.group(2)):
            out.append(o[:1500])
    # the END marker (written last by the harness, with its own count) must have been reached exactly once
    if len(ends) != 1 or ends[0] != total:
        ok = False
        out.append("END marker of the case file: %r, cases compared: %d" % (ends, total))
    return ok, total, mism, kinds, "\n".join(out)


def coq_z(t):
    t = str(t)
    return "(%s)" % t if t.startswith("-") else t


def coq_case(line):
    """One harness line '<input> ; <observed>' as a term of Acme.C03.CrossCheck.xcase (None = skip)."""
    inp, obs = line.split(" ; ", 1)
    f, o = inp.split(), obs.split()
    if obs.startswith("panic") or not f:
        return None
    if f[0] == "D":
        kind = {"c": "KCustom", "f": "KFlag", "i": "KInteger", "d": "KDecimal"}[f[1]]
        tag, val = o[0], o[1]
        ov = {"flag:bool": "OFlag %s" % ("true" if val == "1" else "false"), "int:int64": "OInt %s" % coq_z(val),
              "uint:uint64": "OUint %s" % coq_z(val), "float:float64": "OFloat %s" % coq_z(val)}.get(tag)
        if ov is None:
            return None
        return "XD %s %s %s %s %s %s (%s)" % (kind, "true" if f[2] == "1" else "false", f[3], f[4], f[5], f[6], ov)
    if f[0] == "R":
        return "XR %s %s %s %s" % ("true" if f[2] == "1" else "false", f[3], o[0], o[1])
    if f[0] == "S":
        return "XS %s %s" % (coq_z(f[1]), coq_z(o[0]))
    if f[0] == "V":
        return "XV %s %s" % (coq_z(f[1]), coq_z(o[0]))
    if f[0] == "X":
        return "XX %s %s %s %s" % (f[1], f[2], o[0], o[1])
    if f[0] == "N":
        cnt = int(f[2])
        vs = ["(%s, %s)" % (coq_z(f[3 + 2 * i]), coq_z(f[4 + 2 * i])) for i in range(cnt)]
        return "XN [%s] %s %s" % ("; ".join(vs), coq_z(f[3 + 2 * cnt]), coq_z(o[0]))
    if f[0] == "E":
        ops = []
        keep = [i for i, t in enumerate(f[1:]) if t[0] not in "KGO"]   # foreign edits: no-ops for the model, skipped
        o = [o[i] for i in keep]
        for t in [f[1:][i] for i in keep]:
            q = t.split(":")
            ops.append({"A": lambda: "EAdd %s %s" % (coq_z(q[1]), coq_z(q[2])), "R": lambda: "ERemove %s" % coq_z(q[1]),
                        "M": lambda: "ESetMin %s" % coq_z(q[1]), "U": lambda: "EUpdate %s %s" % (coq_z(q[1]), coq_z(q[2])),
                        "C": lambda: "EClear"}[q[0]]())
        tr = []
        for t in o:
            q = t.split(":")
            tr.append("(%s, %s, %s)" % ("true" if q[0] == "1" else "false", coq_z(q[1]), coq_z(q[2])))
        return "XE [%s] [%s]" % ("; ".join(ops), "; ".join(tr))
    return None


def vm_cross_check(ctx, cases_path, per_kind=90):
    """DESIGN 3.3: a sample of this run's cases with the outputs observed on the implementation is
    evaluated inside Coq (vm_compute); returns (n_cases, ok, log)."""
    by = {}
    for line in open(cases_path):
        line = line.rstrip("\n")
        if line.startswith("END "):
            continue
        k = line[:3] if line.startswith("D ") else line[:1]
        by.setdefault(k, []).append(line)
    terms = []
    for k, ls in sorted(by.items()):
        stepn = max(1, len(ls) // per_kind)
        for line in ls[::stepn][:per_kind]:
            t = coq_case(line)
            if t:
                terms.append(t)
    src = os.path.join(ctx.scratch, "C03Cross.v")
    with open(src, "w") as f:
        f.write("From Coq Require Import ZArith List.\nFrom Acme.C03 Require Import Model CrossCheck.\n"
                "Import ListNotations.\nLocal Open Scope Z_scope.\n"
                "Definition cases : list xcase := [\n  " + ";\n  ".join(terms) + "].\n"
                "Definition M := Eval vm_compute in mismatches cases.\nPrint M.\n"
                "Definition N := Eval vm_compute in length cases.\nPrint N.\n")
    rc, out = vlib.sh(["coqc", "-R", vlib.COQ, "Acme", "C03Cross.v"], cwd=ctx.scratch, timeout=1500)
    ok = rc == 0 and re.search(r"M\s*=\s*\[\s*\]", out) is not None
    return len(terms), ok, out[-1500:]


def run(ctx):
    ctx.level = "proof"
    # floor on the cases judged and compared with the model (about half of a normal run)
    ctx.min_evaluations = 2000000 if ctx.tier == "thorough" else 200000
    status = vlib.proof_status(PID, extra_targets=["C03/Extract.v", "C03/CrossCheck.v"])
    ctx.proof_gate(status)
    drv = vlib.build_ocaml_driver("c03_driver", os.path.join(vlib.COQ, "extracted"),
                                  os.path.join(ctx.prop_dir, "driver", "c03_driver.ml"),
                                  extra_pkgs=("zarith", "str"), only=["c03_model"])
    exe, blog = build_harness(ctx)
    if exe is None:
        ctx.violation("harness-build-failed", "C03 harness no longer builds against the repository: " + blog[-800:],
                      {"log": blog[-3000:]}, found_input=False)
        ctx.coverage.update({"evaluations": 0})
        return
    out = os.path.join(ctx.scratch, "cases.txt")
    env = vlib.goenv()
    env.update({"VERIF_OUT": out, "VERIF_SEED": str(ctx.seed), "VERIF_TIER": ctx.tier})
    if ctx.replay:
        r = json.load(open(ctx.replay))
        case = (r.get("replay") or {}).get("case", "")
        env["VERIF_REPLAY_CASE"] = case.split(" ; ")[0]
    rc, log = vlib.sh([exe], env=env, timeout=2700)
    if rc != 0 or not os.path.exists(out + ".summary"):
        m = re.search(r"panic: .*", log)
        ctx.violation("impl-run-failed", "harness run failed (%s): %s" % (m.group(0) if m else "rc=%d" % rc, log[-600:]),
                      {"log": log[-3000:]}, found_input=bool(m))
        ctx.coverage.update({"evaluations": 0})
        return
    summ = parse_summary(out + ".summary")
    ok, total, mism, kinds, mlog = run_model(drv, out, ctx.scratch)
    # property-level failures on the implementation itself (found input)
    for sig, d in sorted(summ["propfail"].items()):
        case, detail = d.split(" ## ", 1)
        ctx.violation(sig, "C03 fails on the implementation: %s  [case: %s]" % (detail, case),
                      {"case": case, "detail": detail, "how": "./check C03 --replay <this file>"})
    # known hits must never suppress a model mismatch: only NEW property failures explain one
    new_fail = [sg for sg in summ["propfail"] if not any(k["signature"] == sg for k in ctx.known_open)]
    if (not ok or mism != 0 or total != summ.get("cases", -1)) and not new_fail:
        ctx.violation("c03-correspondence",
                      "model and implementation disagree on %s of %s case(s) (by kind %s) although no property predicate "
                      "failed; the theorems of Properties/C03.v no longer speak about this code: %s"
                      % (mism, total, kinds, mlog[:700]),
                      {"correspondence": "props/C03 decode/range/size comparison", "driver_output": mlog[:3000]},
                      found_input=False)
    if ctx.replay:
        print(open(out).read()[:2000])
        print(mlog)
    ctx.coverage.update({
        "evaluations": summ.get("cases", 0),
        "distinct_nontrivial": summ.get("nontrivial", 0),
        "rule": "cases: (a) every raw value of every size 1..12 (thorough: 1..18), both signednesses, integer / decimal / custom "
                "types with scale/offset pairs cycled from fixed pools (small and large integers, dyadic and non-dyadic "
                "fractions, tiny/huge magnitudes), decoded through Message.SignalLayout().Decode on a real 8-byte "
                "little-endian message at a random start bit with random surrounding bits, the type being obtained in turn by "
                "11 routes (constructor, Clone, UpdateSigned, setters, and StandardSignal.SetType on a placed signal that had a type "
                "of the same shape with another conversion rule / of another size or kind / of the other signedness); (b) sizes 1..64 x both "
                "signednesses x every pool pair on boundary raws (0,1,2^(n-1)-1,2^(n-1),2^n-1, 2^53(+1), patterns) + seeded "
                "random raws; (c) flags at all 64 positions; (d) Min()/Max() of all 2x2x64 integer/decimal types; (e) "
                "calcSizeFromValue on 2^k-1,2^k,2^k+1 up to 2^63-1 + random, calcValueFromSize on -2..70; (f) multiplexers "
                "with 1..4097 groups and 2^k+-1 up to 2^16 (2^20); (g) random enum histories (AddValue/RemoveValue/"
                "SetMinSize, duplicate/negative/huge indexes) observing GetSize/MaxIndex after every step; (h) enum "
                "signals decoded on every index, index+-1, 0, all-ones and random raws.  non-trivial = distinct case "
                "that exercises more than the identity: decode with top bit set on a signed type or scale != 1 or "
                "offset != 0; enum history of >= 3 ops; enum decode hitting a value; size/mux inputs > 2; every range",
        "samples": summ["samples"][:24],
        "distribution": summ["hist"],
        "model_mismatches": mism,
        "model_cases": total,
        "property_predicate_failures": sorted(summ["propfail"]),
        "exhaustive": False,
        "trusted_base": [
            "Coq 8.16.1 kernel (coqc; coqchk in the thorough tier); vm_compute used for the finite case splits over the size n = 1..64",
            "axioms (Print Assumptions): " + (", ".join(status["axioms"]) if status["axioms"] else "none") +
            " — the Reals / classical axioms come from Flocq and only reach the theorems that mention binary64",
            "Flocq 4.1.0 binary64 (IEEE754.Binary/Bits) as the meaning of Go float64 *, +, float64(int); amd64 without FMA fusion (GOAMD64=v1): x*y+z is two roundings",
            "uint64(negative float) is implementation-defined in Go; the model uses the amd64 behaviour (two's complement), exercised only by negative scale/offset on unsigned integer types",
            "extraction (ExtrOcamlBasic only, no Extract Constant/Inductive of our own) + OCaml 4.13.1 + props/C03/driver/c03_driver.ml (zarith, str)",
            "Go harness props/C03/harness (generators, big.Int/big.Rat oracle of the property rule) and overlay props/C03/overlay (exports calcSizeFromValue/calcValueFromSize)",
            "model coq/C03/Model.v is a hand-written restatement of decodeStandardSignal/decodeEnumSignal, the range constructors, calcSizeFromValue/calcValueFromSize, SignalEnum size bookkeeping and the multiplexer selector size; tied by the bit-exact correspondence above",
        ],
    })
    ctx.assumptions = [
        "enum size bookkeeping is exercised on enums no placed signal refers to (growth refusal / propagation into layouts is C01)",
        "integer-kind decoding: theorem and oracle cover integral scale/offset with a representable result (the property's quantifier); non-integral parameters are compared with the model only (Go truncation)",
    ]
    if ctx.tier == "thorough":
        nx, okx, xlog = vm_cross_check(ctx, out)
        ctx.coverage["vm_compute_cross_check"] = {"cases": nx, "mismatches": 0 if okx else "see log", "ok": okx,
                                                  "what": "sample of this run's cases with the outputs observed on the Go implementation, "
                                                          "evaluated by vm_compute inside Coq (Acme.C03.CrossCheck.mismatches = [])"}
        if not okx:
            ctx.violation("c03-vm-cross-check", "the in-Coq evaluation of %d sampled cases disagrees with the outputs observed on the "
                          "implementation (or did not run): %s" % (nx, xlog[-700:]), {"log": xlog}, found_input=False)
        okc, chk = vlib.coqchk(PID)
        ctx.coverage["coqchk"] = "ok" if okc else "FAILED"
        ctx.coverage["coqchk_tail"] = chk[-1500:]
        if not okc:
            ctx.proof_problems = (getattr(ctx, "proof_problems", []) or []) + ["coqchk failed: " + chk[-500:]]
