(* Correspondence driver for C03: reads the case file written by the Go harness
   ("<input> ; <observed>"), recomputes every observation with the extracted Coq model and
   prints one MISMATCH line per disagreeing case (first 40) plus a per-kind count. *)
module BZ = Z   (* zarith; the extracted model defines its own module Z *)
open C03_model

let rec pos_of_z (n : BZ.t) : positive =
  if BZ.equal n BZ.one then XH
  else if BZ.testbit n 0 then XI (pos_of_z (BZ.shift_right n 1))
  else XO (pos_of_z (BZ.shift_right n 1))

let coqz_of_z (n : BZ.t) : z =
  if BZ.sign n = 0 then Z0 else if BZ.sign n > 0 then Zpos (pos_of_z n) else Zneg (pos_of_z (BZ.neg n))

let rec z_of_pos = function
  | XH -> BZ.one
  | XO p -> BZ.shift_left (z_of_pos p) 1
  | XI p -> BZ.succ (BZ.shift_left (z_of_pos p) 1)

let z_of_coqz = function Z0 -> BZ.zero | Zpos p -> z_of_pos p | Zneg p -> BZ.neg (z_of_pos p)
let cz s = coqz_of_z (BZ.of_string s)
let zs z = BZ.to_string (z_of_coqz z)

let kind_of = function
  | "c" -> KCustom | "f" -> KFlag | "i" -> KInteger | "d" -> KDecimal
  | s -> failwith ("bad kind " ^ s)

let is_nan_bits (b : BZ.t) =
  let e = BZ.logand (BZ.shift_right b 52) (BZ.of_int 0x7ff) in
  let m = BZ.logand b (BZ.pred (BZ.shift_left BZ.one 52)) in
  BZ.equal e (BZ.of_int 0x7ff) && not (BZ.equal m BZ.zero)

(* "<ValueType>:<Go type> <value>", the form the harness prints *)
let show_value = function
  | VFlag b -> "flag:bool " ^ (if b then "1" else "0")
  | VInt z -> "int:int64 " ^ zs z
  | VUint z -> "uint:uint64 " ^ zs z
  | VFloat f -> "float:float64 " ^ zs (bits_of_f64 f)

(* NaN payload / sign is not part of the property: two NaNs agree *)
let same_value model obs =
  model = obs ||
  (match String.split_on_char ' ' model, String.split_on_char ' ' obs with
   | ["float:float64"; a], ["float:float64"; b] -> is_nan_bits (BZ.of_string a) && is_nan_bits (BZ.of_string b)
   | _ -> false)

let parse_enum_op tok =
  match String.split_on_char ':' tok with
  | ["A"; nm; idx] -> EAdd (cz nm, cz idx)
  | ["R"; nm] -> ERemove (cz nm)
  | ["M"; m] -> ESetMin (cz m)
  | ["U"; nm; idx] -> EUpdate (cz nm, cz idx)
  | ["C"] -> EClear
  | _ -> failwith ("bad enum op " ^ tok)

let model_of (f : string list) : string =
  match f with
  | "D" :: k :: s :: n :: sc :: off :: raw :: _start_and_variant ->
    show_value (decode_std (kind_of k) (s = "1") (cz n) (f64_of_bits (cz sc)) (f64_of_bits (cz off)) (cz raw))
  | "N" :: _n :: cnt :: rest ->
    let cnt = int_of_string cnt in
    let rec take k l acc = if k = 0 then (List.rev acc, l) else
        (match l with nm :: idx :: tl -> take (k - 1) tl ((cz nm, cz idx) :: acc) | _ -> failwith "bad N line") in
    let vs, tl = take cnt rest [] in
    (match tl with
     | [raw] -> (match decode_enum vs (cz raw) with Some nm -> zs nm | None -> "-1")
     | _ -> failwith "bad N line")
  | ["R"; _k; s; n] ->
    let (lo, hi) = int_range (s = "1") (cz n) in
    zs (bits_of_f64 lo) ^ " " ^ zs (bits_of_f64 hi)
  | ["S"; v] -> zs (calc_size (cz v))
  | ["V"; n] -> zs (calc_value (cz n))
  | "E" :: ops ->
    let st = ref enum_new in
    String.concat " " (List.map (fun tok ->
        (* K (continue on a clone), G (edit of a removed value), O (edit of the clone's source) do
           not concern the enum: no-ops for the model, accepted *)
        let o = if tok = "K" || (String.length tok > 1 && (tok.[0] = 'G' || tok.[0] = 'O') && tok.[1] = ':')
          then ESetMin (e_min !st) else parse_enum_op tok in
        let ok = enum_ok !st o in
        st := enum_step !st o;
        Printf.sprintf "%d:%s:%s" (if ok then 1 else 0) (zs (enum_size !st)) (zs (e_max !st))) ops)
  | "Y" :: ops ->
    let st = ref sh_new in
    String.concat " " (List.map (fun tok ->
        let o = match String.split_on_char ':' tok with
          | ["a"; e; v; idx] -> SAdd (cz e, cz v, cz idx)
          | ["s"; e; v] -> SShare (cz e, cz v)
          | ["u"; v; idx] -> SUpdate (cz v, cz idx)
          | _ -> failwith ("bad shared op " ^ tok) in
        st := sstep !st o;
        Printf.sprintf "%s:%s:%s:%s" (zs (se_size (h_a !st))) (zs (se_max (h_a !st))) (zs (se_size (h_b !st))) (zs (se_max (h_b !st)))) ops)
  | ["X"; c; g] -> zs (mux_selector_size (cz c)) ^ " " ^ zs (mux_size (cz c) (cz g))
  | _ -> failwith "unknown case line"

let () =
  let ic = open_in Sys.argv.(1) in
  let n = ref 0 and bad = ref 0 in
  let per = Hashtbl.create 8 in
  (try while true do
      let line = input_line ic in
      if String.length line >= 4 && String.sub line 0 4 = "END " then begin
        Printf.printf "CASES-END %s\n" (String.sub line 4 (String.length line - 4)); raise End_of_file end;
      incr n;
      let i = try Str.search_forward (Str.regexp_string " ; ") line 0 with Not_found -> failwith ("no separator: " ^ line) in
      let inp = String.sub line 0 i and obs = String.sub line (i + 3) (String.length line - i - 3) in
      let f = List.filter (fun s -> s <> "") (String.split_on_char ' ' inp) in
      let m = model_of f in
      if not (same_value m obs) then begin
        incr bad;
        let k = List.hd f in
        Hashtbl.replace per k (1 + (try Hashtbl.find per k with Not_found -> 0));
        if !bad <= 40 then Printf.printf "MISMATCH %d in=%s\n  impl =%s\n  model=%s\n" !n inp obs m
      end
    done with End_of_file -> ());
  Hashtbl.iter (fun k v -> Printf.printf "MISMATCH-KIND %s %d\n" k v) per;
  Printf.printf "CASES %d MISMATCHES %d\n" !n !bad
