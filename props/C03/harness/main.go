// C03 harness: drives the public API of acmelib (plus the two size helpers exported by the
// overlay) over generated inputs, writes one line per case  "<input> ; <observed>"  for the
// extracted Coq model, and evaluates the property's own predicates (exact big-integer /
// big-rational arithmetic, independent of the model) on the implementation's results.
//
//	D k s n scaleBits offsetBits raw start variant muxbits be ; T:gotype v   decode of a standard signal (k: c,f,i,d;
//	                                          variant = how the type was obtained: constructor, Clone, UpdateSigned, setters,
//	                                          StandardSignal.SetType on a placed signal that had another type)
//	N n cnt (name idx)* raw ; name|-1                 decode of an enum signal
//	R k s n ; minBits maxBits                         type range (k: i,d)
//	S v ; r        V n ; r                            calcSizeFromValue / calcValueFromSize
//	E op* ; (ok:size:max)*                            enum history (A:name:idx R:name M:min U:name:idx C K G:j:idx O:j:idx)
//	X count gsize ; sel size                          multiplexer selector / total size
//	Y tok* ; (sizeA:maxA:sizeB:maxB)*                  two enums sharing value objects (a:e:v:idx s:e:v u:v:idx)
package main

import (
	"bufio"
	"fmt"
	"hash/fnv"
	"math"
	"math/big"
	"math/bits"
	"os"
	"sort"
	"strconv"
	"strings"

	acmelib "github.com/squadracorsepolito/acmelib"
)

type rng struct{ s uint64 }

func (r *rng) next() uint64 {
	r.s += 0x9E3779B97F4A7C15
	z := r.s
	z = (z ^ (z >> 30)) * 0xBF58476D1CE4E5B9
	z = (z ^ (z >> 27)) * 0x94D049BB133111EB
	return z ^ (z >> 31)
}
func (r *rng) below(n int) int { return int(r.next() % uint64(n)) }

type failRec struct {
	key    uint64
	line   string
	detail string
}

type recorder struct {
	w          *bufio.Writer
	cases      int
	hist       map[string]int
	fails      map[string]failRec
	nontrivial map[uint64]struct{}
	samples    []string
}

func (rc *recorder) emit(cat string, nontrivial bool, in, obs string) string {
	line := in + " ; " + obs
	fmt.Fprintln(rc.w, line)
	rc.cases++
	rc.hist[cat]++
	if nontrivial {
		h := fnv.New64a()
		h.Write([]byte(in))
		rc.nontrivial[h.Sum64()] = struct{}{}
	}
	if rc.hist[cat] == 7 || (rc.cases%40009 == 0 && len(rc.samples) < 24) {
		rc.samples = append(rc.samples, line)
	}
	return line
}

// fail records a property-level failure; per signature the case with the smallest key is kept.
func (rc *recorder) fail(sig string, key uint64, line, detail string) {
	if old, ok := rc.fails[sig]; ok && old.key <= key {
		return
	}
	rc.fails[sig] = failRec{key, line, detail}
}

// ---------------------------------------------------------------------------- decoding

type typSpec struct {
	kind   byte // c custom, f flag, i integer, d decimal
	signed bool
	size   int
	scale  float64
	offset float64
}

// baseType builds the type through its constructor
func baseType(ts typSpec, signed bool, scale, offset float64) (*acmelib.SignalType, error) {
	switch ts.kind {
	case 'f':
		return acmelib.NewFlagSignalType("t"), nil
	case 'i':
		t, err := acmelib.NewIntegerSignalType("t", ts.size, signed)
		if err != nil {
			return nil, err
		}
		t.SetScale(scale)
		t.SetOffset(offset)
		return t, nil
	case 'd':
		t, err := acmelib.NewDecimalSignalType("t", ts.size, signed)
		if err != nil {
			return nil, err
		}
		t.SetScale(scale)
		t.SetOffset(offset)
		return t, nil
	default:
		return acmelib.NewCustomSignalType("t", ts.size, signed, 0, 0, scale, offset)
	}
}

// nVariants: the ways a type with the same kind / size / signedness / scale / offset is obtained.
// Every one of them must decode identically:
//
//	0 constructor                         1 Clone()                 2 Clone() of a Clone()
//	3 built with the opposite signedness, then UpdateSigned        4 UpdateSigned flipped and flipped
//	back around a first use               5 built with other scale / offset / min / max, then
//	SetScale / SetOffset / SetMin / SetMax  6 variant 3 then Clone()  7 clone, then setters on the clone
//
// 8..10: the type object is built by its constructor, but the SIGNAL is created and placed with
// another type and receives the type through StandardSignal.SetType afterwards (SetType must succeed
// and Type() must be the object that was set); the previous type has
//
//	8 the same kind / size / signedness and another scale / offset / min / max
//	9 another size (one bit less; for 1-bit types: another kind)      10 the opposite signedness
const nVariants = 11

var variantCounter int

var variantName = [nVariants]string{"constructor", "clone", "clone-of-clone", "update-signed", "update-signed-twice", "setters", "update-signed-clone", "clone-setters",
	"set-type-same-shape", "set-type-other-size", "set-type-other-signedness"}

// previousType: the type a signal of the variants 8..10 has before SetType gives it the type under test
func previousType(ts typSpec, variant int) (*acmelib.SignalType, error) {
	if variant == 10 && ts.kind == 'f' {
		variant = 8 // a flag type has no signedness
	}
	switch variant {
	case 9:
		if ts.size == 1 {
			if ts.kind == 'f' {
				return acmelib.NewIntegerSignalType("p", 1, false)
			}
			return acmelib.NewFlagSignalType("p"), nil
		}
		o := ts
		o.size = ts.size - 1
		return baseType(o, ts.signed, ts.scale*3+1, ts.offset-17.5)
	case 10:
		return baseType(ts, !ts.signed, ts.scale, ts.offset)
	default:
		t, err := baseType(ts, ts.signed, ts.scale*3+1, ts.offset-17.5)
		if err == nil && ts.kind != 'f' {
			t.SetMin(-12345)
			t.SetMax(54321)
		}
		return t, err
	}
}

func mkType(ts typSpec, variant int) (*acmelib.SignalType, error) {
	if ts.kind == 'f' && (variant == 3 || variant == 4 || variant == 6) {
		variant = 1 // a flag type has no signedness to flip
	}
	switch variant {
	case 1:
		t, err := baseType(ts, ts.signed, ts.scale, ts.offset)
		if err != nil {
			return nil, err
		}
		return t.Clone(), nil
	case 2:
		t, err := baseType(ts, ts.signed, ts.scale, ts.offset)
		if err != nil {
			return nil, err
		}
		return t.Clone().Clone(), nil
	case 3, 6:
		t, err := baseType(ts, !ts.signed, ts.scale, ts.offset)
		if err != nil {
			return nil, err
		}
		t.UpdateSigned(ts.signed)
		if variant == 6 {
			return t.Clone(), nil
		}
		return t, nil
	case 5, 7:
		t, err := baseType(ts, ts.signed, ts.scale*3+1, ts.offset-17.5)
		if err != nil {
			return nil, err
		}
		if variant == 7 {
			t = t.Clone()
		}
		t.SetMin(-12345)
		t.SetMax(54321)
		t.SetScale(ts.scale)
		t.SetOffset(ts.offset)
		return t, nil
	default: // 0 and 4
		return baseType(ts, ts.signed, ts.scale, ts.offset)
	}
}

type decoder struct {
	ts      typSpec
	start   int
	msg     *acmelib.Message
	variant int
	muxBits int    // size of the multiplexer signal placed in front of the signal (0 = none)
	be      bool   // the message is big endian (the signal then crosses a byte boundary)
	setType string // variants 8..10: note for the failure text when Type() is not the type that was set
}

// muxInFront: every third decoder whose signal leaves room puts a multiplexer signal at bit 0 of
// the message; the decoded signal then FOLLOWS a signal Decode skips (its value must not depend on
// the multiplexer's payload bits)
func muxInFront(size int) int {
	if size > 56 || variantCounter%3 != 0 {
		return 0
	}
	return 3 + variantCounter%5 // group size 2..6 + 1 selector bit
}

func placeMux(msg *acmelib.Message, muxBits int) {
	if muxBits == 0 {
		return
	}
	mux, err := acmelib.NewMultiplexerSignal("mx", 2, muxBits-1)
	if err != nil {
		panic(err)
	}
	if err := msg.InsertSignal(mux, 0); err != nil {
		panic(err)
	}
}

func newDecoder(ts typSpec, start int) *decoder {
	variantCounter++
	mb := muxInFront(ts.size)
	if mb > 0 && start < mb {
		start = mb
	}
	if start+ts.size > 64 {
		start = 64 - ts.size
	}
	// every second decoder of a signal of at least 2 bits lives in a big-endian message, across a byte
	// boundary; one in four of those ends exactly on a byte boundary, so that over the runs every
	// alignment class start%8 x (start+size)%8 x byte order is decoded
	be := false
	if ts.size >= 2 && (variantCounter/3)%2 == 1 {
		cands := []int{}
		for st := mb; st+ts.size <= 64; st++ {
			if crossesByte(st, ts.size) && ((variantCounter/6)%4 != 0 || (st+ts.size)%8 == 0) {
				cands = append(cands, st)
			}
		}
		if len(cands) > 0 {
			be = true
			start = cands[(start*7+variantCounter)%len(cands)]
		}
	}
	return newDecoderV(ts, start, variantCounter%nVariants, mb, be)
}

func newDecoderV(ts typSpec, start, variant, muxBits int, be bool) *decoder {
	typ, err := mkType(ts, variant)
	if err != nil {
		panic(err)
	}
	first, note := typ, ""
	if variant >= 8 {
		if first, err = previousType(ts, variant); err != nil {
			panic(err)
		}
	}
	sig, err := acmelib.NewStandardSignal("s", first)
	if err != nil {
		panic(err)
	}
	msg := acmelib.NewMessage("m", 1, 8)
	if be && variant%2 == 0 {
		msg.SetByteOrder(acmelib.MessageByteOrderBigEndian) // before the placements ...
	}
	placeMux(msg, muxBits)
	if err := msg.InsertSignal(sig, start); err != nil {
		panic(err)
	}
	if be && variant%2 == 1 {
		msg.SetByteOrder(acmelib.MessageByteOrderBigEndian) // ... or after them
	}
	if variant >= 8 {
		// decode once with the previous type, then give the signal the type under test
		func() {
			defer func() { _ = recover() }()
			msg.SignalLayout().Decode(make([]byte, 8))
		}()
		if err := sig.SetType(typ); err != nil {
			// a refused SetType leaves the signal with its previous type: nothing C03 speaks about;
			// the case is judged on a signal created with the type (counted in the summary)
			setTypeRefused++
			return newDecoderV(ts, start, 0, muxBits, be)
		}
		if sig.Type() != typ {
			note = fmt.Sprintf("; SetType reported success but Type() is still the previous type (size %d, scale %g, offset %g)", sig.Type().Size(), sig.Type().Scale(), sig.Type().Offset())
		}
	}
	if variant == 4 && ts.kind != 'f' {
		// use the type once with the other signedness, then restore it
		typ.UpdateSigned(!ts.signed)
		func() {
			defer func() { _ = recover() }()
			msg.SignalLayout().Decode(make([]byte, 8))
		}()
		typ.UpdateSigned(ts.signed)
	}
	return &decoder{ts: ts, start: start, msg: msg, variant: variant, muxBits: muxBits, be: be, setType: note}
}

// setTypeRefused: SetType calls of the variants 8..10 that returned an error
var setTypeRefused int

// payloadBE: the signal occupies the big-endian positions start .. start+size-1 (counted most
// significant bit first through the 8 bytes): the payload read as one big-endian number has the raw
// value at bits 64-start-size .. 63-start
func payloadBE(raw uint64, size, start int, noise uint64) []byte {
	mask := ^uint64(0)
	if size < 64 {
		mask = (uint64(1) << size) - 1
	}
	sh := uint(64 - start - size)
	word := (noise &^ (mask << sh)) | ((raw & mask) << sh)
	data := make([]byte, 8)
	for i := 0; i < 8; i++ {
		data[i] = byte(word >> (8 * (7 - i)))
	}
	return data
}

// crossesByte: a big-endian signal that fits in one byte is the open C02 finding D08; C03 places its
// big-endian signals across at least one byte boundary
func crossesByte(start, size int) bool { return start/8 != (start+size-1)/8 }

func payload(raw uint64, size, start int, noise uint64) []byte {
	mask := ^uint64(0)
	if size < 64 {
		mask = (uint64(1) << size) - 1
	}
	word := (noise &^ (mask << start)) | ((raw & mask) << start)
	data := make([]byte, 8)
	for i := 0; i < 8; i++ {
		data[i] = byte(word >> (8 * i))
	}
	return data
}

func (d *decoder) run(raw, noise uint64) (dec *acmelib.SignalDecoding, pan string) {
	defer func() {
		if r := recover(); r != nil {
			pan = fmt.Sprint(r)
		}
	}()
	data := payload(raw, d.ts.size, d.start, noise)
	if d.be {
		data = payloadBE(raw, d.ts.size, d.start, noise)
	}
	res := d.msg.SignalLayout().Decode(data)
	if len(res) != 1 || res[0] == nil {
		return nil, fmt.Sprintf("Decode returned %d results", len(res))
	}
	return res[0], ""
}

// obsValue: "<ValueType>:<dynamic Go type of Value> <value>" (floats as bit patterns)
func obsValue(dec *acmelib.SignalDecoding) string {
	tag := fmt.Sprintf("%s:%T", dec.ValueType, dec.Value)
	switch v := dec.Value.(type) {
	case bool:
		if v {
			return tag + " 1"
		}
		return tag + " 0"
	case int64:
		return tag + " " + strconv.FormatInt(v, 10)
	case uint64:
		return tag + " " + strconv.FormatUint(v, 10)
	case float64:
		return tag + " " + strconv.FormatUint(math.Float64bits(v), 10)
	default:
		return tag + " ?"
	}
}

// accessorsOK: ValueAs<T>() returns the value for the decoding's own type and the zero value
// for every other type ("integer kinds yield integers, other kinds float64", flags bool, enums string)
func accessorsOK(dec *acmelib.SignalDecoding) string {
	isNaN := func(f float64) bool { return f != f }
	wantFlag, wantInt, wantUint, wantFloat, wantEnum := false, int64(0), uint64(0), float64(0), ""
	switch v := dec.Value.(type) {
	case bool:
		wantFlag = v
	case int64:
		wantInt = v
	case uint64:
		wantUint = v
	case float64:
		wantFloat = v
	case string:
		wantEnum = v
	}
	f := dec.ValueAsFloat()
	if dec.ValueAsFlag() != wantFlag || dec.ValueAsInt() != wantInt || dec.ValueAsUint() != wantUint ||
		!(f == wantFloat || (isNaN(f) && isNaN(wantFloat))) || dec.ValueAsEnum() != wantEnum {
		return fmt.Sprintf("ValueAsFlag/Int/Uint/Float/Enum = %v/%d/%d/%g/%q for Value %v (%T)", dec.ValueAsFlag(), dec.ValueAsInt(),
			dec.ValueAsUint(), f, dec.ValueAsEnum(), dec.Value, dec.Value)
	}
	return ""
}

func sextBig(raw uint64, size int, signed bool) *big.Int {
	v := new(big.Int).SetUint64(raw)
	if signed && (raw>>(size-1))&1 == 1 {
		v.Sub(v, new(big.Int).Lsh(big.NewInt(1), uint(size)))
	}
	return v
}

func isIntegral(f float64) bool { return f == math.Trunc(f) && !math.IsInf(f, 0) && !math.IsNaN(f) }

// expected observation by the property's own rule; ok=false when the case lies outside the
// property's quantifier (non-integral parameters of an integer kind, unrepresentable result,
// non-finite intermediate).
func expectDecode(ts typSpec, raw uint64) (string, bool) {
	switch ts.kind {
	case 'f':
		if raw != 0 {
			return "flag:bool 1", true
		}
		return "flag:bool 0", true
	case 'i':
		if !isIntegral(ts.scale) || !isIntegral(ts.offset) {
			return "", false
		}
		sc, _ := new(big.Float).SetFloat64(ts.scale).Int(nil)
		off, _ := new(big.Float).SetFloat64(ts.offset).Int(nil)
		r := sextBig(raw, ts.size, ts.signed)
		r.Mul(r, sc).Add(r, off)
		if ts.signed {
			if !r.IsInt64() {
				return "", false
			}
			return "int:int64 " + r.String(), true
		}
		if !r.IsUint64() {
			return "", false
		}
		return "uint:uint64 " + r.String(), true
	default:
		xf, _ := new(big.Float).SetInt(sextBig(raw, ts.size, ts.signed)).Float64() // float64(int): nearest even
		for _, f := range []float64{xf, ts.scale, ts.offset} {
			if math.IsInf(f, 0) || math.IsNaN(f) {
				return "", false
			}
		}
		// t1 = round(xf * scale), exact product in Q, one rounding to nearest even
		negProd := math.Signbit(xf) != math.Signbit(ts.scale)
		t1, _ := new(big.Rat).Mul(new(big.Rat).SetFloat64(xf), new(big.Rat).SetFloat64(ts.scale)).Float64()
		if math.IsInf(t1, 0) {
			return "", false
		}
		if t1 == 0 { // exact zero or underflow: the sign is the sign of the exact product
			t1 = 0
			if negProd {
				t1 = math.Copysign(0, -1)
			}
		}
		// t2 = round(t1 + offset)
		var t2 float64
		if t1 == 0 && ts.offset == 0 {
			t2 = 0
			if math.Signbit(t1) && math.Signbit(ts.offset) {
				t2 = math.Copysign(0, -1)
			}
		} else {
			t2, _ = new(big.Rat).Add(new(big.Rat).SetFloat64(t1), new(big.Rat).SetFloat64(ts.offset)).Float64()
			if t2 == 0 {
				t2 = 0 // exact cancellation gives +0 under round-to-nearest
			}
		}
		return "float:float64 " + strconv.FormatUint(math.Float64bits(t2), 10), true
	}
}

func kindName(k byte) string {
	switch k {
	case 'f':
		return "flag"
	case 'i':
		return "integer"
	case 'd':
		return "decimal"
	}
	return "custom"
}

func b2i(b bool) int {
	if b {
		return 1
	}
	return 0
}

func decodeCase(rc *recorder, d *decoder, raw, noise uint64, cat string) {
	ts := d.ts
	in := fmt.Sprintf("D %c %d %d %d %d %d %d %d %d %d", ts.kind, b2i(ts.signed), ts.size,
		math.Float64bits(ts.scale), math.Float64bits(ts.offset), raw, d.start, d.variant, d.muxBits, b2i(d.be))
	top := ts.signed && (raw>>(ts.size-1))&1 == 1
	nontriv := top || ts.offset != 0 || ts.scale != 1
	rc.hist[fmt.Sprintf("align-%s-%d-%d", map[bool]string{false: "le", true: "be"}[d.be], d.start%8, (d.start+ts.size)%8)]++
	rc.hist["type-via-"+variantName[d.variant]]++
	dec, pan := d.run(raw, noise)
	key := uint64(ts.size)<<56 | (raw & (1<<56 - 1))
	sg := "unsigned"
	if ts.signed {
		sg = "signed"
	}
	if pan != "" {
		line := rc.emit(cat, nontriv, in, "panic")
		rc.fail("c03-decode-panic-"+kindName(ts.kind), key, line, pan)
		return
	}
	obs := obsValue(dec)
	line := rc.emit(cat, nontriv, in, obs)
	// kind -> value type: integer kinds yield int64 / uint64, decimal and custom kinds float64
	// (whatever the scale), flags bool
	wantTag := map[byte]string{'f': "flag:bool", 'd': "float:float64", 'c': "float:float64"}[ts.kind]
	if ts.kind == 'i' {
		wantTag = "uint:uint64"
		if ts.signed {
			wantTag = "int:int64"
		}
	}
	if !strings.HasPrefix(obs, wantTag+" ") {
		rc.fail("c03-value-type-"+kindName(ts.kind)+"-"+sg, key, line, fmt.Sprintf("a %s %s type decodes to %s, expected %s", sg, kindName(ts.kind), obs, wantTag))
	}
	if msg := accessorsOK(dec); msg != "" {
		rc.fail("c03-value-accessors-"+kindName(ts.kind), key, line, msg)
	}
	exp, ok := expectDecode(ts, raw)
	if ok && exp != obs {
		shape := ""
		if top {
			shape += "-top"
		}
		if ts.offset != 0 {
			shape += "-offset"
		}
		if ts.scale != 1 {
			shape += "-scale"
		}
		if shape == "" {
			shape = "-plain"
		}
		via := ""
		if d.variant != 0 {
			via = "-via-" + variantName[d.variant]
		}
		if d.muxBits != 0 {
			via += "-behind-multiplexer"
		}
		if d.be {
			via += fmt.Sprintf("-big-endian-start%d-end%d", d.start%8, (d.start+ts.size)%8)
		}
		rc.fail("c03-decode-"+kindName(ts.kind)+"-"+sg+shape+via, key, line,
			fmt.Sprintf("size %d raw %d scale %g offset %g (type obtained by %s): decoded %s, raw*scale+offset rule gives %s", ts.size, raw, ts.scale, ts.offset, variantName[d.variant], obs, exp)+d.setType)
	}
}

func boundaryRaws(size int, r *rng, nrand int) []uint64 {
	mask := ^uint64(0)
	if size < 64 {
		mask = (uint64(1) << size) - 1
	}
	half := uint64(1) << (size - 1)
	set := map[uint64]struct{}{}
	out := []uint64{}
	add := func(v uint64) {
		v &= mask
		if _, ok := set[v]; !ok {
			set[v] = struct{}{}
			out = append(out, v)
		}
	}
	for _, v := range []uint64{0, 1, 2, half - 1, half, half + 1, mask - 1, mask, half >> 1, 1 << 53 & mask, (1<<53 + 1) & mask, 0x5555555555555555, 0xAAAAAAAAAAAAAAAA} {
		add(v)
	}
	for i := 0; i < nrand; i++ {
		v := r.next()
		if i%3 == 0 { // small magnitudes around both ends
			v = v & 0xFF
			if i%2 == 0 {
				v = mask - v
			}
		}
		add(v)
	}
	return out
}

type pair struct{ scale, offset float64 }

var intPairs = []pair{
	{1, 0}, {1, 1}, {1, -1}, {2, 0}, {-1, 0}, {3, 7}, {-2, -100}, {10, 5}, {255, 1000}, {1, 128},
	{65536, -65536}, {2147483648, 2147483648}, {1, -1099511627776}, {4294967297, 3}, {1000, 0},
	{1, 9007199254740992}, {0, 42}, {-1, -1}, {7, -3}, {1, 4611686018427387904},
	{1e15, -1e15}, {-4611686018427387904, 0}, {9007199254740993, 1},
	{2.5, 0}, {1, 0.75}, {-0.5, 3.999}, {1.5, -1.5},
}

var floatPairs = []pair{
	{1, 0}, {0.5, 0}, {0.25, -40}, {0.1, 0}, {0.01, 273.15}, {1, 0.1}, {-0.1, 0.3}, {3.3, -1.1}, {0.001, 0},
	{9.5367431640625e-07, 0}, {1e10, 1}, {1e-10, -1e-10}, {1, 1e16}, {1, -9007199254740993}, {1e300, -1e300},
	{1e-300, 1e-310}, {5e-324, 0}, {1.7976931348623157e308, 0}, {1e-320, 1e-320}, {2, 0.5}, {0.125, 1024},
	{0.30000000000000004, 0.1}, {-1, 0}, {0, 0}, {1, -0.5}, {6.103515625e-05, -2}, {0.1, -12.8},
	{3, 7}, {10, -40}, {1000, 0}, {-2, 1},
	// sign of zero (negative-zero offsets are added at start-up, Go has no -0.0 literal) and overflow
	// in the sum with a finite product
	{1.7976931348623157e308, 1.7976931348623157e308}, {-1.7976931348623157e308, -1.7976931348623157e308},
}

func init() {
	nz := math.Copysign(0, -1)
	floatPairs = append(floatPairs, pair{1, nz}, pair{-1, nz}, pair{nz, nz}, pair{nz, 0}, pair{-0.1, nz})
	intPairs = append(intPairs, pair{0.5, 0.5}, pair{-0.999, 2.999}, pair{3.7, -3.7})
}

func genDecode(rc *recorder, r *rng, thorough bool) {
	exh := 12
	if thorough {
		exh = 18
	}
	ip, fp := 0, 0
	for size := 1; size <= exh; size++ {
		nI, nF := 6, 5
		if size > 14 {
			nI, nF = 4, 3
		}
		if size > 16 {
			nI, nF = 2, 2
		}
		for _, signed := range []bool{false, true} {
			specs := []typSpec{}
			for k := 0; k < nI; k++ {
				p := intPairs[ip%len(intPairs)]
				if k == 0 {
					p = intPairs[0]
				} else {
					ip++
				}
				specs = append(specs, typSpec{'i', signed, size, p.scale, p.offset})
			}
			for k := 0; k < nF; k++ {
				p := floatPairs[fp%len(floatPairs)]
				fp++
				kd := byte('d')
				if k%2 == 1 {
					kd = 'c'
				}
				specs = append(specs, typSpec{kd, signed, size, p.scale, p.offset})
			}
			for _, ts := range specs {
				d := newDecoder(ts, r.below(64-size+1))
				for raw := uint64(0); raw < uint64(1)<<size; raw++ {
					decodeCase(rc, d, raw, r.next(), "decode-exhaustive")
				}
			}
		}
	}
	nrand := 24
	if thorough {
		nrand = 1000
	}
	for size := 1; size <= 64; size++ {
		for _, signed := range []bool{false, true} {
			raws := boundaryRaws(size, r, nrand)
			for pi, p := range intPairs {
				d := newDecoder(typSpec{'i', signed, size, p.scale, p.offset}, r.below(64-size+1))
				for ri, raw := range raws {
					if size <= exh && pi < 4 && ri > 16 {
						break
					}
					decodeCase(rc, d, raw, r.next(), "decode-boundary")
				}
			}
			for pi, p := range floatPairs {
				kd := byte('d')
				if pi%2 == 1 {
					kd = 'c'
				}
				d := newDecoder(typSpec{kd, signed, size, p.scale, p.offset}, r.below(64-size+1))
				for _, raw := range raws {
					decodeCase(rc, d, raw, r.next(), "decode-boundary")
				}
			}
		}
	}
	// flags
	d := newDecoder(typSpec{'f', false, 1, 1, 0}, 0)
	for i := 0; i < 64; i++ {
		d = newDecoder(typSpec{'f', false, 1, 1, 0}, i)
		decodeCase(rc, d, 0, r.next(), "decode-flag")
		decodeCase(rc, d, 1, r.next(), "decode-flag")
	}
}

// ---------------------------------------------------------------------------- enums

func bitLen(v int) int {
	if v <= 0 {
		return 1
	}
	return bits.Len64(uint64(v))
}

func expectEnumSize(e *acmelib.SignalEnum) int {
	mx := 0
	for _, v := range e.Values() {
		if v.Index() > mx {
			mx = v.Index()
		}
	}
	s := bitLen(mx)
	if e.MinSize() > s {
		s = e.MinSize()
	}
	return s
}

var idxPool = []int{0, 1, 2, 3, 4, 7, 8, 15, 16, 17, 31, 32, 63, 64, 100, 127, 128, 255, 256, 1000, 1023, 1024, 4095, 4096,
	65535, 65536, 1<<31 - 1, 1 << 31, 1<<32 - 1, 1 << 32, 1<<53 + 1, 1<<62 - 1, 1 << 62, 1<<62 + 1, 1<<63 - 1}

func pickIdx(r *rng) int {
	switch r.below(10) {
	case 0, 1, 2, 3:
		return r.below(20)
	case 4, 5, 6:
		return idxPool[r.below(len(idxPool))]
	case 7:
		return 1<<uint(r.below(63)) - r.below(2)
	case 8:
		return int(r.next() >> uint(1+r.below(62)))
	default:
		return -1 - r.below(5)
	}
}

// enumRun executes an enum history token by token (generation and replay share it).
//
//	A:name:idx  AddValue          R:name  RemoveValue        U:name:idx  UpdateIndex
//	C  RemoveAllValues            M:min   SetMinSize
//	K           continue on a Clone() of the enum; the original stays alive as a shadow
//	G:j:idx     UpdateIndex(idx) + UpdateName on the j-th value REMOVED earlier (it is no longer part
//	            of the enum: nothing may change)
//	O:j:idx     UpdateIndex(idx) on the j-th value of the latest shadow (the enum the current one was
//	            cloned from): the shadow follows its own values, the current enum does not change
//
// K, G and O are no-ops for the model of the current enum.  After every token: GetSize / MaxIndex of
// the current enum AND of every shadow are compared with their own value lists.
type enumRun struct {
	e       *acmelib.SignalEnum
	ids     map[int]acmelib.EntityID
	removed []*acmelib.SignalEnumValue
	shadows []*acmelib.SignalEnum
	ops     []string
	obs     []string
	bad     string
	badSig  string
}

func newEnumRun() *enumRun {
	return &enumRun{e: acmelib.NewSignalEnum("e"), ids: map[int]acmelib.EntityID{}}
}

func enumConsistent(e *acmelib.SignalEnum) string {
	realMax := 0
	for _, v := range e.Values() {
		if v.Index() > realMax {
			realMax = v.Index()
		}
	}
	if exp := expectEnumSize(e); exp != e.GetSize() || realMax != e.MaxIndex() {
		return fmt.Sprintf("GetSize %d MaxIndex %d; largest index of its values %d, smallest width for it (min size %d) is %d", e.GetSize(), e.MaxIndex(), realMax, e.MinSize(), exp)
	}
	return ""
}

func (er *enumRun) apply(tok string) {
	er.ops = append(er.ops, tok)
	q := strings.Split(tok, ":")
	at := func(i int) int { v, _ := strconv.Atoi(q[i]); return v }
	ok := true
	e := er.e
	sizeBefore, maxBefore, nBefore := e.GetSize(), e.MaxIndex(), len(e.Values())
	untouched := false
	switch q[0] {
	case "A":
		v := acmelib.NewSignalEnumValue(fmt.Sprintf("Val_%d", at(1)), at(2))
		if err := e.AddValue(v); err != nil {
			ok = false
		} else {
			er.ids[at(1)] = v.EntityID()
		}
	case "R":
		id, have := er.ids[at(1)]
		if !have {
			id = acmelib.EntityID("missing")
		}
		val, _ := e.GetValue(id)
		if err := e.RemoveValue(id); err != nil {
			ok = false
		} else {
			delete(er.ids, at(1))
			if val != nil {
				er.removed = append(er.removed, val)
			}
		}
	case "U":
		id, have := er.ids[at(1)]
		if !have {
			ok = false
		} else if v, err := e.GetValue(id); err != nil {
			ok = false
		} else if err := v.UpdateIndex(at(2)); err != nil {
			ok = false
		}
	case "C":
		er.removed = append(er.removed, e.Values()...)
		e.RemoveAllValues()
		er.ids = map[int]acmelib.EntityID{}
	case "M":
		e.SetMinSize(at(1))
	case "K":
		untouched = true
		if ce, err := e.Clone(); err == nil {
			ce.SetMinSize(e.MinSize()) // Clone copies the values; the minimum size is configuration
			if ce.GetSize() != e.GetSize() || ce.MaxIndex() != e.MaxIndex() || len(ce.Values()) != len(e.Values()) {
				er.fail("c03-enum-clone", fmt.Sprintf("clone has size %d max index %d, %d values; original %d, %d, %d", ce.GetSize(), ce.MaxIndex(), len(ce.Values()), e.GetSize(), e.MaxIndex(), len(e.Values())))
			}
			er.shadows = append(er.shadows, e)
			er.e = ce
			e = ce
			er.ids = map[int]acmelib.EntityID{}
			for _, v := range e.Values() {
				if n, err := strconv.Atoi(strings.TrimPrefix(v.Name(), "Val_")); err == nil {
					er.ids[n] = v.EntityID()
				}
			}
		}
	case "G":
		untouched = true
		if len(er.removed) > 0 {
			v := er.removed[at(1)%len(er.removed)]
			_ = v.UpdateIndex(at(2))
			_ = v.UpdateName(fmt.Sprintf("Ghost_%d", at(2)))
		}
	case "O":
		untouched = true
		if len(er.shadows) > 0 {
			sh := er.shadows[len(er.shadows)-1]
			if vs := sh.Values(); len(vs) > 0 {
				_ = vs[at(1)%len(vs)].UpdateIndex(at(2))
			}
		}
	}
	er.obs = append(er.obs, fmt.Sprintf("%d:%d:%d", b2i(ok), e.GetSize(), e.MaxIndex()))
	if untouched && (e.GetSize() != sizeBefore || e.MaxIndex() != maxBefore || len(e.Values()) != nBefore) {
		er.fail("c03-enum-foreign-edit", fmt.Sprintf("after %s the enum changed (size %d->%d, max index %d->%d, values %d->%d) although the edit concerned %s",
			strings.Join(er.ops, " "), sizeBefore, e.GetSize(), maxBefore, e.MaxIndex(), nBefore, len(e.Values()),
			map[string]string{"K": "nothing (Clone)", "G": "a value removed from it earlier", "O": "a value of the enum it was cloned from"}[q[0]]))
	}
	if msg := enumConsistent(e); msg != "" {
		er.fail("c03-enum-size", "after "+strings.Join(er.ops, " ")+": "+msg)
	}
	for i, sh := range er.shadows {
		if msg := enumConsistent(sh); msg != "" {
			er.fail("c03-enum-clone-source", fmt.Sprintf("after %s: the enum cloned at step K#%d no longer follows its own values: %s", strings.Join(er.ops, " "), i+1, msg))
		}
	}
}

func (er *enumRun) fail(sig, msg string) {
	if er.bad == "" {
		er.bad, er.badSig = msg, sig
	}
}

func (er *enumRun) record(rc *recorder) {
	line := rc.emit("enum-history", len(er.ops) >= 3, "E "+strings.Join(er.ops, " "), strings.Join(er.obs, " "))
	if er.bad != "" {
		rc.fail(er.badSig, uint64(len(er.ops)), line, er.bad)
	}
}

func genEnumHistories(rc *recorder, r *rng, n int) {
	for c := 0; c < n; c++ {
		er := newEnumRun()
		nops := 1 + r.below(14)
		for i := 0; i < nops; i++ {
			e := er.e
			switch k := r.below(17); {
			case k < 6:
				er.apply(fmt.Sprintf("A:%d:%d", r.below(8), pickIdx(r)))
			case k < 8:
				er.apply(fmt.Sprintf("R:%d", r.below(8)))
			case k == 8 || k == 9:
				// UpdateIndex: up, down (incl. lowering the current maximum), onto a used index
				nm := r.below(8)
				idx := pickIdx(r)
				if r.below(3) == 0 && e.MaxIndex() > 0 {
					idx = r.below(e.MaxIndex()) // below the current maximum
				}
				if r.below(2) == 0 { // prefer the holder of the maximum
					for n2, id := range er.ids {
						if v, err := e.GetValue(id); err == nil && v.Index() == e.MaxIndex() {
							nm = n2
						}
					}
				}
				er.apply(fmt.Sprintf("U:%d:%d", nm, idx))
			case k == 10:
				er.apply("C")
			case k == 11 || k == 12:
				er.apply(fmt.Sprintf("M:%d", []int{1, 1, 2, 3, 4, 5, 8, 12, 16, 32, 63, 64, 0, -1}[r.below(14)]))
			case k == 13:
				er.apply("K")
			case k == 14 || k == 15:
				if len(er.removed) > 0 {
					er.apply(fmt.Sprintf("G:%d:%d", r.below(8), []int{1000, 70000, 1 << 40, 3, 0}[r.below(5)]))
				} else {
					er.apply(fmt.Sprintf("A:%d:%d", r.below(8), pickIdx(r)))
				}
			default:
				if len(er.shadows) > 0 {
					er.apply(fmt.Sprintf("O:%d:%d", r.below(8), []int{1000, 70000, 1 << 40, 5, 0}[r.below(5)]))
				} else {
					er.apply("K")
				}
			}
		}
		er.record(rc)
	}
}

// sharedRun: two enums and value objects that may be added to both (SignalEnum.AddValue has no
// parent check: the D20 family for enum values).  Tokens: a:e:v:idx new value v into enum e,
// s:e:v the existing value object v into enum e as well, u:v:idx v.UpdateIndex(idx).
// Observed after every token: GetSize:MaxIndex of both enums (model: coq/C03/Shared.v).
func sharedCase(rc *recorder, toks []string) {
	en := [2]*acmelib.SignalEnum{acmelib.NewSignalEnum("a"), acmelib.NewSignalEnum("b")}
	vals := map[int]*acmelib.SignalEnumValue{}
	obs := []string{}
	bad, badSig := "", ""
	for i, tok := range toks {
		q := strings.Split(tok, ":")
		at := func(j int) int { v, _ := strconv.Atoi(q[j]); return v }
		switch q[0] {
		case "a":
			if _, have := vals[at(2)]; !have {
				v := acmelib.NewSignalEnumValue(fmt.Sprintf("Val_%d", at(2)), at(3))
				vals[at(2)] = v
				_ = en[at(1)%2].AddValue(v)
			}
		case "s":
			if v, have := vals[at(2)]; have {
				_ = en[at(1)%2].AddValue(v)
			}
		case "u":
			if v, have := vals[at(1)]; have {
				_ = v.UpdateIndex(at(2))
			}
		}
		obs = append(obs, fmt.Sprintf("%d:%d:%d:%d", en[0].GetSize(), en[0].MaxIndex(), en[1].GetSize(), en[1].MaxIndex()))
		for k, e := range en {
			if msg := enumConsistent(e); msg != "" && bad == "" {
				// known shape (decided by value): the enum holds a value object whose ParentEnum is another enum
				foreign := false
				for _, v := range e.Values() {
					if v.ParentEnum() != e {
						foreign = true
					}
				}
				badSig = "c03-enum-size"
				if foreign {
					badSig = "c03-enum-size-value-in-two-enums"
				}
				bad = fmt.Sprintf("after %s: enum %d: %s", strings.Join(toks[:i+1], " "), k, msg)
			}
		}
	}
	line := rc.emit("enum-shared-values", true, "Y "+strings.Join(toks, " "), strings.Join(obs, " "))
	if bad != "" {
		rc.fail(badSig, uint64(len(toks)), line, bad)
	}
}

func genShared(rc *recorder, r *rng, n int) {
	for c := 0; c < n; c++ {
		toks := []string{}
		nv := 0
		for i, m := 0, 2+r.below(7); i < m; i++ {
			switch k := r.below(10); {
			case k < 4 || nv == 0:
				toks = append(toks, fmt.Sprintf("a:%d:%d:%d", r.below(2), nv, []int{0, 1, 2, 3, 5, 7, 8, 200, 1000, 70000}[r.below(10)]))
				nv++
			case k < 6:
				toks = append(toks, fmt.Sprintf("s:%d:%d", r.below(2), r.below(nv)))
			default:
				toks = append(toks, fmt.Sprintf("u:%d:%d", r.below(nv), []int{0, 1, 2, 4, 9, 100, 1000, 65536, 3}[r.below(9)]))
			}
		}
		sharedCase(rc, toks)
	}
}

func genEnumDecode(rc *recorder, r *rng, n int) {
	for c := 0; c < n; c++ {
		e := acmelib.NewSignalEnum("e")
		vals := []enumVal{}
		used := map[int]bool{}
		want := 1 + r.below(7)
		negs := c%9 == 0
		for len(vals) < want {
			idx := pickIdx(r)
			if idx < 0 && !negs {
				idx = -idx
			}
			if used[idx] {
				continue
			}
			used[idx] = true
			nm := len(vals)
			val := acmelib.NewSignalEnumValue(fmt.Sprintf("Val_%d", nm), idx)
			if r.below(3) == 0 {
				val = val.Clone() // a clone must behave as the original
			}
			if err := e.AddValue(val); err != nil {
				panic(err)
			}
			vals = append(vals, enumVal{nm, idx})
		}
		if c%4 == 0 {
			e.SetMinSize([]int{1, 4, 8, 16, 33, 64, 64}[r.below(7)])
		}
		if negs {
			e.SetMinSize(64)
		}
		if c%3 == 1 {
			// decode through a clone (and a clone of the clone) of the enum
			ce, err := e.Clone()
			if err != nil {
				panic(err)
			}
			ce.SetMinSize(e.MinSize()) // Clone copies the values; the minimum size is configuration
			if c%2 == 0 {
				if ce2, err := ce.Clone(); err == nil {
					ce2.SetMinSize(e.MinSize())
					ce = ce2
				}
			}
			if ce.GetSize() != e.GetSize() || ce.MaxIndex() != e.MaxIndex() || len(ce.Values()) != len(e.Values()) {
				rc.fail("c03-enum-clone", uint64(len(vals)), fmt.Sprintf("N clone of enum with %d values", len(vals)),
					fmt.Sprintf("clone has size %d max index %d, %d values; original %d, %d, %d", ce.GetSize(), ce.MaxIndex(), len(ce.Values()), e.GetSize(), e.MaxIndex(), len(e.Values())))
			}
			e = ce
		}
		size := e.GetSize()
		if size < 1 || size > 64 {
			continue
		}
		start := r.below(64 - size + 1)
		mask := ^uint64(0)
		if size < 64 {
			mask = uint64(1)<<size - 1
		}
		raws := []uint64{0, 1, mask, r.next() & mask, r.next() & mask}
		for _, v := range vals {
			raws = append(raws, uint64(v.idx)&mask, uint64(v.idx+1)&mask, uint64(v.idx-1)&mask)
		}
		sort.Slice(vals, func(i, j int) bool { return vals[i].nm < vals[j].nm })
		for _, raw := range raws {
			enumDecodeCase(rc, e, vals, size, start, raw, r.next())
		}
	}
}

type enumVal struct{ nm, idx int }

// enumDecodeCase decodes one raw value of an enum signal on enum e (values vals, width size)
func enumDecodeCase(rc *recorder, e *acmelib.SignalEnum, vals []enumVal, size, start int, raw, noise uint64) {
	sig, err := acmelib.NewEnumSignal("s", e)
	if err != nil {
		panic(err)
	}
	msg := acmelib.NewMessage("m", 1, 8)
	// half of the enum signals that leave room follow a multiplexer signal placed at bit 0
	if size <= 56 && (raw+uint64(size))%2 == 0 {
		mb := 3 + size%5
		if start < mb {
			start = mb
		}
		placeMux(msg, mb)
	}
	if err := msg.InsertSignal(sig, start); err != nil {
		panic(err)
	}
	var sb strings.Builder
	fmt.Fprintf(&sb, "N %d %d", size, len(vals))
	for _, v := range vals {
		fmt.Fprintf(&sb, " %d %d", v.nm, v.idx)
	}
	fmt.Fprintf(&sb, " %d", raw)
	typeBad := ""
	got, pan := func() (s string, pan string) {
		defer func() {
			if x := recover(); x != nil {
				pan = fmt.Sprint(x)
			}
		}()
		res := msg.SignalLayout().Decode(payload(raw, size, start, noise))
		if len(res) != 1 || res[0] == nil {
			return "", "bad Decode result"
		}
		if _, isStr := res[0].Value.(string); !isStr || res[0].ValueType != acmelib.SignalValueTypeEnum {
			typeBad = fmt.Sprintf("enum signal decodes to %s:%T", res[0].ValueType, res[0].Value)
		} else if msg := accessorsOK(res[0]); msg != "" {
			typeBad = msg
		}
		return res[0].ValueAsEnum(), ""
	}()
	exp := "-1"
	for _, v := range vals {
		if v.idx >= 0 && uint64(v.idx) == raw {
			exp = strconv.Itoa(v.nm)
		}
	}
	obs := "-1"
	if pan != "" {
		obs = "panic"
	} else if got != "" {
		obs = strings.TrimPrefix(got, "Val_")
	}
	line := rc.emit("enum-decode", exp != "-1", sb.String(), obs)
	if typeBad != "" {
		rc.fail("c03-value-type-enum", uint64(len(vals)), line, typeBad)
	}
	if pan != "" {
		rc.fail("c03-enum-decode-panic", uint64(len(vals)), line, pan)
	} else if obs != exp {
		sg := "c03-enum-decode"
		if raw>>63 == 1 && exp == "-1" {
			sg = "c03-enum-decode-negative-index"
		}
		rc.fail(sg, uint64(len(vals)), line, fmt.Sprintf("raw %d decoded to value %q, the value with that index is %s", raw, got, exp))
	}
}

// ---------------------------------------------------------------------------- ranges, sizes, mux

func f64OfBig(x *big.Int) float64 {
	f, _ := new(big.Float).SetInt(x).Float64()
	return f
}

func rangeCase(rc *recorder, k byte, signed bool, n int) {
	var t *acmelib.SignalType
	var err error
	if k == 'i' {
		t, err = acmelib.NewIntegerSignalType("t", n, signed)
	} else {
		t, err = acmelib.NewDecimalSignalType("t", n, signed)
	}
	if err != nil {
		panic(err)
	}
	lo, hi := big.NewInt(0), new(big.Int).Sub(new(big.Int).Lsh(big.NewInt(1), uint(n)), big.NewInt(1))
	if signed {
		lo = new(big.Int).Neg(new(big.Int).Lsh(big.NewInt(1), uint(n-1)))
		hi = new(big.Int).Sub(new(big.Int).Lsh(big.NewInt(1), uint(n-1)), big.NewInt(1))
	}
	line := rc.emit("range", true, fmt.Sprintf("R %c %d %d", k, b2i(signed), n),
		fmt.Sprintf("%d %d", math.Float64bits(t.Min()), math.Float64bits(t.Max())))
	if math.Float64bits(t.Min()) != math.Float64bits(f64OfBig(lo)) || math.Float64bits(t.Max()) != math.Float64bits(f64OfBig(hi)) {
		sg := "unsigned"
		if signed {
			sg = "signed"
		}
		rc.fail("c03-range-"+kindName(k)+"-"+sg, uint64(n), line,
			fmt.Sprintf("%d-bit %s %s type reports [%g, %g], the two's-complement range is [%s, %s]", n, sg, kindName(k), t.Min(), t.Max(), lo, hi))
	}
}

func genRanges(rc *recorder) {
	for _, k := range []byte{'i', 'd'} {
		for _, signed := range []bool{false, true} {
			for n := 1; n <= 64; n++ {
				rangeCase(rc, k, signed, n)
			}
		}
	}
}

func sizeCase(rc *recorder, v int) {
	got := acmelib.VerifCalcSizeFromValue(v)
	line := rc.emit("calc-size", v > 1, fmt.Sprintf("S %d", v), strconv.Itoa(got))
	if exp := bitLen(v); got != exp {
		sig := "c03-calc-size"
		if v >= 1<<62 {
			sig = "c03-calc-size-top"
		}
		rc.fail(sig, uint64(v), line, fmt.Sprintf("calcSizeFromValue(%d) = %d, the smallest width holding the value is %d", v, got, exp))
	}
}

func valueCase(rc *recorder, n int) {
	got := acmelib.VerifCalcValueFromSize(n)
	line := rc.emit("calc-value", n > 0, fmt.Sprintf("V %d", n), strconv.Itoa(got))
	if n >= 1 && n <= 62 && got != 1<<uint(n) {
		rc.fail("c03-calc-value", uint64(n), line, fmt.Sprintf("calcValueFromSize(%d) = %d, expected 2^%d", n, got, n))
	}
	if n >= 1 && n <= 62 {
		// the importer's use: a selector of n bits must be reproduced by the group count it yields
		if back := acmelib.VerifCalcSizeFromValue(got - 1); back != n {
			rc.fail("c03-calc-roundtrip", uint64(n), line, fmt.Sprintf("calcSizeFromValue(calcValueFromSize(%d)-1) = %d", n, back))
		}
	}
}

func muxCase(rc *recorder, c, gs int) {
	ms, err := acmelib.NewMultiplexerSignal("x", c, gs)
	if err != nil {
		panic(err)
	}
	sel, tot := ms.GetGroupCountSize(), ms.GetSize()
	line := rc.emit("mux-size", c > 2, fmt.Sprintf("X %d %d", c, gs), fmt.Sprintf("%d %d", sel, tot))
	exp := bitLen(c - 1)
	if sel != exp || tot != gs+exp {
		rc.fail("c03-mux-selector", uint64(c), line, fmt.Sprintf("%d groups of %d bits: selector %d total %d, smallest selector able to hold group id %d is %d", c, gs, sel, tot, c-1, exp))
	}
}

func isDecimalCase(rc *recorder, v float64) {
	got := acmelib.VerifIsDecimal(v)
	want := v != math.Trunc(v)
	rc.hist["is-decimal(go-predicate-only)"]++
	if got != want {
		neg := "positive"
		if v < 0 {
			neg = "negative"
		}
		rc.fail("c03-is-decimal-"+neg, math.Float64bits(math.Abs(v))>>12, fmt.Sprintf("I %d", math.Float64bits(v)),
			fmt.Sprintf("isDecimal(%g) = %v, the value %s a fractional part", v, got, map[bool]string{true: "has", false: "has no"}[want]))
	}
}

func genSizes(rc *recorder, r *rng, nrand int) {
	vals := []int{0, 1, 2, 3}
	for k := 2; k <= 62; k++ {
		vals = append(vals, 1<<uint(k)-1, 1<<uint(k), 1<<uint(k)+1)
	}
	vals = append(vals, 1<<63-2, 1<<63-1)
	for i := 0; i < nrand; i++ {
		vals = append(vals, int(r.next()>>uint(1+r.below(63))))
	}
	for _, v := range vals {
		sizeCase(rc, v)
	}
	for n := -2; n <= 70; n++ {
		valueCase(rc, n)
	}
}

// isDecimal (helpers.go) decides in the DBC importer whether a signal gets an integer kind (then
// scale / offset are truncated by decoding) or a decimal kind: "has a fractional part".
func genIsDecimal(rc *recorder, r *rng) {
	vals := []float64{0, math.Copysign(0, -1), 0.5, -0.5, 1e-9, -1e-9, 1, -1, 1.5, -1.5, 0.1, -0.1, 2.000000000000001, -2.000000000000001,
		4503599627370495.5, -4503599627370495.5, 4503599627370496, 9007199254740992, -9007199254740992, 9007199254740994, 1e300, -1e300,
		5e-324, -5e-324, 255, -255, 0.25, -0.25, 1e15 + 0.5, -(1e15 + 0.5)}
	for i := 0; i < 200; i++ {
		f := math.Float64frombits(r.next())
		if math.IsNaN(f) || math.IsInf(f, 0) {
			continue
		}
		vals = append(vals, f, math.Trunc(f), float64(int64(r.next()>>uint(r.below(60))))/float64(int64(1)<<uint(r.below(8))))
	}
	for _, v := range vals {
		isDecimalCase(rc, v)
	}
}

func genMux(rc *recorder, r *rng, thorough bool) {
	counts := []int{}
	for c := 1; c <= 4097; c++ {
		counts = append(counts, c)
	}
	top := 16
	if thorough {
		top = 20
	}
	for k := 13; k <= top; k++ {
		counts = append(counts, 1<<uint(k)-1, 1<<uint(k), 1<<uint(k)+1)
	}
	for _, c := range counts {
		muxCase(rc, c, 1+r.below(56))
	}
}

// ---------------------------------------------------------------------------- replay of one case

// replay re-runs exactly one case line of any kind (the input part, before " ; ")
func replay(rc *recorder, line string) {
	f := strings.Fields(line)
	atoi := func(s string) int { v, _ := strconv.Atoi(s); return v }
	atou := func(s string) uint64 { v, _ := strconv.ParseUint(s, 10, 64); return v }
	switch f[0] {
	case "D":
		ts := typSpec{f[1][0], f[2] == "1", atoi(f[3]), math.Float64frombits(atou(f[4])), math.Float64frombits(atou(f[5]))}
		variant := 0
		if len(f) > 8 {
			variant = atoi(f[8])
		}
		mb := 0
		if len(f) > 9 {
			mb = atoi(f[9])
		}
		d := newDecoderV(ts, atoi(f[7]), variant, mb, len(f) > 10 && f[10] == "1")
		decodeCase(rc, d, atou(f[6]), 0, "replay")
	case "R":
		rangeCase(rc, f[1][0], f[2] == "1", atoi(f[3]))
	case "S":
		sizeCase(rc, atoi(f[1]))
	case "V":
		valueCase(rc, atoi(f[1]))
	case "X":
		muxCase(rc, atoi(f[1]), atoi(f[2]))
	case "I":
		isDecimalCase(rc, math.Float64frombits(atou(f[1])))
	case "Y":
		sharedCase(rc, f[1:])
	case "E":
		er := newEnumRun()
		for _, tok := range f[1:] {
			er.apply(tok)
		}
		er.record(rc)
	case "N":
		// N size cnt (name idx)* raw : enum of that width (minimum size) with those values, one raw value
		size, cnt := atoi(f[1]), atoi(f[2])
		vals := []enumVal{}
		for i := 0; i < cnt; i++ {
			vals = append(vals, enumVal{atoi(f[3+2*i]), atoi(f[4+2*i])})
		}
		e := acmelib.NewSignalEnum("e")
		for _, v := range vals {
			if err := e.AddValue(acmelib.NewSignalEnumValue(fmt.Sprintf("Val_%d", v.nm), v.idx)); err != nil {
				panic(err)
			}
		}
		e.SetMinSize(size)
		enumDecodeCase(rc, e, vals, e.GetSize(), 0, atou(f[3+2*cnt]), 0)
	default:
		fmt.Println("unknown case kind", f[0])
	}
}

func main() {
	out := os.Getenv("VERIF_OUT")
	seed, _ := strconv.ParseUint(os.Getenv("VERIF_SEED"), 10, 64)
	thorough := os.Getenv("VERIF_TIER") == "thorough"
	fh, err := os.Create(out)
	if err != nil {
		panic(err)
	}
	rc := &recorder{w: bufio.NewWriterSize(fh, 1<<20), hist: map[string]int{}, fails: map[string]failRec{}, nontrivial: map[uint64]struct{}{}}
	r := &rng{seed}
	if rp := os.Getenv("VERIF_REPLAY_CASE"); rp != "" {
		replay(rc, rp)
	} else {
		genRanges(rc)
		genSizes(rc, r, map[bool]int{false: 300, true: 20000}[thorough])
		genIsDecimal(rc, r)
		genMux(rc, r, thorough)
		genEnumHistories(rc, r, map[bool]int{false: 3000, true: 100000}[thorough])
		genShared(rc, r, map[bool]int{false: 1500, true: 40000}[thorough])
		genEnumDecode(rc, r, map[bool]int{false: 1500, true: 40000}[thorough])
		genDecode(rc, r, thorough)
	}
	// END marker: a truncated or half-written case file must not read as a short clean run
	fmt.Fprintf(rc.w, "END %d\n", rc.cases)
	if err := rc.w.Flush(); err != nil {
		panic(err)
	}
	if err := fh.Close(); err != nil {
		panic(err)
	}
	sf, err := os.Create(out + ".summary")
	if err != nil {
		panic(err)
	}
	defer sf.Close()
	fmt.Fprintf(sf, "cases %d\nnontrivial %d\n", rc.cases, len(rc.nontrivial))
	if setTypeRefused > 0 {
		rc.hist["set-type-refused(decoders-rebuilt-with-the-constructor)"] = setTypeRefused
	}
	for k, v := range rc.hist {
		fmt.Fprintf(sf, "hist %s %d\n", k, v)
	}
	for _, s := range rc.samples {
		fmt.Fprintf(sf, "sample %s\n", s)
	}
	sigs := []string{}
	for s := range rc.fails {
		sigs = append(sigs, s)
	}
	sort.Strings(sigs)
	for _, s := range sigs {
		fmt.Fprintf(sf, "PROPFAIL %s %s ## %s\n", s, rc.fails[s].line, rc.fails[s].detail)
	}
}
