//go:build verif

// Injected into package acmelib with `go build -overlay` by /verif (never committed to /repo).
// Exports the two size helpers of helpers.go to the C03 harness.
package acmelib

// VerifCalcSizeFromValue exposes calcSizeFromValue.
func VerifCalcSizeFromValue(v int) int { return calcSizeFromValue(v) }

// VerifCalcValueFromSize exposes calcValueFromSize.
func VerifCalcValueFromSize(s int) int { return calcValueFromSize(s) }

// VerifIsDecimal exposes isDecimal.
func VerifIsDecimal(v float64) bool { return isDecimal(v) }
