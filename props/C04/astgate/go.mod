module verif/c04astgate

go 1.22
