// astgate lists the public API of the entity layer of the library under check, from its Go AST:
//   M <receiver type> <method> <signature> <w>    exported method; w = 1 when the body assigns through the
//                                                  receiver or calls an unexported method / a method of a
//                                                  field of the receiver (a syntactic sign of mutation)
//   F <function> <signature>                      exported function (constructors)
// The C04/C05/C06 checks compare this list with the alphabet they cover (props/C04/alphabet.json): a new
// or renamed public method, or a changed signature, is a violation (c0x-alphabet-drift).
package main

import (
	"bytes"
	"fmt"
	"go/ast"
	"go/parser"
	"go/printer"
	"go/token"
	"os"
	"path/filepath"
	"sort"
	"strings"
)

func typeStr(fset *token.FileSet, e ast.Expr) string {
	var b bytes.Buffer
	printer.Fprint(&b, fset, e)
	return strings.Join(strings.Fields(b.String()), "")
}

func fieldList(fset *token.FileSet, fl *ast.FieldList) string {
	if fl == nil {
		return ""
	}
	var xs []string
	for _, f := range fl.List {
		t := typeStr(fset, f.Type)
		n := len(f.Names)
		if n == 0 {
			n = 1
		}
		for i := 0; i < n; i++ {
			xs = append(xs, t)
		}
	}
	return strings.Join(xs, ",")
}

func rootIdent(e ast.Expr) string {
	for {
		switch x := e.(type) {
		case *ast.SelectorExpr:
			e = x.X
		case *ast.IndexExpr:
			e = x.X
		case *ast.StarExpr:
			e = x.X
		case *ast.ParenExpr:
			e = x.X
		case *ast.Ident:
			return x.Name
		default:
			return ""
		}
	}
}

// writes: does the body assign through the receiver, or call something on the receiver that is not an
// exported getter-looking method (unexported method, or any method of a receiver field)?
func writes(recv string, body *ast.BlockStmt) bool {
	if body == nil || recv == "" || recv == "_" {
		return false
	}
	w := false
	ast.Inspect(body, func(n ast.Node) bool {
		switch x := n.(type) {
		case *ast.AssignStmt:
			for _, l := range x.Lhs {
				if _, isSel := l.(*ast.SelectorExpr); isSel && rootIdent(l) == recv {
					w = true
				}
				if _, isIdx := l.(*ast.IndexExpr); isIdx && rootIdent(l) == recv {
					w = true
				}
			}
		case *ast.IncDecStmt:
			if rootIdent(x.X) == recv {
				w = true
			}
		case *ast.CallExpr:
			if sel, ok := x.Fun.(*ast.SelectorExpr); ok && rootIdent(sel.X) == recv {
				name := sel.Sel.Name
				_, direct := sel.X.(*ast.Ident)
				lower := name[:1] == strings.ToLower(name[:1])
				mutName := false
				for _, p := range []string{"add", "remove", "clear", "modify", "set", "insert", "append", "delete", "resize", "shift", "compact", "update", "push", "pop"} {
					if strings.HasPrefix(strings.ToLower(name), p) {
						mutName = true
					}
				}
				if mutName && (lower || !direct) {
					w = true
				}
			}
		}
		return true
	})
	return w
}

func main() {
	dir := os.Args[1]
	skip := map[string]bool{"exporter.go": true, "importer.go": true, "loader.go": true, "saver.go": true, "md_exporter.go": true,
		"doc.go": true, "errors.go": true, "helpers.go": true, "utils.go": true}
	files, _ := filepath.Glob(filepath.Join(dir, "*.go"))
	sort.Strings(files)
	fset := token.NewFileSet()
	var out []string
	for _, f := range files {
		base := filepath.Base(f)
		if strings.HasSuffix(base, "_test.go") || skip[base] || strings.HasPrefix(base, "verif_") {
			continue
		}
		af, err := parser.ParseFile(fset, f, nil, 0)
		if err != nil {
			fmt.Fprintf(os.Stderr, "astgate: %v\n", err)
			os.Exit(2)
		}
		for _, d := range af.Decls {
			fd, ok := d.(*ast.FuncDecl)
			if !ok || !fd.Name.IsExported() {
				continue
			}
			sig := "(" + fieldList(fset, fd.Type.Params) + ")(" + fieldList(fset, fd.Type.Results) + ")"
			if fd.Recv == nil {
				out = append(out, fmt.Sprintf("F %s %s", fd.Name.Name, sig))
				continue
			}
			rt := typeStr(fset, fd.Recv.List[0].Type)
			rt = strings.TrimPrefix(rt, "*")
			if i := strings.Index(rt, "["); i > 0 {
				rt = rt[:i]
			}
			if strings.HasSuffix(rt, "Error") {
				continue
			}
			rn := ""
			if len(fd.Recv.List[0].Names) > 0 {
				rn = fd.Recv.List[0].Names[0].Name
			}
			w := 0
			if writes(rn, fd.Body) {
				w = 1
			}
			out = append(out, fmt.Sprintf("M %s %s %s %d", rt, fd.Name.Name, sig, w))
		}
	}
	sort.Strings(out)
	for _, l := range out {
		fmt.Println(l)
	}
}
