"""Shared front-end of the C04 / C05 / C06 checks (one Go harness, one Coq model, three
properties).  Proofs: coq/Properties/C04.v, C05.v, C06.v over coq/C04/*.v.  Tie: the harness
(props/C04/harness + overlay hooks) runs generated operation histories on the implementation,
evaluates the property predicates on the implementation after every step (package vinv through the
public API, raw uniqueness indexes through the hooks, declarative preconditions, whole-pool
before/after snapshots for failing calls, recover() around every call) and writes a trace that
the extracted Coq model replays step by step (props/C04/driver); result class and the complete
state are compared after every operation."""
import json
import os
import re
import shutil
import vlib
import importlib.util as _ilu

HERE = os.path.dirname(os.path.abspath(__file__))
_cs = _ilu.spec_from_file_location("c04_crosscheck", os.path.join(HERE, "crosscheck.py"))
crosscheck = _ilu.module_from_spec(_cs)
_cs.loader.exec_module(crosscheck)
ALLOCATING = ("New", "NodeAddInterface", "Clone")


def build_harness(ctx):
    hd = vlib.go_harness_dir(HERE, ctx.scratch)
    ov = vlib.overlay_json(ctx.scratch, {"verif_c04.go": os.path.join(HERE, "overlay", "verif_c04.go")})
    exe = os.path.join(ctx.scratch, "c04_harness")
    rc, log = vlib.sh(["go", "build", "-tags", "verif", "-overlay", ov, "-o", exe, "."], cwd=hd, env=vlib.goenv(), timeout=900)
    return (exe if rc == 0 else None), log


def run_harness(ctx, exe, out, replay_ops=None, quiet=False, extra_env=None):
    env = vlib.goenv()
    env.update({"VERIF_OUT": out, "VERIF_SEED": str(ctx.seed), "VERIF_TIER": ctx.tier})
    if replay_ops is not None:
        rp = out + ".ops"
        with open(rp, "w") as f:
            f.write("\n".join(replay_ops) + "\n")
        env["VERIF_REPLAY"] = rp
        if quiet:
            env["VERIF_QUIET"] = "1"
    if extra_env:
        env.update(extra_env)
    return vlib.sh([exe], env=env, timeout=3000)


def parse_summary(path):
    d = {"hist": {}, "fails": []}
    if not os.path.exists(path):
        return None
    for line in open(path, encoding="utf-8", errors="replace"):
        line = line.rstrip("\n")
        if line.startswith("FAIL "):
            prop, sig, detail, ops = (line[5:].split("\t") + ["", "", ""])[:4]
            d["fails"].append({"prop": prop, "sig": sig, "detail": detail, "ops": ops.split(";")})
        elif line.startswith("hist "):
            _, k, v = line.split(" ")
            d["hist"][k] = int(v)
        else:
            k, v = line.split(" ")
            d[k] = int(v)
    return d


def shrink(ctx, exe, fail, budget=50):
    """Delta debugging on the op list: drop non-allocating operations while the same failure
    (property + signature) is still reported by a replay run."""
    ops = list(fail["ops"])
    out = os.path.join(ctx.scratch, "shrink.txt")
    tries = 0
    changed = True
    while changed and tries < budget:
        changed = False
        i = len(ops) - 2           # the last op is the one after which the failure shows
        while i >= 0 and tries < budget:
            if ops[i].startswith(ALLOCATING):
                i -= 1
                continue
            cand = ops[:i] + ops[i + 1:]
            tries += 1
            rc, _ = run_harness(ctx, exe, out, replay_ops=cand, quiet=True)
            s = parse_summary(out + ".summary") if rc == 0 else None
            if s and any(f["prop"] == fail["prop"] and f["sig"] == fail["sig"] for f in s["fails"]):
                ops = cand
                changed = True
            i -= 1
    return ops


RULES = {
    "C04": "cases = generated operation histories (pool-building constructors + 150 mutator calls: a structure-building phase, three directed "
           "scripts that release and re-use keys / remove through outer containers, ~70 random calls with keys from small alphabets) run on the real library; after every call the uniqueness clauses (vinv, public API), the raw "
           "index maps (= maps derived from the contents), every lookup by name and the acceptance of used / released keys "
           "are evaluated, and the whole state is compared with the Coq model; non-trivial = distinct history with >= 3 kinds "
           "of accepted mutators, >= 1 refusal and >= 1 accepted rename / id change / static CAN-ID change",
    "C05": "cases = the same histories; after every call the parent/children relations of every container kind (both "
           "directions), exclusivity, interface numbering and the raw containment maps are evaluated on the implementation "
           "and the whole state is compared with the Coq model; non-trivial as for C04",
    "C06": "cases = the same histories with >= 40 % refused calls; every call runs inside recover(); for every failing call a "
           "whole-pool snapshot (all public getters of all entities + raw maps) before/after must be identical, the cause "
           "(errors.Is on the sentinels, innermost typed wrapper by Unwrap) must be the documented one, and refusal must "
           "coincide with the declarative precondition evaluated on the contents; result class and state compared with the Coq model; "
           "non-trivial = distinct history with >= 3 kinds of accepted mutators, >= 1 refusal and >= 1 accepted rename / id change / "
           "static CAN-ID change (as for C04); the refused fraction is measured (refused_fraction) and must be >= 0.40",
}


def alphabet_gate(ctx, low, summ):
    """The public API of the entity layer of the tree under check (go/ast) against props/C04/alphabet.json:
    a new, renamed or removed public method, a changed signature, or a read-only method that now writes
    through its receiver is a violation — an unverified mutating path cannot be added silently.  Every
    listed mutator must also have been called in this run."""
    exe = os.path.join(vlib.BUILD, "c04_astgate")
    src = os.path.join(HERE, "astgate", "main.go")
    if not os.path.exists(exe) or os.path.getmtime(exe) < os.path.getmtime(src):
        rc, log = vlib.sh(["go", "build", "-o", exe, "."], cwd=os.path.join(HERE, "astgate"), env=vlib.goenv(), timeout=600)
        if rc != 0:
            ctx.violation(low + "-alphabet-gate-failed", "the API lister does not build: " + log[-600:], {"log": log[-2000:]}, found_input=False)
            return
    rc, log = vlib.sh([exe, vlib.repo()], timeout=120)
    if rc != 0:
        ctx.violation(low + "-alphabet-gate-failed", "the sources of the tree under check do not parse: " + log[-600:], {"log": log[-2000:]}, found_input=False)
        return
    listed = json.load(open(os.path.join(HERE, "alphabet.json")))["api"]
    seen, drift = {}, []
    for line in log.splitlines():
        w = line.split()
        if len(w) >= 3 and w[0] == "F":
            seen[w[1]] = (w[2], 0)
        elif len(w) >= 5 and w[0] == "M":
            seen[w[1] + "." + w[2]] = (w[3], int(w[4]))
    for k, (sig, wr) in sorted(seen.items()):
        if k not in listed:
            drift.append((k, "public %s %s%s is in no alphabet of the checks (new or renamed)" % ("method" if "." in k else "function", k, sig)))
        elif listed[k]["sig"] != sig:
            drift.append((k, "the signature of %s changed from %s to %s" % (k, listed[k]["sig"], sig)))
        elif listed[k]["class"] == "getter" and wr:
            drift.append((k, "%s is classified read-only but now writes through its receiver" % k))
    for k in sorted(listed):
        if k not in seen:
            drift.append((k, "%s is listed in the alphabet but no longer exists (removed or renamed)" % k))
    for k, what in drift[:12]:
        ctx.violation("%s-alphabet-drift:%s" % (low, k), what + "; props/C04/alphabet.json and the model / harness have to be extended before the theorems speak about this code",
                      {"method": k, "all_drift": [d[0] for d in drift]}, found_input=False)
    # every listed mutator was exercised by this run
    uncovered = []
    if not ctx.replay:
        ops_run = {k.split(".")[0] for k, v in summ.get("hist", {}).items() if v > 0}
        for k, v in sorted(listed.items()):
            if v["class"] != "getter" and v.get("op") not in ops_run:
                uncovered.append(k)
        for k in uncovered[:8]:
            ctx.violation("%s-alphabet-uncovered:%s" % (low, k), "the run never called %s (harness operation %s)" % (k, listed[k].get("op")), {"method": k}, found_input=False)
    cls = {}
    for v in listed.values():
        cls[v["class"]] = cls.get(v["class"], 0) + 1
    ctx.coverage["alphabet_gate"] = {"public_api_entries": len(seen), "listed": len(listed), "by_class": cls, "drift": [d[0] for d in drift], "uncovered": uncovered}


def vm_cross_check(ctx, low, trace, summ):
    """DESIGN 3.3: a sample of the histories, with the observed result classes and states, replayed on
    step2 inside Coq by vm_compute (no extraction, no OCaml); a tampered copy must be rejected."""
    import time
    n = summ.get("cases", 0)
    gen = min(n, 9000)
    rng = vlib.SplitMix64(ctx.seed)
    ids = sorted({1 + (i * gen) // 48 for i in range(48)} | {1 + rng.below(gen) for _ in range(8)} | set(range(1000001, 1000007)))
    v = os.path.join(ctx.scratch, "c04_cases.v")
    bad = os.path.join(ctx.scratch, "c04_cases_tampered.v")
    t0 = time.time()
    try:
        nh, nc, nr, ns, _ = crosscheck.generate(trace, v, ids)
        _, _, _, _, tampered = crosscheck.generate(trace, bad, ids[:3], tamper=True)
    except Exception as e:          # the trace does not have the documented form
        ctx.violation(low + "-vm-cross-check", "the trace could not be translated into Coq terms: %r" % (e,), {"error": repr(e)}, found_input=False)
        return
    cmd = ["coqc", "-R", vlib.COQ, "Acme", "-w", "-notation-overridden,-deprecated-hint-without-locality,-deprecated-instance-without-locality,-ambiguous-paths"]
    rc, log = vlib.sh(cmd + [v], cwd=ctx.scratch, timeout=1500)
    rcb, logb = vlib.sh(cmd + [bad], cwd=ctx.scratch, timeout=600)
    ctx.coverage["vm_cross_check"] = {"histories": nh, "calls": nc, "results_compared": nr, "states_compared": ns,
                                      "seconds": round(time.time() - t0, 1), "ok": rc == 0,
                                      "tampered_copy_rejected": bool(tampered and rcb != 0 and "Unable to unify" in logb)}
    if nh < 40 or ns < 200:
        ctx.violation(low + "-vm-cross-check", "the in-Coq cross-check embedded too little (%d histories, %d states)" % (nh, ns), {}, found_input=False)
    if rc != 0:
        m = re.search(r'File "[^"]*", line (\d+)', log)
        ctx.violation(low + "-vm-cross-check", "replaying the sampled histories on step2 inside Coq (vm_compute) disagrees with what the harness "
                      "observed on the implementation, although the extracted model agreed: %s" % log[-700:],
                      {"file": v, "coqc_output": log[-3000:]}, found_input=False)
    if not tampered or rcb == 0 or "Unable to unify" not in logb:
        ctx.violation(low + "-vm-cross-check-cannot-fail", "a copy of the cases with one observed field changed was not rejected by coqc "
                      "(tampered=%s rc=%s): %s" % (tampered, rcb, logb[-400:]), {"file": bad}, found_input=False)


def run_property(ctx, pid):
    ctx.level = "proof"
    # floor for a non-replay run: about 70 % of the histories of the quick tier
    ctx.min_evaluations = 300
    low = pid.lower()
    status = vlib.proof_status(pid, extra_targets=["C04/Extract.v", "C04/CrossCheck.v", "C01/Extract.v"])
    if any("No rule to make target" in p for p in status["problems"]):
        # another stream removed a scratch .v file between coq_makefile and make: build again
        status = vlib.proof_status(pid, extra_targets=["C04/Extract.v", "C04/CrossCheck.v", "C01/Extract.v"])
    ctx.proof_gate(status)
    drv = vlib.build_ocaml_driver("c04_driver", os.path.join(vlib.COQ, "extracted"),
                                  os.path.join(HERE, "driver", "c04_driver.ml"), only=["c04_model", "c01_model"])
    exe, blog = build_harness(ctx)
    if exe is None:
        ctx.violation("harness-build-failed", "the Go harness / overlay hooks no longer build against the repository: " + blog[-800:],
                      {"log": blog[-3000:]}, found_input=False)
        ctx.coverage.update({"evaluations": 0})
        return
    out = os.path.join(ctx.scratch, "trace.txt")

    if ctx.replay:
        r = json.load(open(ctx.replay))
        ops = (r.get("replay") or {}).get("ops") or []
        rc, log = run_harness(ctx, exe, out, replay_ops=ops)
        print(log)
        rc2, mlog = vlib.sh([drv, out, "-v"], timeout=600)
        print(mlog)
    else:
        rc, log = run_harness(ctx, exe, out)
    summ = parse_summary(out + ".summary") if rc == 0 else None
    if summ is None:
        m = re.search(r"panic: .*", log)
        ctx.violation("impl-run-failed", "harness run failed (%s): %s" % (m.group(0) if m else "rc=%d" % rc, log[-600:]),
                      {"log": log[-3000:]}, found_input=bool(m))
        ctx.coverage.update({"evaluations": 0})
        return
    rc2, mlog = vlib.sh([drv, out], timeout=2400)
    m = re.search(r"CASES (\d+) STEPS (\d+) MISMATCHES (\d+)", mlog)
    mism = int(m.group(3)) if m else -1
    mk = re.search(r"KINDS result=(\d+) state=(\d+) histories=(\d+)", mlog)
    kind_counts = {"result": int(mk.group(1)), "state": int(mk.group(2)), "histories": int(mk.group(3))} if mk else {}
    mc = re.search(r"COMPARED results=(\d+) states=(\d+)", mlog)
    me = re.search(r"^END (\d+) (\d+) (\d+) (\d+) (\d+)$", mlog, re.M)
    m1 = re.search(r"^C01 compared=(\d+) disagreements=(\d+)$", mlog, re.M)
    # the driver must have processed exactly what the harness generated: a truncated trace, a driver that
    # stopped early or compared nothing shows nothing
    count_problems = []
    if not me:
        count_problems.append("the trace has no END line (truncated or not written completely)")
    if m and mc and me and m1:
        want = {"cases": summ.get("cases"), "olines": summ.get("olines"), "rlines": summ.get("rlines"), "dlines": summ.get("dlines"), "clines": summ.get("clines")}
        got = {"cases": int(m.group(1)), "olines": int(m.group(2)), "rlines": int(mc.group(1)), "dlines": int(mc.group(2)), "clines": int(m1.group(1))}
        endl = {"cases": int(me.group(1)), "olines": int(me.group(2)), "rlines": int(me.group(3)), "dlines": int(me.group(4)), "clines": int(me.group(5))}
        if got != want or endl != want:
            count_problems.append("harness generated %s, END line says %s, driver processed %s" % (want, endl, got))
    elif m and not (mc and m1):
        count_problems.append("the driver did not report how many results / states / geometry decisions it compared")
    alphabet_gate(ctx, low, summ)
    # property-level failures found on the implementation
    mine = [f for f in summ["fails"] if f["prop"] == low]
    shrunk = 0
    for f in mine:
        is_known = any(k["signature"] == f["sig"] for k in ctx.known_open)
        ops = f["ops"]
        if not is_known and not ctx.replay and shrunk < 3:
            ops = shrink(ctx, exe, f)
            shrunk += 1
        ctx.violation(f["sig"], "%s fails on the implementation: %s (after %d operations, last: %s)" % (pid, f["detail"], len(ops), ops[-1] if ops else "-"),
                      {"ops": ops, "detail": f["detail"], "how": "./check %s --replay <this file>" % pid})
    # model / implementation disagreement (the model is faithful also where findings are open, so no
    # mismatch is ever explained by a finding): ANY mismatch is a violation of all three properties,
    # because the theorems of C04, C05 and C06 speak about the one model; driver failures and
    # incomplete comparisons are violations of their own
    if mism < 0 or rc2 != 0:
        ctx.violation(low + "-driver-failed", "the model driver did not complete (rc=%s): %s" % (rc2, mlog[-600:]),
                      {"driver_output": mlog[-3000:]}, found_input=False)
    elif mism != 0:
        first = re.search(r"MISMATCH.*\n.*\n.*", mlog)
        ctx.violation(low + "-correspondence", "Coq model and implementation disagree (%s mismatches: %s); the theorems of "
                      "Properties/%s.v no longer speak about this code: %s" % (mism, kind_counts, pid, (first.group(0) if first else mlog[-600:])[:900]),
                      {"correspondence": "props/C04 step-by-step result/state comparison", "driver_output": mlog[:4000]},
                      found_input=bool(mine))
    # the geometry oracle: the implementation's accept / layout-refusal decision of every geometric call
    # against the extracted layout model of the C01/C07 stream (which proves *_accepted_iff_fits)
    if m1 and int(m1.group(2)) != 0 and not (mism < 0 or rc2 != 0):
        firstc = re.search(r"C01-DISAGREES.*", mlog)
        ctx.violation(low + "-oracle-disagrees-with-layout-model", "the geometry decision the C04 model takes as an oracle bit is not the decision of the "
                      "C01/C07 layout model in %s call(s): %s" % (m1.group(2), firstc.group(0)[:600] if firstc else ""),
                      {"driver_output": "\n".join(re.findall(r"C01-DISAGREES.*", mlog))[:4000]}, found_input=bool(mine))
    if count_problems and not (mism < 0 or rc2 != 0):
        ctx.violation(low + "-model-compared-too-few", "; ".join(count_problems),
                      {"driver_output": mlog[-2000:], "summary": {k: summ.get(k) for k in ("cases", "steps", "olines", "rlines", "dlines")}},
                      found_input=False)
    samples = []
    with open(out) as f:
        for i, line in enumerate(f):
            if line.startswith(("O ", "X ")) and len(samples) < 6 and i % 997 < 3:
                samples.append(line.strip()[:200])
    fall = max(1, summ.get("fallible", 1))
    ctx.coverage.update({
        "evaluations": summ.get("cases", 0),
        "steps_observed": summ.get("steps", 0),
        "predicate_evaluations": summ.get("checks", 0),
        "fallible_calls": summ.get("fallible", 0),
        "refused_calls": summ.get("refused", 0),
        "refused_fraction": round(summ.get("refused", 0) / fall, 3),
        "histories_with_open_finding_trigger": summ.get("tainted", 0),
        "distinct_nontrivial": summ.get("nontrivial", 0),
        "rule": RULES[pid],
        "distribution": summ["hist"],
        "model_mismatches": mism,
        "model_mismatch_kinds": kind_counts,
        "geometry_oracle_vs_layout_model": {"calls": int(m1.group(1)), "disagreements": int(m1.group(2))} if m1 else None,
        "model_compared": {"results": int(mc.group(1)), "states": int(mc.group(2))} if mc else None,
        "property_predicate_failures": sorted(f["sig"] for f in mine),
        "samples": samples,
        "exhaustive": False,
        "trusted_base": [
            "Coq 8.16.1 kernel (coqc; coqchk in the thorough tier); std++ (gmap/gset) and coq-record-update as libraries",
            "axioms: none (Print Assumptions: Closed under the global context)" if not status["axioms"] else "axioms: " + ", ".join(status["axioms"]),
            "extraction (ExtrOcamlBasic only, no Extract Constant/Inductive of our own) + OCaml 4.13.1 + props/C04/driver/c04_driver.ml",
            "Go harness props/C04/harness (generators, executor, classification of errors, snapshots, declarative preconditions), "
            "overlay hooks props/C04/overlay/verif_c04.go (read-only accessors), shared evaluators props/common/vinv",
            "model coq/C04/{State,Ops,Step,Refs,Reg}.v (layers 1, 3, 2) is a hand-written restatement of the Go mutators; tied by the step-by-step comparison above (the replay runs step2, the outermost layer, and compares every component of all three layers); "
            "NodeID/MessageID/CANID (uint32) and int modelled as unbounded Z (arguments stay in range); payload geometry abstracted by an oracle bit (the value check of attributes and the size limit of a bus are derived in the model), "
            "which the driver checks call by call against the extracted layout model of the C01/C07 stream (coq/C01; harness/c01bridge.go translates the calls)",
            "thorough tier: a sample of histories is additionally replayed inside Coq by vm_compute (coq/C04/CrossCheck.v): for it extraction and OCaml are not trusted",
        ],
    })
    # quick tier: generated histories only (floor 0.40); the thorough tier adds ~25 000 exhaustive histories of
    # length <= 3 over a small universe, most of whose calls are accepted: floor 0.38 there
    floor = 0.40 if ctx.tier == "quick" else 0.38
    if not ctx.replay and summ.get("refused", 0) < floor * fall:
        ctx.violation(low + "-too-few-refusals", "only %d of %d fallible calls were refused (the run must exercise >= 40 %% refusals)" % (summ.get("refused", 0), fall),
                      {"summary": {k: summ.get(k) for k in ("fallible", "refused")}}, found_input=False)
    ctx.assumptions = [
        "theorem side conditions op_ok / op_ok2 / op_ok3: an attach is not applied to an entity or signal that already has another parent, a node has one receiving "
        "interface per message (open findings D20, D22: the harness generates these calls, they are reported as known findings, *_refuted witnesses in Properties)",
        "an interface removed from its node (Node.RemoveInterface) is a dead object and is not passed to later calls",
        "NewNode is not called with a negative interface count (makeslice panics; a constructor, not a mutating call)",
        "an enum referenced by two signals of one layout (one payload or one multiplexer) does not grow: open finding D36 of the C01/C07 stream (each signal is verified alone, "
        "pushes in map order); such calls are not generated here, the C01/C07 checks exercise the zone (a replayed history that contains one is signed +two-signals-of-the-enum-in-one-layout)",
        "refusals decided by payload geometry (SignalSizeError / StartBitError / ValueIndexError) are taken from the implementation as an oracle bit; they are the subject of C01/C07",
    ]
    if ctx.tier == "thorough" and not ctx.replay and mism == 0:
        vm_cross_check(ctx, low, out, summ)
    if ctx.tier == "thorough":
        ok, chk = vlib.coqchk(pid)
        ctx.coverage["coqchk"] = "ok" if ok else "FAILED"
        ctx.coverage["coqchk_tail"] = chk[-1500:]
        if not ok:
            ctx.proof_problems = (getattr(ctx, "proof_problems", []) or []) + ["coqchk failed: " + chk[-500:]]
