"""C04 — see props/C04/c04lib.py (shared harness and model of the C04/C05/C06 stream)."""
import importlib.util
import os

_p = os.path.join(os.path.dirname(os.path.dirname(os.path.abspath(__file__))), "C04", "c04lib.py")
_s = importlib.util.spec_from_file_location("c04lib", _p)
c04lib = importlib.util.module_from_spec(_s)
_s.loader.exec_module(c04lib)


def run(ctx):
    c04lib.run_property(ctx, "C04")
