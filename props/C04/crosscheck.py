"""Cross-check of the C04/C05/C06 correspondence inside Coq (DESIGN 3.3, thorough tier).

A sample of the histories of the trace (the file the OCaml driver reads) is translated into Coq
terms: every operation, every observed result class and — every few calls and at the end — the
complete observed state.  The generated file has one lemma per history,
    Lemma hist_<n> : run_case init2 [...] = true.  Proof. vm_compute. reflexivity. Qed.
(coq/C04/CrossCheck.v), so for that sample neither the extraction nor the OCaml driver is trusted.
A second, tampered copy (one observed field changed) must be REJECTED by coqc."""
import re

CAUSES = {"Duplicated", "NotFound", "Negative", "OutOfBounds", "Zero", "Nil", "NoSpaceLeft", "Intersect", "InvalidType",
          "ReceiverIsSender", "TooSmall", "TooBig", "Layout"}
WRAPS = {"None": "WNone", "Argument": "WArgument", "Name": "WName", "NodeID": "WNodeID", "CANID": "WCANID", "MessageID": "WMessageID",
         "MessageSize": "WMessageSize", "AddEntity": "WAddEntity", "RemoveEntity": "WRemoveEntity", "UpdateName": "WUpdateName",
         "UpdateIndex": "WUpdateIndex", "ValueIndex": "WValueIndex", "GroupID": "WGroupID", "AttributeValue": "WAttributeValue"}


def hd(s):
    return "%d%%positive" % int(s)


def oh(s):
    return "None" if s == "0" else "(Some %s)" % hd(s)


def nm(s):
    return "%d%%N" % int(s)


def zz(s):
    v = int(s)
    return "(%d)%%Z" % v


def bb(s):
    return "true" if s == "1" else "false"


def opt(s):
    return "None" if s == "-" else "(Some %s)" % hd(s)


L1 = {
    "NewNetwork": (0, lambda a: "NewNetwork"), "NewBus": (1, lambda a: "NewBus %s" % nm(a[0])),
    "NewNode": (3, lambda a: "NewNode %s %s %d%%nat" % (nm(a[0]), zz(a[1]), int(a[2]))),
    "NewMessage": (3, lambda a: "NewMessage %s %s %s" % (nm(a[0]), zz(a[1]), zz(a[2]))),
    "NewEnum": (0, lambda a: "NewEnum"), "NewEnumValue": (2, lambda a: "NewEnumValue %s %s" % (nm(a[0]), zz(a[1]))),
    "NewOther": (0, lambda a: "NewOther"),
    "NetAddBus": (2, lambda a: "NetAddBus %s %s" % (hd(a[0]), oh(a[1]))),
    "NetRemoveBus": (2, lambda a: "NetRemoveBus %s %s" % (hd(a[0]), hd(a[1]))),
    "NetRemoveAllBuses": (1, lambda a: "NetRemoveAllBuses %s" % hd(a[0])),
    "BusUpdateName": (2, lambda a: "BusUpdateName %s %s" % (hd(a[0]), nm(a[1]))),
    "BusAddNodeInterface": (2, lambda a: "BusAddNodeInterface %s %s" % (hd(a[0]), oh(a[1]))),
    "BusRemoveNodeInterface": (2, lambda a: "BusRemoveNodeInterface %s %s" % (hd(a[0]), hd(a[1]))),
    "BusRemoveAllNodeInterfaces": (1, lambda a: "BusRemoveAllNodeInterfaces %s" % hd(a[0])),
    "NodeUpdateName": (2, lambda a: "NodeUpdateName %s %s" % (hd(a[0]), nm(a[1]))),
    "NodeUpdateID": (2, lambda a: "NodeUpdateID %s %s" % (hd(a[0]), zz(a[1]))),
    "NodeAddInterface": (1, lambda a: "NodeAddInterface %s" % hd(a[0])),
    "NodeRemoveInterface": (2, lambda a: "NodeRemoveInterface %s %s" % (hd(a[0]), zz(a[1]))),
    "IfAddSent": (2, lambda a: "IfAddSent %s %s" % (hd(a[0]), oh(a[1]))),
    "IfRemoveSent": (2, lambda a: "IfRemoveSent %s %s" % (hd(a[0]), hd(a[1]))),
    "IfRemoveAllSent": (1, lambda a: "IfRemoveAllSent %s" % hd(a[0])),
    "IfAddReceived": (2, lambda a: "IfAddReceived %s %s" % (hd(a[0]), oh(a[1]))),
    "IfRemoveReceived": (2, lambda a: "IfRemoveReceived %s %s" % (hd(a[0]), hd(a[1]))),
    "IfRemoveAllReceived": (1, lambda a: "IfRemoveAllReceived %s" % hd(a[0])),
    "MsgUpdateName": (2, lambda a: "MsgUpdateName %s %s" % (hd(a[0]), nm(a[1]))),
    "MsgUpdateID": (2, lambda a: "MsgUpdateID %s %s" % (hd(a[0]), zz(a[1]))),
    "MsgSetStatic": (2, lambda a: "MsgSetStatic %s %s" % (hd(a[0]), zz(a[1]))),
    "MsgAddReceiver": (2, lambda a: "MsgAddReceiver %s %s" % (hd(a[0]), oh(a[1]))),
    "MsgRemoveReceiver": (2, lambda a: "MsgRemoveReceiver %s %s" % (hd(a[0]), hd(a[1]))),
    "EnumAddValue": (3, lambda a: "EnumAddValue %s %s %s" % (hd(a[0]), oh(a[1]), bb(a[2]))),
    "EnumRemoveValue": (2, lambda a: "EnumRemoveValue %s %s" % (hd(a[0]), hd(a[1]))),
    "EnumRemoveAllValues": (1, lambda a: "EnumRemoveAllValues %s" % hd(a[0])),
    "EvalUpdateName": (2, lambda a: "EvalUpdateName %s %s" % (hd(a[0]), nm(a[1]))),
    "EvalUpdateIndex": (3, lambda a: "EvalUpdateIndex %s %s %s" % (hd(a[0]), zz(a[1]), bb(a[2]))),
}


def op_term(words):
    """the Coq term of a trace operation (same reading as props/C04/driver/c04_driver.ml)"""
    n, a = words[0], words[1:]
    if n == "NewStdSignal":
        return "NewStd2 %s %s" % (nm(a[0]), oh(a[1]))
    if n == "NewEnumSignal":
        return "NewEnum2 %s %s" % (nm(a[0]), oh(a[1]))
    if n == "NewMuxSignal":
        return "NewMux2 %s %s %s" % (nm(a[0]), zz(a[1]), zz(a[2]))
    if n == "MsgAppendSignal":
        return "MsgAttach %s %s %s" % (hd(a[0]), oh(a[1]), bb(a[2]))
    if n == "MsgInsertSignal":
        return "MsgAttach %s %s %s" % (hd(a[0]), oh(a[1]), bb(a[3]))
    if n == "MsgRemoveSignal":
        return "MsgRemoveSignal %s %s" % (hd(a[0]), hd(a[1]))
    if n == "MsgRemoveAllSignals":
        return "MsgRemoveAllSignals %s" % hd(a[0])
    if n == "SigUpdateName":
        return "SigUpdateName %s %s" % (hd(a[0]), nm(a[1]))
    if n == "MuxInsertSignal":
        rest = a[3:]
        return "MuxInsert %s %s %s [%s]" % (hd(a[0]), oh(a[1]), bb(rest[-1]), "; ".join(zz(x) for x in rest[:-1]))
    if n == "MuxRemoveSignal":
        return "MuxRemove %s %s" % (hd(a[0]), hd(a[1]))
    if n == "MuxClearGroup":
        return "MuxClearGroup %s %s" % (hd(a[0]), zz(a[1]))
    if n == "MuxClearAll":
        return "MuxClearAll %s" % hd(a[0])
    if n == "MsgUpdateSize":
        return "MsgResize %s %s %s" % (hd(a[0]), zz(a[1]), bb(a[2]))
    if n == "BusSetType":
        return "BusSetType %s %s" % (hd(a[0]), zz(a[1]))
    if n == "CloneEnum":
        return "EnumClone %s" % hd(a[0])
    if n == "CloneEval":
        return "EvalClone %s" % hd(a[0])
    if n == "StdSetType":
        return "L3 (StdSetType %s %s %s)" % (hd(a[0]), oh(a[1]), bb(a[2]))
    if n == "StdSetUnit":
        return "L3 (StdSetUnit %s %s)" % (hd(a[0]), oh(a[1]))
    if n == "EnumSetEnum":
        return "L3 (EnumSetEnum %s %s %s)" % (hd(a[0]), oh(a[1]), bb(a[2]))
    if n == "Assign":
        val = {"0": "(VInt 5%Z)", "1": "(VInt (-1)%Z)", "2": "(VInt 11%Z)", "3": "(VFloat 500%Z)", "4": "(VFloat 2000%Z)",
               "5": "(VStr 5%N)", "6": "(VStr 6%N)"}.get(a[2], "VOther")
        return "L3 (Assign %s %s %s)" % (hd(a[0]), oh(a[1]), val)
    if n == "NewAttrString":
        return "L3 (NewAttr AString)"
    if n == "NewAttrInt":
        return "L3 (NewAttr (AInt %s %s))" % (zz(a[0]), zz(a[1]))
    if n == "NewAttrFloat":
        return "L3 (NewAttr (AFloat %s %s))" % (zz(a[0]), zz(a[1]))
    if n == "NewAttrEnum":
        return "L3 (NewAttr (AEnum %s))" % lst([nm(x) for x in a])
    if n == "CloneAttr":
        return "L3 (AttrClone %s)" % hd(a[0])
    if n == "RemoveAssign":
        return "L3 (RemoveAssign %s %s)" % (hd(a[0]), hd(a[1]))
    if n == "RemoveAllAssign":
        return "L3 (RemoveAllAssign %s)" % hd(a[0])
    if n == "BusSetBuilder":
        return "L3 (BusSetBuilder %s %s)" % (hd(a[0]), oh(a[1]))
    arity, f = L1[n]
    assert len(a) == arity, words
    return "L3 (L1 (%s))" % f(a)


def res_term(words):
    if words == ["ok"]:
        return "None"
    assert words[0] == "err" and words[1] in CAUSES, words
    if words[1] == "Layout":     # the wrapper of a geometric refusal is C01/C07's; compared by cause
        return "(Some (Layout, WNone))"
    assert words[2] in WRAPS, words
    return "(Some (%s, %s))" % (words[1], WRAPS[words[2]])


def lst(xs):
    return "[" + "; ".join(xs) + "]"


def hset(s):
    return "(S_ %s)" % lst([hd(x) for x in s.split(",") if x])


def hlist(s):
    return lst([hd(x) for x in s.split(",") if x])


def kv(s, kf):
    out = []
    for it in s.split(","):
        if it:
            k, v = it.split(">")
            out.append("(%s, %s)" % (kf(k), hd(v)))
    return lst(out)


def fields(body):
    d = {}
    for f in body.split(";"):
        k, _, v = f.partition("=")
        d[k] = v
    return d


def observed_term(dump):
    """the Coq term of the observed state (D line of the trace)"""
    heaps = {k: [] for k in "NBOIMEVS"}
    sname, spmsg, spmux, xshape = [], [], [], []
    sets = {k: [] for k in ("xsigs", "xfixed", "mtop", "msigs", "Rt", "Ru", "Re", "Ra", "As", "Rc")}
    xnames, mnames, xgids, bb_, ak = [], [], [], [], []
    for item in dump.split("|"):
        if not item:
            continue
        m = re.match(r"^([A-Z][a-z]?)(\d+):(.*)$", item)
        assert m, item
        tag, h, body = m.group(1), hd(m.group(2)), m.group(3)
        if tag == "N":
            f = fields(body)
            heaps["N"].append("(%s, mkNet %s (Mn %s))" % (h, hset(f["b"]), kv(f["bn"], nm)))
        elif tag == "B":
            f = fields(body)
            heaps["B"].append("(%s, mkBus %s %s (Mh %s) (Mn %s) (Mz %s) (Mz %s) %s)" % (
                h, nm(f["n"]), opt(f["p"]), kv(f["ni"], hd), kv(f["nn"], nm), kv(f["id"], zz), kv(f["st"], zz), zz(f["ty"])))
        elif tag == "O":
            f = fields(body)
            heaps["O"].append("(%s, mkNode %s %s %s %s)" % (h, nm(f["n"]), zz(f["id"]), hlist(f["if"]), zz(f["c"])))
        elif tag == "I":
            f = fields(body)
            heaps["I"].append("(%s, mkIface %s %s %s %s (Mn %s) (Mz %s) (Mz %s) %s)" % (
                h, hd(f["nd"]), zz(f["k"]), opt(f["p"]), hset(f["s"]), kv(f["sn"], nm), kv(f["si"], zz), kv(f["ss"], zz), hset(f["r"])))
        elif tag == "M":
            f = fields(body)
            heaps["M"].append("(%s, mkMsg %s %s %s %s %s %s (Mh %s))" % (
                h, nm(f["n"]), zz(f["id"]), zz(f["st"]), bb(f["hs"]), zz(f["sz"]), opt(f["sd"]), kv(f["rc"], hd)))
        elif tag == "E":
            f = fields(body)
            heaps["E"].append("(%s, mkEnum %s (Mn %s) (Mz %s) %s)" % (h, hset(f["v"]), kv(f["vn"], nm), kv(f["vi"], zz), zz(f["mx"])))
        elif tag == "V":
            f = fields(body)
            heaps["V"].append("(%s, mkEval %s %s %s)" % (h, nm(f["n"]), zz(f["ix"]), opt(f["p"])))
        elif tag == "S":
            f = fields(body)
            heaps["S"].append("(%s, mkSig %s %s %s %s)" % (h, ["SStd", "SEnum", "SMux"][int(f["k"])], opt(f["t"]), opt(f["u"]), opt(f["e"])))
        elif tag == "G":
            f = fields(body)
            sname.append("(%s, %s)" % (h, nm(f["n"])))
            if f["pm"] != "-":
                spmsg.append("(%s, %s)" % (h, hd(f["pm"])))
            if f["px"] != "-":
                spmux.append("(%s, %s)" % (h, hd(f["px"])))
        elif tag == "X":
            f = fields(body)
            xshape.append("(%s, (%s, %s))" % (h, zz(f["c"]), zz(f["g"])))
            sets["xsigs"].append("(%s, %s)" % (h, hset(f["s"])))
            sets["xfixed"].append("(%s, %s)" % (h, hset(f["f"])))
            xnames.append("(%s, Mn %s)" % (h, kv(f["sn"], nm)))
            gi = []
            for it in f["gi"].split(","):
                if it:
                    x, ids = it.split(":")
                    gi.append("(%s, %s)" % (hd(x), lst([zz(i) for i in ids.split("+") if i != ""])))
            xgids.append("(%s, Mg %s)" % (h, lst(gi)))
        elif tag == "T":
            f = fields(body)
            sets["mtop"].append("(%s, %s)" % (h, hset(f["t"])))
            sets["msigs"].append("(%s, %s)" % (h, hset(f["r"])))
            mnames.append("(%s, Mn %s)" % (h, kv(f["rn"], nm)))
        elif tag in ("Rt", "Ru", "Re", "Ra", "As", "Rc"):
            sets[tag].append("(%s, %s)" % (h, hset(body)))
        elif tag == "Bb":
            bb_.append("(%s, %s)" % (h, hd(body)))
        elif tag == "Ak":
            w = body.split(",")
            if w[0] == "s":
                k = "AString"
            elif w[0] == "i":
                k = "(AInt %s %s)" % (zz(w[1]), zz(w[2]))
            elif w[0] == "f":
                k = "(AFloat %s %s)" % (zz(w[1]), zz(w[2]))
            else:
                k = "(AEnum %s)" % lst([nm(x) for x in w[1].split("+") if x])
            ak.append("(%s, %s)" % (h, k))
        else:
            raise AssertionError("unknown item " + item)
    H = lambda xs: "(H_ %s)" % lst(xs)
    return ("(mkObserved %s)" % " ".join(
        [H(heaps[k]) for k in "NBOIMEVS"] + [H(sname), "(Mh %s)" % lst(spmsg), "(Mh %s)" % lst(spmux), H(xshape),
                                            H(sets["xsigs"]), H(xnames), H(sets["xfixed"]), H(xgids), H(sets["mtop"]), H(sets["msigs"]), H(mnames)]
        + [H(sets[k]) for k in ("Rt", "Ru", "Re", "Ra", "As", "Rc")] + ["(Mh %s)" % lst(bb_), H(ak)]))


def read_histories(path, wanted):
    """the calls of the wanted histories: [(hist, [[op_words, res_words|None, dump|None], ...])]"""
    out, cur, keep = [], None, False
    with open(path) as f:
        for line in f:
            line = line.rstrip("\n")
            if line.startswith("H "):
                n = int(line[2:])
                keep = n in wanted
                if keep:
                    cur = []
                    out.append((n, cur))
            elif not keep or len(line) < 2:
                continue
            elif line.startswith("O "):
                cur.append([line[2:].split(), None, None])
            elif line.startswith("R ") and cur:
                cur[-1][1] = line[2:].split()
            elif line.startswith("D ") and cur:
                cur[-1][2] = line[2:]
    return out


def generate(trace, out_v, hist_ids, state_every=8, tamper=False):
    """write the Coq file; returns (histories, calls, results, states) embedded"""
    hs = read_histories(trace, set(hist_ids))
    n_calls = n_res = n_states = 0
    tampered = False
    with open(out_v, "w") as w:
        w.write("(* generated by props/C04/crosscheck.py from the harness trace: do not edit *)\n")
        w.write("From Acme.C04 Require Import CrossCheck.\nLocal Open Scope positive_scope.\n\n")
        for n, calls in hs:
            terms = []
            last_d = max((i for i, c in enumerate(calls) if c[2] is not None), default=-1)
            k = 0
            for i, (opw, resw, dump) in enumerate(calls):
                n_calls += 1
                r = "None"
                if resw is not None:
                    r = "(Some %s)" % res_term(resw)
                    n_res += 1
                o = "None"
                if dump is not None:
                    k += 1
                    if k % state_every == 0 or i == last_d:
                        if tamper and not tampered and i == last_d and "|V" in dump:
                            # one observed field of one enum value is changed
                            dump2 = re.sub(r"\|V(\d+):n=(\d+);", lambda m: "|V%s:n=%d;" % (m.group(1), int(m.group(2)) + 1), dump, count=1)
                            tampered = dump2 != dump
                            dump = dump2
                        o = "(Some %s)" % observed_term(dump)
                        n_states += 1
                terms.append("(%s, %s, %s)" % (op_term(opw), r, o))
            w.write("Lemma hist_%d : run_case init2 [\n  %s\n] = true.\nProof. vm_compute. reflexivity. Qed.\n\n" % (n, ";\n  ".join(terms)))
    return len(hs), n_calls, n_res, n_states, tampered
