(* Correspondence driver for C04/C05/C06: reads the trace written by the Go harness
     H <n>                    new history (model state := init)
     O <OpName> <args...>     operation (handles / names / integers as decimal; 0 = nil pointer)
     R ok | R err <Cause> <Wrap> | R panic
     D <state dump>
   replays every operation on the extracted Coq model ([step]) and compares the result class and
   the canonical dump of the whole state after every step.  Lines starting with '#' are ignored. *)
module BZ = Z
open C04_model

let rec pos_of_z (n : BZ.t) : positive =
  if BZ.equal n BZ.one then XH
  else if BZ.testbit n 0 then XI (pos_of_z (BZ.shift_right n 1))
  else XO (pos_of_z (BZ.shift_right n 1))
let coqz_of_z (n : BZ.t) : z =
  if BZ.sign n = 0 then Z0 else if BZ.sign n > 0 then Zpos (pos_of_z n) else Zneg (pos_of_z (BZ.neg n))
let coqn_of_z (n : BZ.t) : n = if BZ.sign n = 0 then N0 else Npos (pos_of_z n)
let rec z_of_pos = function
  | XH -> BZ.one
  | XO p -> BZ.shift_left (z_of_pos p) 1
  | XI p -> BZ.succ (BZ.shift_left (z_of_pos p) 1)
let z_of_coqz = function Z0 -> BZ.zero | Zpos p -> z_of_pos p | Zneg p -> BZ.neg (z_of_pos p)
let z_of_coqn = function N0 -> BZ.zero | Npos p -> z_of_pos p
let rec nat_of_int k = if k <= 0 then O else S (nat_of_int (k - 1))

let hd_ s = pos_of_z (BZ.of_string s)                 (* handle *)
let oh s = if s = "0" then None else Some (hd_ s)      (* pointer argument *)
let nm s = coqn_of_z (BZ.of_string s)
let zz s = coqz_of_z (BZ.of_string s)
let bb s = s = "1"

let parse_l1 = function
  | ["NewNetwork"] -> NewNetwork
  | ["NewBus"; a] -> NewBus (nm a)
  | ["NewNode"; a; b; c] -> NewNode (nm a, zz b, nat_of_int (int_of_string c))
  | ["NewMessage"; a; b; c] -> NewMessage (nm a, zz b, zz c)
  | ["NewEnum"] -> NewEnum
  | ["NewEnumValue"; a; b] -> NewEnumValue (nm a, zz b)
  | ["NewOther"] -> NewOther
  | ["NetAddBus"; a; b] -> NetAddBus (hd_ a, oh b)
  | ["NetRemoveBus"; a; b] -> NetRemoveBus (hd_ a, hd_ b)
  | ["NetRemoveAllBuses"; a] -> NetRemoveAllBuses (hd_ a)
  | ["BusUpdateName"; a; b] -> BusUpdateName (hd_ a, nm b)
  | ["BusAddNodeInterface"; a; b] -> BusAddNodeInterface (hd_ a, oh b)
  | ["BusRemoveNodeInterface"; a; b] -> BusRemoveNodeInterface (hd_ a, hd_ b)
  | ["BusRemoveAllNodeInterfaces"; a] -> BusRemoveAllNodeInterfaces (hd_ a)
  | ["NodeUpdateName"; a; b] -> NodeUpdateName (hd_ a, nm b)
  | ["NodeUpdateID"; a; b] -> NodeUpdateID (hd_ a, zz b)
  | ["NodeAddInterface"; a] -> NodeAddInterface (hd_ a)
  | ["NodeRemoveInterface"; a; b] -> NodeRemoveInterface (hd_ a, zz b)
  | ["IfAddSent"; a; b] -> IfAddSent (hd_ a, oh b)
  | ["IfRemoveSent"; a; b] -> IfRemoveSent (hd_ a, hd_ b)
  | ["IfRemoveAllSent"; a] -> IfRemoveAllSent (hd_ a)
  | ["IfAddReceived"; a; b] -> IfAddReceived (hd_ a, oh b)
  | ["IfRemoveReceived"; a; b] -> IfRemoveReceived (hd_ a, hd_ b)
  | ["IfRemoveAllReceived"; a] -> IfRemoveAllReceived (hd_ a)
  | ["MsgUpdateName"; a; b] -> MsgUpdateName (hd_ a, nm b)
  | ["MsgUpdateID"; a; b] -> MsgUpdateID (hd_ a, zz b)
  | ["MsgSetStatic"; a; b] -> MsgSetStatic (hd_ a, zz b)
  | ["MsgAddReceiver"; a; b] -> MsgAddReceiver (hd_ a, oh b)
  | ["MsgRemoveReceiver"; a; b] -> MsgRemoveReceiver (hd_ a, hd_ b)
  | ["EnumAddValue"; a; b; c] -> EnumAddValue (hd_ a, oh b, bb c)
  | ["EnumRemoveValue"; a; b] -> EnumRemoveValue (hd_ a, hd_ b)
  | ["EnumRemoveAllValues"; a] -> EnumRemoveAllValues (hd_ a)
  | ["EvalUpdateName"; a; b] -> EvalUpdateName (hd_ a, nm b)
  | ["EvalUpdateIndex"; a; b; c] -> EvalUpdateIndex (hd_ a, zz b, bb c)
  | l -> failwith ("bad op: " ^ String.concat " " l)

let cause_of = function
  | "Duplicated" -> Duplicated | "NotFound" -> NotFound | "Negative" -> Negative | "OutOfBounds" -> OutOfBounds
  | "Zero" -> Zero | "Nil" -> Nil | "NoSpaceLeft" -> NoSpaceLeft | "Intersect" -> Intersect
  | "InvalidType" -> InvalidType | "ReceiverIsSender" -> ReceiverIsSender | "TooSmall" -> TooSmall
  | "TooBig" -> TooBig | "Layout" -> Layout | c -> failwith ("bad cause " ^ c)

(* the values the harness passes to AssignAttribute, by code (props/C04/harness/extra.go attrValue):
   floats in thousandths, strings by code *)
let attr_value = function
  | "0" -> VInt (zz "5") | "1" -> VInt (zz "-1") | "2" -> VInt (zz "11")
  | "3" -> VFloat (zz "500") | "4" -> VFloat (zz "2000")
  | "5" -> VStr (nm "5") | "6" -> VStr (nm "6")
  | _ -> VOther

(* layer-3 operations; the name argument of the signal constructors is not part of the model *)
let parse_op3 = function
  | ["StdSetType"; a; t; f] -> StdSetType (hd_ a, oh t, bb f)
  | ["StdSetUnit"; a; u] -> StdSetUnit (hd_ a, oh u)
  | ["EnumSetEnum"; a; e; f] -> EnumSetEnum (hd_ a, oh e, bb f)
  | "Assign" :: e :: a :: code :: _ -> Assign (hd_ e, oh a, attr_value code)
  | ["NewAttrString"] -> NewAttr AString
  | ["NewAttrInt"; mn; mx] -> NewAttr (AInt (zz mn, zz mx))
  | ["NewAttrFloat"; mn; mx] -> NewAttr (AFloat (zz mn, zz mx))
  | "NewAttrEnum" :: vs -> NewAttr (AEnum (List.map nm vs))
  | ["CloneAttr"; a] -> AttrClone (hd_ a)
  | ["RemoveAssign"; e; k] -> RemoveAssign (hd_ e, hd_ k)
  | ["RemoveAllAssign"; e] -> RemoveAllAssign (hd_ e)
  | ["BusSetBuilder"; b; c] -> BusSetBuilder (hd_ b, oh c)
  | l -> L1 (parse_l1 l)

(* layer-2 operations *)
let parse_op = function
  | ["NewStdSignal"; n; t] -> NewStd2 (nm n, oh t)
  | ["NewEnumSignal"; n; e] -> NewEnum2 (nm n, oh e)
  | ["NewMuxSignal"; n; c; g] -> NewMux2 (nm n, zz c, zz g)
  | ["MsgAppendSignal"; m; x; f] -> MsgAttach (hd_ m, oh x, bb f)
  | ["MsgInsertSignal"; m; x; _; f] -> MsgAttach (hd_ m, oh x, bb f)
  | ["MsgRemoveSignal"; m; k] -> MsgRemoveSignal (hd_ m, hd_ k)
  | ["MsgRemoveAllSignals"; m] -> MsgRemoveAllSignals (hd_ m)
  | ["SigUpdateName"; x; n] -> SigUpdateName (hd_ x, nm n)
  | "MuxInsertSignal" :: u :: x :: _ :: rest ->
    (match List.rev rest with
     | f :: ids -> MuxInsert (hd_ u, oh x, bb f, List.map zz (List.rev ids))
     | [] -> failwith "MuxInsertSignal without oracle token")
  | ["MuxRemoveSignal"; u; k] -> MuxRemove (hd_ u, hd_ k)
  | ["MuxClearGroup"; u; g] -> MuxClearGroup (hd_ u, zz g)
  | ["MuxClearAll"; u] -> MuxClearAll (hd_ u)
  | ["CloneEnum"; e] -> EnumClone (hd_ e)
  | ["CloneEval"; v] -> EvalClone (hd_ v)
  | ["MsgUpdateSize"; m; n; f] -> MsgResize (hd_ m, zz n, bb f)
  | ["BusSetType"; b; t] -> BusSetType (hd_ b, zz t)
  | l -> L3 (parse_op3 l)

let cause_s = function
  | Duplicated -> "Duplicated" | NotFound -> "NotFound" | Negative -> "Negative"
  | OutOfBounds -> "OutOfBounds" | Zero -> "Zero" | Nil -> "Nil" | NoSpaceLeft -> "NoSpaceLeft"
  | Intersect -> "Intersect" | InvalidType -> "InvalidType" | ReceiverIsSender -> "ReceiverIsSender"
  | TooSmall -> "TooSmall" | TooBig -> "TooBig" | Layout -> "Layout" | BadHandle -> "BadHandle"
let wrap_s = function
  | WNone -> "None" | WArgument -> "Argument" | WName -> "Name" | WNodeID -> "NodeID" | WCANID -> "CANID"
  | WMessageID -> "MessageID" | WMessageSize -> "MessageSize" | WAddEntity -> "AddEntity"
  | WRemoveEntity -> "RemoveEntity" | WUpdateName -> "UpdateName" | WUpdateIndex -> "UpdateIndex"
  | WValueIndex -> "ValueIndex" | WGroupID -> "GroupID" | WAttributeValue -> "AttributeValue"

(* ---- canonical dump ---------------------------------------------------------------- *)
let ps p = BZ.to_string (z_of_pos p)
let zs x = BZ.to_string (z_of_coqz x)
let ns x = BZ.to_string (z_of_coqn x)
let opt = function None -> "-" | Some p -> ps p
let sort_by f l = List.sort (fun a b -> BZ.compare (f a) (f b)) l
let set_s x = String.concat "," (List.map ps (sort_by z_of_pos (set_list x)))
let list_s l = String.concat "," (List.map ps l)
let map_s key ks l = String.concat "," (List.map (fun (k, v) -> ks k ^ ">" ^ ps v) (sort_by (fun (k, _) -> key k) l))
let mnh m = map_s z_of_coqn ns (map_nh m)
let mzh m = map_s z_of_coqz zs (map_zh m)
let mhh m = map_s z_of_pos ps (map_hh m)
let heap f l = List.map (fun (h, r) -> (z_of_pos h, f h r)) l

let dump (s2 : state2) : string =
  let s3 = s2.l3 in
  let s = s3.base in
  let refs tag m = List.filter_map (fun (h, l) -> if l = [] then None else
      Some (z_of_pos h, Printf.sprintf "%s%s:%s" tag (ps h) (String.concat "," (List.map ps (sort_by z_of_pos l))))) (refs_list m) in
  let items =
    heap (fun h r -> Printf.sprintf "N%s:b=%s;bn=%s" (ps h) (set_s r.n_buses) (mnh r.n_busNames)) (heap_nets s)
    @ heap (fun h r -> Printf.sprintf "B%s:n=%s;p=%s;ni=%s;nn=%s;id=%s;st=%s;ty=%s" (ps h) (ns r.b_name) (opt r.b_parent)
               (mhh r.b_nodeInts) (mnh r.b_nodeNames) (mzh r.b_nodeIDs) (mzh r.b_static) (zs r.b_type)) (heap_buses s)
    @ heap (fun h r -> Printf.sprintf "O%s:n=%s;id=%s;if=%s;c=%s" (ps h) (ns r.nd_name) (zs r.nd_id)
               (list_s r.nd_ifaces) (zs r.nd_count)) (heap_nodes s)
    @ heap (fun h r -> Printf.sprintf "I%s:nd=%s;k=%s;p=%s;s=%s;sn=%s;si=%s;ss=%s;r=%s" (ps h) (ps r.i_node)
               (zs r.i_number) (opt r.i_parent) (set_s r.i_sent) (mnh r.i_sentNames) (mzh r.i_sentIDs)
               (mzh r.i_sentStatic) (set_s r.i_received)) (heap_ifaces s)
    @ heap (fun h r -> Printf.sprintf "M%s:n=%s;id=%s;st=%s;hs=%s;sz=%s;sd=%s;rc=%s" (ps h) (ns r.m_name) (zs r.m_id)
               (zs r.m_static) (if r.m_hasStatic then "1" else "0") (zs r.m_size) (opt r.m_sender)
               (mhh r.m_receivers)) (heap_msgs s)
    @ heap (fun h r -> Printf.sprintf "E%s:v=%s;vn=%s;vi=%s;mx=%s" (ps h) (set_s r.e_values) (mnh r.e_valueNames)
               (mzh r.e_valueIdx) (zs r.e_maxIndex)) (heap_enums s)
    @ heap (fun h r -> Printf.sprintf "V%s:n=%s;ix=%s;p=%s" (ps h) (ns r.v_name) (zs r.v_index) (opt r.v_parent))
        (heap_evals s)
    @ heap (fun h r -> Printf.sprintf "S%s:k=%s;t=%s;u=%s;e=%s" (ps h)
               (match r.sg_kind with SStd -> "0" | SEnum -> "1" | SMux -> "2") (opt r.sg_type) (opt r.sg_unit) (opt r.sg_enum))
        (heap_sigs s3) in
  let l1 = String.concat "|" (List.map snd (List.sort (fun (a, _) (b, _) -> BZ.compare a b) items)) in
  let nmap l = String.concat "," (List.map (fun (k, v) -> ns k ^ ">" ^ ps v) (sort_by (fun (k, _) -> z_of_coqn k) l)) in
  let find h l = match List.assoc_opt h l with Some x -> x | None -> [] in
  let setl h m = String.concat "," (List.map ps (sort_by z_of_pos (find h (refs_list m)))) in
  let optl h l = match List.assoc_opt h l with Some x -> ps x | None -> "-" in
  let pm = map_hh s2.spmsg and px = map_hh s2.spmux in
  let sigitems = List.map (fun (h, n) -> (z_of_pos h, Printf.sprintf "G%s:n=%s;pm=%s;px=%s" (ps h) (ns n) (optl h pm) (optl h px))) (map_hn s2.sname) in
  let gl = gids_list s2 in
  let muxitems = List.map (fun (h, (c, g)) ->
      let gi = String.concat "," (List.map (fun (x, ids) -> ps x ^ ":" ^ String.concat "+" (List.map zs ids))
                                     (sort_by (fun (x, _) -> z_of_pos x) (find h gl))) in
      (z_of_pos h, Printf.sprintf "X%s:c=%s;g=%s;s=%s;sn=%s;f=%s;gi=%s" (ps h) (zs c) (zs g) (setl h s2.xsigs)
                     (nmap (find h (names_list s2.xnames))) (setl h s2.xfixed) gi)) (shape_list s2) in
  let msgitems = List.filter_map (fun (h, _) ->
      let t = setl h s2.mtop and r = setl h s2.msigs and rn = nmap (find h (names_list s2.mnames)) in
      if t = "" && r = "" && rn = "" then None
      else Some (z_of_pos h, Printf.sprintf "T%s:t=%s;r=%s;rn=%s" (ps h) t r rn)) (heap_msgs s) in
  let ext = sigitems @ muxitems @ msgitems @ refs "Rt" s3.type_refs @ refs "Ru" s3.unit_refs @ refs "Re" s3.enum_refs @ refs "Ra" s3.attr_refs
            @ refs "As" s3.assigns @ refs "Rc" s3.builder_refs
            @ List.map (fun (b, c) -> (z_of_pos b, Printf.sprintf "Bb%s:%s" (ps b) (ps c))) (builder_list s3)
            @ List.map (fun (a, k) -> (z_of_pos a, Printf.sprintf "Ak%s:%s" (ps a) (match k with
                | AString -> "s"
                | AInt (mn, mx) -> Printf.sprintf "i,%s,%s" (zs mn) (zs mx)
                | AFloat (mn, mx) -> Printf.sprintf "f,%s,%s" (zs mn) (zs mx)
                | AEnum vs -> "e," ^ String.concat "+" (List.map ns vs)))) (attr_list s3) in
  (* the extension is printed grouped by kind, each group sorted by handle *)
  let grp tag = List.map snd (List.sort (fun (a, _) (b, _) -> BZ.compare a b)
      (List.filter (fun (_, x) -> String.length x >= 2 && String.sub x 0 2 = tag) ext)) in
  let grp1 c = List.map snd (List.sort (fun (a, _) (b, _) -> BZ.compare a b)
      (List.filter (fun (_, x) -> String.length x >= 1 && x.[0] = c && (String.length x < 2 || (x.[1] >= '0' && x.[1] <= '9'))) ext)) in
  String.concat "|" (l1 :: grp1 'G' @ grp1 'X' @ grp1 'T' @ List.concat_map grp ["Rt"; "Ru"; "Re"; "Ra"; "As"; "Rc"; "Bb"; "Ak"])

(* ---- the layout model of the C01/C07 stream (three-way agreement on the geometry oracle) -------- *)
module C1 = struct
  open C01_model
  let rec pos_of_z (n : BZ.t) : positive =
    if BZ.equal n BZ.one then XH
    else if BZ.testbit n 0 then XI (pos_of_z (BZ.shift_right n 1))
    else XO (pos_of_z (BZ.shift_right n 1))
  let coqz_of_z (n : BZ.t) : z =
    if BZ.sign n = 0 then Z0 else if BZ.sign n > 0 then Zpos (pos_of_z n) else Zneg (pos_of_z (BZ.neg n))
  let cz s = coqz_of_z (BZ.of_string s)
  let cn_z = cz
  let rec z_of_pos = function
    | XH -> BZ.one
    | XO p -> BZ.shift_left (z_of_pos p) 1
    | XI p -> BZ.succ (BZ.shift_left (z_of_pos p) 1)
  let z_of_coqz = function Z0 -> BZ.zero | Zpos p -> z_of_pos p | Zneg p -> BZ.neg (z_of_pos p)
  let rec nat_of_int n = if n <= 0 then O else S (nat_of_int (n - 1))
  let rec int_of_nat = function O -> 0 | S n -> 1 + int_of_nat n
  let cn s = nat_of_int (int_of_string s)
  let cause_s = function
    | Duplicated -> "Duplicated" | NotFound -> "NotFound" | Negative -> "Negative"
    | OutOfBounds -> "OutOfBounds" | IsZero -> "IsZero" | IsNil -> "IsNil"
    | NoSpaceLeft -> "NoSpaceLeft" | Intersect -> "Intersect" | TooSmall -> "TooSmall" | TooBig -> "TooBig"
  let result_s = function
    | ROk -> "ok" | RErr c -> "err:" ^ cause_s c | RShift d -> "shift:" ^ BZ.to_string (z_of_coqz d) | RPanic -> "panic" | RInvalid -> "invalid"
  (* the subset of the C01 vocabulary the C04 harness writes (props/C04/harness/c01bridge.go) *)
  let parse_op (words : string list) : op =
    match words with
    | ["newmsg"; n] -> ONewMsg (cz n)
    | ["newstd"; n] -> ONewStd (cz n)
    | ["newenum"] -> ONewEnum
    | ["newenumsig"; e] -> ONewEnumSig (cn e)
    | ["newmux"; c; g] -> ONewMux (cz c, cz g)
    | ["append"; m; x] -> OAppend (cn m, cn x)
    | ["insert"; m; x; b] -> OInsert (cn m, cn x, cz b)
    | ["remove"; m; x] -> ORemove (cn m, cn x)
    | ["removeall"; m] -> ORemoveAll (cn m)
    | ["settype"; x; n] -> OSetType (cn x, cz n)
    | ["setenum"; x; e] -> OSetEnum (cn x, cn e)
    | ["addvalue"; e; i] -> OAddValue (cn e, cz i)
    | ["removevalue"; e; v] -> ORemoveValue (cn e, cn v)
    | ["removeallvalues"; e] -> ORemoveAllValues (cn e)
    | ["updateindex"; v; i] -> OUpdateIndex (cn v, cz i)
    | ["muxinsert"; u; x; b; g] ->
      let ids = if g = "-" then [] else List.map cz (String.split_on_char ',' g) in
      OMuxInsert (cn u, cn x, cz b, ids)
    | ["muxremove"; u; x] -> OMuxRemove (cn u, cn x)
    | ["muxcleargroup"; u; g] -> OMuxClearGroup (cn u, cz g)
    | ["muxclearall"; u] -> OMuxClearAll (cn u)
    | ["shl"; m; x; a] -> OShiftL (cn m, cn x, cz a)
    | ["shr"; m; x; a] -> OShiftR (cn m, cn x, cz a)
    | ["muxshl"; u; x; a] -> OMuxShiftL (cn u, cn x, cz a)
    | ["muxshr"; u; x; a] -> OMuxShiftR (cn u, cn x, cz a)
    | ["compact"; m] -> OCompact (cn m)
    | ["resize"; m; n] -> OResize (cn m, cz n)
    | ["resizebus"; m; n; lim] -> OResizeBus (cn m, cz n, cz lim)
    | ["setminsize"; e; n] -> OSetMinSize (cn e, cn_z n)
    | l -> failwith ("bad C01 op: " ^ String.concat " " l)
  (* rebuild the function-valued fields from arrays so that closure chains do not grow with the
     history (as in props/C01/driver/c01_driver.ml; extensionally the same state) *)
  let normalise (s : state) : state =
    let ns = int_of_nat s.nsig and nm = int_of_nat s.nmsg and ne = int_of_nat s.nenum and nv = int_of_nat s.nval in
    let tab n f dflt =
      let a = Array.init n (fun i -> f (nat_of_int i)) in
      fun x -> let i = int_of_nat x in if i < n then a.(i) else dflt x in
    let tab2 n f dflt =
      let a = Array.init n (fun i -> Array.init n (fun j -> f (nat_of_int i) (nat_of_int j))) in
      fun u x -> let i = int_of_nat u and j = int_of_nat x in if i < n && j < n then a.(i).(j) else dflt u x in
    let i0 = init in
    { s with
      kind = tab ns s.kind i0.kind; rel = tab ns s.rel i0.rel; pmsg = tab ns s.pmsg i0.pmsg; pmux = tab ns s.pmux i0.pmux;
      usigs = tab ns s.usigs i0.usigs; unames = tab ns s.unames i0.unames;
      ugids = tab2 ns s.ugids i0.ugids; ufixed = tab2 ns s.ufixed i0.ufixed; ugroups = tab ns s.ugroups i0.ugroups;
      gbytes = tab nm s.gbytes i0.gbytes; glsize = tab nm s.glsize i0.glsize; glay = tab nm s.glay i0.glay;
      gsigs = tab nm s.gsigs i0.gsigs; gnames = tab nm s.gnames i0.gnames;
      emax = tab ne s.emax i0.emax; emin = tab ne s.emin i0.emin; evals = tab ne s.evals i0.evals;
      eidx = tab ne s.eidx i0.eidx; erefs = tab ne s.erefs i0.erefs;
      vidx = tab nv s.vidx i0.vidx; vpar = tab nv s.vpar i0.vpar }
  let st = ref init
  let reset () = st := init
  (* one C line: returns (agrees, what the model said) *)
  let run (words : string list) (cls : string) : bool * string =
    let (s', r) = step !st (parse_op words) in
    st := normalise s';
    let ok = match cls, r with
      | "ok", ROk -> true
      | "layout", RErr _ -> true
      | _, RShift d -> cls = "shift:" ^ BZ.to_string (z_of_coqz d)
      | _ -> false in
    (ok, result_s r)
end

let split_ws s = List.filter (fun x -> x <> "") (String.split_on_char ' ' s)

let () =
  let ic = open_in Sys.argv.(1) in
  let verbose = Array.length Sys.argv > 2 && Sys.argv.(2) = "-v" in
  let hist = ref 0 and stepn = ref 0 and steps = ref 0 and cases = ref 0 and bad = ref 0 in
  let st = ref init2 and res = ref Ok and opline = ref "" in
  (* every R and D line is compared, also after a mismatch (the model keeps running on its own
     state); per history only the first mismatch of each kind is printed, all are counted *)
  let bad_result = ref 0 and bad_state = ref 0 and cmp_result = ref 0 and cmp_state = ref 0 in
  let shown_result = ref false and shown_state = ref false and printed = ref 0 in
  let bad_hist = ref 0 and hist_bad = ref false in
  let end_line = ref None in
  let c_cmp = ref 0 and c_bad = ref 0 and c_shown = ref 0 and c_dead = ref false in
  let report kind impl model =
    incr bad;
    if not !hist_bad then (hist_bad := true; incr bad_hist);
    let shown = if kind = "result" then (incr bad_result; shown_result) else (incr bad_state; shown_state) in
    if not !shown && !printed < 200 then begin
      shown := true; incr printed;
      Printf.printf "MISMATCH hist=%d step=%d kind=%s op=[%s]\n  impl =%s\n  model=%s\n" !hist !stepn kind !opline impl model
    end in
  (try while true do
      let line = input_line ic in
      let n = String.length line in
      if n >= 4 && String.sub line 0 4 = "END " then end_line := Some (String.sub line 4 (n - 4))
      else if n >= 2 && line.[0] <> '#' then begin
        let body = String.sub line 2 (n - 2) in
        match line.[0] with
        | 'H' -> hist := int_of_string (String.trim body); st := init2; stepn := 0; incr cases;
          shown_result := false; shown_state := false; hist_bad := false; C1.reset (); c_dead := false
        | 'C' ->
          (* "C <c01 op> => ok|layout": the geometry decision of the implementation against the C01 model;
             after a disagreement the two states differ, the rest of the history is not compared *)
          incr c_cmp;
          if not !c_dead then begin
            let words = split_ws body in
            let rec cut acc = function
              | "=>" :: [cls] -> (List.rev acc, cls)
              | x :: r -> cut (x :: acc) r
              | [] -> failwith ("bad C line: " ^ body) in
            let (opw, cls) = cut [] words in
            let (ok, said) = C1.run opw cls in
            if not ok then begin
              incr c_bad; c_dead := true;
              if !c_shown < 25 then begin
                incr c_shown;
                Printf.printf "C01-DISAGREES hist=%d step=%d after op=[%s]: %s: implementation %s, C01 model %s\n" !hist !stepn !opline (String.concat " " opw) cls said
              end
            end
          end
        | 'O' ->
          incr stepn; incr steps; opline := body;
          let (s', r) = step2 !st (parse_op (split_ws body)) in
          st := s'; res := r;
          if verbose then Printf.printf "op %s\n" body
        | 'R' ->
          incr cmp_result;
          let model = match !res with
            | Ok -> "ok"
            | Err l -> "err " ^ String.concat "/" (List.map (fun (c, w) -> cause_s c ^ " " ^ wrap_s w) l) in
          let agree = match split_ws body, !res with
            | ["ok"], Ok -> true
            | ["err"; c; w], Err l -> List.exists (fun (c', w') -> cause_s c' = c && (c = "Layout" || wrap_s w' = w)) l
            | _ -> false in
          if verbose then Printf.printf "  impl %s | model %s\n" body model;
          if not agree then report "result" body model
        | 'D' ->
          incr cmp_state;
          let d = dump !st in
          if verbose then Printf.printf "  %s\n" d;
          if d <> body then report "state" body d
        | _ -> ()
      end
    done with End_of_file -> ());
  Printf.printf "CASES %d STEPS %d MISMATCHES %d\n" !cases !steps !bad;
  Printf.printf "KINDS result=%d state=%d histories=%d\n" !bad_result !bad_state !bad_hist;
  Printf.printf "COMPARED results=%d states=%d\n" !cmp_result !cmp_state;
  Printf.printf "C01 compared=%d disagreements=%d\n" !c_cmp !c_bad;
  (match !end_line with
   | Some e -> Printf.printf "END %s\n" e
   | None -> Printf.printf "NOEND\n")
