package main

// Bridge to the layout model of the C01/C07 stream (coq/C01: Model.step, theorems
// *_accepted_iff_fits).  The model of C04/C05/C06 takes the payload geometry as an oracle bit from
// the implementation's result.  For every call whose outcome is decided by geometry (accepted, or
// refused with a layout error) the harness also writes the call in the vocabulary of the C01 model
//     C <c01 op> => ok | layout
// and the driver replays these lines on the extracted C01 step function: the C01 model must accept
// exactly when the implementation accepted (three-way agreement implementation / C04 model with
// that oracle bit / C01 model).  Calls refused for another reason (nil, duplicated name, group id,
// not found) change nothing and are not part of the C01 history.
//
// Handles of the C01 model are creation indices per kind (signal, message, enum, enum value); a C01
// enum value is created by the call that adds it to an enum (addvalue), also when the call is
// refused.

import (
	"fmt"
	"strings"

	acme "github.com/squadracorsepolito/acmelib"
)

type c01map struct {
	sig, msg, enum, val map[int]int // pool handle -> C01 index
	nval                int
	off                 bool // the history left the common vocabulary (a panic): nothing more is written
}

func newC01() *c01map {
	return &c01map{sig: map[int]int{}, msg: map[int]int{}, enum: map[int]int{}, val: map[int]int{}}
}

// c01Pre: what has to be read before the call
type c01Pre struct {
	valAttached bool
	valIndex    int
}

func c01Before(p *Pool, o Op) c01Pre {
	var pre c01Pre
	switch o.Name {
	case "EvalUpdateIndex":
		if v := p.eval(o.A[0]); v != nil {
			pre.valAttached = v.ParentEnum() != nil
		}
	case "EnumAddValue":
		if len(o.A) > 1 {
			if v := p.eval(o.A[1]); v != nil {
				pre.valIndex = v.Index()
			}
		}
	}
	return pre
}

// c01Lines: the C lines of an executed call; class is "ok", "layout" or "" (refused for another
// reason: no line), nBefore the number of pool entities before the call
func c01Lines(p *Pool, o Op, pre c01Pre, class string, nBefore int) []string {
	c := p.c01
	if c == nil || c.off || class == "" || (class != "ok" && class != "layout" && o.Name != "MsgUpdateSize") {
		return nil
	}
	a := func(i int) int {
		if i < len(o.A) {
			return int(o.A[i])
		}
		return 0
	}
	one := func(format string, args ...any) []string {
		return []string{fmt.Sprintf(format, args...) + " => " + class}
	}
	sig := func(h int) (int, bool) { i, ok := c.sig[h]; return i, ok }
	switch o.Name {
	case "NewMessage":
		if class == "ok" {
			c.msg[nBefore+1] = len(c.msg)
			return one("newmsg %d", a(2))
		}
	case "NewEnum":
		c.enum[nBefore+1] = len(c.enum)
		return one("newenum")
	case "NewStdSignal":
		if t := p.typ(o.A[1]); t != nil && class == "ok" {
			c.sig[nBefore+1] = len(c.sig)
			return one("newstd %d", t.Size())
		}
	case "NewEnumSignal":
		if e, ok := c.enum[a(1)]; ok && class == "ok" {
			c.sig[nBefore+1] = len(c.sig)
			return one("newenumsig %d", e)
		}
	case "NewMuxSignal":
		if class == "ok" {
			c.sig[nBefore+1] = len(c.sig)
			return one("newmux %d %d", a(1), a(2))
		}
	case "CloneEnum":
		if class != "ok" {
			return nil
		}
		eh := nBefore + 1
		ce := len(c.enum)
		c.enum[eh] = ce
		out := []string{"newenum => ok"}
		for i, v := range p.enum(int64(eh)).Values() {
			c.val[eh+1+i] = c.nval
			c.nval++
			out = append(out, fmt.Sprintf("addvalue %d %d => ok", ce, v.Index()))
		}
		return out
	case "EnumAddValue":
		if e, ok := c.enum[a(0)]; ok {
			c.val[a(1)] = c.nval
			c.nval++
			return one("addvalue %d %d", e, pre.valIndex)
		}
	case "EnumRemoveValue":
		e, ok1 := c.enum[a(0)]
		v, ok2 := c.val[a(1)]
		if ok1 && ok2 && class == "ok" {
			return one("removevalue %d %d", e, v)
		}
	case "EnumRemoveAllValues":
		if e, ok := c.enum[a(0)]; ok {
			return one("removeallvalues %d", e)
		}
	case "EvalUpdateIndex":
		if v, ok := c.val[a(0)]; ok {
			return one("updateindex %d %d", v, o.A[1])
		}
	case "StdSetType":
		x, ok := sig(a(0))
		if t := p.typ(o.A[1]); ok && t != nil {
			return one("settype %d %d", x, t.Size())
		}
	case "EnumSetEnum":
		x, ok1 := sig(a(0))
		e, ok2 := c.enum[a(1)]
		if ok1 && ok2 {
			return one("setenum %d %d", x, e)
		}
	case "MsgAppendSignal":
		m, ok1 := c.msg[a(0)]
		x, ok2 := sig(a(1))
		if ok1 && ok2 {
			return one("append %d %d", m, x)
		}
	case "MsgInsertSignal":
		m, ok1 := c.msg[a(0)]
		x, ok2 := sig(a(1))
		if ok1 && ok2 {
			return one("insert %d %d %d", m, x, o.A[2])
		}
	case "MsgRemoveSignal":
		m, ok1 := c.msg[a(0)]
		x, ok2 := sig(a(1))
		if ok1 && ok2 && class == "ok" {
			return one("remove %d %d", m, x)
		}
	case "MsgRemoveAllSignals":
		if m, ok := c.msg[a(0)]; ok {
			return one("removeall %d", m)
		}
	case "MuxInsertSignal":
		u, ok1 := sig(a(0))
		x, ok2 := sig(a(1))
		if ok1 && ok2 {
			ids := "-"
			if len(o.A) > 3 {
				var xs []string
				for _, g := range o.A[3:] {
					xs = append(xs, fmt.Sprint(g))
				}
				ids = strings.Join(xs, ",")
			}
			return one("muxinsert %d %d %d %s", u, x, o.A[2], ids)
		}
	case "MuxRemoveSignal":
		u, ok1 := sig(a(0))
		x, ok2 := sig(a(1))
		if ok1 && ok2 && class == "ok" {
			return one("muxremove %d %d", u, x)
		}
	case "MuxClearGroup":
		if u, ok := sig(a(0)); ok && class == "ok" {
			return one("muxcleargroup %d %d", u, o.A[1])
		}
	case "MuxClearAll":
		if u, ok := sig(a(0)); ok {
			return one("muxclearall %d", u)
		}
	case "MsgShiftLeft", "MsgShiftRight", "MuxShiftLeft", "MuxShiftRight":
		// the entity-id argument may denote anything: an id the layout does not hold matches nothing
		x, okx := sig(a(1))
		if !okx {
			x = 4000
		}
		word := map[string]string{"MsgShiftLeft": "shl", "MsgShiftRight": "shr", "MuxShiftLeft": "muxshl", "MuxShiftRight": "muxshr"}[o.Name]
		var recv int
		var ok bool
		if strings.HasPrefix(o.Name, "Msg") {
			recv, ok = c.msg[a(0)]
		} else {
			recv, ok = sig(a(0))
		}
		if ok {
			return []string{fmt.Sprintf("%s %d %d %d => shift:%d", word, recv, x, o.A[2], p.shiftResult)}
		}
	case "MsgUpdateSize":
		// the C01 model takes the limit of the bus as an input: 8 for CAN 2.0A, nothing for another type
		if m, ok := c.msg[a(0)]; ok && (class == "ok" || class == "toosmall" || class == "toobig") {
			word := fmt.Sprintf("resize %d %d", m, o.A[1])
			if msg := p.msg(o.A[0]); msg != nil && msg.SenderNodeInterface() != nil && msg.SenderNodeInterface().ParentBus() != nil {
				lim := 8
				if msg.SenderNodeInterface().ParentBus().Type() != acme.BusTypeCAN2A {
					lim = -1
				}
				word = fmt.Sprintf("resizebus %d %d %d", m, o.A[1], lim)
			}
			cls := class
			if cls != "ok" {
				cls = "layout" // any refusal of the C01 model
			}
			return []string{word + " => " + cls}
		}
	case "MsgCompact":
		if m, ok := c.msg[a(0)]; ok {
			return one("compact %d", m)
		}
	case "EnumSetMinSize":
		if e, ok := c.enum[a(0)]; ok {
			return one("setminsize %d %d", e, o.A[1])
		}
	}
	return nil
}

var _ = acme.SignalKindStandard
